(** C01 — Generated code compiles: the part of the statement that is about names.
    Models in Model/Names.v, proofs in Proofs/NamesProofs.v. The rest of the statement (every template, every
    configuration) is decided on the implementation by the gate of the harness; see DESIGN.md. *)
From Coq Require Import List NArith Bool.
From V Require Import Model.Names Proofs.NamesProofs.
Import ListNotations.

(** Both normalisers emit letters and decimal digits only, for names of ANY spelling ... *)
Theorem C01_camel_chars : forall s, wf s -> forallb alnum_out (camel s) = true.
Proof. exact camel_chars. Qed.
Print Assumptions C01_camel_chars.

Theorem C01_camel_digits_chars : forall s cap, wf s -> forallb alnum_out (camel_digits_loop cap s) = true.
Proof. exact camel_digits_chars. Qed.
Print Assumptions C01_camel_digits_chars.

(** ... so does the prefix, hence the whole type name ... *)
Theorem C01_type_name_chars : forall norm s,
  forallb alnum_out (norm s) = true -> forallb alnum_out (type_name norm s) = true.
Proof. exact type_name_chars. Qed.
Print Assumptions C01_type_name_chars.

(** ... and every name that starts with a cased letter or a decimal digit (leading digits included: they get
    the prefix N) becomes something of the shape of a Go identifier. *)
Theorem C01_type_name_shape : forall r t,
  wf (r :: t) -> (cl r = Upper \/ cl r = Lower \/ cl r = Digit) -> ident_shape (type_name camel (r :: t)) = true.
Proof. exact type_name_shape. Qed.
Print Assumptions C01_type_name_shape.

(** The guard of the property ("normalise to non-empty identifiers") is needed: two spellings that do not. *)
Theorem C01_separator_then_digit_refuted :
  let s := [ {| code := 95; cl := Other; up := (95%N, Other) |}; {| code := 49; cl := Digit; up := (49%N, Digit) |} ] in
  wf s /\ ident_shape (type_name camel s) = false.
Proof. exact separator_then_digit_refuted. Qed.
Print Assumptions C01_separator_then_digit_refuted.

Theorem C01_caseless_name_refuted :
  let s := [ {| code := 29483; cl := OLetter; up := (29483%N, OLetter) |} ] in
  wf s /\ type_name camel s = [].
Proof. exact caseless_name_refuted. Qed.
Print Assumptions C01_caseless_name_refuted.

(** SanitizeGoIdentity: never a keyword or a predeclared identifier, never panics, and a valid identifier for
    every non-empty text without number runes outside the decimal digits. *)
Theorem C01_sanitize_not_reserved : forall s, is_keyword (sanitize s) = false /\ is_predeclared (sanitize s) = false.
Proof. exact sanitize_not_reserved. Qed.
Print Assumptions C01_sanitize_not_reserved.

Theorem C01_sanitize_never_panics : forall s, sanitize_panics s = false.
Proof. exact sanitize_never_panics. Qed.
Print Assumptions C01_sanitize_never_panics.

Theorem C01_sanitize_valid : forall s, s <> [] -> no_other_number s = true -> valid_ident (sanitize s) = true.
Proof. exact sanitize_valid. Qed.
Print Assumptions C01_sanitize_valid.

(** Both hypotheses are needed (unicode.IsNumber is wider than Go's digits; the empty text stays empty). *)
Theorem C01_other_number_refuted : valid_ident (sanitize [(97%N, Lower); (178%N, ONumber)]) = false.
Proof. exact other_number_refuted. Qed.
Print Assumptions C01_other_number_refuted.

Theorem C01_empty_refuted : sanitize [] = [] /\ valid_ident (sanitize []) = false.
Proof. exact empty_refuted. Qed.
Print Assumptions C01_empty_refuted.

(** GenerateTypes: on success the emitted types have pairwise different names and are exactly the given ones;
    it fails exactly when two different definitions share a name. *)
Theorem C01_dedup_sound : forall l out,
  dedup l = Some out -> NoDup (map fst out) /\ (forall p, In p out <-> In p l).
Proof. exact dedup_sound. Qed.
Print Assumptions C01_dedup_sound.

Theorem C01_dedup_error_only_on_conflict : forall l,
  dedup l = None -> exists n d d', d <> d' /\ In (n, d) l /\ In (n, d') l.
Proof. exact dedup_error_only_on_conflict. Qed.
Print Assumptions C01_dedup_error_only_on_conflict.

Theorem C01_dedup_conflict_fails : forall l n d d',
  In (n, d) l -> In (n, d') l -> d <> d' -> dedup l = None.
Proof. exact dedup_conflict_fails. Qed.
Print Assumptions C01_dedup_conflict_fails.

(** Non-vacuity: a name with every kind of rune meets the hypotheses. *)
Example C01_example :
  let s := [ {| code := 102; cl := Lower; up := (70%N, Upper) |}; {| code := 45; cl := Other; up := (45%N, Other) |};
             {| code := 49; cl := Digit; up := (49%N, Digit) |}; {| code := 98; cl := Lower; up := (66%N, Upper) |} ] in
  wf s /\ map fst (type_name camel s) = [70; 49; 98]%N /\ dedup [(1, 1); (2, 1); (1, 1)]%nat = Some [(1, 1); (2, 1)]%nat.
Proof. repeat split; repeat constructor. Qed.
