(** C03 — Every operation is routed to its own handler with its own path variables.
    Proofs in Proofs/RouteProofs.v. The routers themselves are third-party code: [dispatch] is
    the behaviour the statement requires of them, validated against all seven on every run
    (partial: see DESIGN.md). *)
From Coq Require Import List String Bool Arith Permutation.
From V Require Import Model.Route Proofs.RouteProofs.
Import ListNotations.
Local Open Scope string_scope.

(** Path order, not declaration order, decides the handler signature; only declared parameters
    appear; the result is the same for every permutation of the declarations. *)
Theorem C03_signature_follows_path : forall (P : Type) (name_of : P -> string) t declared l,
  sort_params_by_path name_of t declared = Some l -> map name_of l = vars t /\ incl l declared.
Proof. intros P. exact (@sort_params_path_order P). Qed.
Print Assumptions C03_signature_follows_path.

Theorem C03_declaration_order_irrelevant : forall (P : Type) (name_of : P -> string) t declared declared',
  Permutation declared declared' -> NoDup (map name_of declared) ->
  sort_params_by_path name_of t declared = sort_params_by_path name_of t declared'.
Proof. intros P. exact (@sort_params_perm P). Qed.
Print Assumptions C03_declaration_order_irrelevant.

Theorem C03_sort_succeeds_when_declared : forall (P : Type) (name_of : P -> string) t declared,
  List.length (vars t) = List.length declared ->
  (forall v, In v (vars t) -> exists p, In p declared /\ name_of p = v) ->
  exists l, sort_params_by_path name_of t declared = Some l.
Proof. intros P. exact (@sort_params_succeeds P). Qed.
Print Assumptions C03_sort_succeeds_when_declared.

(** Each variable's value arrives under that variable's name: for any values, matching the
    instantiated path binds the i-th variable to the i-th value, by name. *)
Theorem C03_args_follow_names : forall t vals i v x,
  NoDup (vars t) -> List.length vals = List.length (vars t) -> Forall (fun y => y <> "") vals ->
  nth_error (vars t) i = Some v -> nth_error vals i = Some x ->
  exists b, match_template t (instantiate t vals) = Some b /\ lookup b v = Some x /\ map snd b = vals.
Proof. exact args_follow_names. Qed.
Print Assumptions C03_args_follow_names.

(** A request is dispatched only to an operation whose method and template it matches ... *)
Theorem C03_only_matching : forall base rs m path op args,
  dispatch base rs m path = Some (op, args) ->
  exists r p, In r rs /\ r_op r = op /\ r_method r = m /\ strip_prefix base path = Some p /\
              match_template (r_tmpl r) p = Some (combine (vars (r_tmpl r)) args).
Proof. exact dispatch_only_matching. Qed.
Print Assumptions C03_only_matching.

(** A path variable stands for a non-empty segment: a request with an empty segment where the template has a
    variable (/pets//toys/ball against /pets/{id}/toys/{toy}) matches nothing, whatever else it holds. *)
Theorem C03_empty_variable_segment_matches_nothing : forall (pre : template) v (post : template) (ppre ppost : list string),
  List.length ppre = List.length pre ->
  match_template (pre ++ SVar v :: post)%list (ppre ++ "" :: ppost)%list = None.
Proof. exact empty_variable_segment_matches_nothing. Qed.
Print Assumptions C03_empty_variable_segment_matches_nothing.

(** ... a request matching no operation reaches no handler ... *)
Theorem C03_no_match_no_handler : forall base rs m path,
  (forall r p, In r rs -> strip_prefix base path = Some p -> matches m p r = false) ->
  dispatch base rs m path = None.
Proof. exact no_match_no_handler. Qed.
Print Assumptions C03_no_match_no_handler.

(** ... the only matching operation is the one that runs, with the path values in path order ... *)
Theorem C03_dispatch_exact : forall rs m r vals,
  In r rs -> r_method r = m -> List.length vals = List.length (vars (r_tmpl r)) -> Forall (fun y => y <> "") vals ->
  (forall r', In r' rs -> r' <> r -> matches m (instantiate (r_tmpl r) vals) r' = false) ->
  (forall r', In r' rs -> r' = r \/ r' <> r) -> NoDup rs ->
  dispatch [] rs m (instantiate (r_tmpl r) vals) = Some (r_op r, vals).
Proof. exact dispatch_exact. Qed.
Print Assumptions C03_dispatch_exact.

(** ... a concrete path wins over a templated sibling that also matches, whatever the
    registration order ... *)
Theorem C03_literal_beats_variable : forall m a b,
  r_method a = m -> r_method b = m -> more_specific (r_tmpl a) (r_tmpl b) = true ->
  forall p, matches m p a = true -> matches m p b = true ->
  option_map r_op (best (filter (matches m p) [b; a])) = Some (r_op a) /\
  option_map r_op (best (filter (matches m p) [a; b])) = Some (r_op a).
Proof. exact literal_beats_variable. Qed.
Print Assumptions C03_literal_beats_variable.

(** ... and a configured base URL is honoured. *)
Theorem C03_base_url : forall base rs m p, dispatch base rs m (base ++ p) = dispatch [] rs m p.
Proof. exact base_url_prefix. Qed.
Print Assumptions C03_base_url.

Example C03_example :
  let rs := [ {| r_method := "GET"; r_tmpl := [SLit "p"; SVar "id"; SLit "x"]; r_op := "Templated" |};
              {| r_method := "GET"; r_tmpl := [SLit "p"; SLit "me"; SLit "x"]; r_op := "Literal" |} ] in
  dispatch ["api"] rs "GET" ["api"; "p"; "me"; "x"] = Some ("Literal", [])
  /\ dispatch ["api"] rs "GET" ["api"; "p"; "7"; "x"] = Some ("Templated", ["7"])
  /\ dispatch ["api"] rs "GET" ["p"; "7"; "x"] = None
  /\ dispatch ["api"] rs "PUT" ["api"; "p"; "7"; "x"] = None.
Proof. vm_compute. repeat split. Qed.

(** The router knows a variable under the name the path template gives it and under no other: a wrapper that asks under
    another spelling (the name of the Go variable made of it: user_id / userId) finds nothing, whatever the request. *)
Theorem C03_asked_under_another_name_nothing_found : forall t path b w,
  match_template t path = Some b -> ~ In w (vars t) -> lookup b w = None.
Proof. exact asked_under_another_name_nothing_found. Qed.
Print Assumptions C03_asked_under_another_name_nothing_found.

Example C03_go_variable_name_is_not_the_template_name :
  exists b, match_template [SLit "a"; SVar "user_id"] ["a"; "7"] = Some b
            /\ lookup b "user_id" = Some "7" /\ lookup b "userId" = None.
Proof. eexists. vm_compute. repeat split; reflexivity. Qed.
