(** C12 — Strict server delivers decoded requests and writes the declared responses.
    Proofs in Proofs/StrictProofs.v. *)
From Coq Require Import List String Bool Arith.
From V Require Import Model.Strict Proofs.StrictProofs.
Import ListNotations.
Local Open Scope string_scope.

(** What is written for a response object: the declared status code, or the supplied one for
    ranges and default; the declared Content-Type, or the supplied one for wildcard types;
    exactly the declared headers, from the object; the body iff content is declared. *)
Theorem C12_status : forall r v,
  w_status (visit r v) = match r_fixed_status r with Some n => n | None => s_status v end.
Proof. exact visit_status. Qed.
Print Assumptions C12_status.

Theorem C12_content_type : forall r v c,
  r_content r = Some c -> w_ctype (visit r v) = Some (if c_fixed_type c then c_type c else s_ctype v).
Proof. exact visit_ctype. Qed.
Print Assumptions C12_content_type.

Theorem C12_headers : forall r v, map fst (w_headers (visit r v)) = r_headers r.
Proof. exact visit_headers. Qed.
Print Assumptions C12_headers.

Theorem C12_body : forall r v, w_body (visit r v) = if is_some (r_content r) then Some (s_body v) else None.
Proof. exact visit_body. Qed.
Print Assumptions C12_body.

(** The response type emitted for a cell has a field for everything its writer reads from the
    handler's object (the five-way template condition is consistent with the writer) — except
    for the two shapes refuted below, both confirmed on the real code (they do not compile). *)
Theorem C12_shape_consistent : forall r,
  shape_of r <> ShText ->
  (r_fixed_status r = None -> can_supply_status (shape_of r) = true) /\
  (forall c, r_content r = Some c -> c_fixed_type c = false -> supported (c_tag c) = false ->
             (r_is_ref r = false \/ r_fixed_status r = None) -> can_supply_ctype (shape_of r) = true) /\
  (r_headers r <> [] -> can_supply_headers (shape_of r) = true).
Proof. exact shape_supplies_what_visit_reads. Qed.
Print Assumptions C12_shape_consistent.

Theorem C12_text_shape_refuted :
  exists r, shape_of r = ShText /\ r_fixed_status r = None /\ can_supply_status (shape_of r) = false.
Proof. exact text_shape_refuted. Qed.
Print Assumptions C12_text_shape_refuted.

Theorem C12_tagged_wildcard_refuted :
  exists r c, r_content r = Some c /\ c_fixed_type c = false /\ shape_of r = ShAlias /\
              can_supply_ctype (shape_of r) = false.
Proof. exact tagged_wildcard_refuted. Qed.
Print Assumptions C12_tagged_wildcard_refuted.

(** Requests: with one declared body it is always decoded; with several, the one whose media
    type equals the request's Content-Type is, and only declared media types that are a prefix
    of the Content-Type are. *)
Theorem C12_single_body : forall b ct, bodies_decoded [b] ct = [b].
Proof. exact single_body_always_decoded. Qed.
Print Assumptions C12_single_body.

Theorem C12_declared_body_decoded : forall declared b, In b declared -> In b (bodies_decoded declared b).
Proof. exact declared_body_decoded. Qed.
Print Assumptions C12_declared_body_decoded.

Theorem C12_only_prefix_bodies : forall declared ct b,
  2 <= List.length declared -> In b (bodies_decoded declared ct) -> is_prefix b ct = true.
Proof. exact only_prefix_bodies_decoded. Qed.
Print Assumptions C12_only_prefix_bodies.

Example C12_example :
  let r := {| r_fixed_status := None; r_headers := ["X-A"; "X-N"]; r_is_ref := false;
              r_content := Some {| c_tag := TOther; c_type := "image/*"; c_fixed_type := false |} |} in
  shape_of r = ShStruct true true true true /\
  visit r {| s_status := 418; s_ctype := "image/png"; s_headers := [("X-N", "5"); ("X-A", "v")]; s_body := "b" |}
  = {| w_status := 418; w_ctype := Some "image/png"; w_headers := [("X-A", "v"); ("X-N", "5")]; w_body := Some "b" |}.
Proof. vm_compute. split; reflexivity. Qed.

(** The ResponseWriter contract (Model/Writer.v): headers reach the client only if they are set before the status is
    written.  Every sequence that sets its headers first delivers all of them; a header set after the commit stays in
    the live map and is lost on the wire (the sequence "status first" is refuted, and shows why an observer must read
    the wire snapshot, not the live map).  Proofs/VisitOrderOk.v checks the criterion on the token sequences scanned
    from strict-interface.tmpl on every run. *)
From V Require Import Model.Writer Proofs.WriterProofs.

Theorem C12_headers_set_first_reach_the_wire : forall ops,
  sets_first ops = true -> ws_wire (wrun ops) <> None -> wire_headers (wrun ops) = ws_live (wrun ops).
Proof. exact headers_set_first_reach_the_wire. Qed.
Print Assumptions C12_headers_set_first_reach_the_wire.

Theorem C12_template_order_delivers : forall ct hs n body,
  let ops := (WSet "Content-Type" ct :: map (fun p => WSet (fst p) (snd p)) hs ++ [WStatus n; WBody body])%list in
  wire_status (wrun ops) = Some n /\ wire_headers (wrun ops) = ws_live (wrun ops).
Proof. exact template_order_delivers. Qed.
Print Assumptions C12_template_order_delivers.

Theorem C12_late_header_is_lost : forall s k v,
  ws_wire s <> None ->
  wire_headers (wstep s (WSet k v)) = wire_headers s /\ In (k, v) (ws_live (wstep s (WSet k v))).
Proof. exact late_header_is_lost. Qed.
Print Assumptions C12_late_header_is_lost.

Theorem C12_status_first_refuted :
  let e := wrun [WStatus 201; WSet "Location" "/things/7"] in
  wire_status e = Some 201 /\ wire_headers e = [] /\ ws_live e = [("Location", "/things/7")] /\
  sets_first [WStatus 201; WSet "Location" "/things/7"] = false.
Proof. exact status_first_refuted. Qed.
Print Assumptions C12_status_first_refuted.

(** "a handler error or foreign response type goes to the error path": the tail of every strict wrapper sends exactly the
    handler's error and a value that is no response object of the operation to the error path, and visits exactly the
    valid response objects; a wrapper that lets the foreign value fall through is refuted.  (cases_C12_tail ties
    [deliver] to the seven compiled strict wrappers: handler error, valid response, a strict middleware handing back a
    foreign value.) *)
Theorem C12_error_path_iff : forall res, deliver res = OErrorPath <-> (res = RError \/ res = RForeign).
Proof. exact error_path_iff. Qed.
Print Assumptions C12_error_path_iff.

Theorem C12_visited_iff : forall res, deliver res = OVisited <-> res = RValid.
Proof. exact visited_iff. Qed.
Print Assumptions C12_visited_iff.

Theorem C12_falling_through_refuted : deliver_falling_through RForeign <> OErrorPath.
Proof. exact falling_through_refuted. Qed.
Print Assumptions C12_falling_through_refuted.

(** The chain hands back a pair (value, error).  With an error the error path is taken and nothing else happens, even when
    the value is a valid response object of the operation; a response is written exactly when the value is valid and there
    is no error.  The wrapper text with the first else lost is refuted: it writes the response over the pending error. *)
Theorem C12_error_decides : forall v, deliver_pair v true = [OErrorPath].
Proof. exact error_decides. Qed.
Print Assumptions C12_error_decides.

Theorem C12_visited_iff_valid_and_no_error : forall v err,
  In OVisited (deliver_pair v err) <-> (v = VValid /\ err = false).
Proof. exact visited_iff_valid_and_no_error. Qed.
Print Assumptions C12_visited_iff_valid_and_no_error.

Theorem C12_lost_else_refuted :
  deliver_pair VValid true = [OErrorPath] /\ deliver_pair_no_else VValid true = [OErrorPath; OVisited].
Proof. exact lost_else_refuted. Qed.
Print Assumptions C12_lost_else_refuted.

(** The strict wrapper TEMPLATES themselves (coq/Gen/Wrappers.v: strict-http, strict-gin, strict-echo, strict-fiber,
    strict-iris translated to terms of Model/Tmpl.v on every run; [render] checked against text/template on every run).
    Whatever the operation, in the text a strict wrapper template renders the response object is written
    (Visit...Response) only inside an else-branch of the [if err != nil] that directly follows the call of the strict
    handler chain: never when the chain returned an error, never outside that chain of branches.  The tail with the first
    else lost is rejected. *)
From V Require Import Model.Tmpl Gen.Wrappers Proofs.TmplProofs Proofs.WrappersOk.
Theorem C12_every_strict_template_guards_its_visits : forall name t e,
  In (name, t) strict_wrappers -> visits_guarded (render t e) = true.
Proof. exact every_strict_wrapper_guards_its_visits. Qed.
Print Assumptions C12_every_strict_template_guards_its_visits.

Theorem C12_strict_criterion_sound : forall t, strict_segments_ok t = true -> forall e, visits_guarded (render t e) = true.
Proof. exact strict_segments_sound. Qed.
Print Assumptions C12_strict_criterion_sound.

Theorem C12_tail_without_else_refuted :
  visits_guarded tail_of_the_templates = true /\ visits_guarded tail_without_else = false.
Proof. exact tail_without_else_refuted. Qed.
Print Assumptions C12_tail_without_else_refuted.
