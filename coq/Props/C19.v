(** C19 — The embedded specification is the input specification.
    Proofs in Proofs/InlineProofs.v, Proofs/FilterProofs.v, Proofs/PruneProofs.v.
    JSON marshalling, gzip and base64 are library code: they enter as an encoder with a left
    inverse (section hypothesis [decode_encode], visible in the statement below). *)
From Coq Require Import List String.
From V Require Import Model.Prune Model.Filter Model.Inline
     Proofs.PruneProofs Proofs.FilterProofs Proofs.InlineProofs.
Import ListNotations.

(** The chunking loop terminates, and joining the lines gives back the text: nothing is lost,
    duplicated or reordered, whatever the length (multiple of 80 or not, empty included). *)
Theorem C19_chunk_total : forall (A : Type) (s : list A), exists cs, chunk 80 s = Some cs.
Proof. intros A s. apply chunk_total. repeat constructor. Qed.
Print Assumptions C19_chunk_total.

Theorem C19_chunk_concat : forall (A : Type) (w : nat) (s : list A) cs,
  chunk w s = Some cs -> concat cs = s.
Proof. intros A. exact chunk_concat. Qed.
Print Assumptions C19_chunk_concat.

Theorem C19_chunk_widths : forall (A : Type) (s : list A) cs,
  chunk 80 s = Some cs -> Forall (fun c => 0 < length c /\ length c <= 80) cs.
Proof. intros A s cs. apply chunk_widths. repeat constructor. Qed.
Print Assumptions C19_chunk_widths.

Theorem C19_chunk_full : forall (A : Type) (s : list A) cs,
  chunk 80 s = Some cs -> forall c, In c (removelast cs) -> length c = 80.
Proof. intros A s cs. apply chunk_full. Qed.
Print Assumptions C19_chunk_full.

(** What is embedded is the document after the requested filtering and pruning: for every
    encoder [encode] with left inverse [decode], decoding the joined lines of the embedding of
    [prepare cfg d] gives back exactly [prepare cfg d]... *)
Theorem C19_embedded_is_prepared_input :
  forall (A : Type) (encode : doc -> list A) (decode : list A -> option doc),
    (forall d, decode (encode d) = Some d) ->
    forall cfg d d' cs,
      prepare cfg d = Some d' -> chunk 80 (encode d') = Some cs ->
      decode (concat cs) = Some d'.
Proof.
  intros A encode decode Hde cfg d d' cs _ Hc.
  apply (embedded_decodes encode decode Hde d' cs Hc).
Qed.
Print Assumptions C19_embedded_is_prepared_input.

(** ...whose paths are the filtered paths and whose components are closed under reference and
    contain nothing unreferenced (C15, C16): same paths, methods and references as the input. *)
Theorem C19_embedded_paths : forall cfg d d',
  prepare cfg d = Some d' -> d_paths d' = spec_filter_paths cfg (d_paths d).
Proof. exact prepare_paths. Qed.
Print Assumptions C19_embedded_paths.

Theorem C19_embedded_no_dangling : forall (L : string -> Prop) cfg d d',
  f_skip_prune cfg = false -> prepare cfg d = Some d' ->
  closed L (filter_doc cfg d) -> closed L d'.
Proof.
  intros L cfg d d' Hs H Hc. unfold prepare in H. rewrite Hs in H.
  apply (prune_no_dangling L _ _ H Hc).
Qed.
Print Assumptions C19_embedded_no_dangling.

(** Embedding an already prepared document again changes nothing (with the same options). *)
Theorem C19_embedded_stable : forall d d',
  prune d = Some d' -> prune d' = Some d'.
Proof. exact prune_idempotent. Qed.
Print Assumptions C19_embedded_stable.

Example C19_example_chunk :
  option_map (map (@length nat)) (chunk 80 (repeat 0 161)) = Some [80; 80; 1]
  /\ option_map (map (@length nat)) (chunk 80 (repeat 0 160)) = Some [80; 80]
  /\ chunk 80 (@nil nat) = Some [].
Proof. vm_compute. repeat split. Qed.

(** base64 is no longer a hypothesis: Model/Base64.v is encoding/base64's StdEncoding (compared with it on every run: random
    byte strings of every length modulo 3, and the literal of every generated file), and reading back what it wrote gives
    the bytes, for EVERY byte string; so do the 80-column lines of the generated swaggerSpec literal.  The text consists
    of the 64 characters of the alphabet and '=' (nothing a Go string literal would have to escape), four characters for
    every three bytes.  What remains a hypothesis is the compressor (gzip: any [gz] with a left inverse). *)
From Coq Require Import NArith.
From V Require Import Model.Base64 Proofs.Base64Proofs.
Theorem C19_base64_round_trip : forall bs, forallb is_byte bs = true -> Base64.decode (Base64.encode bs) = Some bs.
Proof. exact decode_encode. Qed.
Print Assumptions C19_base64_round_trip.

Theorem C19_base64_lines_decode : forall bs cs,
  forallb is_byte bs = true -> chunk 80 (Base64.encode bs) = Some cs -> Base64.decode (concat cs) = Some bs.
Proof. intros bs cs Hb Hc. rewrite (chunk_concat _ _ _ Hc). apply decode_encode. exact Hb. Qed.
Print Assumptions C19_base64_lines_decode.

Theorem C19_base64_alphabet : forall bs, forallb is_byte bs = true -> forallb in_alphabet (Base64.encode bs) = true.
Proof. exact encode_alphabet. Qed.
Print Assumptions C19_base64_alphabet.

Theorem C19_base64_length : forall bs, List.length (Base64.encode bs) = 4 * ((List.length bs + 2) / 3).
Proof. exact encode_length. Qed.
Print Assumptions C19_base64_length.

(** the whole embedding with the compressor as the only hypothesis: compress, base64, cut into lines; join, base64-decode,
    decompress *)
Theorem C19_embedding_with_base64 : forall (gz : doc -> list N) (gunzip : list N -> option doc),
  (forall d, gunzip (gz d) = Some d) -> (forall d, forallb is_byte (gz d) = true) ->
  forall cfg d d' cs, prepare cfg d = Some d' -> chunk 80 (Base64.encode (gz d')) = Some cs ->
  match Base64.decode (concat cs) with Some bytes => gunzip bytes | None => None end = Some d'.
Proof.
  intros gz gunzip Hinv Hbytes cfg d d' cs _ Hc.
  rewrite (chunk_concat _ _ _ Hc). rewrite decode_encode by apply Hbytes. apply Hinv.
Qed.
Print Assumptions C19_embedding_with_base64.

Example C19_base64_examples :
  Base64.encode [77; 97; 110]%N = [84; 87; 70; 117]%N          (* "Man" -> "TWFu" *)
  /\ Base64.encode [77; 97]%N = [84; 87; 69; 61]%N              (* "Ma" -> "TWE=" *)
  /\ Base64.encode [77]%N = [84; 81; 61; 61]%N                  (* "M" -> "TQ==" *)
  /\ Base64.decode [84; 81; 61; 61]%N = Some [77]%N.
Proof. vm_compute. repeat split; reflexivity. Qed.
