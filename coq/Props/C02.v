(** C02 — Generation is deterministic.
    Proofs in Proofs/DetProofs.v; the inventory of map ranges of pkg/codegen is regenerated
    into Gen/Sites.v on every run and checked against the proved loop shapes in
    Proofs/SitesOk.v.  Go's randomised map iteration and the textual order of keys in the
    document are both modelled as quantification over all permutations of the association
    list. *)
From Coq Require Import List String Bool Permutation.
From V Require Import Model.Det Proofs.DetProofs Gen.Sites Proofs.SitesOk.
Import ListNotations.
Local Open Scope string_scope.

(** Sorted-keys walks (SortedMapKeys, SortedSchemaKeys and every append-then-sort loop) see
    the same key sequence whatever the iteration order, and lose or invent no key. *)
Theorem C02_sorted_keys : forall (V : Type) (m m' : list (string * V)),
  Permutation m m' -> sorted_map_keys m = sorted_map_keys m'.
Proof. intros V. exact sorted_map_keys_perm. Qed.
Print Assumptions C02_sorted_keys.

Theorem C02_sort_is_permutation : forall l, Permutation l (sort_strings l).
Proof. exact sort_strings_is_perm. Qed.
Print Assumptions C02_sort_is_permutation.

(** Loops that build a map or set keyed by the entry's key. *)
Theorem C02_builds_map : forall (V W : Type) (f : string -> V -> W) (l l' : list (string * V)),
  Permutation l l' -> NoDup (map fst l) -> forall m k, build_map f l m k = build_map f l' m k.
Proof. intros V W. exact build_map_perm. Qed.
Print Assumptions C02_builds_map.

(** Loops that count entries or ask whether some entry satisfies a predicate. *)
Theorem C02_count : forall (V : Type) p (l l' : list (string * V)),
  Permutation l l' -> count_if p l = count_if p l'.
Proof. intros V. exact count_if_perm. Qed.
Print Assumptions C02_count.

Theorem C02_any : forall (V : Type) p (l l' : list (string * V)),
  Permutation l l' -> any_if p l = any_if p l'.
Proof. intros V. exact any_if_perm. Qed.
Print Assumptions C02_any.

(** The prune walkers collect reference strings into a list that is only asked for membership. *)
Theorem C02_collect_for_membership : forall (A B : Type) (eqb : B -> B -> bool) (f : A -> list B) x l l',
  Permutation l l' -> existsb (eqb x) (flat_map f l) = existsb (eqb x) (flat_map f l').
Proof.
  intros A B eqb f x l l' H. apply membership_perm. apply flat_map_perm. exact H.
Qed.
Print Assumptions C02_collect_for_membership.

(** Loops that delete entries of the map they iterate, by a predicate on the entry. *)
Theorem C02_filter_self : forall (A : Type) (p : A -> bool) l l',
  Permutation l l' -> Permutation (filter p l) (filter p l').
Proof. intros A. exact filter_perm. Qed.
Print Assumptions C02_filter_self.

(** A generator that observes a map only through an order-insensitive loop is deterministic. *)
Theorem C02_compose : forall (K V R O out : Type) (loop : list (K * V) -> R) (obs : R -> O) (rest : O -> out),
  (forall l l', Permutation l l' -> obs (loop l) = obs (loop l')) ->
  forall l l', Permutation l l' -> rest (obs (loop l)) = rest (obs (loop l')).
Proof. exact compose_insensitive. Qed.
Print Assumptions C02_compose.

(** Tie to /repo: every map range found in pkg/codegen today is one of the proved shapes
    (its loop body still has only the features that shape tolerates), or one of the listed
    guarded sites. *)
Theorem C02_every_site_known : forallb site_ok sites = true.
Proof. exact sites_ok. Qed.
Print Assumptions C02_every_site_known.

Theorem C02_guarded_sites_are_the_listed_ones :
  guarded_sites sites =
  [ ("Generate", "opts.OutputOptions.UserTemplates");
    ("GenerateTypesForRequestBodies", "response.Content");
    ("*EnumDefinition.GetValues", "e.Schema.EnumValues");
    ("GenerateGoSchema", "sanitizedValues");
    ("ParseGoImportExtension", "importI") ].
Proof. exact guarded_sites_listed. Qed.
Print Assumptions C02_guarded_sites_are_the_listed_ones.

(** Non-vacuity. *)
Example C02_example_sort :
  sorted_map_keys [("b", 1); ("a", 2); ("c", 3)] = ["a"; "b"; "c"]
  /\ sorted_map_keys [("c", 3); ("a", 2); ("b", 1)] = ["a"; "b"; "c"].
Proof. vm_compute. split; reflexivity. Qed.

(** "... and does not depend on the time of the run": the generator reads nothing but its arguments and the build
    information (Proofs/AmbientOk.v proves it of the call sites regenerated from the source on every run); for such a
    generator two runs of one binary observe the same ambient values, so the output is the same function value. *)
Theorem C02_output_independent_of_the_run : forall (D C O : Type) (gen : D -> C -> list nat -> O) (reads : list ambient) d c e1 e2,
  forallb stable reads = true -> same_binary e1 e2 -> gen d c (observe reads e1) = gen d c (observe reads e2).
Proof. intros D C O. exact (@output_independent_of_the_run D C O). Qed.
Print Assumptions C02_output_independent_of_the_run.

Theorem C02_clock_read_refuted :
  exists e1 e2, same_binary e1 e2 /\ observe [BuildInfo; Clock] e1 <> observe [BuildInfo; Clock] e2.
Proof. exact clock_read_refuted. Qed.
Print Assumptions C02_clock_read_refuted.

(** "Generating twice from the same document": a caller that holds ONE loaded document value and generates from it again.
    If what a generation leaves of its input gives the same output as the input did, every later generation from that
    value repeats the first output. *)
Theorem C02_one_loaded_document : forall (doc out : Type) (gen : doc -> out * doc),
  input_stable gen -> forall n d, outputs gen n d = repeat (out_of gen d) n.
Proof. exact stable_outputs_constant. Qed.
Print Assumptions C02_one_loaded_document.

(** The generator's own handling of the caller's document (cases_C02_onedoc ties [lgen] to Generate: which components of
    other documents each of three generations declares locally): without embedded-spec the input is left as found; a
    document that refers to no other document is unaffected either way; and in every case the second, third, ... outputs
    are one and the same. *)
Theorem C02_without_embedded_spec_input_stable : input_stable (lgen false).
Proof. exact lgen_not_embedded_stable. Qed.
Print Assumptions C02_without_embedded_spec_input_stable.

Theorem C02_no_external_reference_outputs_constant : forall e n d,
  ld_external d = [] -> outputs (lgen e) n d = repeat (ld_locals d) n.
Proof. exact lgen_outputs_no_external. Qed.
Print Assumptions C02_no_external_reference_outputs_constant.

Theorem C02_later_generations_agree : forall e n d,
  outputs (lgen e) n (left_of (lgen e) d) = repeat (out_of (lgen e) (left_of (lgen e) d)) n.
Proof. exact lgen_settles. Qed.
Print Assumptions C02_later_generations_agree.

(** The full statement is FALSE of the faithful model (recorded finding
    embedded_spec_internalises_references_in_the_callers_document; witness: the wide document of the harness). *)
Theorem C02_embedded_spec_changes_its_input_refuted : ~ input_stable (lgen true).
Proof. exact embedded_internalises_refuted. Qed.
Print Assumptions C02_embedded_spec_changes_its_input_refuted.

(** "(or the identical error)": the loops of the ErrorOnly shape (the import collectors: every map range whose only way out
    is returning the entry's error).  Whether such a loop fails does not depend on the iteration order; the error it
    returns is the error of some entry, so an error text that does not say WHICH entry failed is the same text in every
    order; an error that names the failing entry is refuted as soon as two entries fail (the harness feeds the generator
    documents that fail at several places at once and compares the error texts of repeated generations). *)
Theorem C02_error_only_failure_is_order_independent : forall (K V A E : Type) (f : K -> V -> res A E) merge l l' acc acc',
  Permutation l l' ->
  ((exists e, error_only f merge l acc = RErr e) <-> (exists e, error_only f merge l' acc' = RErr e)).
Proof. intros K V A E. exact (@error_only_failure_perm K V A E). Qed.
Print Assumptions C02_error_only_failure_is_order_independent.

Theorem C02_error_only_uniform_error : forall (K V A E : Type) (f : K -> V -> res A E) merge l l' acc acc' e0 e e',
  (forall k v x, f k v = RErr x -> x = e0) -> Permutation l l' ->
  error_only f merge l acc = RErr e -> error_only f merge l' acc' = RErr e' -> e = e'.
Proof. intros K V A E. exact (@error_only_uniform_error K V A E). Qed.
Print Assumptions C02_error_only_uniform_error.

Theorem C02_error_naming_the_entry_refuted :
  exists (f : nat -> unit -> res unit nat) l l', Permutation l l' /\
    error_only f (fun a _ => a) l tt <> error_only f (fun a _ => a) l' tt.
Proof. exact error_naming_the_entry_refuted. Qed.
Print Assumptions C02_error_naming_the_entry_refuted.
