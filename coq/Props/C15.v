(** C15 — Pruning keeps exactly the referenced components.
    Statements only; proofs are in Proofs/PruneProofs.v. *)
From Coq Require Import List String.
From V Require Import Model.Prune Proofs.PruneProofs.
Import ListNotations.
Local Open Scope string_scope.
Local Open Scope list_scope.

(** The loop of pruneUnusedComponents terminates (the fuel supplied is sufficient). *)
Theorem C15_terminates : forall d, exists d', prune d = Some d'.
Proof. exact prune_total. Qed.
Print Assumptions C15_terminates.

(** Every component an operation refers to, directly or through other components, is kept. *)
Theorem C15_sound : forall d d' c,
  prune d = Some d' -> In c (d_comps d) -> reach d (comp_ref c) -> In c (d_comps d').
Proof. exact prune_sound. Qed.
Print Assumptions C15_sound.

(** No dangling reference: if every local reference of the input names a component, so does
    every local reference of the output ([L] = "is a local component reference"). *)
Theorem C15_no_dangling : forall (L : string -> Prop) d d',
  prune d = Some d' -> closed L d -> closed L d'.
Proof. exact prune_no_dangling. Qed.
Print Assumptions C15_no_dangling.

(** Every component that nothing retained refers to is removed (security schemes, which are
    referred to by name and not by $ref, are exempt in the code and in the statement). *)
Theorem C15_minimal : forall d d' c,
  prune d = Some d' -> In c (d_comps d') -> prunable (c_kind c) = true ->
  In (comp_ref c) (find_component_refs d').
Proof. exact prune_minimal. Qed.
Print Assumptions C15_minimal.

(** "Exactly": the result is the greatest set of components in which every member is referred
    to by a path item or by a member — nothing else could have been kept, nothing more removed. *)
Theorem C15_greatest : forall d d' S,
  prune d = Some d' -> incl S (d_comps d) -> self_supporting d S -> incl S (d_comps d').
Proof. exact prune_greatest. Qed.
Print Assumptions C15_greatest.

Theorem C15_result_self_supporting : forall d d',
  prune d = Some d' -> self_supporting d (d_comps d').
Proof. exact prune_result_self_supporting. Qed.
Print Assumptions C15_result_self_supporting.

(** Pruning an already pruned document changes nothing. *)
Theorem C15_idempotent : forall d d', prune d = Some d' -> prune d' = Some d'.
Proof. exact prune_idempotent. Qed.
Print Assumptions C15_idempotent.

(** What must not change: paths are untouched, nothing is added, security schemes stay. *)
Theorem C15_paths_unchanged : forall d d', prune d = Some d' -> d_paths d' = d_paths d.
Proof. exact prune_paths_unchanged. Qed.
Print Assumptions C15_paths_unchanged.

Theorem C15_only_removes : forall d d', prune d = Some d' -> incl (d_comps d') (d_comps d).
Proof. exact prune_only_removes. Qed.
Print Assumptions C15_only_removes.

Theorem C15_keeps_security : forall d d' c,
  prune d = Some d' -> In c (d_comps d) -> c_kind c = KSecuritySchemes -> In c (d_comps d').
Proof. exact prune_keeps_security. Qed.
Print Assumptions C15_keeps_security.

(** Non-vacuity: a document where pruning needs two iterations (B is only referred to by the
    orphan A), keeps a chain reached through [not], and keeps an unreferenced cycle's absence. *)
Definition ex_doc : doc :=
  {| d_paths := [ {| p_path := "/p"; p_params := [];
                     p_ops := [ {| o_method := "get"; o_id := "op"; o_tags := [];
                                   o_body := [NVal [NRef "#/components/schemas/Used"]] |} ] |} ];
     d_comps := [ {| c_kind := KSchemas; c_name := "Used";
                     c_body := NVal [NVal [NRef "#/components/schemas/ViaNot"]] |};
                  {| c_kind := KSchemas; c_name := "ViaNot"; c_body := NVal [] |};
                  {| c_kind := KSchemas; c_name := "A";
                     c_body := NVal [NRef "#/components/schemas/B"] |};
                  {| c_kind := KSchemas; c_name := "B"; c_body := NVal [] |};
                  {| c_kind := KSecuritySchemes; c_name := "Sec"; c_body := NVal [] |} ] |}.

Example C15_example :
  option_map comp_keys (prune ex_doc) =
  Some ["#/components/schemas/Used"; "#/components/schemas/ViaNot";
        "#/components/securitySchemes/Sec"]%string.
Proof. vm_compute. reflexivity. Qed.

Example C15_example_reach : reach ex_doc "#/components/schemas/ViaNot".
Proof.
  eapply reach_step with (c := {| c_kind := KSchemas; c_name := "Used";
                                 c_body := NVal [NVal [NRef "#/components/schemas/ViaNot"]] |}).
  - apply reach_root. simpl. left. reflexivity.
  - simpl. left. reflexivity.
  - reflexivity.
  - simpl. left. reflexivity.
Qed.

(** "Every component that nothing retained refers to is removed" needs the loop to run until a round removes nothing:
    whatever number of rounds a loop is limited to, a chain of components each referred to by the previous one only
    defeats it - the limited loop leaves a component nothing refers to, the loop of the code removes them all. *)
Theorem C15_bounded_loop_refuted : forall b, exists d,
  (exists c, In c (d_comps (prune_bounded b d)) /\ prunable (c_kind c) = true /\
             ~ In (comp_ref c) (find_component_refs (prune_bounded b d)))
  /\ option_map comp_keys (prune d) = Some [].
Proof. exact prune_bounded_refuted. Qed.
Print Assumptions C15_bounded_loop_refuted.

Example C15_chain_of_13_and_10_rounds :
  comp_keys (prune_bounded 10 (chain_doc 0 13)) =
    ["#/components/schemas/Nxxxxxxxxxx"; "#/components/schemas/Nxxxxxxxxxxx"; "#/components/schemas/Nxxxxxxxxxxxx"]%string
  /\ option_map comp_keys (prune (chain_doc 0 13)) = Some [].
Proof. vm_compute. split; reflexivity. Qed.
