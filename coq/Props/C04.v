(** C04 — Parameters survive the generated client -> generated server round trip.
    Proofs in Proofs/OasProofs.v. The codec proved here is the OAS style table (Model/OasTable.v);
    the generated client and the seven generated servers (templates + the pinned runtime
    library) are tied to it on every run: the client's wire form is the table's serialisation
    (C05) and the value the handler receives is the table's parse of that wire form. Hence, on
    the values for which the table is unambiguous, what the caller supplied is what the handler
    receives. Concurrency (isolation of simultaneous requests) is exercised by the laboratory,
    not modelled (partial). *)
From Coq Require Import List String Ascii Bool.
From V Require Import Model.OasTable Proofs.OasProofs.
Import ListNotations.

(** simple (path, header, and the value syntax of cookies): primitive, array, object; both
    explode settings; every value without ',' or '=' in an atom, arrays/objects non-empty. *)
Theorem C04_simple_roundtrip : forall explode v,
  nonempty v -> clean [comma; "="%char] v ->
  parse_simple explode (shape_of v) (ser_simple explode v) = Some v.
Proof. exact simple_roundtrip. Qed.
Print Assumptions C04_simple_roundtrip.

(** label (path). *)
Theorem C04_label_roundtrip : forall explode v,
  nonempty v -> clean [label_sep explode; "="%char] v ->
  parse_label explode (shape_of v) (ser_label explode v) = Some v.
Proof. exact label_roundtrip. Qed.
Print Assumptions C04_label_roundtrip.

(** form (query), exploded or not: decoded pairs. *)
Theorem C04_form_roundtrip : forall explode name v,
  nonempty v -> clean [comma; "="%char] v ->
  parse_query Form explode name (shape_of v) (ser_query Form explode name v) = Some v.
Proof. exact form_roundtrip. Qed.
Print Assumptions C04_form_roundtrip.

(** The splitting lemma everything rests on: joining with a separator that occurs in no
    element and splitting again is the identity. *)
Theorem C04_split_join : forall c l,
  l <> [] -> (forall x, In x l -> contains c x = false) -> split_on c (join (sep1 c) l) = l.
Proof. exact split_join. Qed.
Print Assumptions C04_split_join.

(** matrix (both explode settings, all three shapes) and deepObject round-trip as well. *)
Theorem C04_matrix_roundtrip : forall explode name v,
  nonempty v -> clean [comma; semi; "="%char] v -> contains semi name = false ->
  parse_matrix explode name (shape_of v) (ser_matrix explode name v) = Some v.
Proof. exact matrix_roundtrip. Qed.
Print Assumptions C04_matrix_roundtrip.

Theorem C04_deep_object_roundtrip : forall explode name l,
  (forall p, In p l -> contains rbracket (fst p) = false) ->
  parse_query DeepObject explode name SObj (ser_query DeepObject explode name (VObj l)) = Some (VObj l).
Proof. exact deep_object_roundtrip. Qed.
Print Assumptions C04_deep_object_roundtrip.

Example C04_example :
  ser_label true (VArr ["3"; "4"; "5"]%string) = ".3.4.5"%string /\
  parse_label true SArr ".3.4.5" = Some (VArr ["3"; "4"; "5"]%string) /\
  ser_simple true (VObj [("role", "admin"); ("firstName", "Alex")]%string) = "role=admin,firstName=Alex"%string /\
  parse_matrix true "id" SArr ";id=3;id=4;id=5" = Some (VArr ["3"; "4"; "5"]%string) /\
  parse_matrix false "id" SObj ";id=role,admin,firstName,Alex" = Some (VObj [("role", "admin"); ("firstName", "Alex")]%string).
Proof. vm_compute. repeat split. Qed.

(** "Values containing characters that need URL escaping (space, '/', '?', '#', ':', non-ASCII) arrive unchanged": the
    client escapes a value as one path segment or one query component (net/url, modelled in Model/Escape.v and tied to
    url.PathEscape / QueryEscape / PathUnescape / QueryUnescape by cases_C04_escape / cases_C04_unescape), the server
    side unescapes with the matching decoder: the round trip is the identity for EVERY byte string, the escaped text
    holds no separator of its position, and decoding a path segment by the query rules is refuted (a plus sign
    arrives as a blank: the shape of three seeded changes). *)
From Coq Require Import NArith.
From V Require Import Model.Escape Proofs.EscapeProofs.
Local Open Scope N_scope.

Theorem C04_escape_roundtrip : forall m s, Forall (fun b => b < 256) s -> unescape m (escape m s) = Some s.
Proof. exact escape_roundtrip. Qed.
Print Assumptions C04_escape_roundtrip.

Theorem C04_escaped_segment_has_no_separator : forall s,
  Forall (fun b => b < 256) s -> Forall (fun c => c <> 47 /\ c <> 63 /\ c <> 35) (escape PathSegment s).
Proof. exact escaped_segment_has_no_separator. Qed.
Print Assumptions C04_escaped_segment_has_no_separator.

Theorem C04_escaped_component_has_no_delimiter : forall s,
  Forall (fun b => b < 256) s -> Forall (fun c => c <> 38 /\ c <> 61 /\ c <> 35) (escape QueryComponent s).
Proof. exact escaped_component_has_no_delimiter. Qed.
Print Assumptions C04_escaped_component_has_no_delimiter.

Theorem C04_path_segment_decoded_as_query_refuted :
  unescape QueryComponent (escape PathSegment [43]) = Some [32].
Proof. exact path_segment_decoded_as_query_refuted. Qed.
Print Assumptions C04_path_segment_decoded_as_query_refuted.

Example C04_escape_example :
  escape PathSegment [97; 32; 47; 43] = [97; 37; 50; 48; 37; 50; 70; 43]          (* "a /+" -> "a%20%2F+" *)
  /\ escape QueryComponent [97; 32; 47; 43] = [97; 43; 37; 50; 70; 37; 50; 66].     (* -> "a+%2F%2B" *)
Proof. split; reflexivity. Qed.
