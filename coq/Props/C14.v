(** C14 — Every middleware wraps every operation, in the documented order.
    Proofs in Proofs/ChainProofs.v. The statements quantify over any number of middlewares. *)
From Coq Require Import List Bool Arith.
From V Require Import Model.Chain Proofs.ChainProofs.
Import ListNotations.

(** When every middleware calls its successor, the trace of a request is: each per-operation
    middleware exactly once in the documented order (last configured first for chi, gorilla and
    std-http, reversed under the compatibility flag; configuration order for gin, fiber and iris),
    then each strict middleware exactly once, then the handler exactly once. *)
Theorem C14_each_once_in_order : forall fw ftl ms strict,
  (forall m, In m ms -> m = Pass) ->
  (forall sm, strict = Some sm -> forall m, In m sm -> m = Pass) ->
  request_trace fw ftl ms strict =
  map EMw (documented_order fw ftl (length ms)) ++
  match strict with
  | Some sm => map EStrict (rev (seq 0 (length sm))) ++ [EHandler]
  | None => [EHandler]
  end.
Proof. exact request_trace_all_pass. Qed.
Print Assumptions C14_each_once_in_order.

(** A middleware that does not call its successor prevents the user's handler from running; and
    the handler never runs more than once. For any mix of passing and stopping middlewares. *)
Theorem C14_short_circuit : forall fw ftl ms strict,
  fw <> Echo ->
  handler_count (request_trace fw ftl ms strict) =
  if none_stops (indexed ms) && match strict with Some sm => none_stops (indexed sm) | None => true end
  then 1 else 0.
Proof. exact handler_runs_iff_nothing_stops. Qed.
Print Assumptions C14_short_circuit.

(** Nothing after the stopping middleware runs at all (not only the handler): the trace ends
    with it. For the wrap loop (chi, gorilla, std-http, strict) ... *)
Theorem C14_wrap_stops_there : forall tag before i after k,
  all_pass after ->
  wrap_loop tag (before ++ (i, Stop) :: after) k = map (fun m => tag (fst m)) (rev after) ++ [tag i].
Proof. exact wrap_loop_stop. Qed.
Print Assumptions C14_wrap_stops_there.

(** ... and for the sequential loop (gin, fiber). *)
Theorem C14_seq_stops_there : forall tag before i after k,
  all_pass before ->
  seq_loop tag (before ++ (i, Stop) :: after) k = map (fun m => tag (fst m)) before ++ [tag i].
Proof. exact seq_loop_stop. Qed.
Print Assumptions C14_seq_stops_there.

Example C14_example :
  request_trace Chi false [Pass; Pass; Pass] (Some [Pass; Pass])
    = [EMw 2; EMw 1; EMw 0; EStrict 1; EStrict 0; EHandler]
  /\ request_trace Chi true [Pass; Stop; Pass] None = [EMw 0; EMw 1]
  /\ request_trace Gin false [Pass; Stop; Pass] None = [EMw 0; EMw 1].
Proof. vm_compute. repeat split. Qed.

(** The statement speaks of every request a server receives, not only of the first one after start-up: on a mounted
    server (the configured slice is the only state a request could change) the k-th request leaves the trace of the
    first, for every k; a wrapper that reversed its slice in place would alternate (refuted variant). *)
Theorem C14_every_request_like_the_first : forall fw ftl ms strict k,
  nth_request fw ftl ms strict k = request_trace fw ftl ms strict.
Proof. exact every_request_like_the_first. Qed.
Print Assumptions C14_every_request_like_the_first.

Theorem C14_history_is_constant : forall fw ftl ms strict n,
  serve_n (serve fw ftl strict) (indexed ms) n = repeat (request_trace fw ftl ms strict) n.
Proof. exact history_is_constant. Qed.
Print Assumptions C14_history_is_constant.

Theorem C14_reversing_in_place_refuted :
  serve_n (serve_reversing true None) (indexed [Pass; Pass]) 3 =
  [[EMw 0; EMw 1; EHandler]; [EMw 1; EMw 0; EHandler]; [EMw 0; EMw 1; EHandler]].
Proof. exact reversing_in_place_refuted. Qed.
Print Assumptions C14_reversing_in_place_refuted.

(** "A middleware that does not call its successor prevents the user's handler from running" - and ONLY such a middleware
    does: in gin, where not aborting is calling the successor, a middleware that has written to the response (flushed
    headers, a streaming prefix) and did not abort passes on.  The wrapper's loop tests IsAborted alone, so it is the
    sequential loop of the model after erasing the writes; a loop that also stops once something was written is refuted.
    (cases_C14_gin ties [gin_loop template_stop] to the compiled gin wrapper with a middleware that writes.) *)
Theorem C14_gin_loop_ignores_writes : forall ms w inner,
  gin_loop template_stop ms w inner = seq_loop EMw (map (fun m => (fst m, erase (snd m))) ms) inner.
Proof. exact gin_loop_is_seq_loop. Qed.
Print Assumptions C14_gin_loop_ignores_writes.

Theorem C14_gin_writers_reach_the_handler : forall ms w,
  (forall m, In m ms -> snd m <> GAbort) ->
  gin_loop template_stop ms w [EHandler] = map (fun m => EMw (fst m)) ms ++ [EHandler].
Proof. exact gin_writers_reach_the_handler. Qed.
Print Assumptions C14_gin_writers_reach_the_handler.

Theorem C14_stop_when_written_refuted :
  exists ms, (forall m, In m ms -> snd m <> GAbort)
             /\ gin_loop stop_when_written ms false [EHandler] <> map (fun m => EMw (fst m)) ms ++ [EHandler].
Proof. exact stop_when_written_refuted. Qed.
Print Assumptions C14_stop_when_written_refuted.

(** The first-to-last compatibility flags are about the per-operation (router) middlewares.  The strict chain has one
    documented order and no flag of its own: with passing per-operation middlewares every trace ends with the strict chain
    (last listed strict middleware outermost), whatever the flag says; without per-operation middlewares the flag changes
    nothing at all. *)
Theorem C14_strict_chain_is_the_suffix_under_either_flag : forall fw ftl ms sm,
  (forall m, In m ms -> m = Pass) ->
  exists pre, request_trace fw ftl ms (Some sm) = pre ++ strict_chain sm.
Proof. exact all_pass_strict_suffix. Qed.
Print Assumptions C14_strict_chain_is_the_suffix_under_either_flag.

Theorem C14_strict_only_trace_ignores_first_to_last : forall fw sm,
  request_trace fw true [] (Some sm) = request_trace fw false [] (Some sm).
Proof. exact strict_only_trace_ignores_first_to_last. Qed.
Print Assumptions C14_strict_only_trace_ignores_first_to_last.

(** Mounting: the server is built from an options value that carries the middlewares next to other settings (an error
    handler of the caller's, a base URL).  The chain of a mounted server is that of the middlewares whatever the other
    settings are; storing the middlewares only on the branch that installs the default error handler is refuted (an
    authenticating middleware no longer keeps the request from the handler once the caller brings an error handler). *)
Theorem C14_mounting_ignores_the_other_options : forall fw ftl strict o o',
  o_mws o = o_mws o' -> mounted_trace mount fw ftl strict o = mounted_trace mount fw ftl strict o'.
Proof. exact mounted_trace_ignores_other_options. Qed.
Print Assumptions C14_mounting_ignores_the_other_options.

Theorem C14_mounted_chain : forall fw ftl strict o,
  mounted_trace mount fw ftl strict o = request_trace fw ftl (o_mws o) strict.
Proof. exact mounted_trace_is_request_trace. Qed.
Print Assumptions C14_mounted_chain.

Theorem C14_middlewares_only_with_the_default_error_handler_refuted :
  let o := {| o_mws := [Stop]; o_error_handler := true; o_base_url := false |} in
  mounted_trace mount Chi false None o = [EMw 0]
  /\ mounted_trace mount_under_default_error_handler Chi false None o = [EHandler].
Proof. exact mount_under_default_error_handler_refuted. Qed.
Print Assumptions C14_middlewares_only_with_the_default_error_handler_refuted.

(** The first-to-last variants build the chain with a counting loop, for i := len - 1; i >= 0; i--.  The loop visits the
    configured middlewares from the last to the first, which is the chain of the model; a loop that stops at i > 0 never
    wraps the first configured middleware (with one middleware nothing runs before the handler). *)
Theorem C14_counting_loop_visits_all_in_reverse : forall s : slice, countdown (length s) s = rev s.
Proof. exact countdown_is_rev. Qed.
Print Assumptions C14_counting_loop_visits_all_in_reverse.

Theorem C14_first_to_last_loop : forall (ms : list mw) inner,
  wrap_loop EMw (countdown (length (indexed ms)) (indexed ms)) inner = nethttp_chain true ms inner.
Proof. exact first_to_last_loop. Qed.
Print Assumptions C14_first_to_last_loop.

Theorem C14_loop_stopping_early_refuted :
  wrap_loop EMw (countdown 1 (indexed [Stop])) [EHandler] = [EMw 0]
  /\ wrap_loop EMw (countdown_stopping_early 1 (indexed [Stop])) [EHandler] = [EHandler].
Proof. exact countdown_stopping_early_refuted. Qed.
Print Assumptions C14_loop_stopping_early_refuted.
