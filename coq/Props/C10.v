(** C10 — allOf produces the union of its members.
    Proofs in Proofs/MergeProofs.v. The faithful model falsifies two clauses of the statement
    (order independence of the type; own properties beside an allOf), both reproduced on the
    real code as known findings; the rest is proved for lists of any length. *)
From Coq Require Import List String Bool Permutation.
From V Require Import Model.Merge Proofs.MergeProofs.
Import ListNotations.
Local Open Scope string_scope.

Theorem C10_props_union : forall ms r x,
  merge_all ms = Some r -> (In x (keys r) <-> exists m, In m ms /\ In x (keys m)).
Proof. exact props_union. Qed.
Print Assumptions C10_props_union.

Theorem C10_required_iff : forall ms r x,
  merge_all ms = Some r -> (In x (l_required r) <-> exists m, In m ms /\ In x (l_required m)).
Proof. exact required_iff. Qed.
Print Assumptions C10_required_iff.

Theorem C10_additional_rule : forall a b,
  match l_addl a, l_addl b with
  | AFalse, _ | _, AFalse => merge_addl (l_addl a) (l_addl b) = Some AFalse
  | ASchema _, ASchema _ => merge_addl (l_addl a) (l_addl b) = None
  | ASchema x, _ => merge_addl (l_addl a) (l_addl b) = Some (ASchema x)
  | _, ASchema y => merge_addl (l_addl a) (l_addl b) = Some (ASchema y)
  | AAbsent, AAbsent => merge_addl (l_addl a) (l_addl b) = Some AAbsent
  | _, _ => merge_addl (l_addl a) (l_addl b) = Some ATrue
  end.
Proof. exact additional_rule. Qed.
Print Assumptions C10_additional_rule.

Theorem C10_conflict_rejected : forall a b,
  (exists x y, l_type a = Some x /\ l_type b = Some y /\ x <> y) \/ l_format a <> l_format b ->
  merge2 a b = None.
Proof. exact conflict_rejected. Qed.
Print Assumptions C10_conflict_rejected.

(** For compatible members the property set and the required set do not depend on the order ... *)
Theorem C10_order_independent_sets : forall ms ms' r r',
  Permutation ms ms' -> merge_all ms = Some r -> merge_all ms' = Some r' ->
  (forall x, In x (keys r) <-> In x (keys r')) /\ (forall x, In x (l_required r) <-> In x (l_required r')).
Proof. exact order_independent_sets. Qed.
Print Assumptions C10_order_independent_sets.

(** ... nor does the type, PROVIDED every member is typed alike ... *)
Theorem C10_type_order_independent : forall ms ms' r r' t,
  Permutation ms ms' -> (forall m, In m ms -> l_type m = t) ->
  merge_all ms = Some r -> merge_all ms' = Some r' -> l_type r = l_type r'.
Proof. exact type_order_independent. Qed.
Print Assumptions C10_type_order_independent.

(** ... but without that guard the order matters: the type comes from the first member only. *)
Theorem C10_type_order_refuted :
  option_map l_type (merge_all [mk None; mk (Some "string")]) = Some None /\
  option_map l_type (merge_all [mk (Some "string"); mk None]) = Some (Some "string").
Proof. exact type_order_refuted. Qed.
Print Assumptions C10_type_order_refuted.

(** A member that has both an allOf and properties of its own contributes only the allOf. *)
Theorem C10_own_properties_lost_refuted :
  let base := {| l_type := Some "object"; l_format := ""; l_required := []; l_props := [("id", "s")]; l_addl := AAbsent; l_nullable := false |} in
  let own := {| l_type := Some "object"; l_format := ""; l_required := []; l_props := [("own", "s")]; l_addl := AAbsent; l_nullable := false |} in
  option_map keys (flat (Node own [Node base []])) = Some ["id"].
Proof. exact own_properties_lost_refuted. Qed.
Print Assumptions C10_own_properties_lost_refuted.

Example C10_example :
  let a := {| l_type := Some "object"; l_format := ""; l_required := ["id"]; l_props := [("id", "i"); ("n", "s")]; l_addl := AAbsent; l_nullable := false |} in
  let b := {| l_type := Some "object"; l_format := ""; l_required := ["x"]; l_props := [("x", "s"); ("n", "s")]; l_addl := ASchema "s"; l_nullable := false |} in
  option_map (fun r => (keys r, l_required r, l_addl r)) (merge_all [a; b]) = Some (["id"; "n"; "x"], ["id"; "x"], ASchema "s").
Proof. vm_compute. reflexivity. Qed.

(** The legacy merge (compatibility.old-merge-schemas, mergeSchemasV1) and additional properties: the merged type has
    them, with the member's value type, as soon as some member has them (or the composition is rejected because two
    members disagree on the value type), and the order of the members is irrelevant.  The flattened form of the test -
    a member WITHOUT additional properties takes the aggregate's away - is refuted: it forgets them, depends on the
    order, and accepts members that disagree. *)
Theorem C10_legacy_additional_properties_kept : forall ms t,
  In (Some t) ms -> v1_addl ms = Some (Some t) \/ v1_addl ms = None.
Proof. exact v1_addl_kept. Qed.
Print Assumptions C10_legacy_additional_properties_kept.

Theorem C10_legacy_additional_properties_absent : forall ms,
  v1_addl ms = Some None <-> (forall m, In m ms -> m = None).
Proof. exact v1_off_iff. Qed.
Print Assumptions C10_legacy_additional_properties_absent.

Theorem C10_legacy_additional_properties_order : forall ms ms', Permutation ms ms' -> v1_addl ms = v1_addl ms'.
Proof. exact v1_addl_perm. Qed.
Print Assumptions C10_legacy_additional_properties_order.

Theorem C10_legacy_flattened_test_refuted :
  v1_addl [Some "int"; None] = Some (Some "int") /\ v1_addl_flat [Some "int"; None] = Some None
  /\ v1_addl_flat [None; Some "int"] = Some (Some "int")
  /\ v1_addl [Some "int"; None; Some "string"] = None /\ v1_addl_flat [Some "int"; None; Some "string"] = Some (Some "string").
Proof. exact v1_flat_refuted. Qed.
Print Assumptions C10_legacy_flattened_test_refuted.

(** Members carrying oneOf / anyOf: the alternatives of the merged type are those of all members, concatenated in the
    order of the members - every alternative of every member is kept wherever the member stands, nothing is invented.  The
    variant that rebuilds the list only when the next member has alternatives of its own is refuted (a union followed by a
    plain member loses the union; the reverse order keeps it). *)
Theorem C10_alternatives_of_every_member_kept : forall ms m x, In m ms -> In x m -> In x (alts_merge ms).
Proof. exact alts_merge_keeps_all. Qed.
Print Assumptions C10_alternatives_of_every_member_kept.

Theorem C10_alternatives_nothing_invented : forall ms x, In x (alts_merge ms) -> exists m, In m ms /\ In x m.
Proof. exact alts_merge_invents_nothing. Qed.
Print Assumptions C10_alternatives_nothing_invented.

Theorem C10_alternatives_dropping_refuted :
  alts_merge [["Cat"; "Dog"]; []] = ["Cat"; "Dog"] /\ alts_merge_dropping [["Cat"; "Dog"]; []] = []
  /\ alts_merge_dropping [[]; ["Cat"; "Dog"]] = ["Cat"; "Dog"].
Proof. exact alts_merge_dropping_refuted. Qed.
Print Assumptions C10_alternatives_dropping_refuted.
