(** C06 — Malformed or missing parameters never reach the user's handler.
    Proofs in Proofs/WrapperProofs.v; for any number of parameters. *)
From Coq Require Import List Bool Arith.
From V Require Import Model.Wrapper Proofs.WrapperProofs.
Import ListNotations.

Theorem C06_reject_no_handler : forall ps i,
  existsb (fun p => negb (passes p)) ps = true ->
  exists k, wrapper i ps = [WErr (i + k)] /\ k < length ps /\
            forallb passes (firstn k ps) = true /\
            option_map passes (nth_error ps k) = Some false.
Proof. exact reject_no_handler. Qed.
Print Assumptions C06_reject_no_handler.

Theorem C06_handler_not_called : forall ps i,
  existsb (fun p => negb (passes p)) ps = true -> handler_called (wrapper i ps) = false.
Proof. exact reject_handler_not_called. Qed.
Print Assumptions C06_handler_not_called.

Theorem C06_accept_wellformed : forall ps i, forallb passes ps = true -> wrapper i ps = [WHandler].
Proof. exact accept_wellformed. Qed.
Print Assumptions C06_accept_wellformed.

Theorem C06_dichotomy : forall ps i,
  (forallb passes ps = true /\ wrapper i ps = [WHandler]) \/
  (existsb (fun p => negb (passes p)) ps = true /\ handler_called (wrapper i ps) = false).
Proof. exact wrapper_dichotomy. Qed.
Print Assumptions C06_dichotomy.

(** The error branch must end the wrapper: a wrapper that only reports the error lets the
    handler run. *)
Theorem C06_missing_return_refuted :
  exists ps, existsb (fun p => negb (passes p)) ps = true /\ handler_called (wrapper_no_return 0 ps) = true.
Proof. exact no_return_refuted. Qed.
Print Assumptions C06_missing_return_refuted.

Example C06_example :
  wrapper 0 [ {| p_required := false; p_state := Absent |}; {| p_required := true; p_state := Malformed |};
              {| p_required := true; p_state := Binds |} ] = [WErr 1].
Proof. reflexivity. Qed.
