(** C06 — Malformed or missing parameters never reach the user's handler.
    Proofs in Proofs/WrapperProofs.v; for any number of parameters. *)
From Coq Require Import List Bool Arith.
From V Require Import Model.Wrapper Proofs.WrapperProofs.
Import ListNotations.

Theorem C06_reject_no_handler : forall ps i,
  existsb (fun p => negb (passes p)) ps = true ->
  exists k, wrapper i ps = [WErr (i + k)] /\ k < List.length ps /\
            forallb passes (firstn k ps) = true /\
            option_map passes (nth_error ps k) = Some false.
Proof. exact reject_no_handler. Qed.
Print Assumptions C06_reject_no_handler.

Theorem C06_handler_not_called : forall ps i,
  existsb (fun p => negb (passes p)) ps = true -> handler_called (wrapper i ps) = false.
Proof. exact reject_handler_not_called. Qed.
Print Assumptions C06_handler_not_called.

Theorem C06_accept_wellformed : forall ps i, forallb passes ps = true -> wrapper i ps = [WHandler].
Proof. exact accept_wellformed. Qed.
Print Assumptions C06_accept_wellformed.

Theorem C06_dichotomy : forall ps i,
  (forallb passes ps = true /\ wrapper i ps = [WHandler]) \/
  (existsb (fun p => negb (passes p)) ps = true /\ handler_called (wrapper i ps) = false).
Proof. exact wrapper_dichotomy. Qed.
Print Assumptions C06_dichotomy.

(** The error branch must end the wrapper: a wrapper that only reports the error lets the
    handler run. *)
Theorem C06_missing_return_refuted :
  exists ps, existsb (fun p => negb (passes p)) ps = true /\ handler_called (wrapper_no_return 0 ps) = true.
Proof. exact no_return_refuted. Qed.
Print Assumptions C06_missing_return_refuted.

Example C06_example :
  wrapper 0 [ {| p_required := false; p_state := Absent |}; {| p_required := true; p_state := Malformed |};
              {| p_required := true; p_state := Binds |} ] = [WErr 1].
Proof. reflexivity. Qed.

(** Which declaration governs (Model/Combine.v: CombineOperationParameters). *)
From V Require Import Model.Combine Proofs.CombineProofs.

(** every parameter the operation declares is in the combined list, unchanged *)
Theorem C06_operation_level_declaration_governs : forall (A : Type) (g l out : list (@param A)),
  combine_params g l = Some out -> forall p, In p l -> In p out.
Proof. exact @local_governs. Qed.
Print Assumptions C06_operation_level_declaration_governs.

(** the combined list is exactly the operation's parameters plus the path-level ones it does not re-declare *)
Theorem C06_combined_parameters_characterised : forall (A : Type) (g l out : list (@param A)),
  combine_params g l = Some out ->
  forall p, In p out <-> In p l \/ (In p g /\ ~ In (fst p) (map fst l)).
Proof. exact @result_characterised. Qed.
Print Assumptions C06_combined_parameters_characterised.

Theorem C06_combined_keys_unique : forall (A : Type) (g l out : list (@param A)),
  combine_params g l = Some out -> NoDup (map fst out).
Proof. exact @result_keys_unique. Qed.
Print Assumptions C06_combined_keys_unique.

Theorem C06_duplicate_declarations_rejected : forall (A : Type) (g l out : list (@param A)),
  combine_params g l = Some out -> NoDup (map fst l).
Proof. exact @local_duplicates_rejected. Qed.
Print Assumptions C06_duplicate_declarations_rejected.

(** Query parameters next to a form-encoded body (POST / PUT / PATCH operations): a query parameter is looked up in the
    query string.  The body's fields do not matter, whatever they are called: a required parameter missing from the query
    string is rejected even when the body has a field of its name, and a complete, well-formed query string is accepted
    whatever the body holds.  Reading through net/http's FormValue (body first) is refuted in both directions.
    (cases_C06_form ties [qwrapper read_query] to the seven compiled wrappers.) *)
Theorem C06_form_body_is_irrelevant : forall decl q b b',
  qwrapper read_query decl {| in_query := q; in_body := b |} = qwrapper read_query decl {| in_query := q; in_body := b' |}.
Proof. exact body_is_irrelevant. Qed.
Print Assumptions C06_form_body_is_irrelevant.

Theorem C06_missing_required_query_parameter_rejected : forall decl r name,
  In (name, true) decl -> found (in_query r) name = Absent ->
  handler_called (qwrapper read_query decl r) = false.
Proof. exact missing_required_query_parameter_rejected. Qed.
Print Assumptions C06_missing_required_query_parameter_rejected.

Theorem C06_complete_query_accepted : forall decl r,
  (forall d, In d decl -> found (in_query r) (fst d) = Binds \/ (snd d = false /\ found (in_query r) (fst d) = Absent)) ->
  qwrapper read_query decl r = [WHandler].
Proof. exact complete_query_accepted. Qed.
Print Assumptions C06_complete_query_accepted.

Theorem C06_form_value_refuted :
  exists decl r name, In (name, true) decl /\ found (in_query r) name = Absent
                      /\ handler_called (qwrapper read_form_value decl r) = true.
Proof. exact form_value_refuted. Qed.
Print Assumptions C06_form_value_refuted.

Theorem C06_form_value_rejects_complete_query_refuted :
  exists decl r, (forall d, In d decl -> found (in_query r) (fst d) = Binds)
                 /\ handler_called (qwrapper read_form_value decl r) = false.
Proof. exact form_value_rejects_complete_query_refuted. Qed.
Print Assumptions C06_form_value_rejects_complete_query_refuted.

(** The wrapper TEMPLATES themselves (coq/Gen/Wrappers.v: the seven server wrapper templates of /repo, translated to terms
    of Model/Tmpl.v on every run; [render] = the template engine, checked against text/template on every run).
    Whatever the operation - any number of parameters in any location, required or not, styled, JSON or pass-through, any
    option the templates read - the text a wrapper template renders leaves (return) after every call of the framework's
    error path before it closes a block, enters the middleware chain or calls the handler, and it calls the user's handler
    exactly once.  A template that goes on after a report is rejected by the criterion and does run the handler. *)
From V Require Import Model.Tmpl Gen.Wrappers Proofs.TmplProofs Proofs.WrappersOk.
Theorem C06_every_wrapper_template_leaves_after_reporting : forall name t e,
  In (name, t) wrappers -> stops_after_report (render t e) = true.
Proof. exact every_wrapper_leaves_after_reporting. Qed.
Print Assumptions C06_every_wrapper_template_leaves_after_reporting.

Theorem C06_every_wrapper_template_calls_the_handler_once : forall name t e,
  In (name, t) wrappers -> handler_calls (render t e) = 1.
Proof. exact every_wrapper_calls_the_handler_once. Qed.
Print Assumptions C06_every_wrapper_template_calls_the_handler_once.

Theorem C06_criterion_sound : forall t, segments_stop t = true -> forall e, stops_after_report (render t e) = true.
Proof. exact segments_stop_sound. Qed.
Print Assumptions C06_criterion_sound.

Theorem C06_forgetful_template_refuted :
  segments_stop forgetful = false
  /\ let e := EnvL [] [("params"%string, [EnvL [] []])] in
     render forgetful e = [GOpen; GReport; GClose; GHandler; GClose] /\ stops_after_report (render forgetful e) = false.
Proof. exact forgetful_rejected_and_wrong. Qed.
Print Assumptions C06_forgetful_template_refuted.
