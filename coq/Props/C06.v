(** C06 — Malformed or missing parameters never reach the user's handler.
    Proofs in Proofs/WrapperProofs.v; for any number of parameters. *)
From Coq Require Import List Bool Arith.
From V Require Import Model.Wrapper Proofs.WrapperProofs.
Import ListNotations.

Theorem C06_reject_no_handler : forall ps i,
  existsb (fun p => negb (passes p)) ps = true ->
  exists k, wrapper i ps = [WErr (i + k)] /\ k < length ps /\
            forallb passes (firstn k ps) = true /\
            option_map passes (nth_error ps k) = Some false.
Proof. exact reject_no_handler. Qed.
Print Assumptions C06_reject_no_handler.

Theorem C06_handler_not_called : forall ps i,
  existsb (fun p => negb (passes p)) ps = true -> handler_called (wrapper i ps) = false.
Proof. exact reject_handler_not_called. Qed.
Print Assumptions C06_handler_not_called.

Theorem C06_accept_wellformed : forall ps i, forallb passes ps = true -> wrapper i ps = [WHandler].
Proof. exact accept_wellformed. Qed.
Print Assumptions C06_accept_wellformed.

Theorem C06_dichotomy : forall ps i,
  (forallb passes ps = true /\ wrapper i ps = [WHandler]) \/
  (existsb (fun p => negb (passes p)) ps = true /\ handler_called (wrapper i ps) = false).
Proof. exact wrapper_dichotomy. Qed.
Print Assumptions C06_dichotomy.

(** The error branch must end the wrapper: a wrapper that only reports the error lets the
    handler run. *)
Theorem C06_missing_return_refuted :
  exists ps, existsb (fun p => negb (passes p)) ps = true /\ handler_called (wrapper_no_return 0 ps) = true.
Proof. exact no_return_refuted. Qed.
Print Assumptions C06_missing_return_refuted.

Example C06_example :
  wrapper 0 [ {| p_required := false; p_state := Absent |}; {| p_required := true; p_state := Malformed |};
              {| p_required := true; p_state := Binds |} ] = [WErr 1].
Proof. reflexivity. Qed.

(** Which declaration governs (Model/Combine.v: CombineOperationParameters). *)
From V Require Import Model.Combine Proofs.CombineProofs.

(** every parameter the operation declares is in the combined list, unchanged *)
Theorem C06_operation_level_declaration_governs : forall (A : Type) (g l out : list (@param A)),
  combine_params g l = Some out -> forall p, In p l -> In p out.
Proof. exact @local_governs. Qed.
Print Assumptions C06_operation_level_declaration_governs.

(** the combined list is exactly the operation's parameters plus the path-level ones it does not re-declare *)
Theorem C06_combined_parameters_characterised : forall (A : Type) (g l out : list (@param A)),
  combine_params g l = Some out ->
  forall p, In p out <-> In p l \/ (In p g /\ ~ In (fst p) (map fst l)).
Proof. exact @result_characterised. Qed.
Print Assumptions C06_combined_parameters_characterised.

Theorem C06_combined_keys_unique : forall (A : Type) (g l out : list (@param A)),
  combine_params g l = Some out -> NoDup (map fst out).
Proof. exact @result_keys_unique. Qed.
Print Assumptions C06_combined_keys_unique.

Theorem C06_duplicate_declarations_rejected : forall (A : Type) (g l out : list (@param A)),
  combine_params g l = Some out -> NoDup (map fst l).
Proof. exact @local_duplicates_rejected. Qed.
Print Assumptions C06_duplicate_declarations_rejected.
