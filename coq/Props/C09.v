(** C09 — Union types store, return and dispatch the right member.
    Proofs in Proofs/UnionProofs.v; member values are abstract. *)
From Coq Require Import List String Bool Arith.
From V Require Import Model.Union Proofs.UnionProofs.
Import ListNotations.
Local Open Scope string_scope.

(** Storing a member and reading it back returns it ... *)
Theorem C09_as_from : forall (jv : Type) str i member st,
  as_member jv (from_member jv None str i member st) = member.
Proof. exact as_from_no_discriminator. Qed.
Print Assumptions C09_as_from.

(** ... with a discriminator, every member other than the discriminator property is untouched ... *)
Theorem C09_from_keeps_other_members : forall (jv : Type) d str i member st k,
  k <> d_prop d -> get jv (as_member jv (from_member jv (Some d) str i member st)) k = get jv member k.
Proof. exact from_keeps_other_members. Qed.
Print Assumptions C09_from_keeps_other_members.

(** ... and the discriminator property is set to a value mapped to that member. *)
Theorem C09_from_sets_mapped_discriminator : forall (jv : Type) d str i member st vals v,
  values_of d i = (vals ++ [v])%list ->
  get jv (as_member jv (from_member jv (Some d) str i member st)) (d_prop d) = Some (str v) /\
  In (v, i) (d_mapping d).
Proof. exact from_sets_mapped_discriminator. Qed.
Print Assumptions C09_from_sets_mapped_discriminator.

(** Merge overlays the new member's JSON onto the stored one. *)
Theorem C09_merge_overlays : forall (jv : Type) d str i member st k,
  get jv (u_raw jv (merge_member jv d str i member st)) k =
  match get jv (rev (with_disc jv d str i member)) k with Some v => Some v | None => get jv (u_raw jv st) k end.
Proof. exact merge_overlays. Qed.
Print Assumptions C09_merge_overlays.

(** Marshalling yields the stored member's JSON merged with the union's own fixed properties. *)
Theorem C09_marshal : forall (jv : Type) st k,
  get jv (marshal jv st) k =
  match get jv (rev (present jv (u_fixed jv st))) k with Some v => Some v | None => get jv (u_raw jv st) k end.
Proof. exact marshal_member_merged_with_fixed. Qed.
Print Assumptions C09_marshal.

(** Unmarshal followed by marshal is lossless. *)
Theorem C09_unmarshal_marshal_lossless : forall (jv : Type) names b k,
  get jv (marshal jv (unmarshal jv names b)) k = get jv b k.
Proof. exact unmarshal_marshal_lossless. Qed.
Print Assumptions C09_unmarshal_marshal_lossless.

(** Dispatch by discriminator returns the member the mapping designates for EVERY mapped value,
    several values mapped to one member included, and an error for any other value. *)
Theorem C09_dispatch_mapped : forall (jv : Type) d text st v s i,
  NoDup (map fst (d_mapping d)) ->
  get jv (u_raw jv st) (d_prop d) = Some v -> text v = Some s -> In (s, i) (d_mapping d) ->
  dispatch jv d text st = Some i.
Proof. exact dispatch_mapped. Qed.
Print Assumptions C09_dispatch_mapped.

Theorem C09_dispatch_unmapped : forall (jv : Type) d text st v s,
  get jv (u_raw jv st) (d_prop d) = Some v -> text v = Some s ->
  (forall i, ~ In (s, i) (d_mapping d)) -> dispatch jv d text st = None.
Proof. exact dispatch_unmapped. Qed.
Print Assumptions C09_dispatch_unmapped.

Theorem C09_dispatch_after_from : forall (jv : Type) d str text i member st vals v,
  NoDup (map fst (d_mapping d)) -> values_of d i = (vals ++ [v])%list -> (forall s, text (str s) = Some s) ->
  dispatch jv d text (from_member jv (Some d) str i member st) = Some i.
Proof. exact dispatch_after_from. Qed.
Print Assumptions C09_dispatch_after_from.

Example C09_example :
  let d := {| d_prop := "petType"; d_mapping := [("cat", 0); ("dog", 1); ("kitty", 0)] |} in
  let st := from_member string (Some d) (fun s => s) 0 [("petType", "x"); ("lives", "9")] {| u_raw := []; u_fixed := [] |} in
  u_raw string st = [("petType", "kitty"); ("lives", "9")] /\
  dispatch string d (fun v => Some v) st = Some 0.
Proof. vm_compute. split; reflexivity. Qed.

(** Unions with additionalProperties: the generated UnmarshalJSON decodes every key of the document that is no fixed
    property on its own, into a fresh variable of the additional type, so the additional members are exactly the
    document's - for values of any shape (objects with distinct member names; json.Unmarshal into a variable that already
    holds a value keeps what the new text does not mention).  One variable shared by all keys is refuted: a key's value
    inherits the members of the key decoded before it. *)
Theorem C09_additional_members_decoded_on_their_own : forall (jv : Type) (residual : list (string * jobj jv)),
  (forall kv, In kv residual -> NoDup (map fst (snd kv))) -> decode_fresh jv residual = residual.
Proof. exact decode_fresh_exact. Qed.
Print Assumptions C09_additional_members_decoded_on_their_own.

Theorem C09_shared_decode_variable_refuted :
  let doc := [("from", [("x", 1); ("label", 7)]); ("to", [("y", 2)]); ("origin", [])] in
  decode_fresh nat doc = doc
  /\ decode_shared nat [] doc = [("from", [("x", 1); ("label", 7)]); ("to", [("x", 1); ("label", 7); ("y", 2)]);
                                  ("origin", [("x", 1); ("label", 7); ("y", 2)])].
Proof. exact decode_shared_refuted. Qed.
Print Assumptions C09_shared_decode_variable_refuted.
