(** C07 — Generated models round-trip JSON without loss.
    Proofs in Proofs/CodecProofs.v. Member values are abstract (any type [jv] with one null
    value): each member's own codec is the same statement one level down; the theorems are about
    what oapi-codegen contributes — which members are read, where undeclared members go, which
    members are written back — for plain structs and for the emitted UnmarshalJSON/MarshalJSON
    of types with additional properties. *)
From Coq Require Import List String Bool.
From V Require Import Model.Codec Proofs.CodecProofs.
Import ListNotations.
Local Open Scope string_scope.

(** Every declared member is preserved with its name and value; an absent optional nullable
    member of a plain struct reappears as null (the documented exception). One more difference
    exists on the faithful model and on the real code: an EXPLICIT null of an optional nullable
    member of a type with additional properties disappears (refuted below, known finding). *)
Theorem C07_declared_member_roundtrip :
  forall (jv : Type) (jnull : jv) (is_null : jv -> bool),
    (forall v, is_null v = true -> v = jnull) ->
    forall fs has_addl o f,
      NoDup (map f_name fs) -> In f fs -> valid jv is_null fs has_addl o ->
      jlookup jv (encode jv jnull fs has_addl (decode jv is_null fs has_addl o)) (f_name f) =
      match jlookup jv o (f_name f) with
      | Some v => if is_null v && has_addl && negb (f_required f) then None else Some v
      | None => if negb has_addl && f_nullable f && negb (f_required f) then Some jnull else None
      end.
Proof. exact declared_member_roundtrip. Qed.
Print Assumptions C07_declared_member_roundtrip.

(** Every additional member is preserved with its name and value. *)
Theorem C07_additional_preserved :
  forall (jv : Type) (jnull : jv) (is_null : jv -> bool) fs o k,
    declared fs k = false ->
    jlookup jv (encode jv jnull fs true (decode jv is_null fs true o)) k = jlookup jv o k.
Proof. exact additional_member_preserved. Qed.
Print Assumptions C07_additional_preserved.

(** Members captured as additional properties never shadow declared ones. *)
Theorem C07_additional_never_shadows_declared :
  forall (jv : Type) (is_null : jv -> bool) fs o k,
    In k (map fst (g_addl jv (decode jv is_null fs true o))) -> declared fs k = false.
Proof. exact additional_never_shadows_declared. Qed.
Print Assumptions C07_additional_never_shadows_declared.

(** Nothing is invented. *)
Theorem C07_nothing_invented :
  forall (jv : Type) (jnull : jv) (is_null : jv -> bool),
    is_null jnull = true ->
    (forall v, is_null v = true -> v = jnull) ->
    forall fs has_addl o k v,
      NoDup (map f_name fs) -> valid jv is_null fs has_addl o ->
      jlookup jv (encode jv jnull fs has_addl (decode jv is_null fs has_addl o)) k = Some v ->
      jlookup jv o k = Some v \/ (v = jnull /\ exists f, In f fs /\ f_name f = k /\ f_nullable f = true).
Proof. exact nothing_invented. Qed.
Print Assumptions C07_nothing_invented.

Theorem C07_explicit_null_dropped_refuted :
  let fs := [ {| f_name := "n"; f_required := false; f_nullable := true |} ] in
  let o := [("n", None); ("extra", Some 1)] in
  map fst (encode (option nat) None fs true (decode (option nat) (fun v => match v with None => true | _ => false end) fs true o)) = ["extra"].
Proof. exact explicit_null_dropped_refuted. Qed.
Print Assumptions C07_explicit_null_dropped_refuted.

(** Non-vacuity: a valid instance with every kind of member. *)
Example C07_example :
  let fs := [ {| f_name := "id"; f_required := true; f_nullable := false |};
              {| f_name := "nick"; f_required := false; f_nullable := true |};
              {| f_name := "tag"; f_required := false; f_nullable := false |} ] in
  encode (option nat) None fs false (decode (option nat) (fun v => match v with None => true | _ => false end) fs false [("id", Some 1)])
  = [("id", Some 1); ("nick", None)].
Proof. vm_compute. reflexivity. Qed.

(** Integer members: the Go type the type / format table gives a sized format (Model/TypeMap.v, tied to the code cell by
    cell in C08) holds every integer the format stands for, so decoding a valid instance never overflows; with the
    unsigned 64-bit row forgotten, 2^63 - a valid uint64 - is refused by the decoder. *)
From Coq Require Import ZArith.
From V Require Import Model.TypeMap Proofs.TypeMapProofs.
Theorem C07_sized_formats_hold_their_range : forall f r v,
  In f sized_formats -> int_range f = Some r -> in_range r v = true -> decodes go_type f v = true.
Proof. exact sized_formats_hold_their_range. Qed.
Print Assumptions C07_sized_formats_hold_their_range.

Theorem C07_uint64_as_int_refuted :
  in_range (0, 18446744073709551615)%Z 9223372036854775808%Z = true
  /\ decodes go_type "uint64" 9223372036854775808%Z = true
  /\ decodes go_type_without_uint64 "uint64" 9223372036854775808%Z = false.
Proof. exact uint64_as_int_refuted. Qed.
Print Assumptions C07_uint64_as_int_refuted.
