(** C18 — Security requirements are carried faithfully on both sides.
    Proofs in Proofs/SecurityProofs.v. *)
From Coq Require Import List String Bool Permutation.
From V Require Import Model.Det Model.Security Proofs.SecurityProofs.
Import ListNotations.
Local Open Scope string_scope.

(** Server side. A scheme of the effective requirements is published under its key with exactly
    its scopes (it may be preceded and followed by other schemes, provided no later definition
    uses the same key) ... *)
Theorem C18_scopes_exact : forall (key_of : string -> string) (before : list (string * list string)) s scopes after,
  (forall d, In d after -> key_of (fst d) <> key_of s) ->
  ctx_get (publish key_of (before ++ (s, scopes) :: after)%list) (key_of s) = Some scopes.
Proof. exact publish_exact. Qed.
Print Assumptions C18_scopes_exact.

(** ... nothing is published for a scheme that does not apply to the operation ... *)
Theorem C18_nothing_else : forall (key_of : string -> string) (defs : list (string * list string)) k,
  (forall d, In d defs -> key_of (fst d) <> k) -> ctx_get (publish key_of defs) k = None.
Proof. exact publish_nothing_else. Qed.
Print Assumptions C18_nothing_else.

(** ... operation-level requirements replace the global ones, an empty list clears them, and an
    operation without its own requirements inherits the global ones. *)
Theorem C18_override : forall (key_of : string -> string) global l,
  published key_of global (Some l) = publish key_of (describe l).
Proof. exact override_replaces. Qed.
Print Assumptions C18_override.

Theorem C18_clear : forall (key_of : string -> string) global k,
  ctx_get (published key_of global (Some [])) k = None.
Proof. exact empty_list_clears. Qed.
Print Assumptions C18_clear.

Theorem C18_inherit : forall (key_of : string -> string) global,
  published key_of global None = publish key_of (describe global).
Proof. exact inherits_global. Qed.
Print Assumptions C18_inherit.

(** The order in which the schemes of one requirement object are written is irrelevant. *)
Theorem C18_requirement_order : forall r r' rest,
  Permutation r r' -> NoDup (map fst r) -> describe (r :: rest) = describe (r' :: rest).
Proof. exact describe_requirement_perm. Qed.
Print Assumptions C18_requirement_order.

(** Client side: each provider attaches precisely the given credential in the declared place and
    leaves every other header, query parameter and cookie untouched. (The base64 text of basic
    authentication is computed by net/http: it enters as the string [enc].) *)
Theorem C18_intercept_frame : forall p r,
  match p with
  | Basic enc =>
      hdr_get (headers (intercept p r)) "Authorization" = [enc] /\
      (forall k, k <> "Authorization" -> hdr_get (headers (intercept p r)) k = hdr_get (headers r) k) /\
      query (intercept p r) = query r /\ cookies (intercept p r) = cookies r
  | Bearer t =>
      hdr_get (headers (intercept p r)) "Authorization" = ["Bearer " ++ t] /\
      (forall k, k <> "Authorization" -> hdr_get (headers (intercept p r)) k = hdr_get (headers r) k) /\
      query (intercept p r) = query r /\ cookies (intercept p r) = cookies r
  | ApiKeyHeader n key =>
      (forall k, k <> n -> hdr_get (headers (intercept p r)) k = hdr_get (headers r) k) /\
      query (intercept p r) = query r /\ cookies (intercept p r) = cookies r
  | ApiKeyQuery n key =>
      headers (intercept p r) = headers r /\ query (intercept p r) = (query r ++ [(n, key)])%list /\
      cookies (intercept p r) = cookies r
  | ApiKeyCookie n key =>
      headers (intercept p r) = headers r /\ query (intercept p r) = query r /\
      cookies (intercept p r) = (cookies r ++ [(n, key)])%list
  end.
Proof. exact intercept_frame. Qed.
Print Assumptions C18_intercept_frame.

Theorem C18_apikey_header_appends : forall h n key,
  hdr_get (hdr_add h n key) n = (hdr_get h n ++ [key])%list.
Proof. exact apikey_header_appends. Qed.
Print Assumptions C18_apikey_header_appends.

Example C18_example :
  let global := [[("bearerAuth", ["g1"])]] in
  let key := fun s => s ++ "Scopes" in
  published key global None = [("bearerAuthScopes", ["g1"])]
  /\ published key global (Some []) = []
  /\ ctx_get (published key global (Some [[("b", ["x"]); ("a", [])]])) "aScopes" = Some []
  /\ ctx_get (published key global (Some [[("b", ["x"]); ("a", [])]])) "bearerAuthScopes" = None.
Proof. vm_compute. repeat split. Qed.

(** "publishes to the request context": whoever runs inside the wrapper after the publishing statement finds the scopes.
    In chi, gorilla, std-http and gin the per-operation middlewares run inside the wrapper; with the publishing statement
    before the point where the chain is entered (Proofs/ScopeOrderOk.v proves it of the template texts, regenerated on
    every run) middlewares and handler both find them.  Publishing inside the innermost closure only is refuted: the
    handler finds the scopes, an authenticating middleware does not. *)
Theorem C18_published_before_the_chain_seen_by_all : forall pre mid post b,
  ~ In KChain pre -> ~ In KHandler pre -> In KChain (mid ++ KChain :: post) -> In KHandler (mid ++ KChain :: post) ->
  seen_by KChain (pre ++ KPublish :: mid ++ KChain :: post) b = Some true
  /\ seen_by KHandler (pre ++ KPublish :: mid ++ KChain :: post) b = Some true.
Proof. exact published_before_chain_seen_by_all. Qed.
Print Assumptions C18_published_before_the_chain_seen_by_all.

Theorem C18_published_in_the_closure_refuted :
  seen_by KChain [KChain; KPublish; KHandler] false = Some false
  /\ seen_by KHandler [KChain; KPublish; KHandler] false = Some true.
Proof. exact published_in_the_closure_refuted. Qed.
Print Assumptions C18_published_in_the_closure_refuted.

(** An OR of alternatives that name one scheme with scope lists of their own: every (alternative, scheme) pair is described
    in document order, so the scheme's key holds the scopes of the LAST alternative that names it, whatever precedes it
    (the schemes of a requirement object are the keys of a map: distinct; no other scheme shares the key).  Describing a
    scheme for the first alternative only is refuted on a two-alternative list. *)
Theorem C18_last_alternative_wins : forall (key_of : string -> string) before r after s,
  NoDup (map fst r) -> In s (map fst r) ->
  (forall k, In k (map fst r) -> k <> s -> key_of k <> key_of s) ->
  (forall r' k, In r' after -> In k (map fst r') -> key_of k <> key_of s) ->
  ctx_get (publish key_of (describe (before ++ r :: after))) (key_of s) = Some (lookup_scopes r s).
Proof. exact last_alternative_wins. Qed.
Print Assumptions C18_last_alternative_wins.

Theorem C18_first_alternative_refuted :
  let alts := [[("oauth", ["reports:read"])]; [("oauth", ["reports:write"; "admin"]); ("apiKey", [])]] in
  let key := fun s => s ++ "Scopes" in
  ctx_get (publish key (describe alts)) "oauthScopes" = Some ["reports:write"; "admin"]
  /\ ctx_get (publish key (dedupe_first [] (describe alts))) "oauthScopes" = Some ["reports:read"].
Proof. exact first_alternative_refuted. Qed.
Print Assumptions C18_first_alternative_refuted.

(** The same for all seven wrapper TEMPLATES as translated terms (coq/Gen/Wrappers.v, Model/Tmpl.v): in every text a
    wrapper template renders, for every operation, no scheme's scopes are stored after the middleware chain was entered or
    the handler called. *)
From V Require Import Model.Tmpl Gen.Wrappers Proofs.WrappersOk.
Theorem C18_every_wrapper_template_publishes_scopes_first : forall name t e,
  In (name, t) wrappers -> published_first false (render t e) = true.
Proof. exact every_wrapper_publishes_scopes_first. Qed.
Print Assumptions C18_every_wrapper_template_publishes_scopes_first.
