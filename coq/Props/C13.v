(** C13 — Client response parsing fills the declared slot.
    Proofs in Proofs/RespParseProofs.v. The faithful model of the generated switch falsifies
    the full statement (two witnesses below, both replayed on the real code as known
    findings); what is proved is the part that holds, with its guard stated. *)
From Coq Require Import List String Bool Arith.
From V Require Import Model.Det Model.RespParse Proofs.RespParseProofs.
Import ListNotations.
Local Open Scope string_scope.

(** Whatever field is filled belongs to a clause whose status condition and media-type
    condition both hold for the reply: nothing is filled from a non-matching declaration ... *)
Theorem C13_only_matching : forall status ct cs c,
  pick status ct cs = Some c -> clause_matches status ct c = true /\ In c cs.
Proof. exact parse_only_matching. Qed.
Print Assumptions C13_only_matching.

(** ... a reply matching no declared (response, media type) fills no typed field ... *)
Theorem C13_undeclared_fills_nothing : forall responses status ct,
  (forall c, In c (clause_map (flat_map (fun r => clauses_of (fst r) (snd r)) responses)) ->
             clause_matches status ct c = false) ->
  parse responses status ct = None.
Proof. exact undeclared_fills_nothing. Qed.
Print Assumptions C13_undeclared_fills_nothing.

(** ... the clause that fires is the matching one with the least key ... *)
Theorem C13_least_key_fires : forall status ct cs m,
  In m cs -> clause_matches status ct m = true ->
  (forall d, In d cs -> clause_matches status ct d = true -> sleb (clause_key m) (clause_key d) = true) ->
  (forall d, In d cs -> clause_matches status ct d = true -> sleb (clause_key d) (clause_key m) = true -> d = m) ->
  pick status ct cs = Some m.
Proof. exact pick_least. Qed.
Print Assumptions C13_least_key_fires.

(** ... and among clauses of the same kind (every response declaring at most one JSON media
    type is the common case) the key order is the precedence the statement asks for: an exact
    status code beats its range, a range beats default — for every status code 100..599. *)
Theorem C13_precedence_same_kind : forall k n fa fb fc,
  100 <= n < 600 ->
  let exact := {| c_kind := k; c_resp := RCode n; c_field := fa |} in
  let range := {| c_kind := k; c_resp := RRange (n / 100); c_field := fb |} in
  let dflt := {| c_kind := k; c_resp := RDefault; c_field := fc |} in
  better exact range = exact /\ better range exact = exact /\
  better range dflt = range /\ better dflt range = range /\
  better exact dflt = exact /\ better dflt exact = exact.
Proof. exact precedence_same_kind. Qed.
Print Assumptions C13_precedence_same_kind.

(** Across kinds the keys are ordered by kind, not by specificity: the full statement
    ("an exact status code takes precedence over ... default") is refuted. *)
Theorem C13_precedence_refuted_1 :
  parse [ (RCode 200, [(MJson "application/json", "JSON200"); (MJson "text/x-json", "TextXJSON200")]);
          (RDefault, [(MJson "application/json", "JSONDefault")]) ] 200 "text/x-json"
  = Some "JSONDefault".
Proof. exact precedence_refuted_1. Qed.
Print Assumptions C13_precedence_refuted_1.

Theorem C13_precedence_refuted_2 :
  parse [ (RCode 200, [(MJson "application/json", "JSON200")]);
          (RDefault, [(MJson "application/json", "JSONDefault"); (MJson "application/problem+json", "ApplicationProblemJSONDefault")]) ]
        200 "application/json"
  = Some "JSONDefault".
Proof. exact precedence_refuted_2. Qed.
Print Assumptions C13_precedence_refuted_2.

Example C13_example :
  parse [ (RCode 200, [(MJson "application/json", "JSON200")]); (RRange 2, [(MJson "application/json", "JSON2XX")]);
          (RDefault, [(MJson "application/json", "JSONDefault"); (MYaml "application/yaml", "YAMLDefault")]) ] 200 "application/json" = Some "JSON200"
  /\ parse [ (RCode 200, [(MJson "application/json", "JSON200")]); (RRange 2, [(MJson "application/json", "JSON2XX")]) ] 201 "application/json; charset=utf-8" = Some "JSON2XX"
  /\ parse [ (RCode 200, [(MJson "application/json", "JSON200")]) ] 404 "application/json" = None.
Proof. vm_compute. repeat split. Qed.

(** A range clause fires exactly for the hundred statuses of its range - for every status, not only those of a sweep -
    and the clause spelled as bounds with the upper bound one short differs from it at the last status of the range only
    (x99), where it misses. *)
Theorem C13_range_clause_bounds : forall d status,
  status_matches (RRange d) status = true <-> (d * 100 <= status /\ status < d * 100 + 100).
Proof. exact range_clause_bounds. Qed.
Print Assumptions C13_range_clause_bounds.

Theorem C13_range_clause_off_by_one_refuted :
  status_matches (RRange 4) 499 = true /\ range_clause_off_by_one 4 499 = false
  /\ forall d status, status <> d * 100 + 99 -> range_clause_off_by_one d status = status_matches (RRange d) status.
Proof. exact range_clause_off_by_one_refuted. Qed.
Print Assumptions C13_range_clause_off_by_one_refuted.
