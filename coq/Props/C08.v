(** C08 — Go types follow the documented schema mapping.
    Proofs in Proofs/TypeMapProofs.v: finite case analysis over the whole attribute space (a
    proof: the bound is the entire domain). The model is tied to /repo by generating every
    cell of that space on every run (mechanism E). *)
From Coq Require Import List String Bool.
From V Require Import Model.TypeMap Proofs.TypeMapProofs.
Import ListNotations.
Local Open Scope string_scope.

Theorem C08_pointer_rule : forall a, plain_options a ->
  field_wrap a = if doc_pointer a then Pointer else Plain.
Proof. exact pointer_rule. Qed.
Print Assumptions C08_pointer_rule.

Theorem C08_omitempty_rule : forall a, plain_options a -> field_omitempty a = doc_omitempty a.
Proof. exact omitempty_rule. Qed.
Print Assumptions C08_omitempty_rule.

Theorem C08_tag_rule : forall a name, plain_options a ->
  field_json_tag a name = if doc_omitempty a then name ++ ",omitempty" else name.
Proof. exact tag_rule. Qed.
Print Assumptions C08_tag_rule.

(** Every documented (type, format) row of the table. *)
Theorem C08_type_table : forall t f g, In (t, f, g) doc_table -> go_type t f = Some g.
Proof. exact type_table_row. Qed.
Print Assumptions C08_type_table.

(** Each extension / option changes exactly what it documents. *)
Theorem C08_frame_skip_optional_pointer : forall a v name,
  field_omitempty (set_skip a v) = field_omitempty a /\
  field_json_tag (set_skip a v) name = field_json_tag a name /\
  (o_nullable_type a && a_nullable a = false -> field_wrap (set_skip a (Some true)) = Plain).
Proof. exact frame_skip_pointer. Qed.
Print Assumptions C08_frame_skip_optional_pointer.

Theorem C08_frame_omitempty : forall a v,
  field_wrap (set_omit a v) = field_wrap a /\ (forall b, field_omitempty (set_omit a (Some b)) = b).
Proof. exact frame_omitempty. Qed.
Print Assumptions C08_frame_omitempty.

Theorem C08_frame_json_ignore : forall a v name,
  field_wrap (set_ignore a v) = field_wrap a /\ field_omitempty (set_ignore a v) = field_omitempty a /\
  field_json_tag (set_ignore a (Some true)) name = "-".
Proof. exact frame_json_ignore. Qed.
Print Assumptions C08_frame_json_ignore.

Theorem C08_frame_disable_required_readonly_as_pointer : forall a v name,
  (a_required a && a_readonly a = false) ->
  field_wrap (set_rro a v) = field_wrap a /\ field_omitempty (set_rro a v) = field_omitempty a /\
  field_json_tag (set_rro a v) name = field_json_tag a name.
Proof. exact frame_disable_rro. Qed.
Print Assumptions C08_frame_disable_required_readonly_as_pointer.

Theorem C08_frame_nullable_type : forall a v name,
  a_nullable a = false ->
  field_wrap (set_nt a v) = field_wrap a /\ field_omitempty (set_nt a v) = field_omitempty a /\
  field_json_tag (set_nt a v) name = field_json_tag a name.
Proof. exact frame_nullable_type. Qed.
Print Assumptions C08_frame_nullable_type.

Example C08_example :
  let a := {| a_required := true; a_nullable := false; a_readonly := true; a_writeonly := false;
              a_skip_pointer := None; a_omitempty_ext := None; a_json_ignore := None;
              o_disable_rro_pointer := false; o_nullable_type := false |} in
  field_wrap a = Pointer /\ field_json_tag a "id" = "id,omitempty" /\
  field_wrap (set_rro a true) = Plain /\ field_json_tag (set_rro a true) "id" = "id".
Proof. vm_compute. repeat split. Qed.

(** "option (... type-alias and compatibility switches) changes exactly what it documents and nothing else": how named
    types are declared (cases_C08_alias ties [declared_as_alias] to the generated declarations). *)
Theorem C08_alias_default : forall k,
  declared_as_alias false false k = match k with KStruct | KEnum => false | _ => true end.
Proof. exact alias_default. Qed.
Print Assumptions C08_alias_default.

Theorem C08_disable_type_aliases_for_array : forall old, declared_as_alias old true KArray = false.
Proof. exact alias_disable_array_defines_arrays. Qed.
Print Assumptions C08_disable_type_aliases_for_array.

Theorem C08_frame_disable_type_aliases_for_array : forall old d k,
  k <> KArray -> declared_as_alias old d k = declared_as_alias old false k.
Proof. exact alias_frame_disable_array. Qed.
Print Assumptions C08_frame_disable_type_aliases_for_array.

Theorem C08_old_aliasing_defines_everything : forall d k, declared_as_alias true d k = false.
Proof. exact alias_old_aliasing_defines_everything. Qed.
Print Assumptions C08_old_aliasing_defines_everything.
