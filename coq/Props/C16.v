(** C16 — Tag and operation-id filtering is exact. Proofs in Proofs/FilterProofs.v. *)
From Coq Require Import List String.
From V Require Import Model.Prune Model.Filter Proofs.PruneProofs Proofs.FilterProofs.
Import ListNotations.
Local Open Scope string_scope.
Local Open Scope list_scope.

(** The surviving operations of every path item are exactly those satisfying [keep]
    (no excluded tag, some included tag if an inclusion list is given, id not excluded,
    id included if an inclusion list is given); path items themselves all stay, including
    those that lose every operation; path-level parameters are untouched. *)
Theorem C16_filter_exact : forall c d,
  d_paths (filter_doc c d) = spec_filter_paths c (d_paths d).
Proof. exact filter_exact. Qed.
Print Assumptions C16_filter_exact.

Theorem C16_op_set : forall c d,
  op_keys (d_paths (filter_doc c d)) =
  flat_map (fun p => map (fun o => (p_path p, o_method o)) (filter (keep c) (p_ops p))) (d_paths d).
Proof. exact filter_op_keys. Qed.
Print Assumptions C16_op_set.

Theorem C16_path_items_stay : forall c d,
  map p_path (d_paths (filter_doc c d)) = map p_path (d_paths d).
Proof. exact filter_keeps_path_items. Qed.
Print Assumptions C16_path_items_stay.

(** Filtering alone never touches components... *)
Theorem C16_filter_keeps_components : forall c d, d_comps (filter_doc c d) = d_comps d.
Proof. exact filter_keeps_components. Qed.
Print Assumptions C16_filter_keeps_components.

(** ...the prologue of Generate (filter, then prune) always yields a document, whose paths
    are the filtered paths, ... *)
Theorem C16_prepare_total : forall c d, exists d', prepare c d = Some d'.
Proof. exact prepare_total. Qed.
Print Assumptions C16_prepare_total.

Theorem C16_prepare_paths : forall c d d',
  prepare c d = Some d' -> d_paths d' = spec_filter_paths c (d_paths d).
Proof. exact prepare_paths. Qed.
Print Assumptions C16_prepare_paths.

(** ...everything the remaining operations need is still there, ... *)
Theorem C16_keeps_needed : forall c d d' x,
  f_skip_prune c = false -> prepare c d = Some d' ->
  In x (d_comps d) -> reach (filter_doc c d) (comp_ref x) -> In x (d_comps d').
Proof. exact prepare_keeps_needed. Qed.
Print Assumptions C16_keeps_needed.

(** ...and components used only by removed operations disappear. *)
Theorem C16_drops_unneeded : forall c d d' x,
  f_skip_prune c = false -> prepare c d = Some d' ->
  In x (d_comps d') -> prunable (c_kind x) = true -> In (comp_ref x) (find_component_refs d').
Proof. exact prepare_drops_unneeded. Qed.
Print Assumptions C16_drops_unneeded.

(** Non-vacuity: include + exclude lists together, a multi-tag operation, an unknown name,
    a path losing all its operations, a component used only by a removed operation. *)
Definition ex_cfg : filter_cfg :=
  {| f_include_tags := ["a"; "nosuch"]; f_exclude_tags := ["x"];
     f_include_ids := []; f_exclude_ids := ["op3"]; f_skip_prune := false |}.

Definition ex_doc : doc :=
  {| d_paths :=
       [ {| p_path := "/p0"; p_params := [];
            p_ops := [ {| o_method := "get"; o_id := "op0"; o_tags := ["a"]; o_body := [NRef "#/components/schemas/S0"] |};
                       {| o_method := "put"; o_id := "op1"; o_tags := ["a"; "x"]; o_body := [NRef "#/components/schemas/S1"] |} ] |};
         {| p_path := "/p1"; p_params := [];
            p_ops := [ {| o_method := "get"; o_id := "op2"; o_tags := ["b"]; o_body := [] |};
                       {| o_method := "post"; o_id := "op3"; o_tags := ["a"]; o_body := [] |} ] |} ];
     d_comps := [ {| c_kind := KSchemas; c_name := "S0"; c_body := NVal [] |};
                  {| c_kind := KSchemas; c_name := "S1"; c_body := NVal [] |} ] |}.

Example C16_example :
  option_map (fun d => (map p_path (d_paths d), op_keys (d_paths d), comp_keys d)) (prepare ex_cfg ex_doc)
  = Some (["/p0"; "/p1"], [("/p0", "get")], ["#/components/schemas/S0"])%string.
Proof. vm_compute. reflexivity. Qed.

(** A list that is given and empty (include-tags: []) is ignored like an absent one: with four empty lists every
    operation stays (a filter that takes "given" for "non-empty" removes everything: seeded change C16_r9). *)
Theorem C16_empty_lists_filter_nothing : forall c d,
  f_include_tags c = [] -> f_exclude_tags c = [] -> f_include_ids c = [] -> f_exclude_ids c = [] ->
  op_keys (d_paths (filter_doc c d)) = op_keys (d_paths d).
Proof. exact empty_lists_filter_nothing. Qed.
Print Assumptions C16_empty_lists_filter_nothing.
