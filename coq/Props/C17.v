(** C17 — A generation is independent of earlier generations in the process.
    Proofs in Proofs/HistoryProofs.v; the classification of /repo's package-level variables
    is regenerated into Gen/Globals.v on every run and checked in Proofs/SitesOk.v. *)
From Coq Require Import List String Bool.
From V Require Import Model.History Proofs.HistoryProofs Gen.Globals Proofs.GlobalsOk Corr.Eval.
Import ListNotations.

(** General statement: for every set of variables, every history [h] of calls (completed or
    failing at any point of the prologue) and every call [c], the output of [c] after [h]
    equals its output from the initial state — provided every variable is never written,
    reset by every call before it is read, or written only by setters Generate never calls.
    [gen] (everything after the prologue) is any function that reads the variables through
    their values; [complete_written]: a call that gets past the prologue has performed all the
    prologue's writes. *)
Theorem C17_history_independent :
  forall (var val call out : Type) (class : var -> gclass) (reset : var -> call -> val)
         (written : call -> var -> bool) (complete : call -> bool) (cond : var -> call -> bool)
         (during : (var -> val) -> call -> var -> val) (gen : (var -> val) -> call -> out)
         (err : call -> out),
    (forall s s' c, (forall v, s v = s' v) -> gen s c = gen s' c) ->
    (forall c v, complete c = true -> written c v = true) ->
    forall (h : list call) (s0 : var -> val) (c : call),
      (forall v, class_ok (class v) = true) ->
      snd (step var val call out class reset written complete cond during gen err
                (run var val call out class reset written complete cond during gen err s0 h) c)
      = snd (step var val call out class reset written complete cond during gen err s0 c).
Proof. exact history_independent. Qed.
Print Assumptions C17_history_independent.

(** The classification the scanner finds in /repo today satisfies the proviso. *)
Lemma class_of_ok : forall v, class_ok (class_of v) = true.
Proof.
  intros v. unfold class_of.
  pose proof globals_ok as H. rewrite forallb_forall in H.
  destruct (find (fun g => String.eqb (fst g) v) globals) as [g|] eqn:E; [|reflexivity].
  apply find_some in E. apply (H g). apply E.
Qed.

Theorem C17_holds_for_scanned_globals :
  forall (val call out : Type) (reset : string -> call -> val)
         (written : call -> string -> bool) (complete : call -> bool) (cond : string -> call -> bool)
         (during : (string -> val) -> call -> string -> val) (gen : (string -> val) -> call -> out)
         (err : call -> out),
    (forall s s' c, (forall v, s v = s' v) -> gen s c = gen s' c) ->
    (forall c v, complete c = true -> written c v = true) ->
    forall (h : list call) (s0 : string -> val) (c : call),
      snd (step string val call out class_of reset written complete cond during gen err
                (run string val call out class_of reset written complete cond during gen err s0 h) c)
      = snd (step string val call out class_of reset written complete cond during gen err s0 c).
Proof.
  intros. apply history_independent; try assumption. exact class_of_ok.
Qed.
Print Assumptions C17_holds_for_scanned_globals.

(** The proviso is necessary: a variable written only under a condition on the call (what the
    response-type suffix was before the fix), or a cache filled during generation, lets a
    history change a later output. *)
Theorem C17_conditional_reset_refuted :
  exists (h : list (option nat)) (c : option nat),
    let class := fun _ : unit => ConditionalReset in
    let reset := fun (_ : unit) (c : option nat) => match c with Some n => n | None => 0 end in
    let written := fun (_ : option nat) (_ : unit) => true in
    let complete := fun _ : option nat => true in
    let cond := fun (_ : unit) (c : option nat) => match c with Some _ => true | None => false end in
    let during := fun (s : unit -> nat) (_ : option nat) => s in
    let gen := fun (s : unit -> nat) (_ : option nat) => s tt in
    let err := fun _ : option nat => 0 in
    let s0 := fun _ : unit => 7 in
    snd (step unit nat (option nat) nat class reset written complete cond during gen err
              (run unit nat (option nat) nat class reset written complete cond during gen err s0 h) c)
    <> snd (step unit nat (option nat) nat class reset written complete cond during gen err s0 c).
Proof. exact conditional_reset_refuted. Qed.
Print Assumptions C17_conditional_reset_refuted.

(** Non-vacuity: the scanned inventory is not empty and contains variables of both kinds. *)
Example C17_example_inventory :
  existsb (fun g => gclass_eqb (snd g) ResetEveryCall) globals = true /\
  existsb (fun g => gclass_eqb (snd g) InitOnly) globals = true /\
  class_of "responseTypeSuffix" = ResetEveryCall.
Proof. vm_compute. repeat split. Qed.
