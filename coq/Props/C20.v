(** C20 — The command-line tool is equivalent to the library for the same configuration.
    Proofs in Proofs/CliProofs.v; the generate-target switch of the tool is regenerated from
    the source on every run (Gen/Targets.v) and proved equal to the model's table
    (Proofs/TargetsOk.v). YAML syntax, process exit and file writing are exercised by running
    the built binary, not modelled (partial). *)
From Coq Require Import List String Bool Arith.
From V Require Import Model.Cli Proofs.CliProofs Gen.Targets Proofs.TargetsOk.
Import ListNotations.
Local Open Scope string_scope.

(** Every documented generate target selects exactly its documented effect ... *)
Theorem C20_target_effect : forall t e,
  In (t, e) target_table ->
  generation_targets [t] (gen_zero, {| skip_fmt := false; skip_prune := false |})
  = Some (apply_effect e (gen_zero, {| skip_fmt := false; skip_prune := false |})).
Proof. exact single_target_effect. Qed.
Print Assumptions C20_target_effect.

(** ... the table is the one in /repo's source today ... *)
Theorem C20_table_is_the_source : scanned_targets = target_table.
Proof. exact targets_scanned_equal_model. Qed.
Print Assumptions C20_table_is_the_source.

(** ... and an unknown target name is rejected. *)
Theorem C20_unknown_target_rejected : forall ts t s,
  In t ts -> lookup_target t = None -> generation_targets ts s = None.
Proof. exact unknown_target_rejected. Qed.
Print Assumptions C20_unknown_target_rejected.

(** More than one server flavour is rejected. *)
Theorem C20_two_servers_rejected : forall (rest : Type) (c : @config rest),
  1 < count_servers (c_gen c) -> validate c = false.
Proof. intros rest. exact validate_rejects_two_servers. Qed.
Print Assumptions C20_two_servers_rejected.

(** With a new-style file and no flags, the library receives the file's configuration with the
    defaults applied — provided the file does not set initialism-overrides ... *)
Theorem C20_cli_equals_library : forall (rest : Type) (c : @config rest),
  c_initialism c = false ->
  resolve_new c = if validate (update_defaults c) then Some (update_defaults c) else None.
Proof. intros rest. exact cli_equals_library. Qed.
Print Assumptions C20_cli_equals_library.

(** ... which the flag's default overwrites (refuted, known finding). *)
Theorem C20_initialism_overrides_refuted : forall (rest : Type) (r : rest),
  exists c : @config rest, c_initialism c = true /\ option_map c_initialism (resolve_new c) = Some false.
Proof. intros rest. exact initialism_overrides_refuted. Qed.
Print Assumptions C20_initialism_overrides_refuted.

(** The configuration printed by --output-config resolves to itself when fed back. *)
Theorem C20_output_config_fixpoint : forall (rest : Type) (c c' : @config rest),
  resolve_new c = Some c' -> resolve_new c' = Some c'.
Proof. intros rest. exact output_config_fixpoint. Qed.
Print Assumptions C20_output_config_fixpoint.

Theorem C20_defaults_idempotent : forall (rest : Type) (c : @config rest),
  update_defaults (update_defaults c) = update_defaults c.
Proof. intros rest. exact update_defaults_idempotent. Qed.
Print Assumptions C20_defaults_idempotent.

Example C20_example :
  option_map fst (generation_targets ["gorilla"; "types"; "skip-prune"] (gen_zero, {| skip_fmt := false; skip_prune := false |}))
  = Some {| g_iris := false; g_chi := false; g_fiber := false; g_echo := false; g_gin := false; g_gorilla := true;
            g_stdhttp := false; g_strict := false; g_client := false; g_models := true; g_spec := false |}
  /\ generation_targets ["types"; "bogus"] (gen_zero, {| skip_fmt := false; skip_prune := false |}) = None.
Proof. vm_compute. split; reflexivity. Qed.

(** The legacy -import-mapping flag (Model/CmdMap.v = pkg/util/inputmapping.go): with keys and values quoted, commas
    and colons inside them are data - every map without double quotes in its keys and values is read back exactly
    (this is what lets an external reference given as a URL be mapped from the command line). *)
From V Require Import Model.CmdMap Proofs.CmdMapProofs.
Theorem C20_import_mapping_flag_roundtrip : forall l,
  l <> [] -> Forall clean_pair l -> parse_map (render_map l) = Some l.
Proof. exact parse_render_roundtrip. Qed.
Print Assumptions C20_import_mapping_flag_roundtrip.

Theorem C20_import_mapping_flag_rejects_two_colons : parse_map "a:b:c"%string = None.
Proof. exact two_colons_rejected. Qed.
Print Assumptions C20_import_mapping_flag_rejects_two_colons.

(** "Configurations that ... contain unknown keys are rejected", and a file is processed as a file of the style it is
    written in (cases_C20_style ties [detect strict_old] to the tool): a key neither style has is refused under every
    combination of flags; an accepted file has only keys of the style it was taken for; a file with a new-style-only
    section is a new-style file whatever legacy flags come with it; a non-strict old-style probe is refuted. *)
Theorem C20_unknown_key_refused : forall e l f, In KUnknown f -> detect strict_old e l f = None.
Proof. exact unknown_key_refused. Qed.
Print Assumptions C20_unknown_key_refused.

Theorem C20_accepted_means_every_key_known : forall e l f s,
  detect strict_old e l f = Some s ->
  match s with SOld => strict_old f = true | SNew => strict_new f = true end.
Proof. exact accepted_means_every_key_known. Qed.
Print Assumptions C20_accepted_means_every_key_known.

Theorem C20_new_only_key_means_new_style : forall l f,
  In KNewOnly f -> strict_new f = true -> detect strict_old false l f = Some SNew.
Proof. exact new_only_key_means_new_style. Qed.
Print Assumptions C20_new_only_key_means_new_style.

Theorem C20_lax_old_probe_refuted :
  detect lax_old false true [KCommon; KNewOnly] <> Some SNew
  /\ detect strict_old false true [KCommon; KNewOnly] = Some SNew.
Proof. exact lax_old_probe_refuted. Qed.
Print Assumptions C20_lax_old_probe_refuted.

(** Whatever the selection of outputs, a new-style run hands the rest of the configuration (compatibility flags, import
    mapping, ...) to the generator as the file gave it; clearing the chi first-to-last flag when no chi server is generated
    is refuted (std-http reads that flag).  Tied to the tool by cases_C20_resolve_flags (--output-config). *)
Theorem C20_resolution_keeps_the_rest : forall (rest : Type) (c c' : @config rest), resolve_new c = Some c' -> c_rest c' = c_rest c.
Proof. intros rest c c'. apply resolve_keeps_the_rest. Qed.
Print Assumptions C20_resolution_keeps_the_rest.

Theorem C20_clearing_the_chi_flag_refuted :
  let g := {| g_iris := false; g_chi := false; g_fiber := false; g_echo := false; g_gin := false; g_gorilla := false;
              g_stdhttp := true; g_strict := false; g_client := false; g_models := true; g_spec := false |} in
  let c := {| c_package := "api"%string; c_gen := g; c_out := {| skip_fmt := false; skip_prune := false |}; c_initialism := false; c_rest := (true, false) |} in
  option_map c_rest (resolve_new c) = Some (true, false) /\ option_map c_rest (resolve_clearing_chi_flag c) = Some (false, false).
Proof. exact clearing_the_chi_flag_refuted. Qed.
Print Assumptions C20_clearing_the_chi_flag_refuted.
