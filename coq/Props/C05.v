(** C05 — Parameter wire format follows the OpenAPI style rules.
    The table itself is Model/OasTable.v (written from OAS 3.0.3 / RFC 6570, sharing no code
    with the implementation); on every run the generated client's requests are compared with it
    inside Coq and requests serialised by it are sent to the seven generated servers. *)
From Coq Require Import List String Ascii Bool.
From V Require Import Model.OasTable Proofs.OasProofs.
Import ListNotations.
Local Open Scope string_scope.

(** Per-location defaults when style / explode are not given. *)
Theorem C05_defaults : 
  default_style LPath = Simple /\ default_style LHeader = Simple /\
  default_style LQuery = Form /\ default_style LCookie = Form /\
  default_explode Form = true /\ default_explode Simple = false /\
  default_explode Label = false /\ default_explode Matrix = false.
Proof. exact defaults_match_oas. Qed.
Print Assumptions C05_defaults.

(** The table's rows, checked against the examples of the specification
    (string "blue"; array [blue, black, brown]; object {R:100, G:200, B:150}; name "color"). *)
Definition blue := VPrim "blue".
Definition arr := VArr ["blue"; "black"; "brown"].
Definition obj := VObj [("R", "100"); ("G", "200"); ("B", "150")].

Theorem C05_spec_examples :
  ser_matrix false "color" blue = ";color=blue" /\
  ser_matrix true "color" arr = ";color=blue;color=black;color=brown" /\
  ser_matrix false "color" arr = ";color=blue,black,brown" /\
  ser_matrix true "color" obj = ";R=100;G=200;B=150" /\
  ser_matrix false "color" obj = ";color=R,100,G,200,B,150" /\
  ser_label false blue = ".blue" /\
  ser_label true arr = ".blue.black.brown" /\
  ser_label false arr = ".blue,black,brown" /\
  ser_label true obj = ".R=100.G=200.B=150" /\
  ser_label false obj = ".R,100,G,200,B,150" /\
  ser_simple false arr = "blue,black,brown" /\
  ser_simple true obj = "R=100,G=200,B=150" /\
  ser_simple false obj = "R,100,G,200,B,150" /\
  ser_query Form true "color" arr = [("color", "blue"); ("color", "black"); ("color", "brown")] /\
  ser_query Form false "color" arr = [("color", "blue,black,brown")] /\
  ser_query Form true "color" obj = [("R", "100"); ("G", "200"); ("B", "150")] /\
  ser_query Form false "color" obj = [("color", "R,100,G,200,B,150")] /\
  ser_query DeepObject true "color" obj = [("color[R]", "100"); ("color[G]", "200"); ("color[B]", "150")].
Proof. vm_compute. repeat split. Qed.
Print Assumptions C05_spec_examples.

(** A conforming server can recover the value from the table's form (interoperability with
    third-party peers): the table is injective on unambiguous values. *)
Theorem C05_table_is_decodable_simple : forall explode v,
  nonempty v -> clean [comma; "="%char] v ->
  parse_simple explode (shape_of v) (ser_simple explode v) = Some v.
Proof. exact simple_roundtrip. Qed.
Print Assumptions C05_table_is_decodable_simple.

Theorem C05_table_is_decodable_form : forall explode name v,
  nonempty v -> clean [comma; "="%char] v ->
  parse_query Form explode name (shape_of v) (ser_query Form explode name v) = Some v.
Proof. exact form_roundtrip. Qed.
Print Assumptions C05_table_is_decodable_form.
