(** C11 — Enum constants are complete and carry the exact specification values.
    Proofs in Proofs/EnumProofs.v. [norm] and [norm2] (the name normalisers) are arbitrary
    functions: the theorems hold for all four normalisers and any future one. *)
From Coq Require Import List String Ascii Bool Arith.
From V Require Import Model.Enum Proofs.EnumProofs.
Import ListNotations.
Local Open Scope string_scope.

(** Under the guard — the de-duplicated names give pairwise distinct keys in both renaming
    stages — every value has exactly one constant, in order ... *)
Theorem C11_complete : forall norm norm2 names values,
  List.length names = List.length values -> NoDup names ->
  let keys := stage2_keys norm [] names in
  NoDup keys -> NoDup (map norm2 keys) ->
  enum_constants norm norm2 names values = combine (map norm2 keys) values.
Proof. exact enum_complete. Qed.
Print Assumptions C11_complete.

(** ... so the constants' values are exactly the specification's values: none lost, none
    merged, none invented. *)
Theorem C11_values_preserved : forall norm norm2 names values,
  List.length names = List.length values -> NoDup names ->
  NoDup (stage2_keys norm [] names) -> NoDup (map norm2 (stage2_keys norm [] names)) ->
  map snd (enum_constants norm norm2 names values) = values.
Proof. exact enum_values_preserved. Qed.
Print Assumptions C11_values_preserved.

(** Constant names of one enum are pairwise distinct, guard or no guard. *)
Theorem C11_names_distinct : forall norm norm2 names values,
  NoDup (map fst (enum_constants norm norm2 names values)).
Proof. exact enum_names_distinct. Qed.
Print Assumptions C11_names_distinct.

(** Without the guard values ARE lost on the faithful model (both reproduced on the real code:
    known findings): the statement "never by dropping or merging a value" is refuted. *)
Theorem C11_suffix_collision_refuted :
  let norm := table [("foo1", "Foo1"); ("Foo", "Foo"); ("foo", "Foo")] in
  map snd (enum_constants norm (fun s => s) ["foo1"; "Foo"; "foo"] ["foo1"; "Foo"; "foo"]) = ["foo"; "Foo"].
Proof. exact suffix_collision_refuted. Qed.
Print Assumptions C11_suffix_collision_refuted.

Theorem C11_empty_collision_refuted :
  let norm2 := table [("", "Empty"); ("Empty", "Empty")] in
  stage3 norm2 [("Empty", ""); ("", " ")] = [("Empty", " ")] /\
  stage3 norm2 [("", " "); ("Empty", "")] = [("Empty", "")].
Proof. exact empty_collision_refuted. Qed.
Print Assumptions C11_empty_collision_refuted.

(** The compiled value of a string constant equals the specification's value, for every value:
    quotes, backslashes, tabs and newlines included (after the repair; the unescaped rendering of
    the original template is refuted below). *)
Theorem C11_value_exact : forall v, go_unquote (quote v) = Some v.
Proof. exact quote_faithful. Qed.
Print Assumptions C11_value_exact.

Theorem C11_unescaped_rendering_refuted :
  go_unquote (render (String "a" (String "092" (String "t" (String "b" ""))))) = Some (String "a" (String "009" (String "b" "")))
  /\ go_unquote (render (String "a" (String "034" (String "b" "")))) = None.
Proof. split; [exact render_backslash_refuted|exact render_quote_refuted]. Qed.
Print Assumptions C11_unescaped_rendering_refuted.

Example C11_example :
  let norm := table [("a-b", "AB"); ("a_b", "AB"); ("c", "C")] in
  enum_constants norm (fun s => s) ["a-b"; "a_b"; "c"] ["a-b"; "a_b"; "c"] = [("AB", "a-b"); ("AB1", "a_b"); ("C", "c")].
Proof. vm_compute. reflexivity. Qed.

(** The cross-enum conflict pass (Model/EnumConflict.v, proofs in Proofs/EnumConflictProofs.v). *)
From V Require Import Model.EnumConflict Proofs.EnumConflictProofs.

Theorem C11_conflict_pass_keeps_enums : forall always types enums, map fst (resolve always types enums) = enums.
Proof. exact resolve_keeps_enums. Qed.
Print Assumptions C11_conflict_pass_keeps_enums.

(** nothing clashes -> nothing is renamed *)
Theorem C11_no_clash_no_prefix : forall types enums,
  pairwise_disjoint enums -> Forall (fun e => quiet types e = true) enums ->
  resolve false types enums = map (fun e => (e, false)) enums.
Proof. exact no_clash_no_prefix. Qed.
Print Assumptions C11_no_clash_no_prefix.

(** clashes between two enums, and between an enum and a type name, are resolved by prefixing *)
Theorem C11_shared_name_prefixes_both : forall types e1 e2,
  shares (snd e1) (snd e2) = true -> map snd (resolve false types [e1; e2]) = [true; true].
Proof. exact shared_name_prefixes_both. Qed.
Print Assumptions C11_shared_name_prefixes_both.

Theorem C11_type_name_clash_prefixes : forall types e,
  existsb (fun tp => mem tp (snd e)) types = true \/ mem (fst e) (snd e) = true ->
  map snd (resolve false types [e]) = [true].
Proof. exact type_name_clash_prefixes. Qed.
Print Assumptions C11_type_name_clash_prefixes.

(** "all constant names in the package are distinct" is REFUTED for three enums (single sweep) and for type
    names one of which is a prefix of the other; both reproduced on the real code (known findings). *)
Theorem C11_single_sweep_refuted :
  let enums := [("Color", ["Red"]); ("Dpaint", ["ColorRed"]); ("Light", ["Red"])]%string in
  map snd (resolve false [] enums) = [true; false; true] /\ ~ NoDup (constants (resolve false [] enums)).
Proof. exact single_sweep_refuted. Qed.
Print Assumptions C11_single_sweep_refuted.

Theorem C11_prefix_ambiguity_refuted :
  let enums := [("A", ["BRed"; "X"]); ("AB", ["Red"; "X"])]%string in
  map snd (resolve false [] enums) = [true; true] /\ ~ NoDup (constants (resolve false [] enums)).
Proof. exact prefix_ambiguity_refuted. Qed.
Print Assumptions C11_prefix_ambiguity_refuted.

(** What the single sweep does guarantee: any two enums that both keep their plain constant names have no
    constant name in common. *)
Theorem C11_unprefixed_enums_are_disjoint : forall always types enums, unprefixed_disjoint (resolve always types enums).
Proof. exact unprefixed_enums_are_disjoint. Qed.
Print Assumptions C11_unprefixed_enums_are_disjoint.

(** The old-enum-conflicts arm (the key of the empty value is forced to Empty): complete under its guard, names
    always distinct, and the guard fails on the unchanged code for [empty; ""] (known finding). *)
Theorem C11_old_arm_complete : forall norm pathname names values,
  List.length names = List.length values -> NoDup names ->
  let keys := stage2_keys norm [] names in
  let finals := map (fun kv => pathname (old_key kv)) (combine keys values) in
  NoDup keys -> NoDup finals ->
  enum_constants_old norm pathname names values = combine finals values.
Proof. exact enum_old_complete. Qed.
Print Assumptions C11_old_arm_complete.

Theorem C11_old_arm_values_preserved : forall norm pathname names values,
  List.length names = List.length values -> NoDup names ->
  NoDup (stage2_keys norm [] names) ->
  NoDup (map (fun kv => pathname (old_key kv)) (combine (stage2_keys norm [] names) values)) ->
  map snd (enum_constants_old norm pathname names values) = values.
Proof. exact enum_old_values_preserved. Qed.
Print Assumptions C11_old_arm_values_preserved.

Theorem C11_old_arm_names_distinct : forall norm pathname names values,
  NoDup (map fst (enum_constants_old norm pathname names values)).
Proof. exact enum_old_names_distinct. Qed.
Print Assumptions C11_old_arm_names_distinct.

Theorem C11_old_arm_empty_refuted :
  let norm := table [("empty", "Empty"); ("", "Empty")] in
  let pathname := fun k => ("Color" ++ k)%string in
  stage2 norm (stage1 [] (combine ["empty"; ""] ["empty"; ""])) = [("Empty", "empty"); ("Empty1", "")] /\
  stage3_old pathname [("Empty", "empty"); ("Empty1", "")] = [("ColorEmpty", "")] /\
  stage3_old pathname [("Empty1", ""); ("Empty", "empty")] = [("ColorEmpty", "empty")].
Proof. exact old_conflicts_empty_refuted. Qed.
Print Assumptions C11_old_arm_empty_refuted.

(** "all constant names are valid identifiers" is REFUTED for names made of an underscore and digits: the chain
    SchemaNameToTypeName, SanitizeGoIdentity, SchemaNameToTypeName leaves nothing of _1 and the digit 2 of _12
    (known finding; the chain itself is tied to the code on every ASCII name of the run). *)
From V Require Import Model.Names Proofs.NamesProofs.
Theorem C11_underscore_digit_chain_refuted :
  enum_name_chain "_1" = [] /\
  map fst (enum_name_chain "_12") = codes_of "2" /\ ident_shape (enum_name_chain "_12") = false /\
  map fst (enum_name_chain "a-1") = codes_of "A1" /\ ident_shape (enum_name_chain "a-1") = true.
Proof. exact underscore_digit_chain_refuted. Qed.
Print Assumptions C11_underscore_digit_chain_refuted.
