(** Obligation tying the strict Visit functions that write through an http.ResponseWriter (strict-interface.tmpl,
    regenerated from the template text on every run) to the criterion of Model/Writer.v: in every Visit function each
    Header().Set comes before the first WriteHeader / body write. *)
From Coq Require Import List String Bool.
From V Require Import Model.Writer Gen.VisitOrder.
Import ListNotations.

Theorem visit_functions_set_headers_first :
  forallb (fun p => tokens_ok (snd p)) visit_sequences = true /\ Nat.leb 2 (List.length visit_sequences) = true /\
  existsb (fun p => existsb (fun t => match t with TSet => true | _ => false end) (snd p)) visit_sequences = true.
Proof. vm_compute. repeat split; reflexivity. Qed.
