From Coq Require Import List String Ascii Bool Arith Lia.
From V Require Import Model.OasTable.
Import ListNotations.
Local Open Scope string_scope.

(** * split / join *)

Lemma split_on_no_sep c s : contains c s = false -> split_on c s = [s].
Proof.
  induction s as [|a r IH]; simpl; intros H; [reflexivity|].
  apply orb_false_iff in H. destruct H as [H1 H2]. rewrite H1, (IH H2). reflexivity.
Qed.

Lemma split_on_app c x r :
  contains c x = false ->
  split_on c (x ++ String c r) = x :: split_on c r.
Proof.
  induction x as [|a x IH]; cbn [append split_on contains]; intros H.
  - rewrite Ascii.eqb_refl. reflexivity.
  - apply orb_false_iff in H. destruct H as [H1 H2]. rewrite H1, (IH H2). reflexivity.
Qed.

Theorem split_join c : forall l,
  l <> [] -> (forall x, In x l -> contains c x = false) -> split_on c (join (sep1 c) l) = l.
Proof.
  induction l as [|x l IH]; intros Hne H; [congruence|].
  destruct l as [|y l].
  - simpl. apply split_on_no_sep. apply H. left. reflexivity.
  - change (join (sep1 c) (x :: y :: l)) with (x ++ String c (join (sep1 c) (y :: l))).
    rewrite split_on_app by (apply H; left; reflexivity).
    f_equal. apply IH; [discriminate|]. intros z Hz. apply H. right. exact Hz.
Qed.

Lemma split_once_kv c k v : contains c k = false -> split_once c (kv c (k, v)) = Some (k, v).
Proof.
  unfold kv, sep1. cbn [fst snd].
  change (String c "" ++ v) with (String c v).
  induction k as [|a k IH]; cbn [append split_once contains]; intros H.
  - rewrite Ascii.eqb_refl. reflexivity.
  - apply orb_false_iff in H. destruct H as [H1 H2]. rewrite H1, (IH H2). reflexivity.
Qed.

Lemma contains_app c a b : contains c (a ++ b) = contains c a || contains c b.
Proof. induction a as [|x a IH]; simpl; [reflexivity|]. rewrite IH, orb_assoc. reflexivity. Qed.

Lemma contains_kv sep k v :
  contains sep (kv "=" (k, v)) = contains sep k || (Ascii.eqb "=" sep || contains sep v).
Proof.
  unfold kv, sep1. cbn [fst snd]. rewrite contains_app.
  change (String "=" "" ++ v) with (String "="%char v). reflexivity.
Qed.

Lemma pair_up_flat l : pair_up (flat l) = Some l.
Proof. induction l as [|[k v] l IH]; simpl; [reflexivity|]. rewrite IH. reflexivity. Qed.

Lemma flat_nonempty l : l <> [] -> flat l <> [].
Proof. destruct l as [|[k v] l]; [congruence|discriminate]. Qed.

Lemma traverse_kv c l :
  (forall p, In p l -> contains c (fst p) = false) ->
  traverse (split_once c) (map (kv c) l) = Some l.
Proof.
  induction l as [|[k v] l IH]; intros H; simpl; [reflexivity|].
  rewrite (split_once_kv c k v) by (apply (H (k, v)); left; reflexivity).
  rewrite IH by (intros p Hp; apply H; right; exact Hp). reflexivity.
Qed.

(** * Round trip of the body, for any separator *)

Lemma in_flat_iff l a : In a (flat l) <-> exists p, In p l /\ (a = fst p \/ a = snd p).
Proof.
  unfold flat. rewrite in_flat_map. split.
  - intros [p [Hp Ha]]. exists p. split; [exact Hp|]. simpl in Ha. destruct Ha as [<-|[<-|[]]]; auto.
  - intros [p [Hp [->| ->]]]; exists p; split; auto; simpl; auto.
Qed.

Theorem body_roundtrip sep explode v :
  sep <> "="%char -> nonempty v -> clean [sep; "="%char] v ->
  parse_body sep explode (shape_of v) (body sep explode v) = Some v.
Proof.
  intros Hsep Hne Hcl. destruct v as [a|l|l]; simpl.
  - reflexivity.
  - rewrite split_join; [reflexivity|exact Hne|].
    intros x Hx. apply (Hcl x Hx sep). left. reflexivity.
  - destruct explode.
    + rewrite split_join.
      * rewrite traverse_kv; [reflexivity|]. intros p Hp.
        apply (Hcl (fst p)); [apply in_flat_iff; exists p; auto|right; left; reflexivity].
      * destruct l; [simpl in Hne; congruence|discriminate].
      * intros x Hx. apply in_map_iff in Hx. destruct Hx as [[k v] [<- Hp]].
        rewrite contains_kv.
        assert (Hk : contains sep k = false) by (apply (Hcl k); [apply in_flat_iff; exists (k, v); auto|left; reflexivity]).
        assert (Hv : contains sep v = false) by (apply (Hcl v); [apply in_flat_iff; exists (k, v); auto|left; reflexivity]).
        rewrite Hk, Hv. cbn [orb]. rewrite orb_false_r.
        destruct (Ascii.eqb "=" sep) eqn:E; [|reflexivity].
        apply Ascii.eqb_eq in E. congruence.
    + rewrite split_join; [rewrite pair_up_flat; reflexivity|apply flat_nonempty; exact Hne|].
      intros x Hx. apply (Hcl x Hx sep). left. reflexivity.
Qed.

(** * The table's single-string styles round-trip on unambiguous values *)

Lemma comma_ne : comma <> "="%char. Proof. discriminate. Qed.
Lemma dot_ne : dot <> "="%char. Proof. discriminate. Qed.

Theorem simple_roundtrip explode v :
  nonempty v -> clean [comma; "="%char] v ->
  parse_simple explode (shape_of v) (ser_simple explode v) = Some v.
Proof. intros. apply body_roundtrip; auto. exact comma_ne. Qed.

Theorem label_roundtrip explode v :
  nonempty v -> clean [label_sep explode; "="%char] v ->
  parse_label explode (shape_of v) (ser_label explode v) = Some v.
Proof.
  intros Hne Hcl. unfold parse_label, ser_label. simpl.
  apply body_roundtrip; auto. destruct explode; [exact dot_ne|exact comma_ne].
Qed.

(** * Query positions *)

Lemma filter_all {A} (f : A -> bool) l : (forall x, In x l -> f x = true) -> filter f l = l.
Proof.
  induction l as [|x l IH]; intros H; simpl; [reflexivity|].
  rewrite (H x) by (left; reflexivity). f_equal. apply IH. intros y Hy. apply H. right. exact Hy.
Qed.

Theorem form_roundtrip explode name v :
  nonempty v -> clean [comma; "="%char] v ->
  parse_query Form explode name (shape_of v) (ser_query Form explode name v) = Some v.
Proof.
  intros Hne Hcl. destruct v as [a|l|l]; cbn [ser_query parse_query shape_of].
  - cbn [filter fst snd]. rewrite String.eqb_refl. reflexivity.
  - destruct explode; cbv iota.
    + rewrite filter_all.
      * rewrite map_map. cbn [snd]. rewrite map_id. reflexivity.
      * intros x Hx. apply in_map_iff in Hx. destruct Hx as [a [<- _]]. cbn [fst]. apply String.eqb_refl.
    + cbn [filter fst snd]. rewrite String.eqb_refl. cbv iota. cbn [snd].
      change (join "," l) with (join (sep1 comma) l).
      rewrite split_join; [reflexivity|exact Hne|].
      intros x Hx. apply (Hcl x Hx comma). left. reflexivity.
  - destruct explode.
    + reflexivity.
    + cbn [filter fst snd]. rewrite String.eqb_refl. cbv iota. cbn [snd].
      change (join "," (flat l)) with (join (sep1 comma) (flat l)).
      rewrite split_join; [rewrite pair_up_flat; reflexivity|apply flat_nonempty; exact Hne|].
      intros x Hx. apply (Hcl x Hx comma). left. reflexivity.
Qed.

(** * Defaults (finite) *)
Theorem defaults_match_oas :
  default_style LPath = Simple /\ default_style LHeader = Simple /\
  default_style LQuery = Form /\ default_style LCookie = Form /\
  default_explode Form = true /\ default_explode Simple = false /\
  default_explode Label = false /\ default_explode Matrix = false.
Proof. repeat split. Qed.

(** * matrix *)
Lemma strip_prefix_app p s : strip_prefix p (p ++ s) = Some s.
Proof. induction p as [|a p IH]; simpl; [destruct s; reflexivity|]. rewrite Ascii.eqb_refl. exact IH. Qed.

Lemma semi_ne : semi <> "="%char. Proof. discriminate. Qed.

Lemma join_prefixed {A} (f : A -> string) : forall (l : list A), l <> [] ->
  join "" (map (fun a => ";" ++ f a) l) = ";" ++ join (sep1 semi) (map f l).
Proof.
  induction l as [|x l IH]; intros H; [congruence|]. destruct l as [|y l].
  - reflexivity.
  - change (join "" (map (fun a => ";" ++ f a) (x :: y :: l)))
      with ((";" ++ f x) ++ "" ++ join "" (map (fun a => ";" ++ f a) (y :: l))).
    rewrite IH by discriminate.
    change (join (sep1 semi) (map f (x :: y :: l))) with (f x ++ sep1 semi ++ join (sep1 semi) (map f (y :: l))).
    simpl. reflexivity.
Qed.

Lemma traverse_strip p l : traverse (strip_prefix p) (map (fun a => p ++ a) l) = Some l.
Proof. induction l as [|x l IH]; simpl; [reflexivity|]. rewrite strip_prefix_app, IH. reflexivity. Qed.

Lemma strip_name name x : strip_prefix (name ++ "=") (name ++ String "="%char x) = Some x.
Proof. induction name as [|c n IH]; simpl; [destruct x; reflexivity|]. rewrite Ascii.eqb_refl. exact IH. Qed.

Lemma traverse_strip_name name l :
  traverse (strip_prefix (name ++ "=")) (map (fun a => name ++ String "="%char a) l) = Some l.
Proof. induction l as [|x l IH]; simpl; [reflexivity|]. rewrite strip_name, IH. reflexivity. Qed.

Lemma append_assoc_s (a b c : string) : (a ++ b) ++ c = a ++ (b ++ c).
Proof. induction a as [|x a IH]; simpl; [reflexivity|]. rewrite IH. reflexivity. Qed.

Theorem matrix_roundtrip explode name v :
  nonempty v -> clean [comma; semi; "="%char] v -> contains semi name = false ->
  parse_matrix explode name (shape_of v) (ser_matrix explode name v) = Some v.
Proof.
  intros Hne Hcl Hname.
  assert (Hcomma : clean [comma; "="%char] v).
  { intros a Ha c [<-|[<-|[]]]; apply (Hcl a Ha); simpl; auto. }
  destruct v as [a|l|l]; destruct explode; cbn [ser_matrix shape_of].
  - (* primitive *) unfold parse_matrix. cbn [append]. rewrite strip_name. reflexivity.
  - unfold parse_matrix. cbn [append]. rewrite strip_name. reflexivity.
  - (* array, exploded *)
    rewrite (join_prefixed (fun a => name ++ "=" ++ a)) by exact Hne.
    unfold parse_matrix.
    change (";" ++ join (sep1 semi) (map (fun a => name ++ "=" ++ a) l))
      with (String ";"%char (join (sep1 semi) (map (fun a => name ++ String "="%char a) l))).
    cbv iota.
    rewrite split_join.
    + rewrite traverse_strip_name. reflexivity.
    + destruct l; [simpl in Hne; congruence|discriminate].
    + intros x Hx. apply in_map_iff in Hx. destruct Hx as [a [<- Ha]].
      rewrite contains_app, Hname. cbn [orb contains].
      rewrite (Hcl a Ha semi) by (simpl; auto). reflexivity.
  - (* array, not exploded *)
    unfold parse_matrix. cbn [append]. rewrite strip_name.
    apply (body_roundtrip comma false (VArr l)); [exact comma_ne|exact Hne|exact Hcomma].
  - (* object, exploded *)
    rewrite (join_prefixed (kv "=")) by exact Hne.
    unfold parse_matrix. cbn [append].
    rewrite split_join.
    + rewrite traverse_kv; [reflexivity|]. intros p Hp.
      apply (Hcl (fst p)); [apply in_flat_iff; exists p; auto|simpl; auto].
    + destruct l; [simpl in Hne; congruence|discriminate].
    + intros x Hx. apply in_map_iff in Hx. destruct Hx as [[k w] [<- Hp]].
      rewrite contains_kv.
      rewrite (Hcl k) by (try (apply in_flat_iff; exists (k, w); auto); simpl; auto).
      rewrite (Hcl w) by (try (apply in_flat_iff; exists (k, w); auto); simpl; auto).
      reflexivity.
  - (* object, not exploded *)
    unfold parse_matrix. cbn [append]. rewrite strip_name.
    apply (body_roundtrip comma false (VObj l)); [exact comma_ne|exact Hne|exact Hcomma].
Qed.

(** * deepObject *)
Lemma prefix_app a b : String.prefix a (a ++ b) = true.
Proof.
  induction a as [|c a IH]; simpl; [destruct b; reflexivity|].
  destruct (ascii_dec c c); [exact IH|congruence].
Qed.

Lemma substring_skip : forall a b m, substring (String.length a) m (a ++ b) = substring 0 m b.
Proof. induction a as [|c a IH]; intros b m; simpl; [reflexivity|apply IH]. Qed.

Lemma substring_all : forall b m, String.length b <= m -> substring 0 m b = b.
Proof.
  induction b as [|c b IH]; intros m H.
  - destruct m; reflexivity.
  - destruct m; [simpl in H; lia|]. simpl. rewrite IH; [reflexivity|simpl in H; lia].
Qed.

Lemma length_app_s (a b : string) : String.length (a ++ b) = String.length a + String.length b.
Proof. induction a as [|c a IH]; simpl; [reflexivity|]. rewrite IH. reflexivity. Qed.

Definition rbracket : ascii := "]".

Theorem deep_object_roundtrip explode name l :
  (forall p, In p l -> contains rbracket (fst p) = false) ->
  parse_query DeepObject explode name SObj (ser_query DeepObject explode name (VObj l)) = Some (VObj l).
Proof.
  intros Hk. cbn [ser_query parse_query]. f_equal. f_equal.
  induction l as [|[k w] l IH]; [reflexivity|].
  cbn [map flat_map fst snd].
  replace (name ++ "[" ++ k ++ "]") with ((name ++ "[") ++ (k ++ "]")) by apply append_assoc_s.
  rewrite prefix_app, substring_skip, substring_all by (rewrite !length_app_s; lia).
  change (k ++ "]") with (kv rbracket (k, "")).
  rewrite split_once_kv by (apply (Hk (k, w)); left; reflexivity).
  cbn [app]. f_equal. apply IH. intros p Hp. apply Hk. right. exact Hp.
Qed.
