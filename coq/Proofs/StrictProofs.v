From Coq Require Import List String Bool Arith.
From V Require Import Model.Strict.
Import ListNotations.
Local Open Scope string_scope.

(** The written status is the declared one, or the supplied one when none is declared
    (ranges, default). *)
Theorem visit_status r v :
  w_status (visit r v) = match r_fixed_status r with Some n => n | None => s_status v end.
Proof. reflexivity. Qed.

Theorem visit_ctype r v c :
  r_content r = Some c ->
  w_ctype (visit r v) = Some (if c_fixed_type c then c_type c else s_ctype v).
Proof. intros H. unfold visit. rewrite H. reflexivity. Qed.

(** Every declared header is written, with the supplied value; no other header is. *)
Theorem visit_headers r v : map fst (w_headers (visit r v)) = r_headers r.
Proof. unfold visit. simpl. rewrite map_map. simpl. apply map_id. Qed.

Theorem visit_body r v : w_body (visit r v) = if is_some (r_content r) then Some (s_body v) else None.
Proof. unfold visit. simpl. destruct (r_content r); reflexivity. Qed.

(** The five-way shape decision leaves a field for everything the writer needs from the
    handler: if the status is not declared the type has a StatusCode field; if headers are
    declared it has (or embeds) Headers; if the media type is a wildcard it has a ContentType
    field — the last one only for media types without a name tag (image/STAR, STAR/STAR: the common
    wildcards) and responses that are not fixed-status references. The text/plain shape [ShText]
    is an exception to all three (refuted below), a tagged wildcard type (application/STAR+json,
    multipart/STAR) to the third (refuted below). *)
Theorem shape_supplies_what_visit_reads r :
  shape_of r <> ShText ->
  (r_fixed_status r = None -> can_supply_status (shape_of r) = true) /\
  (forall c, r_content r = Some c -> c_fixed_type c = false -> supported (c_tag c) = false ->
             (r_is_ref r = false \/ r_fixed_status r = None) -> can_supply_ctype (shape_of r) = true) /\
  (r_headers r <> [] -> can_supply_headers (shape_of r) = true).
Proof.
  intros Hne. unfold shape_of in *.
  destruct r as [fs hs isref ct]; simpl in *.
  destruct ct as [[t ty fixed]|]; simpl in *.
  - destruct t; simpl in *; try congruence;
    destruct fs as [n|]; destruct hs as [|h hs]; destruct isref; destruct fixed; simpl;
    repeat split; intros; try discriminate; try reflexivity; try congruence;
    try (match goal with H : Some _ = Some _ |- _ => inversion H; subst; simpl in *; try discriminate; try reflexivity end);
    try (match goal with H : _ \/ _ |- _ => destruct H; discriminate end).
  - destruct fs as [n|]; destruct hs as [|h hs]; destruct isref; simpl;
    repeat split; intros; try discriminate; try reflexivity; try congruence.
Qed.

(** A wildcard media type that does get a name tag (application/STAR+json, multipart/STAR) with a
    fixed status and no headers is given an alias type: no field for the Content-Type the
    writer reads (the emitted Visit method does not compile). *)
Theorem tagged_wildcard_refuted :
  exists r c, r_content r = Some c /\ c_fixed_type c = false /\ shape_of r = ShAlias /\
              can_supply_ctype (shape_of r) = false.
Proof.
  exists {| r_fixed_status := Some 200; r_headers := []; r_is_ref := false;
            r_content := Some {| c_tag := TJson; c_type := "application/*+json"; c_fixed_type := false |} |}.
  eexists. repeat split.
Qed.

(** The exception is real: a text/plain response whose status is not fixed (default, NXX) or
    that declares headers gets [type T string] — no place for the status or the headers. *)
Theorem text_shape_refuted :
  exists r, shape_of r = ShText /\ r_fixed_status r = None /\ can_supply_status (shape_of r) = false.
Proof.
  exists {| r_fixed_status := None; r_headers := []; r_is_ref := false;
            r_content := Some {| c_tag := TText; c_type := "text/plain"; c_fixed_type := true |} |}.
  repeat split.
Qed.

(** Requests. *)
Theorem single_body_always_decoded b ct : bodies_decoded [b] ct = [b].
Proof. reflexivity. Qed.

Lemma is_prefix_refl s : is_prefix s s = true.
Proof. induction s as [|a s IH]; simpl; [reflexivity|]. rewrite Ascii.eqb_refl. exact IH. Qed.

(** With several declared bodies, a request whose Content-Type is exactly one of them decodes
    that one; and decodes only it when no other declared media type is a prefix of it. *)
Theorem declared_body_decoded declared b :
  In b declared -> In b (bodies_decoded declared b).
Proof.
  intros H. unfold bodies_decoded. destruct declared as [|x [|y l]].
  - contradiction.
  - destruct H as [->|[]]. left. reflexivity.
  - apply filter_In. split; [exact H|apply is_prefix_refl].
Qed.

Theorem only_prefix_bodies_decoded declared ct b :
  2 <= List.length declared -> In b (bodies_decoded declared ct) -> is_prefix b ct = true.
Proof.
  intros Hl H. unfold bodies_decoded in H. destruct declared as [|x [|y l]]; simpl in Hl.
  - inversion Hl.
  - inversion Hl as [|? H1]. inversion H1.
  - apply filter_In in H. apply H.
Qed.

(** * the tail of the strict wrapper *)
Lemma error_path_iff : forall res, deliver res = OErrorPath <-> (res = RError \/ res = RForeign).
Proof. intros res. destruct res; cbn; split; intros H; try discriminate H; auto; destruct H as [H|H]; discriminate H. Qed.

Lemma visited_iff : forall res, deliver res = OVisited <-> res = RValid.
Proof. intros res. destruct res; cbn; split; intros H; try discriminate H; auto. Qed.

Lemma falling_through_refuted : deliver_falling_through RForeign <> OErrorPath.
Proof. discriminate. Qed.

(** * (value, error) pairs *)
Theorem error_decides : forall v, deliver_pair v true = [OErrorPath].
Proof. reflexivity. Qed.

Theorem visited_iff_valid_and_no_error : forall v err, In OVisited (deliver_pair v err) <-> (v = VValid /\ err = false).
Proof.
  intros v err. unfold deliver_pair. destruct err, v; simpl; split; intro H;
    try (destruct H as [H|H]; try discriminate; try contradiction);
    try (destruct H as [H1 H2]; discriminate); try contradiction; try (split; reflexivity); try (left; reflexivity).
Qed.

Theorem lost_else_refuted :
  deliver_pair VValid true = [OErrorPath] /\ deliver_pair_no_else VValid true = [OErrorPath; OVisited].
Proof. split; reflexivity. Qed.
