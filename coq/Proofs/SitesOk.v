(** Obligations tying the regenerated inventories (coq/Gen) to what the proofs assume. *)
From Coq Require Import List String Bool.
From V Require Import Model.Det Gen.Sites.
Import ListNotations.
Local Open Scope string_scope.

(** Every map range of pkg/codegen is a known site whose loop body still has the features of
    its proved shape. *)
Theorem sites_ok : forallb site_ok sites = true.
Proof. vm_compute. reflexivity. Qed.

(** The sites whose iteration order can reach the output unless a side condition holds are
    exactly the listed ones (each is a guard of C02's theorem or a known finding). *)
Theorem guarded_sites_listed :
  guarded_sites sites =
  [ ("Generate", "opts.OutputOptions.UserTemplates");
    ("GenerateTypesForRequestBodies", "response.Content");
    ("*EnumDefinition.GetValues", "e.Schema.EnumValues");
    ("GenerateGoSchema", "sanitizedValues");
    ("ParseGoImportExtension", "importI") ].
Proof. vm_compute. reflexivity. Qed.

