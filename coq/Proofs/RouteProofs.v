From Coq Require Import List String Bool Arith Permutation Lia.
From V Require Import Model.Route.
Import ListNotations.
Local Open Scope string_scope.

(** * Matching binds every variable to the segment at its position *)

Lemma match_template_vars : forall t path b,
  match_template t path = Some b -> map fst b = vars t.
Proof.
  induction t as [|[l|v] t IH]; intros [|s p] b H; simpl in H; try discriminate.
  - inversion H. reflexivity.
  - destruct (String.eqb l s); [|discriminate]. simpl. apply (IH p b H).
  - destruct (String.eqb s "") eqn:Es; [discriminate|].
    destruct (match_template t p) as [b'|] eqn:E; [|discriminate]. inversion H; subst.
    simpl. f_equal. apply (IH p b' E).
Qed.

Lemma match_template_length : forall t path b,
  match_template t path = Some b -> List.length path = List.length t.
Proof.
  induction t as [|[l|v] t IH]; intros [|s p] b H; simpl in H; try discriminate.
  - reflexivity.
  - destruct (String.eqb l s); [|discriminate]. simpl. f_equal. apply (IH p b H).
  - destruct (String.eqb s "") eqn:Es; [discriminate|].
    destruct (match_template t p) as [b'|] eqn:E; [|discriminate]. simpl. f_equal. apply (IH p b' E).
Qed.

(** The value bound to the i-th variable is the path segment at the position of that variable
    in the template; literal positions carry the literal. *)
Fixpoint instantiate (t : template) (vals : list string) : list string :=
  match t with
  | [] => []
  | SLit l :: r => l :: instantiate r vals
  | SVar _ :: r => match vals with v :: vs => v :: instantiate r vs | [] => [] end
  end.

Theorem match_instantiate : forall t vals,
  List.length vals = List.length (vars t) -> Forall (fun x => x <> "") vals ->
  match_template t (instantiate t vals) = Some (combine (vars t) vals).
Proof.
  induction t as [|[l|v] t IH]; intros vals H Hne; simpl in *.
  - destruct vals; [reflexivity|discriminate].
  - rewrite String.eqb_refl. apply IH; assumption.
  - destruct vals as [|x vals]; [discriminate|]. simpl.
    inversion Hne as [|? ? Hx Hrest]; subst.
    destruct (String.eqb x "") eqn:Ex; [apply String.eqb_eq in Ex; contradiction|].
    rewrite IH by (try (simpl in H; lia); assumption). reflexivity.
Qed.

(** an empty segment where the template has a variable matches nothing *)
Theorem empty_variable_segment_matches_nothing : forall (pre : template) v (post : template) (ppre ppost : list string),
  List.length ppre = List.length pre ->
  match_template (pre ++ SVar v :: post)%list (ppre ++ "" :: ppost)%list = None.
Proof.
  induction pre as [|[l|w] pre IH]; intros v post ppre ppost Hlen.
  - destruct ppre; [reflexivity|discriminate].
  - destruct ppre as [|s ppre]; [discriminate|]. simpl. destruct (String.eqb l s); [|reflexivity].
    apply IH. simpl in Hlen. lia.
  - destruct ppre as [|s ppre]; [discriminate|]. simpl. destruct (String.eqb s ""); [reflexivity|].
    rewrite IH by (simpl in Hlen; lia). reflexivity.
Qed.

Theorem match_complete : forall t path b,
  match_template t path = Some b -> path = instantiate t (map snd b).
Proof.
  induction t as [|[l|v] t IH]; intros [|s p] b H; simpl in H; try discriminate.
  - reflexivity.
  - destruct (String.eqb l s) eqn:E; [|discriminate]. apply String.eqb_eq in E. subst.
    simpl. f_equal. apply IH. exact H.
  - destruct (String.eqb s "") eqn:Es; [discriminate|].
    destruct (match_template t p) as [b'|] eqn:E; [|discriminate]. inversion H; subst.
    simpl. f_equal. apply IH. exact E.
Qed.

(** By name: with distinct variable names, looking a variable up in the bindings gives the
    value at that variable's position. *)
Lemma lookup_combine : forall names vals i v x,
  NoDup names -> List.length names = List.length vals ->
  nth_error names i = Some v -> nth_error vals i = Some x ->
  lookup (combine names vals) v = Some x.
Proof.
  induction names as [|n names IH]; intros vals i v x Hnd Hlen Hn Hv.
  - destruct i; discriminate.
  - destruct vals as [|y vals]; [discriminate|]. destruct i as [|i]; simpl in *.
    + inversion Hn; inversion Hv; subst. unfold lookup. simpl. rewrite String.eqb_refl. reflexivity.
    + inversion Hnd as [|? ? Hnotin Hnd']; subst.
      unfold lookup. simpl. destruct (String.eqb n v) eqn:E.
      * apply String.eqb_eq in E. subst. exfalso. apply Hnotin. eapply nth_error_In. exact Hn.
      * apply (IH vals i v x Hnd'); auto.
Qed.

Theorem args_follow_names t vals i v x :
  NoDup (vars t) -> List.length vals = List.length (vars t) -> Forall (fun y => y <> "") vals ->
  nth_error (vars t) i = Some v -> nth_error vals i = Some x ->
  exists b, match_template t (instantiate t vals) = Some b /\ lookup b v = Some x /\ map snd b = vals.
Proof.
  intros Hnd Hlen Hne Hv Hx. exists (combine (vars t) vals). split; [apply match_instantiate; assumption|].
  split; [apply (lookup_combine (vars t) vals i v x); auto|].
  clear -Hlen. revert vals Hlen. induction (vars t) as [|n ns IH]; intros [|y vals] H; simpl in *; try discriminate; try reflexivity.
  f_equal. apply IH. lia.
Qed.

(** * SortParamsByPath *)

Section Sort.
Context {P : Type} (name_of : P -> string).

Lemma collect_names : forall names ps l,
  collect name_of names ps = Some l -> map name_of l = names.
Proof.
  induction names as [|n names IH]; intros ps l H; simpl in H.
  - inversion H. reflexivity.
  - destruct (find_param name_of n ps) as [p|] eqn:Ep; [|discriminate].
    destruct (collect name_of names ps) as [l'|] eqn:El; [|discriminate].
    inversion H; subst. simpl. f_equal.
    + unfold find_param in Ep. apply find_some in Ep. apply String.eqb_eq. apply Ep.
    + apply (IH ps l' El).
Qed.

Lemma collect_in : forall names ps l,
  collect name_of names ps = Some l -> incl l ps.
Proof.
  induction names as [|n names IH]; intros ps l H; simpl in H.
  - inversion H. intros x Hx. contradiction.
  - destruct (find_param name_of n ps) as [p|] eqn:Ep; [|discriminate].
    destruct (collect name_of names ps) as [l'|] eqn:El; [|discriminate].
    inversion H; subst. intros x [Hx|Hx].
    + subst. unfold find_param in Ep. apply find_some in Ep. apply Ep.
    + apply (IH ps l' El x Hx).
Qed.

(** The result lists the parameters in path order whatever the declaration order, and
    contains only declared parameters. *)
Theorem sort_params_path_order t declared l :
  sort_params_by_path name_of t declared = Some l ->
  map name_of l = vars t /\ incl l declared.
Proof.
  unfold sort_params_by_path. destruct (Nat.eqb _ _); [|discriminate]. intros H.
  split; [apply (collect_names _ _ _ H)|apply (collect_in _ _ _ H)].
Qed.

Lemma find_param_perm : forall n ps ps',
  Permutation ps ps' -> NoDup (map name_of ps) ->
  find_param name_of n ps = find_param name_of n ps'.
Proof.
  intros n ps ps' H. unfold find_param.
  induction H as [|x l l' _ IH|x y l|l l' l'' H1 IH1 H2 IH2]; intros Hnd; simpl.
  - reflexivity.
  - destruct (String.eqb (name_of x) n); [reflexivity|]. apply IH. inversion Hnd; assumption.
  - destruct (String.eqb (name_of y) n) eqn:Ey, (String.eqb (name_of x) n) eqn:Ex; try reflexivity.
    apply String.eqb_eq in Ey, Ex. exfalso. inversion Hnd as [|? ? Hnotin _]; subst.
    apply Hnotin. simpl. left. congruence.
  - rewrite IH1 by exact Hnd. apply IH2.
    eapply Permutation_NoDup; [apply Permutation_map; exact H1|exact Hnd].
Qed.

(** Declaration order is irrelevant. *)
Theorem sort_params_perm t declared declared' :
  Permutation declared declared' -> NoDup (map name_of declared) ->
  sort_params_by_path name_of t declared = sort_params_by_path name_of t declared'.
Proof.
  intros Hp Hnd. unfold sort_params_by_path.
  rewrite (Permutation_length Hp). destruct (Nat.eqb _ _); [|reflexivity].
  induction (vars t) as [|n names IH]; simpl; [reflexivity|].
  rewrite (find_param_perm n _ _ Hp Hnd), IH. reflexivity.
Qed.

(** Success exactly when every path variable is declared and the counts agree. *)
Theorem sort_params_succeeds t declared :
  List.length (vars t) = List.length declared ->
  (forall v, In v (vars t) -> exists p, In p declared /\ name_of p = v) ->
  exists l, sort_params_by_path name_of t declared = Some l.
Proof.
  intros Hlen Hall. unfold sort_params_by_path. rewrite Hlen, Nat.eqb_refl.
  clear Hlen. induction (vars t) as [|n names IH]; simpl; [eexists; reflexivity|].
  destruct (Hall n (or_introl eq_refl)) as [p [Hp Hn]].
  destruct (find_param name_of n declared) as [q|] eqn:E.
  - destruct IH as [l Hl]; [intros v Hv; apply Hall; right; exact Hv|]. rewrite Hl. eexists; reflexivity.
  - exfalso. unfold find_param in E.
    apply (find_none _ _ E p) in Hp. rewrite Hn, String.eqb_refl in Hp. discriminate.
Qed.
End Sort.

(** * Dispatch *)

Lemma strip_prefix_app base p : strip_prefix base (base ++ p) = Some p.
Proof. induction base as [|x b IH]; simpl; [reflexivity|]. rewrite String.eqb_refl. exact IH. Qed.

(** A configured base URL is honoured: requests under the prefix are dispatched as the
    unprefixed request would be without a base URL. *)
Theorem base_url_prefix base rs m p :
  dispatch base rs m (base ++ p) = dispatch [] rs m p.
Proof. unfold dispatch. rewrite strip_prefix_app. reflexivity. Qed.

Lemma best_in : forall cands r, best cands = Some r -> In r cands.
Proof.
  induction cands as [|c cands IH]; intros r H; simpl in H; [discriminate|].
  destruct (best cands) as [r'|] eqn:E.
  - destruct (more_specific (r_tmpl r') (r_tmpl c)); inversion H; subst; [right; apply IH; reflexivity|left; reflexivity].
  - inversion H. left. reflexivity.
Qed.

(** Only requests whose method and path match an operation reach its handler. *)
Theorem dispatch_only_matching base rs m path op args :
  dispatch base rs m path = Some (op, args) ->
  exists r p, In r rs /\ r_op r = op /\ r_method r = m /\ strip_prefix base path = Some p /\
              match_template (r_tmpl r) p = Some (combine (vars (r_tmpl r)) args).
Proof.
  unfold dispatch. destruct (strip_prefix base path) as [p|]; [|discriminate].
  destruct (best (filter (matches m p) rs)) as [r|] eqn:E; [|discriminate].
  destruct (match_template (r_tmpl r) p) as [b|] eqn:Em; [|discriminate].
  intros H. inversion H; subst. apply best_in in E. apply filter_In in E. destruct E as [Hin Hm].
  exists r, p. repeat split; auto.
  - unfold matches in Hm. apply andb_true_iff in Hm. apply String.eqb_eq. apply Hm.
  - rewrite Em. f_equal. pose proof (match_template_vars _ _ _ Em) as Hv. rewrite <- Hv.
    clear. induction b as [|[k v] b IH]; simpl; [reflexivity|]. f_equal. exact IH.
Qed.

(** A request matching no operation reaches no handler. *)
Theorem no_match_no_handler base rs m path :
  (forall r p, In r rs -> strip_prefix base path = Some p -> matches m p r = false) ->
  dispatch base rs m path = None.
Proof.
  intros H. unfold dispatch. destruct (strip_prefix base path) as [p|] eqn:E; [|reflexivity].
  assert (Hf : filter (matches m p) rs = []).
  { induction rs as [|r rs IH]; simpl; [reflexivity|].
    rewrite (H r p (or_introl eq_refl) eq_refl). apply IH. intros r' p' Hin. apply H. right. exact Hin. }
  rewrite Hf. reflexivity.
Qed.

(** If exactly one route matches, it is the one dispatched to, with the path values as arguments
    in path order. *)
Theorem dispatch_exact rs m r vals :
  In r rs -> r_method r = m -> List.length vals = List.length (vars (r_tmpl r)) -> Forall (fun y => y <> "") vals ->
  (forall r', In r' rs -> r' <> r -> matches m (instantiate (r_tmpl r) vals) r' = false) ->
  (forall r', In r' rs -> r' = r \/ r' <> r) ->
  NoDup rs ->
  dispatch [] rs m (instantiate (r_tmpl r) vals) = Some (r_op r, vals).
Proof.
  intros Hin Hm Hlen Hnonempty Hothers Hdec Hnd. unfold dispatch. simpl.
  assert (Hf : filter (matches m (instantiate (r_tmpl r) vals)) rs = [r]).
  { clear Hdec. induction rs as [|x rs IH]; [contradiction|].
    inversion Hnd as [|? ? Hnotin Hnd']; subst. simpl. destruct Hin as [->|Hin].
    - unfold matches at 1. rewrite String.eqb_refl, match_instantiate by assumption. simpl.
      f_equal. assert (Hnone : forall l, (forall y, In y l -> In y rs) -> filter (matches (r_method r) (instantiate (r_tmpl r) vals)) l = []).
      { induction l as [|y l IHl]; intros Hl; simpl; [reflexivity|].
        rewrite Hothers; [apply IHl; intros z Hz; apply Hl; right; exact Hz| right; apply Hl; left; reflexivity|].
        intros ->. apply Hnotin. apply Hl. left. reflexivity. }
      apply Hnone. auto.
    - rewrite Hothers; [|left; reflexivity|intros ->; contradiction].
      apply IH; auto. intros r' Hr' Hne. apply Hothers; [right; exact Hr'|exact Hne]. }
  rewrite Hf. simpl. rewrite match_instantiate by assumption. f_equal. f_equal.
  clear -Hlen. revert vals Hlen. induction (vars (r_tmpl r)) as [|n ns IH]; intros [|y vals] H; simpl in *; try discriminate; try reflexivity.
  f_equal. apply IH. lia.
Qed.

(** A concrete path wins over a templated sibling that also matches. *)
Theorem literal_beats_variable m a b :
  r_method a = m -> r_method b = m ->
  more_specific (r_tmpl a) (r_tmpl b) = true ->
  forall p, matches m p a = true -> matches m p b = true ->
  option_map r_op (best (filter (matches m p) [b; a])) = Some (r_op a) /\
  option_map r_op (best (filter (matches m p) [a; b])) = Some (r_op a).
Proof.
  intros Ha Hb Hs p Hma Hmb. simpl. rewrite Hma, Hmb. simpl. rewrite Hs.
  split; [reflexivity|].
  destruct (more_specific (r_tmpl b) (r_tmpl a)) eqn:E; [|reflexivity].
  (* both cannot be more specific than the other *)
  exfalso. clear -Hs E. revert E Hs. generalize (r_tmpl b) as tb. induction (r_tmpl a) as [|[l|v] ta IH]; intros [|[l'|v'] tb] E Hs; simpl in *; try discriminate; eauto.
Qed.

(** * The router knows a variable under the name of the path template only. *)
Lemma match_binds_the_template_names : forall t path b, match_template t path = Some b -> map fst b = vars t.
Proof.
  induction t as [|[l|v] t IH]; intros [|s p] b H; simpl in H; try discriminate.
  - inversion H. reflexivity.
  - destruct (String.eqb l s); [|discriminate]. simpl. eapply IH. exact H.
  - destruct (String.eqb s ""); [discriminate|].
    destruct (match_template t p) as [b'|] eqn:E; [|discriminate]. inversion H; subst.
    simpl. f_equal. eapply IH. exact E.
Qed.

Theorem asked_under_another_name_nothing_found : forall t path b w,
  match_template t path = Some b -> ~ In w (vars t) -> lookup b w = None.
Proof.
  intros t path b w H Hw. apply match_binds_the_template_names in H. rewrite <- H in Hw. clear H.
  unfold lookup. induction b as [|[k x] b IH]; [reflexivity|]. simpl.
  destruct (String.eqb k w) eqn:E.
  - apply String.eqb_eq in E. subst. exfalso. apply Hw. left. reflexivity.
  - apply IH. intro Hin. apply Hw. right. exact Hin.
Qed.
