From Coq Require Import List NArith Bool String Ascii Arith Lia.
From V Require Import Model.Names.
Import ListNotations.

(** * Well-formed runes: the two facts about the unicode tables the theorems rest on.
    (1) the upper-case image of a lower-case letter is a letter;
    (2) a letter or a number is none of the ASCII punctuation marks the code tests for by value
        (separators, prefix characters, the dollar sign, the underscore).
    The harness evaluates [wf_runeb] on every rune of every case. *)
Definition wf (s : list rune) : Prop := Forall (fun r => wf_runeb r = true) s.

Definition alnum_out (r : orune) : bool := is_letter (snd r) || go_digit r.

Lemma wf_lower r : wf_runeb r = true -> cl r = Lower -> is_letter (snd (up r)) = true.
Proof. unfold wf_runeb. intros H E. rewrite E in H. simpl in H. apply andb_prop in H. apply H. Qed.

Lemma wf_alnum r : wf_runeb r = true -> alnum (cl r) = true ->
  is_sep (code r) = false /\ N.eqb (code r) 36 = false /\ prefix_word (code r) = None.
Proof.
  unfold wf_runeb. intros H E. rewrite E in H. apply andb_prop in H. destruct H as [_ H].
  apply andb_prop in H. destruct H as [H H3]. apply andb_prop in H. destruct H as [H1 H2].
  apply negb_true_iff in H1. apply negb_true_iff in H2.
  destruct (prefix_word (code r)); [discriminate|]. auto.
Qed.

(** * ToCamelCase / ToCamelCaseWithDigits emit letters and decimal digits only *)
Lemma camel_loop_chars : forall s cap, wf s -> forallb alnum_out (camel_loop cap s) = true.
Proof.
  induction s as [|v t IH]; intros cap H; [reflexivity|].
  inversion H as [|? ? Hv Ht]; subst. cbn [camel_loop]. rewrite forallb_app, (IH _ Ht), andb_true_r.
  destruct (cl v) eqn:E; try reflexivity.
  - unfold out, alnum_out. simpl. rewrite E. reflexivity.
  - destruct cap; simpl.
    + unfold alnum_out. rewrite (wf_lower v Hv E). reflexivity.
    + unfold out, alnum_out. simpl. rewrite E. reflexivity.
  - unfold out, alnum_out, go_digit. simpl. rewrite E. reflexivity.
Qed.

Lemma trim_left_wf s : wf s -> wf (trim_left s).
Proof.
  induction s as [|r t IH]; intros H; [exact H|]. simpl.
  destruct (N.eqb (code r) 32); [apply IH; inversion H; assumption|exact H].
Qed.

Lemma trim_wf s : wf s -> wf (trim s).
Proof.
  intros H. unfold trim, wf. apply Forall_rev. apply trim_left_wf. apply Forall_rev. apply trim_left_wf. exact H.
Qed.

Theorem camel_chars s : wf s -> forallb alnum_out (camel s) = true.
Proof. intros H. apply camel_loop_chars. apply trim_wf. exact H. Qed.

Theorem camel_digits_chars : forall s cap, wf s -> forallb alnum_out (camel_digits_loop cap s) = true.
Proof.
  induction s as [|v t IH]; intros cap H; [reflexivity|].
  inversion H as [|? ? Hv Ht]; subst. cbn [camel_digits_loop].
  destruct (cl v) eqn:E; try (apply IH; assumption).
  - cbn [forallb]. rewrite (IH _ Ht), andb_true_r. unfold out, alnum_out. simpl. rewrite E. reflexivity.
  - cbn [forallb]. rewrite (IH _ Ht), andb_true_r. destruct cap.
    + unfold alnum_out. rewrite (wf_lower v Hv E). reflexivity.
    + unfold out, alnum_out. simpl. rewrite E. reflexivity.
  - cbn [forallb]. rewrite (IH _ Ht), andb_true_r. unfold out, alnum_out, go_digit. simpl. rewrite E. reflexivity.
Qed.

(** * typeNamePrefix emits ASCII letters only *)
Lemma prefix_word_letters c w : prefix_word c = Some w -> forallb alnum_out (word w) = true.
Proof.
  unfold prefix_word.
  repeat match goal with |- context [N.eqb c ?k] => destruct (N.eqb c k) end;
  intros H; inversion H; subst; reflexivity.
Qed.

Lemma prefix_loop_chars : forall s single acc,
  forallb alnum_out acc = true -> forallb alnum_out (prefix_loop single acc s) = true.
Proof.
  induction s as [|r t IH]; intros single acc H; [exact H|]. cbn [prefix_loop].
  destruct (N.eqb (code r) 36).
  - destruct single; [reflexivity|apply IH; exact H].
  - destruct (prefix_word (code r)) as [w|] eqn:E.
    + apply IH. rewrite forallb_app, H. simpl. apply (prefix_word_letters _ _ E).
    + destruct acc as [|a acc']; [destruct (cl r); reflexivity|exact H].
Qed.

Theorem type_prefix_chars s : forallb alnum_out (type_prefix s) = true.
Proof.
  unfold type_prefix. destruct s as [|a [|b t]]; [reflexivity| |]; apply prefix_loop_chars; reflexivity.
Qed.

Theorem type_name_chars norm s :
  forallb alnum_out (norm s) = true -> forallb alnum_out (type_name norm s) = true.
Proof. intros H. unfold type_name. rewrite forallb_app, type_prefix_chars, H. reflexivity. Qed.

(** an all-alphanumeric name has the shape of an identifier iff it does not start with a digit *)
Lemma alnum_is_ident_char r : alnum_out r = true -> go_letter r || go_digit r = true.
Proof.
  unfold alnum_out, go_letter. intros H. apply orb_true_iff in H. destruct H as [H|H]; rewrite H; simpl;
  [reflexivity|apply orb_true_r].
Qed.

Lemma shape_of_alnum r t :
  forallb alnum_out (r :: t) = true -> is_letter (snd r) = true -> ident_shape (r :: t) = true.
Proof.
  intros H L. simpl in H. apply andb_prop in H. destruct H as [_ Ht]. simpl. unfold go_letter at 1. rewrite L. simpl.
  apply forallb_forall. intros x Hx. apply alnum_is_ident_char. apply (proj1 (forallb_forall _ _) Ht x Hx).
Qed.

(** * A name that starts with a digit gets the prefix N *)
Theorem digit_first_prefix r t :
  wf_runeb r = true -> cl r = Digit -> type_prefix (r :: t) = word "N".
Proof.
  intros Hw E. assert (A : alnum (cl r) = true) by (rewrite E; reflexivity).
  destruct (wf_alnum r Hw A) as [_ [H36 Hp]].
  unfold type_prefix. destruct t as [|b t']; cbn [prefix_loop]; rewrite H36, Hp, E; reflexivity.
Qed.

(** ... a name that starts with a letter gets none *)
Theorem letter_first_prefix r t :
  wf_runeb r = true -> is_letter (cl r) = true -> type_prefix (r :: t) = [].
Proof.
  intros Hw L. assert (A : alnum (cl r) = true) by (unfold alnum; rewrite L; reflexivity).
  destruct (wf_alnum r Hw A) as [_ [H36 Hp]].
  unfold type_prefix. destruct t as [|b t']; cbn [prefix_loop]; rewrite H36, Hp; destruct (cl r); try reflexivity; discriminate L.
Qed.

(** trimming keeps a first rune that is not a blank *)
Lemma trim_left_snoc : forall l r, N.eqb (code r) 32 = false -> exists l', trim_left (l ++ [r]) = (l' ++ [r])%list.
Proof.
  induction l as [|a l IH]; intros r H.
  - exists []. simpl. rewrite H. reflexivity.
  - simpl. destruct (N.eqb (code a) 32).
    + apply IH. exact H.
    + exists (a :: l). reflexivity.
Qed.

Lemma trim_head r t : N.eqb (code r) 32 = false -> exists t', trim (r :: t) = r :: t'.
Proof.
  intros H. unfold trim. cbn [trim_left]. rewrite H. cbn [rev].
  destruct (trim_left_snoc (rev t) r H) as [l' E]. rewrite E. rewrite rev_app_distr. simpl. eauto.
Qed.

Lemma sep_32 : is_sep 32 = true. Proof. reflexivity. Qed.

Lemma not_blank r : wf_runeb r = true -> alnum (cl r) = true -> N.eqb (code r) 32 = false.
Proof.
  intros Hw A. destruct (wf_alnum r Hw A) as [Hs _].
  destruct (N.eqb (code r) 32) eqn:E; [|reflexivity]. apply N.eqb_eq in E. rewrite E in Hs. discriminate.
Qed.

(** SchemaNameToTypeName (default normaliser): every name that starts with a cased letter or a decimal digit
    becomes something with the shape of a Go identifier *)
Theorem type_name_shape r t :
  wf (r :: t) -> (cl r = Upper \/ cl r = Lower \/ cl r = Digit) ->
  ident_shape (type_name camel (r :: t)) = true.
Proof.
  intros Hw Hc. inversion Hw as [|? ? Hr Ht]; subst.
  assert (Hall : forallb alnum_out (type_name camel (r :: t)) = true)
    by (apply type_name_chars, camel_chars; exact Hw).
  assert (A : alnum (cl r) = true) by (destruct Hc as [E|[E|E]]; rewrite E; reflexivity).
  destruct (trim_head r t (not_blank r Hr A)) as [t' Et].
  destruct Hc as [E|[E|E]].
  - unfold type_name in *. rewrite (letter_first_prefix r t Hr) in * by (rewrite E; reflexivity).
    cbn [app] in *. unfold camel in *. rewrite Et in *. cbn [camel_loop] in *. rewrite E in *. cbn [app] in *.
    apply shape_of_alnum; [exact Hall|]. unfold out. simpl. rewrite E. reflexivity.
  - unfold type_name in *. rewrite (letter_first_prefix r t Hr) in * by (rewrite E; reflexivity).
    cbn [app] in *. unfold camel in *. rewrite Et in *. cbn [camel_loop] in *. rewrite E in *. cbn [app] in *.
    apply shape_of_alnum; [exact Hall|]. apply (wf_lower r Hr E).
  - unfold type_name in *. rewrite (digit_first_prefix r t Hr E) in *.
    change (word "N") with [(78%N, Upper)] in *. cbn [app] in *.
    apply shape_of_alnum; [exact Hall|reflexivity].
Qed.

(** The prefix rule only looks at the first rune of the NAME, not of the normalised text: a separator in front
    of a digit leaves a digit in front. *)
Theorem separator_then_digit_refuted :
  let s := [ {| code := 95; cl := Other; up := (95%N, Other) |}; {| code := 49; cl := Digit; up := (49%N, Digit) |} ] in
  wf s /\ ident_shape (type_name camel s) = false.
Proof. split; [repeat constructor|reflexivity]. Qed.

(** Letters without case (ideographs) are dropped by the normaliser: such a name normalises to nothing. *)
Theorem caseless_name_refuted :
  let s := [ {| code := 29483; cl := OLetter; up := (29483%N, OLetter) |} ] in
  wf s /\ type_name camel s = [].
Proof. split; [repeat constructor|reflexivity]. Qed.

(** * SanitizeGoIdentity *)
Lemma no_keyword_starts_with_underscore l : mem_codes (95%N :: l) keywords = false.
Proof. reflexivity. Qed.
Lemma no_predeclared_starts_with_underscore l : mem_codes (95%N :: l) predeclared = false.
Proof. reflexivity. Qed.

Theorem sanitize_not_reserved s : is_keyword (sanitize s) = false /\ is_predeclared (sanitize s) = false.
Proof.
  unfold sanitize. destruct (is_keyword (sanitize_loop true s) || is_predeclared (sanitize_loop true s)) eqn:E.
  - unfold is_keyword, is_predeclared. cbn [map fst underscore].
    split; [apply no_keyword_starts_with_underscore|apply no_predeclared_starts_with_underscore].
  - apply orb_false_iff in E. exact E.
Qed.

(** the function's own final check can never fire *)
Theorem sanitize_never_panics s : sanitize_panics s = false.
Proof.
  unfold sanitize_panics, is_valid_go_identity, is_go_identity.
  destruct (sanitize_not_reserved s) as [K P]. rewrite K, P, andb_false_r. reflexivity.
Qed.

Definition no_other_number (s : list orune) : bool := forallb (fun r => negb (cls_eqb (snd r) ONumber)) s.

Lemma sanitized_char first r :
  negb (cls_eqb (snd r) ONumber) = true ->
  let x := if valid_rune first r then r else underscore in
  go_letter x || go_digit x = true /\ (first = true -> go_letter x = true).
Proof.
  intros H. destruct r as [c k]. unfold valid_rune. cbn [snd fst] in *.
  destruct k; cbn [cls_eqb negb] in H; try discriminate H.
  - (* Upper *) destruct first; cbn; split; auto.
  - (* Lower *) destruct first; cbn; split; auto.
  - (* Digit *) destruct first; cbn; [split; auto|].
    rewrite orb_true_r. cbn. split; [apply orb_true_r|intros E; discriminate E].
  - (* OLetter *) destruct first; cbn; split; auto.
  - (* Other *)
    assert (E : (if (if first && is_number Other then false else is_letter Other || N.eqb c 95 || is_number Other)
                 then (c, Other) else underscore) = if N.eqb c 95 then (c, Other) else underscore).
    { destruct first; cbn; rewrite orb_false_r; reflexivity. }
    rewrite E. destruct (N.eqb c 95) eqn:E95; unfold go_letter; cbn; rewrite ?E95; cbn; split; auto.
Qed.

Lemma sanitize_loop_rest : forall s, no_other_number s = true ->
  forallb (fun x => go_letter x || go_digit x) (sanitize_loop false s) = true.
Proof.
  induction s as [|r t IH]; intros H; [reflexivity|]. simpl in H. apply andb_prop in H. destruct H as [Hr Ht].
  cbn [sanitize_loop forallb]. rewrite (IH Ht), andb_true_r. apply (sanitized_char false r Hr).
Qed.

Theorem sanitize_shape s : s <> [] -> no_other_number s = true -> ident_shape (sanitize s) = true.
Proof.
  intros Hne H. destruct s as [|r t]; [congruence|]. simpl in H. apply andb_prop in H. destruct H as [Hr Ht].
  assert (L : ident_shape (sanitize_loop true (r :: t)) = true).
  { cbn [sanitize_loop ident_shape]. rewrite (sanitize_loop_rest t Ht), andb_true_r.
    apply (sanitized_char true r Hr). reflexivity. }
  unfold sanitize. destruct (is_keyword _ || is_predeclared _); [|exact L].
  cbn [ident_shape]. unfold go_letter at 1. simpl.
  cbn [sanitize_loop ident_shape] in L. apply andb_prop in L. destruct L as [L1 L2].
  cbn [sanitize_loop forallb]. rewrite L2, andb_true_r. rewrite L1. reflexivity.
Qed.

Theorem sanitize_valid s : s <> [] -> no_other_number s = true -> valid_ident (sanitize s) = true.
Proof.
  intros Hne H. unfold valid_ident. rewrite (sanitize_shape s Hne H). destruct (sanitize_not_reserved s) as [K _].
  rewrite K. reflexivity.
Qed.

(** unicode.IsNumber admits runes (superscripts, roman numerals) that Go identifiers do not *)
Theorem other_number_refuted :
  valid_ident (sanitize [(97%N, Lower); (178%N, ONumber)]) = false.
Proof. reflexivity. Qed.

Theorem empty_refuted : sanitize [] = [] /\ valid_ident (sanitize []) = false.
Proof. split; reflexivity. Qed.

(** * De-duplication in GenerateTypes *)
Lemma lookup_in n seen d : lookup n seen = Some d -> In (n, d) seen.
Proof.
  induction seen as [|[m e] t IH]; simpl; [discriminate|].
  destruct (Nat.eqb n m) eqn:E; intros H.
  - apply Nat.eqb_eq in E. inversion H; subst. left. reflexivity.
  - right. apply IH. exact H.
Qed.

Lemma lookup_none n seen : lookup n seen = None -> ~ In n (map fst seen).
Proof.
  induction seen as [|[m e] t IH]; simpl; [tauto|].
  destruct (Nat.eqb n m) eqn:E; intros H; [discriminate|].
  apply Nat.eqb_neq in E. intros [X|X]; [congruence|apply (IH H X)].
Qed.

Lemma dedup_from_spec : forall l seen out,
  dedup_from seen l = Some out ->
  NoDup (map fst out) /\
  (forall x, In x (map fst out) -> ~ In x (map fst seen)) /\
  (forall p, In p out -> In p l) /\
  (forall p, In p l -> In p out \/ In p seen).
Proof.
  induction l as [|[n d] t IH]; intros seen out H; simpl in H.
  - inversion H; subst. repeat split; [constructor|intros x []|intros p []|intros p []].
  - destruct (lookup n seen) as [d'|] eqn:L.
    + destruct (Nat.eqb d d') eqn:E; [|discriminate]. apply Nat.eqb_eq in E. subst d'.
      destruct (IH seen out H) as [N [F [S C]]]. repeat split; auto.
      * intros p Hp. right. apply S. exact Hp.
      * intros p [<-|Hp]; [right; apply lookup_in; exact L|apply C; exact Hp].
    + destruct (dedup_from ((n, d) :: seen) t) as [o|] eqn:R; [|discriminate]. inversion H; subst.
      destruct (IH _ _ R) as [N [F [S C]]]. repeat split.
      * simpl. constructor; [|exact N]. intros X. apply (F n X). left. reflexivity.
      * intros x [<-|X]; [apply lookup_none; exact L|]. intros Y. apply (F x X). right. exact Y.
      * intros p [<-|Hp]; [left; reflexivity|right; apply S; exact Hp].
      * intros p [<-|Hp]; [left; left; reflexivity|].
        destruct (C p Hp) as [X|[X|X]]; [left; right; exact X|left; left; exact X|right; exact X].
Qed.

(** success: the emitted types have pairwise different names and are, as a set, exactly the given ones *)
Theorem dedup_sound l out :
  dedup l = Some out -> NoDup (map fst out) /\ (forall p, In p out <-> In p l).
Proof.
  intros H. destruct (dedup_from_spec l [] out H) as [N [_ [S C]]]. split; [exact N|].
  intros p. split; [apply S|]. intros Hp. destruct (C p Hp) as [X|[]]. exact X.
Qed.

Lemma dedup_from_none : forall l seen,
  dedup_from seen l = None ->
  exists n d d', d <> d' /\ In (n, d) l /\ (In (n, d') l \/ In (n, d') seen).
Proof.
  induction l as [|[n d] t IH]; intros seen H; simpl in H; [discriminate|].
  destruct (lookup n seen) as [d'|] eqn:L.
  - destruct (Nat.eqb d d') eqn:E.
    + destruct (IH seen H) as [m [a [b [Hne [Ha Hb]]]]]. exists m, a, b. repeat split; auto.
      * right. exact Ha.
      * destruct Hb; [left; right; assumption|right; assumption].
    + apply Nat.eqb_neq in E. exists n, d, d'. repeat split; auto; [left; reflexivity|right; apply lookup_in; exact L].
  - destruct (dedup_from ((n, d) :: seen) t) eqn:R; [discriminate|].
    destruct (IH _ R) as [m [a [b [Hne [Ha Hb]]]]]. exists m, a, b. repeat split; auto.
    + right. exact Ha.
    + destruct Hb as [Hb|[Hb|Hb]]; [left; right; exact Hb|left; left; exact Hb|right; exact Hb].
Qed.

(** failure only for two different definitions under one name *)
Theorem dedup_error_only_on_conflict l :
  dedup l = None -> exists n d d', d <> d' /\ In (n, d) l /\ In (n, d') l.
Proof.
  intros H. destruct (dedup_from_none l [] H) as [n [d [d' [Hne [Ha [Hb|[]]]]]]]. exists n, d, d'. auto.
Qed.

(** and a conflict always fails *)
Lemma dedup_from_conflict : forall l seen n d d' out,
  dedup_from seen l = Some out -> In (n, d) l -> (In (n, d') l \/ lookup n seen = Some d') -> d = d'.
Proof.
  induction l as [|[m e] t IH]; intros seen n d d' out H Ha Hb; [destruct Ha|]. simpl in H.
  destruct (lookup m seen) as [e'|] eqn:L.
  - destruct (Nat.eqb e e') eqn:E; [|discriminate]. apply Nat.eqb_eq in E. subst e'.
    destruct Ha as [Ha|Ha]; [inversion Ha; subst|].
    + destruct Hb as [[Hb|Hb]|Hb]; [inversion Hb; reflexivity| |congruence].
      symmetry. apply (IH seen n d' d out H Hb). right. exact L.
    + destruct Hb as [[Hb|Hb]|Hb]; [inversion Hb; subst| |].
      * apply (IH seen n d d' out H Ha). right. exact L.
      * apply (IH seen n d d' out H Ha). left. exact Hb.
      * apply (IH seen n d d' out H Ha). right. exact Hb.
  - destruct (dedup_from ((m, e) :: seen) t) as [o|] eqn:R; [|discriminate].
    assert (Lk : lookup m ((m, e) :: seen) = Some e) by (simpl; rewrite Nat.eqb_refl; reflexivity).
    destruct Ha as [Ha|Ha]; [inversion Ha; subst|].
    + destruct Hb as [[Hb|Hb]|Hb]; [inversion Hb; reflexivity| |congruence].
      symmetry. apply (IH _ n d' d o R Hb). right. exact Lk.
    + destruct Hb as [[Hb|Hb]|Hb]; [inversion Hb; subst| |].
      * apply (IH _ n d d' o R Ha). right. exact Lk.
      * apply (IH _ n d d' o R Ha). left. exact Hb.
      * apply (IH _ n d d' o R Ha). right. simpl. destruct (Nat.eqb n m) eqn:E; [|exact Hb].
        apply Nat.eqb_eq in E. subst. congruence.
Qed.

Theorem dedup_conflict_fails l n d d' :
  In (n, d) l -> In (n, d') l -> d <> d' -> dedup l = None.
Proof.
  intros Ha Hb Hne. destruct (dedup l) as [out|] eqn:E; [|reflexivity].
  exfalso. apply Hne. apply (dedup_from_conflict l [] n d d' out E Ha). left. exact Hb.
Qed.

(** * The rename chain of enum constants loses the identifier of underscore-digit names (C11) *)
Theorem underscore_digit_chain_refuted :
  enum_name_chain "_1" = [] /\
  map fst (enum_name_chain "_12") = codes_of "2" /\ ident_shape (enum_name_chain "_12") = false /\
  map fst (enum_name_chain "a-1") = codes_of "A1" /\ ident_shape (enum_name_chain "a-1") = true.
Proof. vm_compute. repeat split; reflexivity. Qed.
