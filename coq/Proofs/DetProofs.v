From Coq Require Import List String Ascii Bool Arith NArith Permutation Lia.
From V Require Import Model.Det.
Import ListNotations.

(** * The order used by sort.Strings is a total order *)

Lemma ascii_compare_lt a b : Ascii.compare a b = Lt <-> (N_of_ascii a < N_of_ascii b)%N.
Proof. unfold Ascii.compare. apply N.compare_lt_iff. Qed.
Lemma ascii_compare_gt a b : Ascii.compare a b = Gt <-> (N_of_ascii b < N_of_ascii a)%N.
Proof. unfold Ascii.compare. apply N.compare_gt_iff. Qed.
Lemma ascii_compare_eq a b : Ascii.compare a b = Eq <-> a = b.
Proof.
  split; [apply Ascii.compare_eq_iff|]. intros ->. unfold Ascii.compare. apply N.compare_refl.
Qed.

Lemma string_compare_trans_le : forall a b c,
  String.compare a b <> Gt -> String.compare b c <> Gt -> String.compare a c <> Gt.
Proof.
  induction a as [|x a IH]; intros [|y b] [|z c]; simpl; try congruence.
  destruct (Ascii.compare x y) eqn:Exy; destruct (Ascii.compare y z) eqn:Eyz;
    destruct (Ascii.compare x z) eqn:Exz; intros H1 H2; try congruence;
    rewrite ?ascii_compare_lt, ?ascii_compare_gt, ?ascii_compare_eq in *; subst;
    try (exfalso; lia); try (apply (IH b c); assumption);
    try (rewrite ?ascii_compare_lt, ?ascii_compare_gt in *; exfalso; lia).
Qed.

Lemma sleb_trans a b c : sleb a b = true -> sleb b c = true -> sleb a c = true.
Proof.
  unfold sleb. intros H1 H2.
  pose proof (string_compare_trans_le a b c) as T.
  destruct (String.compare a b); destruct (String.compare b c); destruct (String.compare a c);
    try reflexivity; try discriminate; exfalso; apply T; congruence.
Qed.

Lemma sleb_total a b : sleb a b = true \/ sleb b a = true.
Proof.
  unfold sleb. rewrite (String.compare_antisym b a).
  destruct (String.compare a b); simpl; auto.
Qed.

Lemma sleb_antisym a b : sleb a b = true -> sleb b a = true -> a = b.
Proof.
  unfold sleb. rewrite (String.compare_antisym b a).
  destruct (String.compare a b) eqn:E; simpl; intros H1 H2; try discriminate.
  apply String.compare_eq_iff in E. auto.
Qed.

(** * ViaSortedKeys / AppendThenSort: sorting forgets the iteration order *)

Lemma insert_comm a b l : insert a (insert b l) = insert b (insert a l).
Proof.
  induction l as [|c l IH]; simpl.
  - destruct (sleb a b) eqn:Eab, (sleb b a) eqn:Eba; try reflexivity.
    + rewrite (sleb_antisym a b Eab Eba). reflexivity.
    + destruct (sleb_total a b); congruence.
  - destruct (sleb b c) eqn:Ebc, (sleb a c) eqn:Eac; simpl; rewrite ?Ebc, ?Eac.
    + destruct (sleb a b) eqn:Eab, (sleb b a) eqn:Eba; try reflexivity.
      * rewrite (sleb_antisym a b Eab Eba). reflexivity.
      * destruct (sleb_total a b); congruence.
    + destruct (sleb a b) eqn:Eab.
      * rewrite (sleb_trans a b c Eab Ebc) in Eac. discriminate.
      * reflexivity.
    + destruct (sleb b a) eqn:Eba.
      * rewrite (sleb_trans b a c Eba Eac) in Ebc. discriminate.
      * reflexivity.
    + rewrite IH. reflexivity.
Qed.

Theorem sort_strings_perm l l' : Permutation l l' -> sort_strings l = sort_strings l'.
Proof.
  induction 1 as [|x l l' _ IH|x y l|l l' l'' _ IH1 _ IH2]; simpl.
  - reflexivity.
  - rewrite IH. reflexivity.
  - apply insert_comm.
  - congruence.
Qed.

Theorem sorted_map_keys_perm {V} (m m' : list (string * V)) :
  Permutation m m' -> sorted_map_keys m = sorted_map_keys m'.
Proof. intros H. apply sort_strings_perm. apply Permutation_map. exact H. Qed.

Lemma insert_perm a l : Permutation (a :: l) (insert a l).
Proof.
  induction l as [|b l IH]; simpl; [reflexivity|].
  destruct (sleb a b); [reflexivity|].
  eapply perm_trans; [apply perm_swap|]. apply perm_skip. exact IH.
Qed.

(** Sorting loses no key and invents none. *)
Theorem sort_strings_is_perm l : Permutation l (sort_strings l).
Proof.
  induction l as [|a l IH]; simpl; [reflexivity|].
  eapply perm_trans; [apply perm_skip; exact IH|apply insert_perm].
Qed.

(** * CountOrAny *)

Theorem count_if_perm {V} p (l l' : list (string * V)) :
  Permutation l l' -> count_if p l = count_if p l'.
Proof.
  unfold count_if. induction 1 as [|x l l' _ IH|x y l|l l' l'' _ IH1 _ IH2]; simpl.
  - reflexivity.
  - destruct (p (fst x) (snd x)); simpl; rewrite IH; reflexivity.
  - destruct (p (fst x) (snd x)), (p (fst y) (snd y)); reflexivity.
  - congruence.
Qed.

Theorem any_if_perm {V} p (l l' : list (string * V)) :
  Permutation l l' -> any_if p l = any_if p l'.
Proof.
  unfold any_if. induction 1 as [|x l l' _ IH|x y l|l l' l'' _ IH1 _ IH2]; simpl.
  - reflexivity.
  - rewrite IH. reflexivity.
  - destruct (p (fst x) (snd x)), (p (fst y) (snd y)); reflexivity.
  - congruence.
Qed.

(** * CollectForMembership: a collected list is only asked "do you contain x" *)

Theorem membership_perm {A} (eqb : A -> A -> bool) (x : A) l l' :
  Permutation l l' -> existsb (eqb x) l = existsb (eqb x) l'.
Proof.
  induction 1 as [|y l l' _ IH|y z l|l l' l'' _ IH1 _ IH2]; simpl.
  - reflexivity.
  - rewrite IH. reflexivity.
  - destruct (eqb x y), (eqb x z); reflexivity.
  - congruence.
Qed.

Theorem flat_map_perm {A B} (f : A -> list B) l l' :
  Permutation l l' -> Permutation (flat_map f l) (flat_map f l').
Proof.
  induction 1 as [|y l l' _ IH|y z l|l l' l'' _ IH1 _ IH2]; simpl.
  - reflexivity.
  - apply Permutation_app_head. exact IH.
  - rewrite !app_assoc. apply Permutation_app_tail. apply Permutation_app_comm.
  - eapply perm_trans; eassumption.
Qed.

(** * FilterSelf: deleting entries by a predicate on the entry *)

Theorem filter_perm {A} (p : A -> bool) l l' :
  Permutation l l' -> Permutation (filter p l) (filter p l').
Proof.
  induction 1 as [|y l l' _ IH|y z l|l l' l'' _ IH1 _ IH2]; simpl.
  - reflexivity.
  - destruct (p y); [apply perm_skip|]; exact IH.
  - destruct (p y), (p z); try reflexivity. apply perm_swap.
  - eapply perm_trans; eassumption.
Qed.

(** * BuildsMapOrSet: stores under distinct keys commute *)

Lemma fupd_comm {V} (m : fmap V) k1 v1 k2 v2 :
  k1 <> k2 -> forall k, fupd (fupd m k1 v1) k2 v2 k = fupd (fupd m k2 v2) k1 v1 k.
Proof.
  intros Hne k. unfold fupd.
  destruct (String.eqb k k2) eqn:E2, (String.eqb k k1) eqn:E1; try reflexivity.
  apply String.eqb_eq in E1, E2. congruence.
Qed.

Lemma build_map_ext {V W} (f : string -> V -> W) l : forall m m',
  (forall k, m k = m' k) -> forall k, build_map f l m k = build_map f l m' k.
Proof.
  induction l as [|kv l IH]; intros m m' H k; simpl; [apply H|].
  apply IH. intros k'. unfold fupd. destruct (String.eqb k' (fst kv)); [reflexivity|apply H].
Qed.

Theorem build_map_perm {V W} (f : string -> V -> W) (l l' : list (string * V)) :
  Permutation l l' -> NoDup (map fst l) ->
  forall m k, build_map f l m k = build_map f l' m k.
Proof.
  induction 1 as [|x l l' _ IH|x y l|l l' l'' H1 IH1 H2 IH2]; intros Hnd m k.
  - reflexivity.
  - simpl. apply IH. inversion Hnd; assumption.
  - simpl. apply build_map_ext. intros k'. apply fupd_comm.
    inversion Hnd as [|? ? Hnotin _]; subst. intros E. apply Hnotin. simpl. left. symmetry. exact E.
  - rewrite (IH1 Hnd). apply IH2.
    eapply Permutation_NoDup; [|exact Hnd]. apply Permutation_map. exact H1.
Qed.

(** * Composition: a generator that sees its maps only through order-insensitive loops *)

Section Compose.
Variables (K V R O out : Type).
Variable loop : list (K * V) -> R.      (* one site, fed the map in iteration order *)
Variable obs : R -> O.                  (* what the rest of the generator can observe of it *)
Variable rest : O -> out.
Hypothesis insensitive : forall l l', Permutation l l' -> obs (loop l) = obs (loop l').

Theorem compose_insensitive l l' :
  Permutation l l' -> rest (obs (loop l)) = rest (obs (loop l')).
Proof. intros H. rewrite (insensitive l l' H). reflexivity. Qed.
End Compose.

(** * Ambient inputs *)
(** A generation whose reads are all stable observes the same values in any two runs of one binary: whatever function
    of (document, configuration, observed values) the generator is, its output does not depend on the time of the run,
    the environment, the host or a random source. *)
Theorem stable_reads_same_observation (reads : list ambient) (e1 e2 : env) :
  forallb stable reads = true -> same_binary e1 e2 -> observe reads e1 = observe reads e2.
Proof.
  intros H S. unfold observe. induction reads as [|a r IH]; [reflexivity|]. simpl in *.
  apply andb_true_iff in H. destruct H as [Ha Hr]. rewrite (S a Ha), (IH Hr). reflexivity.
Qed.

Theorem output_independent_of_the_run {D C O : Type} (gen : D -> C -> list nat -> O) (reads : list ambient) d c e1 e2 :
  forallb stable reads = true -> same_binary e1 e2 -> gen d c (observe reads e1) = gen d c (observe reads e2).
Proof. intros H S. rewrite (stable_reads_same_observation reads e1 e2 H S). reflexivity. Qed.

(** One unstable read is enough to lose this (a clock read): two runs of one binary that differ only in the clock. *)
Theorem clock_read_refuted :
  exists e1 e2, same_binary e1 e2 /\ observe [BuildInfo; Clock] e1 <> observe [BuildInfo; Clock] e2.
Proof.
  exists (fun _ => 0), (fun a => match a with Clock => 1 | _ => 0 end). split.
  - intros a Ha. destruct a; try discriminate Ha; reflexivity.
  - simpl. discriminate.
Qed.

(** * One loaded document generated again and again *)
Lemma stable_outputs_constant : forall (doc out : Type) (gen : doc -> out * doc),
  input_stable gen -> forall n d, outputs gen n d = repeat (out_of gen d) n.
Proof.
  intros doc out gen H n. induction n as [|n IH]; intros d; cbn [outputs repeat]; [reflexivity|].
  rewrite IH, H. reflexivity.
Qed.

Lemma lgen_not_embedded_stable : input_stable (lgen false).
Proof. intros d. reflexivity. Qed.

Lemma filter_nil_ext : forall (A : Type) (p : A -> bool), filter p [] = [].
Proof. reflexivity. Qed.

Lemma internalise_no_external : forall d, ld_external d = [] -> ld_locals (internalise d) = ld_locals d.
Proof. intros d H. unfold internalise. cbn [ld_locals]. rewrite H. cbn [filter]. apply app_nil_r. Qed.

Lemma lgen_outputs_no_external : forall e n d, ld_external d = [] -> outputs (lgen e) n d = repeat (ld_locals d) n.
Proof.
  intros e n. induction n as [|n IH]; intros d H; cbn [outputs repeat]; [reflexivity|].
  unfold out_of, left_of. destruct e; cbn [lgen fst snd].
  - rewrite IH by reflexivity. rewrite internalise_no_external by exact H. reflexivity.
  - rewrite IH by exact H. reflexivity.
Qed.

(** after the first generation nothing changes any more: the second, third, ... outputs are one and the same *)
Lemma lgen_settles : forall e n d,
  outputs (lgen e) n (left_of (lgen e) d) = repeat (out_of (lgen e) (left_of (lgen e) d)) n.
Proof.
  intros e n d. destruct e.
  - unfold left_of at 1 2. cbn [lgen snd]. rewrite lgen_outputs_no_external by reflexivity. reflexivity.
  - apply stable_outputs_constant. exact lgen_not_embedded_stable.
Qed.

(** with embedded-spec a document that refers to another document's component is NOT left as it was found *)
Lemma embedded_internalises_refuted : ~ input_stable (lgen true).
Proof.
  intros H. specialize (H {| ld_locals := ["Pet"%string]; ld_external := ["Ext"%string] |}). vm_compute in H. discriminate H.
Qed.

Example embedded_second_generation_declares_the_external :
  declared_of true {| ld_locals := ["Pet"%string]; ld_external := ["Ext"%string] |} ["Ext"%string] 3 = [[]; ["Ext"%string]; ["Ext"%string]].
Proof. reflexivity. Qed.

(** * The ErrorOnly shape *)
Lemma error_only_fails_iff : forall (K V A E : Type) (f : K -> V -> res A E) merge l acc,
  (exists e, error_only f merge l acc = RErr e) <-> existsb (fails f) l = true.
Proof.
  intros K V A E f merge l. induction l as [|[k v] r IH]; intros acc; cbn [error_only existsb].
  - split; [intros [e H]; discriminate H|discriminate].
  - unfold fails at 1. cbn [fst snd]. destruct (f k v) as [x|e] eqn:Ef; cbn [orb].
    + apply IH.
    + split; [reflexivity|intros _; exists e; reflexivity].
Qed.

(** whether the loop fails does not depend on the iteration order *)
Lemma error_only_failure_perm : forall (K V A E : Type) (f : K -> V -> res A E) merge l l' acc acc',
  Permutation l l' ->
  ((exists e, error_only f merge l acc = RErr e) <-> (exists e, error_only f merge l' acc' = RErr e)).
Proof.
  intros K V A E f merge l l' acc acc' Hp. rewrite !error_only_fails_iff.
  assert (H : existsb (fails f) l = existsb (fails f) l').
  { induction Hp as [|x l1 l2 _ IH|x y l1|l1 l2 l3 _ IH1 _ IH2]; cbn [existsb].
    - reflexivity.
    - rewrite IH. reflexivity.
    - destruct (fails f x), (fails f y); reflexivity.
    - rewrite IH1. exact IH2. }
  rewrite H. reflexivity.
Qed.

(** the error it returns is an error of some entry *)
Lemma error_only_error_of_an_entry : forall (K V A E : Type) (f : K -> V -> res A E) merge l acc e,
  error_only f merge l acc = RErr e -> exists k v, In (k, v) l /\ f k v = RErr e.
Proof.
  intros K V A E f merge l. induction l as [|[k v] r IH]; intros acc e H; cbn [error_only] in H; [discriminate H|].
  destruct (f k v) as [x|e'] eqn:Ef.
  - destruct (IH _ _ H) as [k' [v' [Hin Hf]]]. exists k', v'. split; [right; exact Hin|exact Hf].
  - inversion H; subst. exists k, v. split; [left; reflexivity|exact Ef].
Qed.

(** so, when the error text does not say WHICH entry failed, it is the same text in every iteration order *)
Theorem error_only_uniform_error : forall (K V A E : Type) (f : K -> V -> res A E) merge l l' acc acc' e0 e e',
  (forall k v x, f k v = RErr x -> x = e0) -> Permutation l l' ->
  error_only f merge l acc = RErr e -> error_only f merge l' acc' = RErr e' -> e = e'.
Proof.
  intros K V A E f merge l l' acc acc' e0 e e' Hu _ H H'.
  destruct (error_only_error_of_an_entry _ _ _ _ _ _ _ _ _ H) as [k [v [_ Hf]]].
  destruct (error_only_error_of_an_entry _ _ _ _ _ _ _ _ _ H') as [k' [v' [_ Hf']]].
  rewrite (Hu _ _ _ Hf), (Hu _ _ _ Hf'). reflexivity.
Qed.

(** an error that NAMES the failing entry depends on the iteration order as soon as two entries fail *)
Theorem error_naming_the_entry_refuted :
  exists (f : nat -> unit -> res unit nat) l l', Permutation l l' /\
    error_only f (fun a _ => a) l tt <> error_only f (fun a _ => a) l' tt.
Proof.
  exists (fun k _ => RErr k), [(1, tt); (2, tt)], [(2, tt); (1, tt)]. split; [apply perm_swap|].
  cbn. discriminate.
Qed.

(** when no entry fails, the accumulated value is the fold of the merges; with a merge whose order of application does not
    show (set / map union) it does not depend on the iteration order either *)
Lemma error_only_success : forall (K V A E : Type) (f : K -> V -> res A E) merge l acc r,
  error_only f merge l acc = ROk r ->
  exists xs, Forall2 (fun kv x => f (fst kv) (snd kv) = ROk x) l xs /\ r = fold_left merge xs acc.
Proof.
  intros K V A E f merge l. induction l as [|[k v] t IH]; intros acc r H; cbn [error_only] in H.
  - inversion H; subst. exists []. split; [constructor|reflexivity].
  - destruct (f k v) as [x|e] eqn:Ef; [|discriminate H].
    destruct (IH _ _ H) as [xs [HF Hr]]. exists (x :: xs). split; [constructor; [exact Ef|exact HF]|exact Hr].
Qed.
