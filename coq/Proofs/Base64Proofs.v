(** decode (encode bs) = Some bs for EVERY list of bytes, and the encoding uses the alphabet and '=' only. *)
From Coq Require Import List NArith Bool Lia ZArith ZifyN ZifyBool.
From V Require Import Model.Base64.
Import ListNotations.
Local Open Scope N_scope.
Ltac Zify.zify_post_hook ::= Z.div_mod_to_equations.

Lemma sextet_char : forall s, s < 64 -> sextet_of (char_of s) = Some s.
Proof.
  intros s H. assert (E : forallb (fun k => match sextet_of (char_of (N.of_nat k)) with Some t => t =? N.of_nat k | None => false end)
                                  (seq 0 64) = true) by (vm_compute; reflexivity).
  rewrite forallb_forall in E. specialize (E (N.to_nat s)).
  rewrite N2Nat.id in E. assert (Hin : In (N.to_nat s) (seq 0 64)) by (apply in_seq; lia).
  specialize (E Hin). destruct (sextet_of (char_of s)) as [t|]; [|discriminate].
  apply N.eqb_eq in E. subst. reflexivity.
Qed.

Lemma char_not_pad : forall s, s < 64 -> (char_of s =? pad) = false.
Proof.
  intros s H. assert (E : forallb (fun k => negb (char_of (N.of_nat k) =? pad)) (seq 0 64) = true) by (vm_compute; reflexivity).
  rewrite forallb_forall in E. specialize (E (N.to_nat s)). rewrite N2Nat.id in E.
  assert (Hin : In (N.to_nat s) (seq 0 64)) by (apply in_seq; lia). specialize (E Hin).
  apply negb_true_iff in E. exact E.
Qed.

Lemma bytes_cons a r : forallb is_byte (a :: r) = true -> a < 256 /\ forallb is_byte r = true.
Proof. cbn [forallb]. intro H. apply andb_true_iff in H. destruct H as [Ha Hr]. unfold is_byte in Ha. split; [lia|exact Hr]. Qed.

(** induction three bytes at a time *)
Lemma list_ind3 {A} (P : list A -> Prop) :
  P [] -> (forall a, P [a]) -> (forall a b, P [a; b]) -> (forall a b c r, P r -> P (a :: b :: c :: r)) -> forall l, P l.
Proof.
  intros H0 H1 H2 H3. assert (H : forall l, P l /\ (forall a, P (a :: l)) /\ (forall a b, P (a :: b :: l))).
  { induction l as [|x l [IH0 [IH1 IH2]]]; [repeat split; auto|]. repeat split; auto. }
  intro l. apply H.
Qed.

Theorem decode_encode : forall bs, forallb is_byte bs = true -> decode (encode bs) = Some bs.
Proof.
  induction bs as [|a|a b|a b c r IH] using list_ind3; intro Hb.
  - reflexivity.
  - apply bytes_cons in Hb. destruct Hb as [Ha _]. cbn [encode decode].
    rewrite !sextet_char by lia. rewrite N.eqb_refl. cbn [andb].
    replace (((a mod 4) * 16) mod 16 =? 0) with true by (symmetry; apply N.eqb_eq; lia).
    f_equal. f_equal. lia.
  - apply bytes_cons in Hb. destruct Hb as [Ha Hb]. apply bytes_cons in Hb. destruct Hb as [Hb _]. cbn [encode decode].
    rewrite !sextet_char by lia. rewrite (char_not_pad ((b mod 16) * 4)) by lia. cbn [andb]. rewrite N.eqb_refl.
    replace (((b mod 16) * 4) mod 4 =? 0) with true by (symmetry; apply N.eqb_eq; lia).
    f_equal. f_equal; [lia|]. f_equal. lia.
  - apply bytes_cons in Hb. destruct Hb as [Ha Hb]. apply bytes_cons in Hb. destruct Hb as [Hb Hc].
    apply bytes_cons in Hc. destruct Hc as [Hc Hr]. cbn [encode decode].
    rewrite !sextet_char by lia. rewrite (char_not_pad ((b mod 16) * 4 + c / 64)) by lia. rewrite andb_false_l.
    rewrite (char_not_pad (c mod 64)) by lia. rewrite IH by exact Hr.
    f_equal. f_equal; [lia|]. f_equal; [lia|]. f_equal. lia.
Qed.

(** the text is made of the 64 characters of the alphabet and '=' *)
Definition in_alphabet (c : N) : bool := match sextet_of c with Some _ => true | None => c =? pad end.
Lemma char_in_alphabet s : s < 64 -> in_alphabet (char_of s) = true.
Proof. intro H. unfold in_alphabet. rewrite sextet_char by exact H. reflexivity. Qed.

Theorem encode_alphabet : forall bs, forallb is_byte bs = true -> forallb in_alphabet (encode bs) = true.
Proof.
  induction bs as [|a|a b|a b c r IH] using list_ind3; intro Hb.
  - reflexivity.
  - apply bytes_cons in Hb. destruct Hb as [Ha _]. cbn [encode forallb]. rewrite !char_in_alphabet by lia. reflexivity.
  - apply bytes_cons in Hb. destruct Hb as [Ha Hb]. apply bytes_cons in Hb. destruct Hb as [Hb _].
    cbn [encode forallb]. rewrite !char_in_alphabet by lia. reflexivity.
  - apply bytes_cons in Hb. destruct Hb as [Ha Hb]. apply bytes_cons in Hb. destruct Hb as [Hb Hc].
    apply bytes_cons in Hc. destruct Hc as [Hc Hr]. cbn [encode forallb]. rewrite !char_in_alphabet by lia.
    rewrite IH by exact Hr. reflexivity.
Qed.

(** four characters for every three bytes, rounded up *)
Theorem encode_length : forall bs, (List.length (encode bs) = 4 * ((List.length bs + 2) / 3))%nat.
Proof.
  induction bs as [|a|a b|a b c r IH] using list_ind3; try reflexivity.
  cbn [encode List.length]. rewrite IH.
  replace (S (S (S (List.length r))) + 2)%nat with (List.length r + 2 + 1 * 3)%nat by lia.
  rewrite Nat.div_add by lia. lia.
Qed.
