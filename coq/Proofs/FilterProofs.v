From Coq Require Import List String Bool Arith Lia.
From V Require Import Model.Prune Model.Filter Proofs.PruneProofs.
Import ListNotations.

Lemma existsb_nil_false {A} (f : A -> bool) : existsb f [] = false.
Proof. reflexivity. Qed.

Lemma has_tag_nil o : has_tag [] o = false.
Proof.
  unfold has_tag. induction (o_tags o) as [|t ts IH]; simpl; [reflexivity|exact IH].
Qed.

Lemma has_id_nil o : has_id [] o = false.
Proof. reflexivity. Qed.

Lemma drop_ops_compose p f g :
  {| p_path := p_path p; p_params := p_params p;
     p_ops := filter g (filter f (p_ops p)) |} =
  {| p_path := p_path p; p_params := p_params p;
     p_ops := filter (fun o => f o && g o) (p_ops p) |}.
Proof.
  f_equal. induction (p_ops p) as [|o os IH]; simpl; [reflexivity|].
  destruct (f o); simpl; [destruct (g o); simpl; rewrite IH; reflexivity|exact IH].
Qed.

Lemma filter_filter {A} (f g : A -> bool) l :
  filter g (filter f l) = filter (fun x => f x && g x) l.
Proof.
  induction l as [|x xs IH]; simpl; [reflexivity|].
  destruct (f x); simpl; [destruct (g x); simpl; rewrite IH; reflexivity|exact IH].
Qed.

Lemma filter_ext_eq {A} (f g : A -> bool) l : (forall x, f x = g x) -> filter f l = filter g l.
Proof. intros H. induction l as [|x xs IH]; simpl; [reflexivity|]. rewrite H, IH. reflexivity. Qed.

Lemma filter_true {A} (l : list A) : filter (fun _ => true) l = l.
Proof. induction l as [|x xs IH]; simpl; [reflexivity|]. rewrite IH. reflexivity. Qed.

(** One pass is: keep [o] iff (the list is empty) or (pred o <> exclude). *)
Definition pass_keep (l : list string) (pred : list string -> operation -> bool)
           (exclude : bool) (o : operation) : bool :=
  negb (nonempty l) || negb (Bool.eqb (pred l o) exclude).

Lemma filter_pass_spec l pred exclude ps :
  filter_pass l pred exclude ps =
  map (fun p => {| p_path := p_path p; p_params := p_params p;
                   p_ops := filter (pass_keep l pred exclude) (p_ops p) |}) ps.
Proof.
  unfold filter_pass, pass_keep. destruct l as [|x xs]; simpl.
  - induction ps as [|p ps IH]; simpl; [reflexivity|]. rewrite <- IH.
    rewrite filter_true. destruct p; reflexivity.
  - reflexivity.
Qed.

Lemma map_map_ops (f g : operation -> bool) ps :
  map (fun p => {| p_path := p_path p; p_params := p_params p; p_ops := filter g (p_ops p) |})
      (map (fun p => {| p_path := p_path p; p_params := p_params p; p_ops := filter f (p_ops p) |}) ps)
  = map (fun p => {| p_path := p_path p; p_params := p_params p;
                     p_ops := filter (fun o => f o && g o) (p_ops p) |}) ps.
Proof.
  rewrite map_map. apply map_ext. intros p. simpl. rewrite filter_filter. reflexivity.
Qed.

Lemma keep_is_passes c o :
  keep c o =
  (pass_keep (f_exclude_tags c) has_tag true o && pass_keep (f_include_tags c) has_tag false o)
  && (pass_keep (f_exclude_ids c) has_id true o && pass_keep (f_include_ids c) has_id false o).
Proof.
  assert (Ht : forall l, nonempty l = false -> has_tag l o = false).
  { intros [|x xs] H; [apply has_tag_nil|discriminate]. }
  assert (Hi : forall l, nonempty l = false -> has_id l o = false).
  { intros [|x xs] H; [reflexivity|discriminate]. }
  unfold keep, pass_keep.
  pose proof (Ht (f_exclude_tags c)) as H1. pose proof (Ht (f_include_tags c)) as H2.
  pose proof (Hi (f_exclude_ids c)) as H3. pose proof (Hi (f_include_ids c)) as H4.
  destruct (nonempty (f_exclude_tags c)), (has_tag (f_exclude_tags c) o);
  destruct (nonempty (f_include_tags c)), (has_tag (f_include_tags c) o);
  destruct (nonempty (f_exclude_ids c)), (has_id (f_exclude_ids c) o);
  destruct (nonempty (f_include_ids c)), (has_id (f_include_ids c) o);
  try reflexivity;
  try (specialize (H1 eq_refl); discriminate); try (specialize (H2 eq_refl); discriminate);
  try (specialize (H3 eq_refl); discriminate); try (specialize (H4 eq_refl); discriminate).
Qed.

(** * C16: the filters keep exactly the operations satisfying [keep]; path items stay. *)
Theorem filter_exact c d :
  d_paths (filter_doc c d) = spec_filter_paths c (d_paths d).
Proof.
  unfold filter_doc, filter_by_id, filter_by_tag, spec_filter_paths. simpl.
  rewrite !filter_pass_spec. rewrite !map_map_ops.
  apply map_ext. intros p. f_equal. apply filter_ext_eq. intros o.
  rewrite keep_is_passes.
  repeat rewrite andb_assoc. reflexivity.
Qed.

Theorem filter_keeps_components c d : d_comps (filter_doc c d) = d_comps d.
Proof. reflexivity. Qed.

Theorem filter_keeps_path_items c d :
  map p_path (d_paths (filter_doc c d)) = map p_path (d_paths d).
Proof.
  rewrite filter_exact. unfold spec_filter_paths. rewrite map_map. reflexivity.
Qed.

(** The operation set of the output, as (path, method) pairs. *)
Theorem filter_op_keys c d :
  op_keys (d_paths (filter_doc c d)) =
  flat_map (fun p => map (fun o => (p_path p, o_method o)) (filter (keep c) (p_ops p))) (d_paths d).
Proof.
  rewrite filter_exact. unfold op_keys, spec_filter_paths.
  induction (d_paths d) as [|p ps IH]; simpl; [reflexivity|]. rewrite IH. reflexivity.
Qed.

(** * Filtering then pruning *)

Theorem prepare_total c d : exists d', prepare c d = Some d'.
Proof.
  unfold prepare. destruct (f_skip_prune c); [eexists; reflexivity|apply prune_total].
Qed.

(** Everything a kept operation needs survives. *)
Theorem prepare_keeps_needed c d d' x :
  f_skip_prune c = false -> prepare c d = Some d' ->
  In x (d_comps d) -> reach (filter_doc c d) (comp_ref x) -> In x (d_comps d').
Proof.
  unfold prepare. intros Hs H Hx Hr. rewrite Hs in H.
  apply (prune_sound (filter_doc c d) d' x H); [exact Hx|exact Hr].
Qed.

(** Components used only by removed operations disappear: whatever survives is
    referred to by a surviving path item or a surviving component. *)
Theorem prepare_drops_unneeded c d d' x :
  f_skip_prune c = false -> prepare c d = Some d' ->
  In x (d_comps d') -> prunable (c_kind x) = true ->
  In (comp_ref x) (find_component_refs d').
Proof.
  unfold prepare. intros Hs H Hx Hk. rewrite Hs in H.
  apply (prune_minimal (filter_doc c d) d' x H Hx Hk).
Qed.

Theorem prepare_paths c d d' :
  prepare c d = Some d' -> d_paths d' = spec_filter_paths c (d_paths d).
Proof.
  unfold prepare. destruct (f_skip_prune c); intros H.
  - inversion H; subst. apply filter_exact.
  - rewrite (prune_paths_unchanged _ _ H). apply filter_exact.
Qed.

(** lists that are given and empty filter nothing: every operation stays *)
Lemma keep_all_when_lists_empty c o :
  f_include_tags c = [] -> f_exclude_tags c = [] -> f_include_ids c = [] -> f_exclude_ids c = [] -> keep c o = true.
Proof.
  intros H1 H2 H3 H4. unfold keep. rewrite H1, H2, H3, H4. rewrite has_tag_nil, has_id_nil. reflexivity.
Qed.

Theorem empty_lists_filter_nothing c d :
  f_include_tags c = [] -> f_exclude_tags c = [] -> f_include_ids c = [] -> f_exclude_ids c = [] ->
  op_keys (d_paths (filter_doc c d)) = op_keys (d_paths d).
Proof.
  intros H1 H2 H3 H4. rewrite filter_op_keys. unfold op_keys.
  induction (d_paths d) as [|p ps IH]; [reflexivity|]. cbn [flat_map]. rewrite IH. f_equal.
  rewrite (filter_ext_eq (keep c) (fun _ => true)); [rewrite filter_true; reflexivity|].
  intros o. apply keep_all_when_lists_empty; assumption.
Qed.
