From Coq Require Import List String Bool Arith.
From V Require Import Model.Writer.
Import ListNotations.
Local Open Scope string_scope.

Lemma commit_live n s : ws_live (commit n s) = ws_live s.
Proof. unfold commit. destruct (ws_wire s); reflexivity. Qed.

Lemma commit_committed n s : ws_wire (commit n s) <> None.
Proof. unfold commit. destruct (ws_wire s) eqn:E; [rewrite E; discriminate|simpl; discriminate]. Qed.

(** Once committed, nothing changes what went on the wire. *)
Lemma wstep_wire_frozen s o : ws_wire s <> None -> ws_wire (wstep s o) = ws_wire s.
Proof.
  intros H. destruct o as [k v|n|b]; simpl; [reflexivity| |]; unfold commit;
    destruct (ws_wire s) eqn:E; try reflexivity; try (exfalso; apply H; reflexivity); rewrite E; reflexivity.
Qed.

Lemma wrun_from_wire_frozen : forall ops s, ws_wire s <> None -> ws_wire (fold_left wstep ops s) = ws_wire s.
Proof.
  induction ops as [|o ops IH]; intros s H; [reflexivity|]. simpl. rewrite IH.
  - apply wstep_wire_frozen. exact H.
  - rewrite wstep_wire_frozen by exact H. exact H.
Qed.

(** Steps other than Set leave the live map alone. *)
Lemma wstep_live_noset s o : is_set o = false -> ws_live (wstep s o) = ws_live s.
Proof. destruct o; simpl; intros H; [discriminate| |]; apply commit_live. Qed.

Lemma wrun_live_nosets : forall ops s, no_sets ops = true -> ws_live (fold_left wstep ops s) = ws_live s.
Proof.
  induction ops as [|o ops IH]; intros s H; [reflexivity|]. simpl in *. apply andb_true_iff in H. destruct H as [H1 H2].
  rewrite IH by exact H2. apply wstep_live_noset. destruct (is_set o); [discriminate|reflexivity].
Qed.

(** The criterion is sufficient: when every Set precedes the first WriteHeader / Write, every header the handler set
    is on the wire (the snapshot equals the live map), whatever the operations are. *)
Lemma sets_first_delivers : forall ops s,
  ws_wire s = None -> sets_first ops = true ->
  let e := fold_left wstep ops s in
  ws_wire e <> None -> wire_headers e = ws_live e.
Proof.
  induction ops as [|o ops IH]; intros s Hs Hf e He.
  - subst e. simpl in He. contradiction.
  - destruct o as [k v|n|b]; simpl in Hf.
    + subst e. simpl. apply IH; [simpl; exact Hs|exact Hf|exact He].
    + subst e. simpl in *.
      assert (C : ws_wire (commit n s) <> None) by apply commit_committed.
      unfold wire_headers. rewrite wrun_from_wire_frozen by exact C.
      rewrite wrun_live_nosets by exact Hf. unfold commit. rewrite Hs. reflexivity.
    + subst e. simpl in *.
      set (s1 := {| ws_live := ws_live (commit 200 s); ws_wire := ws_wire (commit 200 s); ws_body := (ws_body (commit 200 s) ++ b)%string |}) in *.
      assert (C : ws_wire s1 <> None) by (subst s1; simpl; apply commit_committed).
      unfold wire_headers. rewrite wrun_from_wire_frozen by exact C.
      rewrite wrun_live_nosets by exact Hf. subst s1. simpl. unfold commit. rewrite Hs. reflexivity.
Qed.

Theorem headers_set_first_reach_the_wire ops :
  sets_first ops = true -> ws_wire (wrun ops) <> None -> wire_headers (wrun ops) = ws_live (wrun ops).
Proof. intros H C. apply (sets_first_delivers ops winit); [reflexivity|exact H|exact C]. Qed.

(** A header set after the commit stays in the live map and never reaches the wire. *)
Theorem late_header_is_lost s k v :
  ws_wire s <> None ->
  wire_headers (wstep s (WSet k v)) = wire_headers s /\ In (k, v) (ws_live (wstep s (WSet k v))).
Proof.
  intros H. split.
  - unfold wire_headers. simpl. reflexivity.
  - simpl. unfold hput. apply in_or_app. right. left. reflexivity.
Qed.

(** The two observations differ on the sequence "status first": the live map shows the header, the wire does not
    (what a test reading the recorder's live map would wrongly accept). *)
Theorem status_first_refuted :
  let e := wrun [WStatus 201; WSet "Location" "/things/7"] in
  wire_status e = Some 201 /\ wire_headers e = [] /\ ws_live e = [("Location", "/things/7")] /\
  sets_first [WStatus 201; WSet "Location" "/things/7"] = false.
Proof. vm_compute. repeat split; reflexivity. Qed.

(** The order the templates emit: Content-Type, declared headers, status, body. *)
Theorem template_order_delivers ct hs n body :
  let ops := (WSet "Content-Type" ct :: map (fun p => WSet (fst p) (snd p)) hs ++ [WStatus n; WBody body])%list in
  wire_status (wrun ops) = Some n /\ wire_headers (wrun ops) = ws_live (wrun ops).
Proof.
  intros ops.
  assert (F : sets_first ops = true).
  { subst ops. simpl. induction hs as [|p hs IH]; simpl; [reflexivity|exact IH]. }
  assert (W : ws_wire (wrun ops) = Some (n, ws_live (fold_left wstep (WSet "Content-Type" ct :: map (fun p => WSet (fst p) (snd p)) hs) winit))).
  { subst ops. unfold wrun. rewrite app_comm_cons, fold_left_app.
    set (s := fold_left wstep (WSet "Content-Type" ct :: map (fun p => WSet (fst p) (snd p)) hs) winit).
    assert (N : ws_wire s = None).
    { subst s. simpl. generalize (wstep winit (WSet "Content-Type" ct)). intros s0.
      assert (G : forall l s1, ws_wire (fold_left wstep (map (fun p => WSet (fst p) (snd p)) l) s1) = ws_wire s1).
      { induction l as [|q l IHl]; intros s1; [reflexivity|]. simpl. rewrite IHl. reflexivity. }
      rewrite G. reflexivity. }
    simpl. unfold commit at 2. rewrite N. simpl. unfold commit. simpl. reflexivity. }
  split.
  - unfold wire_status. rewrite W. reflexivity.
  - apply headers_set_first_reach_the_wire; [exact F|rewrite W; discriminate].
Qed.
