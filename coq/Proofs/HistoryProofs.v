From Coq Require Import List String Bool.
From V Require Import Model.History.
Import ListNotations.

Section HistoryProofs.
Variables var val call out : Type.
Variable class : var -> gclass.
Variable reset : var -> call -> val.
Variable written : call -> var -> bool.
Variable complete : call -> bool.
Variable cond : var -> call -> bool.
Variable during : (var -> val) -> call -> var -> val.
Variable gen : (var -> val) -> call -> out.
Variable err : call -> out.

(** The generation reads the variables only through their values. *)
Hypothesis gen_ext : forall s s' c, (forall v, s v = s' v) -> gen s c = gen s' c.
(** A call that gets past the prologue has performed all its writes. *)
Hypothesis complete_written : forall c v, complete c = true -> written c v = true.

Notation step := (step var val call out class reset written complete cond during gen err).
Notation run := (run var val call out class reset written complete cond during gen err).
Notation prologue := (prologue var val call class reset written cond).

(** After the prologue of a completed call, a well-classified variable holds a value that does
    not depend on the state the call started from — except InitOnly/SetterOnly ones, which no
    call ever changes. *)
Definition agree_on_static (s s' : var -> val) : Prop :=
  forall v, (class v = InitOnly \/ class v = SetterOnly) -> s v = s' v.

Lemma step_preserves_static s c :
  (forall v, class_ok (class v) = true) ->
  agree_on_static s (fst (step s c)).
Proof.
  intros Hok v Hv. unfold step, History.step. simpl. unfold epilogue, History.prologue.
  destruct Hv as [Hv|Hv]; rewrite Hv; reflexivity.
Qed.

Lemma run_preserves_static : forall h s,
  (forall v, class_ok (class v) = true) -> agree_on_static s (run s h).
Proof.
  induction h as [|c h IH]; intros s Hok v Hv; simpl; [reflexivity|].
  unfold run, History.run in *. simpl.
  rewrite <- (IH _ Hok v Hv). apply (step_preserves_static s c Hok v Hv).
Qed.

Lemma prologue_determined s s' c :
  (forall v, class_ok (class v) = true) -> agree_on_static s s' -> complete c = true ->
  forall v, prologue s c v = prologue s' c v.
Proof.
  intros Hok Hag Hc v. unfold History.prologue.
  specialize (Hok v). destruct (class v) eqn:E; simpl in Hok; try discriminate.
  - apply Hag. left. exact E.
  - rewrite (complete_written c v Hc). reflexivity.
  - apply Hag. right. exact E.
Qed.

(** C17: whatever calls came before (successful or failing), the output of a call equals its
    output from the initial state, provided every variable is InitOnly, ResetEveryCall or
    SetterOnly. *)
Theorem history_independent : forall h s0 c,
  (forall v, class_ok (class v) = true) ->
  snd (step (run s0 h) c) = snd (step s0 c).
Proof.
  intros h s0 c Hok. unfold step, History.step. simpl.
  destruct (complete c) eqn:Hc; [|reflexivity].
  apply gen_ext. intros v. symmetry.
  apply (prologue_determined s0 (run s0 h) c Hok); [|exact Hc].
  apply run_preserves_static. exact Hok.
Qed.

End HistoryProofs.

(** The guard is necessary: with a conditionally reset variable (the shape the response-type
    suffix had before the fix), there is a history that changes a later call's output. *)
Theorem conditional_reset_refuted :
  exists (h : list (option nat)) (c : option nat),
    let class := fun _ : unit => ConditionalReset in
    let reset := fun (_ : unit) (c : option nat) => match c with Some n => n | None => 0 end in
    let written := fun (_ : option nat) (_ : unit) => true in
    let complete := fun _ : option nat => true in
    let cond := fun (_ : unit) (c : option nat) => match c with Some _ => true | None => false end in
    let during := fun (s : unit -> nat) (_ : option nat) => s in
    let gen := fun (s : unit -> nat) (_ : option nat) => s tt in
    let err := fun _ : option nat => 0 in
    let s0 := fun _ : unit => 7 in
    snd (step unit nat (option nat) nat class reset written complete cond during gen err
              (run unit nat (option nat) nat class reset written complete cond during gen err s0 h) c)
    <> snd (step unit nat (option nat) nat class reset written complete cond during gen err s0 c).
Proof. exists [Some 5], None. vm_compute. discriminate. Qed.

(** The same for a cache written during generation and never reset. *)
Theorem cache_refuted :
  exists (h : list nat) (c : nat),
    let class := fun _ : unit => WrittenDuringGeneration in
    let reset := fun (_ : unit) (c : nat) => 0 in
    let written := fun (_ : nat) (_ : unit) => true in
    let complete := fun _ : nat => true in
    let cond := fun (_ : unit) (_ : nat) => true in
    let during := fun (s : unit -> nat) (c : nat) (_ : unit) => c in
    let gen := fun (s : unit -> nat) (_ : nat) => s tt in
    let err := fun _ : nat => 0 in
    let s0 := fun _ : unit => 0 in
    snd (step unit nat nat nat class reset written complete cond during gen err
              (run unit nat nat nat class reset written complete cond during gen err s0 h) c)
    <> snd (step unit nat nat nat class reset written complete cond during gen err s0 c).
Proof. exists [3], 1. vm_compute. discriminate. Qed.
