From Coq Require Import List Bool Arith Lia.
From V Require Import Model.Wrapper.
Import ListNotations.

(** A request with any failing parameter never reaches the handler: the trace is exactly one
    error event, for the first failing parameter, and nothing after it. *)
Theorem reject_no_handler : forall ps i,
  existsb (fun p => negb (passes p)) ps = true ->
  exists k, wrapper i ps = [WErr (i + k)] /\ k < length ps /\
            forallb passes (firstn k ps) = true /\
            option_map passes (nth_error ps k) = Some false.
Proof.
  induction ps as [|p ps IH]; intros i H; simpl in H; [discriminate|].
  simpl. destruct (passes p) eqn:E; simpl in H.
  - destruct (IH (S i) H) as [k [Hk [Hlt [Hpre Hnth]]]].
    exists (S k). repeat split.
    + rewrite Hk. f_equal. f_equal. lia.
    + simpl. lia.
    + simpl. rewrite E. exact Hpre.
    + simpl. exact Hnth.
  - exists 0. repeat split.
    + f_equal. f_equal. lia.
    + simpl. lia.
    + simpl. rewrite E. reflexivity.
Qed.

Corollary reject_handler_not_called ps i :
  existsb (fun p => negb (passes p)) ps = true -> handler_called (wrapper i ps) = false.
Proof.
  intros H. destruct (reject_no_handler ps i H) as [k [Hk _]]. rewrite Hk. reflexivity.
Qed.

(** Conversely, a request whose parameters are all present (or optional and absent) and
    well-formed is never rejected: the trace is exactly one handler call. *)
Theorem accept_wellformed : forall ps i, forallb passes ps = true -> wrapper i ps = [WHandler].
Proof.
  induction ps as [|p ps IH]; intros i H; simpl in *; [reflexivity|].
  apply andb_true_iff in H. destruct H as [Hp Hr]. rewrite Hp. apply IH. exact Hr.
Qed.

(** The two cases are exhaustive. *)
Theorem wrapper_dichotomy ps i :
  (forallb passes ps = true /\ wrapper i ps = [WHandler]) \/
  (existsb (fun p => negb (passes p)) ps = true /\ handler_called (wrapper i ps) = false).
Proof.
  destruct (forallb passes ps) eqn:E.
  - left. split; [reflexivity|apply accept_wellformed; exact E].
  - right. assert (H : existsb (fun p => negb (passes p)) ps = true).
    { clear i. induction ps as [|p ps IH]; simpl in *; [discriminate|].
      destruct (passes p); simpl in *; [apply IH; exact E|reflexivity]. }
    split; [exact H|apply reject_handler_not_called; exact H].
Qed.

(** What a missing `return` in the error branch would do: the handler is reached although a
    parameter failed. *)
Theorem no_return_refuted :
  exists ps, existsb (fun p => negb (passes p)) ps = true /\ handler_called (wrapper_no_return 0 ps) = true.
Proof. exists [ {| p_required := true; p_state := Absent |} ]. split; reflexivity. Qed.
