From Coq Require Import List Bool Arith Lia String.
From V Require Import Model.Wrapper.
Import ListNotations.

(** A request with any failing parameter never reaches the handler: the trace is exactly one
    error event, for the first failing parameter, and nothing after it. *)
Theorem reject_no_handler : forall ps i,
  existsb (fun p => negb (passes p)) ps = true ->
  exists k, wrapper i ps = [WErr (i + k)] /\ k < List.length ps /\
            forallb passes (firstn k ps) = true /\
            option_map passes (nth_error ps k) = Some false.
Proof.
  induction ps as [|p ps IH]; intros i H; simpl in H; [discriminate|].
  simpl. destruct (passes p) eqn:E; simpl in H.
  - destruct (IH (S i) H) as [k [Hk [Hlt [Hpre Hnth]]]].
    exists (S k). repeat split.
    + rewrite Hk. f_equal. f_equal. lia.
    + simpl. lia.
    + simpl. rewrite E. exact Hpre.
    + simpl. exact Hnth.
  - exists 0. repeat split.
    + f_equal. f_equal. lia.
    + simpl. lia.
    + simpl. rewrite E. reflexivity.
Qed.

Corollary reject_handler_not_called ps i :
  existsb (fun p => negb (passes p)) ps = true -> handler_called (wrapper i ps) = false.
Proof.
  intros H. destruct (reject_no_handler ps i H) as [k [Hk _]]. rewrite Hk. reflexivity.
Qed.

(** Conversely, a request whose parameters are all present (or optional and absent) and
    well-formed is never rejected: the trace is exactly one handler call. *)
Theorem accept_wellformed : forall ps i, forallb passes ps = true -> wrapper i ps = [WHandler].
Proof.
  induction ps as [|p ps IH]; intros i H; simpl in *; [reflexivity|].
  apply andb_true_iff in H. destruct H as [Hp Hr]. rewrite Hp. apply IH. exact Hr.
Qed.

(** The two cases are exhaustive. *)
Theorem wrapper_dichotomy ps i :
  (forallb passes ps = true /\ wrapper i ps = [WHandler]) \/
  (existsb (fun p => negb (passes p)) ps = true /\ handler_called (wrapper i ps) = false).
Proof.
  destruct (forallb passes ps) eqn:E.
  - left. split; [reflexivity|apply accept_wellformed; exact E].
  - right. assert (H : existsb (fun p => negb (passes p)) ps = true).
    { clear i. induction ps as [|p ps IH]; simpl in *; [discriminate|].
      destruct (passes p); simpl in *; [apply IH; exact E|reflexivity]. }
    split; [exact H|apply reject_handler_not_called; exact H].
Qed.

(** What a missing `return` in the error branch would do: the handler is reached although a
    parameter failed. *)
Theorem no_return_refuted :
  exists ps, existsb (fun p => negb (passes p)) ps = true /\ handler_called (wrapper_no_return 0 ps) = true.
Proof. exists [ {| p_required := true; p_state := Absent |} ]. split; reflexivity. Qed.

(** * Query parameters next to a form-encoded body *)
Lemma body_is_irrelevant : forall decl q b b',
  qwrapper read_query decl {| in_query := q; in_body := b |} = qwrapper read_query decl {| in_query := q; in_body := b' |}.
Proof. reflexivity. Qed.

Lemma missing_required_query_parameter_rejected : forall decl r name,
  In (name, true) decl -> found (in_query r) name = Absent ->
  handler_called (qwrapper read_query decl r) = false.
Proof.
  intros decl r name Hin Habs. unfold qwrapper. apply reject_handler_not_called.
  apply existsb_exists. exists {| p_required := true; p_state := read_query r name |}. split.
  - apply in_map_iff. exists (name, true). split; [reflexivity|exact Hin].
  - unfold passes, read_query. cbn [p_state p_required]. rewrite Habs. reflexivity.
Qed.

Lemma complete_query_accepted : forall decl r,
  (forall d, In d decl -> found (in_query r) (fst d) = Binds \/ (snd d = false /\ found (in_query r) (fst d) = Absent)) ->
  qwrapper read_query decl r = [WHandler].
Proof.
  intros decl r H. unfold qwrapper. apply accept_wellformed. apply forallb_forall. intros p Hp.
  apply in_map_iff in Hp. destruct Hp as [d [Hd Hin]]. subst p. unfold passes, read_query. cbn [p_state p_required].
  destruct (H d Hin) as [Hb|[Hf Ha]]; [rewrite Hb; reflexivity|rewrite Ha, Hf; reflexivity].
Qed.

Lemma form_value_refuted :
  exists decl r name, In (name, true) decl /\ found (in_query r) name = Absent
                      /\ handler_called (qwrapper read_form_value decl r) = true.
Proof.
  exists [("token"%string, true)], {| in_query := []; in_body := [("token"%string, Binds)] |}, "token"%string.
  split; [left; reflexivity|]. split; reflexivity.
Qed.

Lemma form_value_rejects_complete_query_refuted :
  exists decl r, (forall d, In d decl -> found (in_query r) (fst d) = Binds)
                 /\ handler_called (qwrapper read_form_value decl r) = false.
Proof.
  exists [("filter"%string, true)], {| in_query := [("filter"%string, Binds)]; in_body := [("filter"%string, Malformed)] |}.
  split; [intros d [Hd|[]]; subst d; reflexivity|reflexivity].
Qed.
