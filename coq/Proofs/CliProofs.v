From Coq Require Import List String Bool Arith Lia.
From V Require Import Model.Cli.
Import ListNotations.
Local Open Scope string_scope.

(** * The target table: every documented name has exactly its documented effect *)
Theorem targets_table :
  map (fun p => lookup_target (fst p)) target_table = map (fun p => Some (snd p)) target_table.
Proof. vm_compute. reflexivity. Qed.

Theorem single_target_effect t e :
  In (t, e) target_table ->
  generation_targets [t] (gen_zero, {| skip_fmt := false; skip_prune := false |})
  = Some (apply_effect e (gen_zero, {| skip_fmt := false; skip_prune := false |})).
Proof.
  intros H. simpl. assert (L : lookup_target t = Some e).
  { pose proof targets_table as T. unfold target_table in H. simpl in H.
    repeat (destruct H as [H|H]; [inversion H; subst; reflexivity|]). contradiction. }
  rewrite L. reflexivity.
Qed.

(** An unknown target rejects the whole list. *)
Theorem unknown_target_rejected : forall ts t s,
  In t ts -> lookup_target t = None -> generation_targets ts s = None.
Proof.
  induction ts as [|x ts IH]; intros t s Hin Hn; [contradiction|]. simpl.
  destruct Hin as [->|Hin].
  - rewrite Hn. reflexivity.
  - destruct (lookup_target x); [|reflexivity]. apply (IH t _ Hin Hn).
Qed.

Section Config.
Context {rest : Type}.
Notation config := (@config rest).

Lemma gen_eqb_refl g : gen_eqb g g = true.
Proof. destruct g; unfold gen_eqb; simpl. rewrite !eqb_reflx. reflexivity. Qed.

Lemma gen_eqb_eq a b : gen_eqb a b = true -> a = b.
Proof.
  destruct a, b; unfold gen_eqb; simpl. intros H.
  repeat (apply andb_true_iff in H; destruct H as [H ?]).
  repeat match goal with H : Bool.eqb _ _ = true |- _ => apply eqb_prop in H end. subst. reflexivity.
Qed.

(** More than one server flavour is rejected; so is an empty package name. *)
Theorem validate_rejects_two_servers (c : config) : 1 < count_servers (c_gen c) -> validate c = false.
Proof.
  intros H. unfold validate. apply andb_false_iff. right. apply Nat.leb_gt. exact H.
Qed.

Theorem validate_rejects_empty_package (c : config) : c_package c = "" -> validate c = false.
Proof. intros H. unfold validate. rewrite H. reflexivity. Qed.

(** UpdateDefaults is idempotent and only ever touches an all-false generate section. *)
Theorem update_defaults_idempotent (c : config) : update_defaults (update_defaults c) = update_defaults c.
Proof. unfold update_defaults. destruct (gen_eqb (c_gen c) gen_zero) eqn:E; simpl; [reflexivity|rewrite E; reflexivity]. Qed.

Theorem update_defaults_frame (c : config) : gen_eqb (c_gen c) gen_zero = false -> update_defaults c = c.
Proof. intros H. unfold update_defaults. rewrite H. reflexivity. Qed.

(** The tool hands the library the file's configuration with defaults applied — PROVIDED the
    file does not set initialism-overrides (the flag's default overwrites it) ... *)
Theorem cli_equals_library (c : config) :
  c_initialism c = false ->
  resolve_new c = if validate (update_defaults c) then Some (update_defaults c) else None.
Proof.
  intros H. unfold resolve_new. assert (E : update_from_default_flags c = c).
  { destruct c; simpl in *; subst; reflexivity. }
  rewrite E. reflexivity.
Qed.

(** ... and not otherwise (known finding). *)
Theorem initialism_overrides_refuted :
  forall (r : rest), exists c : config, c_initialism c = true /\
    option_map c_initialism (resolve_new c) = Some false.
Proof.
  intros r. exists {| c_package := "p"; c_gen := gen_zero; c_out := {| skip_fmt := false; skip_prune := false |}; c_initialism := true; c_rest := r |}.
  split; reflexivity.
Qed.

(** --output-config prints the resolved configuration; feeding it back resolves to itself. *)
Theorem output_config_fixpoint (c c' : config) : resolve_new c = Some c' -> resolve_new c' = Some c'.
Proof.
  unfold resolve_new. destruct (validate (update_defaults (update_from_default_flags c))) eqn:V; [|discriminate].
  intros H. inversion H; subst. clear H.
  assert (E : update_from_default_flags (update_defaults (update_from_default_flags c)) = update_defaults (update_from_default_flags c)).
  { unfold update_defaults, update_from_default_flags. simpl. destruct (gen_eqb (c_gen c) gen_zero); reflexivity. }
  rewrite E, update_defaults_idempotent, V. reflexivity.
Qed.
End Config.

(** * style detection *)
Lemma unknown_key_refused : forall e l f, In KUnknown f -> detect strict_old e l f = None.
Proof.
  intros e l f Hin.
  assert (Ho : strict_old f = false).
  { unfold strict_old. destruct (forallb old_knows f) eqn:E; [|reflexivity].
    rewrite forallb_forall in E. specialize (E _ Hin). discriminate E. }
  assert (Hn : strict_new f = false).
  { unfold strict_new. destruct (forallb new_knows f) eqn:E; [|reflexivity].
    rewrite forallb_forall in E. specialize (E _ Hin). discriminate E. }
  unfold detect. rewrite Ho, Hn. destruct e; reflexivity.
Qed.

Lemma accepted_means_every_key_known : forall e l f s,
  detect strict_old e l f = Some s ->
  match s with SOld => strict_old f = true | SNew => strict_new f = true end.
Proof.
  intros e l f s H. unfold detect in H.
  destruct e; [destruct (strict_old f) eqn:Eo; inversion H; subst; reflexivity|].
  destruct (strict_old f) eqn:Eo, (strict_new f) eqn:En; try discriminate H.
  - destruct l; inversion H; subst; reflexivity.
  - inversion H; subst; reflexivity.
  - inversion H; subst; reflexivity.
Qed.

(** a file with a key only the new style has is a new-style file whatever flags come with it *)
Lemma new_only_key_means_new_style : forall l f,
  In KNewOnly f -> strict_new f = true -> detect strict_old false l f = Some SNew.
Proof.
  intros l f Hin Hn.
  assert (Ho : strict_old f = false).
  { unfold strict_old. destruct (forallb old_knows f) eqn:E; [|reflexivity].
    rewrite forallb_forall in E. specialize (E _ Hin). discriminate E. }
  unfold detect. rewrite Ho, Hn. reflexivity.
Qed.

(** with a non-strict old-style probe: a new-style file without a generate mapping, next to a legacy flag, is taken for an
    old-style file (and then refused, or - if the final read is not strict either - processed with its sections dropped) *)
Lemma lax_old_probe_refuted :
  detect lax_old false true [KCommon; KNewOnly] <> Some SNew
  /\ detect strict_old false true [KCommon; KNewOnly] = Some SNew.
Proof. split; [vm_compute; discriminate|reflexivity]. Qed.

(** * Every field the resolution does not name is copied: a new-style run hands on the rest of the configuration
      (compatibility flags, import mapping, ...) exactly as the file gave it, whichever outputs are selected. *)
Theorem resolve_keeps_the_rest {rest : Type} (c c' : @config rest) : resolve_new c = Some c' -> c_rest c' = c_rest c.
Proof.
  unfold resolve_new, update_defaults, update_from_default_flags. cbn [c_gen c_package c_out c_initialism c_rest].
  destruct (gen_eqb (c_gen c) gen_zero); cbn [c_gen c_package c_out c_initialism c_rest];
    match goal with |- (if ?v then _ else _) = _ -> _ => destruct v end; intro H; inversion H; reflexivity.
Qed.

(** a resolution that clears a flag of the rest for some selections (the chi first-to-last flag unless the chi server is
    generated) is not the tool's: std-http reads that flag *)
Definition resolve_clearing_chi_flag (c : @config (bool * bool)) : option (@config (bool * bool)) :=
  match resolve_new c with
  | Some c' => Some {| c_package := c_package c'; c_gen := c_gen c'; c_out := c_out c'; c_initialism := c_initialism c';
                       c_rest := (if g_chi (c_gen c') then fst (c_rest c') else false, snd (c_rest c')) |}
  | None => None
  end.
Theorem clearing_the_chi_flag_refuted :
  let g := {| g_iris := false; g_chi := false; g_fiber := false; g_echo := false; g_gin := false; g_gorilla := false;
              g_stdhttp := true; g_strict := false; g_client := false; g_models := true; g_spec := false |} in
  let c := {| c_package := "api"%string; c_gen := g; c_out := {| skip_fmt := false; skip_prune := false |}; c_initialism := false; c_rest := (true, false) |} in
  option_map c_rest (resolve_new c) = Some (true, false) /\ option_map c_rest (resolve_clearing_chi_flag c) = Some (false, false).
Proof. vm_compute. split; reflexivity. Qed.
