(** Obligation tying the ambient reads of pkg/codegen (regenerated from the source on every run) to the hypothesis of
    the theorem of Props/C02.v: every read outside the arguments is stable for a given binary (today: one call of
    runtime/debug.ReadBuildInfo in GenerateImports, for the version in the header line). *)
From Coq Require Import List String Bool.
From V Require Import Model.Det Gen.Ambient.
Import ListNotations.
Local Open Scope string_scope.

Theorem ambient_reads_are_stable : forallb (fun p => stable (classify_callee (snd p))) ambient_reads = true.
Proof. vm_compute. reflexivity. Qed.

Theorem ambient_reads_listed : ambient_reads = [("GenerateImports", "runtime/debug.ReadBuildInfo")].
Proof. vm_compute. reflexivity. Qed.

(** No formatted text of pkg/codegen prints a value by address (a verb applied to a pointer that has no Error / String
    method of its own, a pointer below the top level of a value, a channel, a function, or the verb p): such a text would
    differ from load to load of one document (regenerated from the source with go/types on every run). *)
Theorem no_text_prints_an_address : address_formats = [].
Proof. vm_compute. reflexivity. Qed.
