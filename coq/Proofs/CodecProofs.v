From Coq Require Import List String Bool.
From V Require Import Model.Codec.
Import ListNotations.
Local Open Scope string_scope.
Local Open Scope list_scope.

Section CodecProofs.
Variable jv : Type.
Variable jnull : jv.
Variable is_null : jv -> bool.
Hypothesis is_null_jnull : is_null jnull = true.
(** null is a single JSON value *)
Hypothesis null_unique : forall v, is_null v = true -> v = jnull.

Notation decode := (decode jv is_null).
Notation encode := (encode jv jnull).
Notation entry := (entry jv jnull).
Notation valid := (valid jv is_null).
Notation jlookup := (jlookup jv).
Notation field_value := (field_value jv).

Lemma jlookup_app_l (a b : jobj jv) k v : jlookup a k = Some v -> jlookup (a ++ b) k = Some v.
Proof.
  unfold Codec.jlookup. induction a as [|[k' v'] a IH]; simpl; [discriminate|].
  destruct (String.eqb k' k); [auto|exact IH].
Qed.

Lemma jlookup_app_r (a b : jobj jv) k : jlookup a k = None -> jlookup (a ++ b) k = jlookup b k.
Proof.
  unfold Codec.jlookup. induction a as [|[k' v'] a IH]; simpl; [reflexivity|].
  destruct (String.eqb k' k); [discriminate|exact IH].
Qed.

Lemma entry_other has_addl g f k : f_name f <> k -> jlookup (entry has_addl g f) k = None.
Proof.
  intros Hne. unfold Codec.entry, Codec.jlookup.
  assert (E : String.eqb (f_name f) k = false) by (apply String.eqb_neq; exact Hne).
  destruct (field_value g (f_name f)); simpl; [rewrite E; reflexivity|].
  destruct has_addl; [destruct (f_required f)|destruct (f_omitempty f)]; simpl; rewrite ?E; reflexivity.
Qed.

Lemma fields_other has_addl g : forall fs k,
  (forall f, In f fs -> f_name f <> k) -> jlookup (flat_map (entry has_addl g) fs) k = None.
Proof.
  induction fs as [|f fs IH]; intros k H; simpl; [reflexivity|].
  rewrite jlookup_app_r by (apply entry_other; apply H; left; reflexivity).
  apply IH. intros x Hx. apply H. right. exact Hx.
Qed.

Lemma fields_member has_addl g : forall fs f,
  NoDup (map f_name fs) -> In f fs ->
  jlookup (flat_map (entry has_addl g) fs) (f_name f) = jlookup (entry has_addl g f) (f_name f).
Proof.
  induction fs as [|x fs IH]; intros f Hnd Hin; [contradiction|]. simpl.
  inversion Hnd as [|? ? Hnotin Hnd']; subst. destruct Hin as [->|Hin].
  - destruct (jlookup (entry has_addl g f) (f_name f)) as [v|] eqn:E.
    + apply jlookup_app_l. exact E.
    + rewrite jlookup_app_r by exact E. apply fields_other.
      intros y Hy Heq. apply Hnotin. rewrite <- Heq. apply in_map. exact Hy.
  - rewrite jlookup_app_r; [apply IH; assumption|].
    apply entry_other. intros Heq. apply Hnotin. rewrite Heq. apply in_map. exact Hin.
Qed.

Lemma field_value_decode fs has_addl o f :
  NoDup (map f_name fs) -> In f fs ->
  field_value (decode fs has_addl o) (f_name f) =
  match jlookup o (f_name f) with Some v => if is_null v then None else Some v | None => None end.
Proof.
  intros Hnd Hin. unfold Codec.field_value, Codec.decode. simpl.
  induction fs as [|g fs IH]; [contradiction|]. simpl.
  destruct (String.eqb (f_name g) (f_name f)) eqn:E.
  - apply String.eqb_eq in E. simpl. rewrite E. reflexivity.
  - destruct Hin as [->|Hin]; [rewrite String.eqb_refl in E; discriminate|].
    inversion Hnd; subst. apply IH; assumption.
Qed.

Lemma addl_no_declared fs o f : In f fs -> jlookup (g_addl jv (decode fs true o)) (f_name f) = None.
Proof.
  intros Hin. unfold Codec.decode, Codec.jlookup. simpl.
  induction o as [|[k v] o IH]; simpl; [reflexivity|].
  destruct (declared fs k) eqn:D; simpl; [exact IH|].
  destruct (String.eqb k (f_name f)) eqn:E; [|exact IH].
  apply String.eqb_eq in E. subst k. exfalso.
  unfold declared in D. assert (T : existsb (fun f0 => String.eqb (f_name f0) (f_name f)) fs = true).
  { apply existsb_exists. exists f. split; [exact Hin|apply String.eqb_refl]. }
  rewrite T in D. discriminate.
Qed.

(** Members captured as additional properties never carry a declared name. *)
Theorem additional_never_shadows_declared fs o k :
  In k (map fst (g_addl jv (decode fs true o))) -> declared fs k = false.
Proof.
  unfold Codec.decode. simpl. intros H. apply in_map_iff in H. destruct H as [[k' v] [<- Hin]].
  apply filter_In in Hin. destruct Hin as [_ Hn]. simpl in *. apply negb_true_iff in Hn. exact Hn.
Qed.

(** * Round trip, member by member *)

(** A declared member: what was there is there again; an absent optional nullable member of a
    plain struct reappears as null (the documented exception); EXCEPT that an explicit null of an
    optional nullable member of a type with additional properties disappears. *)
Theorem declared_member_roundtrip fs has_addl o f :
  NoDup (map f_name fs) -> In f fs -> valid fs has_addl o ->
  jlookup (encode fs has_addl (decode fs has_addl o)) (f_name f) =
  match jlookup o (f_name f) with
  | Some v => if is_null v && has_addl && negb (f_required f) then None else Some v
  | None => if negb has_addl && f_nullable f && negb (f_required f) then Some jnull else None
  end.
Proof.
  intros Hnd Hin [Hkeys [Hreq [Hnull Hunk]]]. unfold Codec.encode.
  assert (Hent : jlookup (entry has_addl (decode fs has_addl o) f) (f_name f) =
                 match jlookup o (f_name f) with
                 | Some v => if is_null v && has_addl && negb (f_required f) then None else Some v
                 | None => if negb has_addl && f_nullable f && negb (f_required f) then Some jnull else None
                 end).
  { unfold Codec.entry. rewrite (field_value_decode fs has_addl o f Hnd Hin).
    destruct (Codec.jlookup jv o (f_name f)) as [v|] eqn:E.
    - destruct (is_null v) eqn:N.
      + pose proof (Hnull f v Hin E N) as Hnl. rewrite (null_unique v N).
        destruct has_addl; simpl.
        * destruct (f_required f); simpl; [unfold Codec.jlookup; simpl; rewrite String.eqb_refl; reflexivity|reflexivity].
        * unfold f_omitempty. rewrite Hnl. simpl. unfold Codec.jlookup. simpl. rewrite String.eqb_refl. reflexivity.
      + simpl. unfold Codec.jlookup. simpl. rewrite String.eqb_refl. reflexivity.
    - assert (Hr : f_required f = false).
      { destruct (f_required f) eqn:R; [|reflexivity]. exfalso. apply (Hreq f Hin R). exact E. }
      rewrite Hr. destruct has_addl; simpl; [reflexivity|].
      unfold f_omitempty. rewrite Hr. destruct (f_nullable f); simpl; [|reflexivity].
      unfold Codec.jlookup. simpl. rewrite String.eqb_refl. reflexivity. }
  destruct (jlookup (flat_map (entry has_addl (decode fs has_addl o)) fs) (f_name f)) as [w|] eqn:F.
  - rewrite (jlookup_app_l _ _ _ _ F). rewrite <- F. rewrite fields_member by assumption. exact Hent.
  - rewrite (jlookup_app_r _ _ _ F). rewrite fields_member in F by assumption. rewrite <- Hent, F.
    destruct has_addl; [apply addl_no_declared; exact Hin|reflexivity].
Qed.

Lemma filter_lookup (p : string -> bool) (o : jobj jv) k :
  p k = true -> jlookup (filter (fun q => p (fst q)) o) k = jlookup o k.
Proof.
  intros Hp. unfold Codec.jlookup. induction o as [|[k' v] o IH]; simpl; [reflexivity|].
  destruct (p k') eqn:E; simpl.
  - destruct (String.eqb k' k); [reflexivity|exact IH].
  - destruct (String.eqb k' k) eqn:E'; [apply String.eqb_eq in E'; subst; congruence|exact IH].
Qed.

(** An undeclared member of a type with additional properties is preserved, name and value. *)
Theorem additional_member_preserved fs o k :
  declared fs k = false ->
  jlookup (encode fs true (decode fs true o)) k = jlookup o k.
Proof.
  intros Hd. unfold Codec.encode. rewrite jlookup_app_r.
  - unfold Codec.decode. simpl. apply (filter_lookup (fun k => negb (declared fs k))). rewrite Hd. reflexivity.
  - apply fields_other. intros f Hin Heq. subst k.
    unfold declared in Hd. assert (T : existsb (fun f0 => String.eqb (f_name f0) (f_name f)) fs = true).
    { apply existsb_exists. exists f. split; [exact Hin|apply String.eqb_refl]. }
    rewrite T in Hd. discriminate.
Qed.

(** Nothing is invented: every member of the output is a member of the input, or the null of a
    declared nullable member. *)
Theorem nothing_invented fs has_addl o k v :
  NoDup (map f_name fs) -> valid fs has_addl o ->
  jlookup (encode fs has_addl (decode fs has_addl o)) k = Some v ->
  jlookup o k = Some v \/ (v = jnull /\ exists f, In f fs /\ f_name f = k /\ f_nullable f = true).
Proof.
  intros Hnd Hv H. destruct (declared fs k) eqn:D.
  - unfold declared in D. apply existsb_exists in D. destruct D as [f [Hin Heq]]. apply String.eqb_eq in Heq. subst k.
    rewrite (declared_member_roundtrip fs has_addl o f Hnd Hin Hv) in H.
    destruct (Codec.jlookup jv o (f_name f)) as [w|] eqn:E.
    + destruct (is_null w && has_addl && negb (f_required f)); [discriminate|]. left. exact H.
    + destruct (negb has_addl && f_nullable f && negb (f_required f)) eqn:C; [|discriminate].
      inversion H; subst. right. split; [reflexivity|]. exists f. repeat split; auto.
      apply andb_true_iff in C. destruct C as [C _]. apply andb_true_iff in C. apply C.
  - destruct has_addl.
    + rewrite (additional_member_preserved fs o k D) in H. left. exact H.
    + unfold Codec.encode, Codec.decode in H. simpl in H. rewrite app_nil_r in H.
      rewrite fields_other in H; [discriminate|].
      intros f Hin Heq. subst k. unfold declared in D.
      assert (T : existsb (fun f0 => String.eqb (f_name f0) (f_name f)) fs = true).
      { apply existsb_exists. exists f. split; [exact Hin|apply String.eqb_refl]. }
      rewrite T in D. discriminate.
Qed.
End CodecProofs.

(** The clause "the only permitted difference is that an absent optional nullable member may
    reappear as null" fails in the other direction for types with additional properties: an
    explicit null of an optional nullable member is dropped. *)
Theorem explicit_null_dropped_refuted :
  let fs := [ {| f_name := "n"; f_required := false; f_nullable := true |} ] in
  let o := [("n", None); ("extra", Some 1)] in
  map fst (encode (option nat) None fs true (decode (option nat) (fun v => match v with None => true | _ => false end) fs true o)) = ["extra"].
Proof. vm_compute. reflexivity. Qed.
