(** Obligation tying the wrapper templates that run per-operation middlewares themselves (chi, gorilla, std-http, gin;
    token order regenerated from the template text on every run) to the criterion of Model/Security.v: the scopes are
    published before the middleware chain is entered, so middlewares and handler both find them. *)
From Coq Require Import List String Bool.
From V Require Import Model.Security Gen.ScopeOrder.
Import ListNotations.

Theorem wrappers_publish_before_the_chain :
  forallb (fun p => publishes_first (snd p)) scope_order = true /\ Nat.eqb (List.length scope_order) 4 = true.
Proof. vm_compute. split; reflexivity. Qed.
