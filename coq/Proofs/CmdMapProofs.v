From Coq Require Import List String Ascii Bool.
From V Require Import Model.CmdMap.
Import ListNotations.
Local Open Scope string_scope.

Lemma app_assoc_s (a b c : string) : (a ++ b) ++ c = a ++ (b ++ c).
Proof. induction a as [|x a IH]; simpl; [reflexivity|]. rewrite IH. reflexivity. Qed.
Lemma app_nil_s (a : string) : a ++ "" = a.
Proof. induction a as [|x a IH]; simpl; [reflexivity|]. rewrite IH. reflexivity. Qed.

(** inside quotes nothing splits, up to the closing quote *)
Lemma split_inside sep : Ascii.eqb dq sep = false -> forall k part rest,
  has_char dq k = false ->
  split_q sep true part (k ++ String dq rest) = split_q sep false (part ++ k ++ String dq "") rest.
Proof.
  intros Hsep. induction k as [|c k IH]; intros part rest H.
  - cbn [append split_q]. rewrite Ascii.eqb_refl. cbn [negb]. rewrite Hsep. cbn [andb]. reflexivity.
  - cbn [has_char] in H. apply orb_false_iff in H. destruct H as [Hc Hk].
    cbn [append split_q]. rewrite Hc. cbn [negb]. rewrite andb_false_r.
    rewrite (IH _ _ Hk). rewrite app_assoc_s. reflexivity.
Qed.

(** a quoted section is swallowed whole *)
Lemma split_quoted sep : Ascii.eqb dq sep = false -> forall k part rest,
  has_char dq k = false ->
  split_q sep false part (quoted k ++ rest) = split_q sep false (part ++ quoted k) rest.
Proof.
  intros Hsep k part rest H. unfold quoted. cbn [append split_q]. rewrite Ascii.eqb_refl. cbn [negb].
  rewrite Hsep. cbn [andb].
  rewrite (app_assoc_s k (String dq "") rest). cbn [append].
  rewrite (split_inside sep Hsep k _ rest H). rewrite !app_assoc_s. cbn [append]. reflexivity.
Qed.

Lemma split_end sep part : split_q sep false part "" = [part].
Proof. reflexivity. Qed.

Lemma trim_left_quote_free k : has_char dq k = false -> trim_left_q (k ++ String dq "") = k ++ String dq "" \/ k = "".
Proof.
  destruct k as [|c k]; [right; reflexivity|]. intros H. left. cbn [has_char] in H. apply orb_false_iff in H.
  destruct H as [Hc _]. cbn [append trim_left_q]. rewrite Hc. reflexivity.
Qed.

Lemma trim_right_quote_free : forall k, has_char dq k = false -> trim_right_q (k ++ String dq "") = k.
Proof.
  induction k as [|c k IH]; intros H; [reflexivity|].
  cbn [has_char] in H. apply orb_false_iff in H. destruct H as [Hc Hk].
  cbn [append trim_right_q]. rewrite (IH Hk). destruct k; [rewrite Hc; reflexivity|reflexivity].
Qed.

Lemma trim_quoted k : has_char dq k = false -> trim_q (quoted k) = k.
Proof.
  intros H. unfold trim_q, quoted. cbn [trim_left_q]. rewrite Ascii.eqb_refl.
  destruct (trim_left_quote_free k H) as [E| ->]; [rewrite E; apply trim_right_quote_free; exact H|reflexivity].
Qed.

Lemma colon_ne : Ascii.eqb dq ":" = false. Proof. reflexivity. Qed.
Lemma comma_ne : Ascii.eqb dq "," = false. Proof. reflexivity. Qed.

Definition clean_pair (p : string * string) : Prop := has_char dq (fst p) = false /\ has_char dq (snd p) = false.

Lemma parse_rendered_pair p : clean_pair p -> parse_pair (render_pair p) = Some p.
Proof.
  intros [Hk Hv]. destruct p as [k v]. unfold parse_pair, render_pair. cbn [fst snd] in *.
  change (split_q ":" false "" (quoted k ++ ":" ++ quoted v)) with (split_q ":" false "" (quoted k ++ (":" ++ quoted v))).
  rewrite (split_quoted ":" colon_ne k "" _ Hk). cbn [append].
  change (String ":" (quoted v)) with (String ":"%char (quoted v)).
  cbn [split_q]. change (Ascii.eqb ":" dq) with false. rewrite Ascii.eqb_refl. cbn [andb negb].
  replace (quoted v) with (quoted v ++ "") at 1 by apply app_nil_s.
  rewrite (split_quoted ":" colon_ne v "" "" Hv). cbn [append split_q].
  rewrite (trim_quoted k Hk), (trim_quoted v Hv). reflexivity.
Qed.

(** a rendered pair is one part of the comma split *)
Lemma split_rendered_pair p part rest : clean_pair p ->
  split_q "," false part (render_pair p ++ rest) = split_q "," false (part ++ render_pair p) rest.
Proof.
  intros [Hk Hv]. destruct p as [k v]. unfold render_pair. cbn [fst snd] in *.
  rewrite !app_assoc_s. rewrite (split_quoted "," comma_ne k part _ Hk).
  cbn [append split_q]. change (Ascii.eqb ":" dq) with false. change (Ascii.eqb ":" ",") with false. cbn [andb].
  rewrite (split_quoted "," comma_ne v _ rest Hv). rewrite !app_assoc_s. reflexivity.
Qed.

Lemma split_rendered_map : forall l, l <> [] -> Forall clean_pair l ->
  split_q "," false "" (render_map l) = map render_pair l.
Proof.
  induction l as [|p l IH]; intros Hne H; [congruence|]. inversion H as [|? ? Hp Hl]; subst.
  destruct l as [|q l].
  - unfold render_map. cbn [map join_s]. rewrite <- (app_nil_s (render_pair p)) at 1.
    rewrite (split_rendered_pair p "" "" Hp). reflexivity.
  - unfold render_map in *. cbn [map join_s] in *.
    rewrite (split_rendered_pair p "" _ Hp). cbn [append split_q].
    change (Ascii.eqb "," dq) with false. rewrite Ascii.eqb_refl. cbn [andb negb].
    f_equal. apply IH; [discriminate|exact Hl].
Qed.

(** The documented promise: with keys and values quoted, commas and colons inside them are data.
    Every map without double quotes in its keys and values is read back exactly. *)
Theorem parse_render_roundtrip l :
  l <> [] -> Forall clean_pair l -> parse_map (render_map l) = Some l.
Proof.
  intros Hne H. unfold parse_map. rewrite (split_rendered_map l Hne H). clear Hne.
  induction l as [|p l IH]; [reflexivity|]. inversion H; subst. cbn [map traverse_o].
  rewrite parse_rendered_pair by assumption. rewrite IH by assumption. reflexivity.
Qed.

(** an unquoted tuple with two colons is rejected *)
Theorem two_colons_rejected : parse_map "a:b:c" = None.
Proof. reflexivity. Qed.
