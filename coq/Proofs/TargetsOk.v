(** Obligation tying the generate-target switch of cmd/oapi-codegen (regenerated from the
    source on every run) to the model's table. *)
From Coq Require Import List String.
From V Require Import Model.Cli Gen.Targets.
Import ListNotations.

Theorem targets_scanned_equal_model : scanned_targets = target_table.
Proof. vm_compute. reflexivity. Qed.
