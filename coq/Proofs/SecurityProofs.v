From Coq Require Import List String Bool Arith Permutation.
From V Require Import Model.Det Model.Security Proofs.DetProofs.
Import ListNotations.
Local Open Scope string_scope.

(** * Context bookkeeping *)
Lemma ctx_get_set_same c k v : ctx_get (ctx_set c k v) k = Some v.
Proof. unfold ctx_get, ctx_set. simpl. rewrite String.eqb_refl. reflexivity. Qed.

Lemma find_filter_other c k k' :
  k <> k' ->
  find (fun p : string * list string => String.eqb (fst p) k') (filter (fun p => negb (String.eqb (fst p) k)) c)
  = find (fun p => String.eqb (fst p) k') c.
Proof.
  intros Hne. induction c as [|[a b] c IH]; simpl; [reflexivity|].
  destruct (String.eqb a k) eqn:E; simpl.
  - apply String.eqb_eq in E. subst a.
    destruct (String.eqb k k') eqn:E'; [apply String.eqb_eq in E'; congruence|exact IH].
  - destruct (String.eqb a k'); [reflexivity|exact IH].
Qed.

Lemma ctx_get_set_other c k v k' : k <> k' -> ctx_get (ctx_set c k v) k' = ctx_get c k'.
Proof.
  intros Hne. unfold ctx_get, ctx_set. simpl.
  destruct (String.eqb k k') eqn:E; [apply String.eqb_eq in E; congruence|].
  rewrite find_filter_other by exact Hne. reflexivity.
Qed.

(** * What the wrapper publishes *)

Lemma publish_app (key_of : string -> string) (a b : list (string * list string)) :
  publish key_of (a ++ b)%list = fold_left (fun c d => ctx_set c (key_of (fst d)) (snd d)) b (publish key_of a).
Proof. unfold publish. apply fold_left_app. Qed.

(** A key nobody sets stays unset: only schemes of the effective requirements are published. *)
Lemma fold_not_set (key_of : string -> string) : forall (defs : list (string * list string)) c k,
  (forall d, In d defs -> key_of (fst d) <> k) ->
  ctx_get (fold_left (fun c d => ctx_set c (key_of (fst d)) (snd d)) defs c) k = ctx_get c k.
Proof.
  induction defs as [|d defs IH]; intros c k H; simpl; [reflexivity|].
  rewrite IH by (intros d' Hd'; apply H; right; exact Hd').
  apply ctx_get_set_other. apply H. left. reflexivity.
Qed.

Theorem publish_nothing_else (key_of : string -> string) (defs : list (string * list string)) k :
  (forall d, In d defs -> key_of (fst d) <> k) -> ctx_get (publish key_of defs) k = None.
Proof. intros H. unfold publish. rewrite fold_not_set by exact H. reflexivity. Qed.

(** A scheme that occurs once among the definitions is published with exactly its scopes. *)
Theorem publish_exact (key_of : string -> string) (before : list (string * list string)) s scopes after :
  (forall d, In d after -> key_of (fst d) <> key_of s) ->
  ctx_get (publish key_of (before ++ (s, scopes) :: after)%list) (key_of s) = Some scopes.
Proof.
  intros H. rewrite publish_app. simpl.
  rewrite fold_not_set by exact H. apply ctx_get_set_same.
Qed.

(** Operation-level requirements replace the global ones; an empty list clears them. *)
Theorem override_replaces (key_of : string -> string) global l :
  published key_of global (Some l) = publish key_of (describe l).
Proof. reflexivity. Qed.

Theorem empty_list_clears (key_of : string -> string) global k : ctx_get (published key_of global (Some [])) k = None.
Proof. reflexivity. Qed.

Theorem inherits_global (key_of : string -> string) global :
  published key_of global None = publish key_of (describe global).
Proof. reflexivity. Qed.

(** The order of the schemes inside one requirement object (a Go map) is irrelevant. *)
Lemma lookup_scopes_perm r r' k :
  Permutation r r' -> NoDup (map fst r) -> lookup_scopes r k = lookup_scopes r' k.
Proof.
  intros H. unfold lookup_scopes.
  induction H as [|x l l' _ IH|x y l|l l' l'' H1 IH1 H2 IH2]; intros Hnd; simpl.
  - reflexivity.
  - destruct (String.eqb (fst x) k); [reflexivity|]. apply IH. inversion Hnd; assumption.
  - destruct (String.eqb (fst y) k) eqn:Ey, (String.eqb (fst x) k) eqn:Ex; try reflexivity.
    apply String.eqb_eq in Ey, Ex. exfalso. inversion Hnd as [|? ? Hnotin _]; subst.
    apply Hnotin. simpl. left. congruence.
  - rewrite IH1 by exact Hnd. apply IH2.
    eapply Permutation_NoDup; [apply Permutation_map; exact H1|exact Hnd].
Qed.

Theorem describe_requirement_perm r r' rest :
  Permutation r r' -> NoDup (map fst r) -> describe (r :: rest) = describe (r' :: rest).
Proof.
  intros H Hnd. unfold describe. simpl. f_equal.
  rewrite (sorted_map_keys_perm r r' H). apply map_ext. intros k.
  rewrite (lookup_scopes_perm r r' k H Hnd). reflexivity.
Qed.

(** * Providers: the frame *)

Lemma hdr_get_set_other h k v k' : k <> k' -> hdr_get (hdr_set h k v) k' = hdr_get h k'.
Proof.
  intros Hne. unfold hdr_get, hdr_set. simpl.
  destruct (String.eqb k k') eqn:E; [apply String.eqb_eq in E; congruence|].
  induction h as [|[a b] h IH]; simpl; [reflexivity|].
  destruct (String.eqb a k) eqn:Ea; simpl.
  - apply String.eqb_eq in Ea. subst a. rewrite E. exact IH.
  - destruct (String.eqb a k'); [reflexivity|exact IH].
Qed.

Lemma hdr_get_add_other h k v k' : k <> k' -> hdr_get (hdr_add h k v) k' = hdr_get h k'.
Proof.
  intros Hne. unfold hdr_get, hdr_add.
  destruct (existsb (fun p => String.eqb (fst p) k) h) eqn:Ex.
  - clear Ex. induction h as [|[a b] h IH]; simpl; [reflexivity|].
    destruct (String.eqb a k) eqn:Ea; simpl.
    + apply String.eqb_eq in Ea. subst a.
      destruct (String.eqb k k') eqn:E; [apply String.eqb_eq in E; congruence|exact IH].
    + destruct (String.eqb a k'); [reflexivity|exact IH].
  - clear Ex. induction h as [|[a b] h IH]; simpl.
    + destruct (String.eqb k k') eqn:E; [apply String.eqb_eq in E; congruence|reflexivity].
    + destruct (String.eqb a k'); [reflexivity|exact IH].
Qed.

Lemma hdr_get_set_same h k v : hdr_get (hdr_set h k v) k = [v].
Proof. unfold hdr_get, hdr_set. simpl. rewrite String.eqb_refl. reflexivity. Qed.

(** Every provider leaves every other header, the other parts of the request, and every
    pre-existing query parameter / cookie (in order) untouched, and attaches exactly the given
    credential in the declared place. *)
Theorem intercept_frame p r :
  match p with
  | Basic enc =>
      hdr_get (headers (intercept p r)) "Authorization" = [enc] /\
      (forall k, k <> "Authorization" -> hdr_get (headers (intercept p r)) k = hdr_get (headers r) k) /\
      query (intercept p r) = query r /\ cookies (intercept p r) = cookies r
  | Bearer t =>
      hdr_get (headers (intercept p r)) "Authorization" = ["Bearer " ++ t] /\
      (forall k, k <> "Authorization" -> hdr_get (headers (intercept p r)) k = hdr_get (headers r) k) /\
      query (intercept p r) = query r /\ cookies (intercept p r) = cookies r
  | ApiKeyHeader n key =>
      (forall k, k <> n -> hdr_get (headers (intercept p r)) k = hdr_get (headers r) k) /\
      query (intercept p r) = query r /\ cookies (intercept p r) = cookies r
  | ApiKeyQuery n key =>
      headers (intercept p r) = headers r /\ query (intercept p r) = (query r ++ [(n, key)])%list /\
      cookies (intercept p r) = cookies r
  | ApiKeyCookie n key =>
      headers (intercept p r) = headers r /\ query (intercept p r) = query r /\
      cookies (intercept p r) = (cookies r ++ [(n, key)])%list
  end.
Proof.
  destruct p; simpl; repeat split; auto;
    try (apply hdr_get_set_same);
    try (intros k Hk; apply hdr_get_set_other; congruence);
    try (intros k Hk; apply hdr_get_add_other; congruence).
Qed.

Theorem apikey_header_appends h n key :
  hdr_get (hdr_add h n key) n = (hdr_get h n ++ [key])%list.
Proof.
  unfold hdr_get, hdr_add.
  destruct (existsb (fun p => String.eqb (fst p) n) h) eqn:Ex.
  - induction h as [|[a b] h IH]; simpl in *; [discriminate|].
    destruct (String.eqb a n) eqn:Ea; simpl.
    + rewrite Ea. reflexivity.
    + rewrite Ea. apply IH. exact Ex.
  - induction h as [|[a b] h IH]; simpl in *.
    + rewrite String.eqb_refl. reflexivity.
    + destruct (String.eqb a n) eqn:Ea; simpl in *; [discriminate|]. apply IH. exact Ex.
Qed.

(** * Who finds the published scopes *)
Lemma seen_once_published : forall who text,
  (who = KChain \/ who = KHandler) -> In who text -> seen_by who text true = Some true.
Proof.
  intros who text Hw. induction text as [|t r IH]; intros Hin; [destruct Hin|].
  cbn [seen_by]. destruct Hw as [Hw|Hw]; subst who; destruct t; cbn [orb]; try reflexivity;
    apply IH; destruct Hin as [Hin|Hin]; try discriminate Hin; exact Hin.
Qed.

Lemma seen_skips_prefix : forall who pre rest b,
  (who = KChain \/ who = KHandler) -> ~ In who pre ->
  seen_by who (pre ++ KPublish :: rest) b = seen_by who rest true.
Proof.
  intros who pre rest b Hw. revert b. induction pre as [|t r IH]; intros b Hn.
  - cbn [app seen_by]. destruct Hw as [Hw|Hw]; subst who; cbn [orb]; rewrite Bool.orb_true_r; reflexivity.
  - cbn [app seen_by].
    assert (Ht : t <> who) by (intros E; apply Hn; left; exact E).
    assert (Hr : ~ In who r) by (intros E; apply Hn; right; exact E).
    destruct Hw as [Hw|Hw]; subst who; destruct t; try (exfalso; apply Ht; reflexivity); apply IH; exact Hr.
Qed.

(** published before the chain is entered: middlewares and handler both find the scopes *)
Lemma published_before_chain_seen_by_all : forall pre mid post b,
  ~ In KChain pre -> ~ In KHandler pre -> In KChain (mid ++ KChain :: post) -> In KHandler (mid ++ KChain :: post) ->
  seen_by KChain (pre ++ KPublish :: mid ++ KChain :: post) b = Some true
  /\ seen_by KHandler (pre ++ KPublish :: mid ++ KChain :: post) b = Some true.
Proof.
  intros pre mid post b H1 H2 H3 H4. split.
  - rewrite seen_skips_prefix by (auto). apply seen_once_published; auto.
  - rewrite seen_skips_prefix by (auto). apply seen_once_published; auto.
Qed.

(** published inside the innermost closure only: the handler finds the scopes, the middlewares do not *)
Lemma published_in_the_closure_refuted :
  seen_by KChain [KChain; KPublish; KHandler] false = Some false
  /\ seen_by KHandler [KChain; KPublish; KHandler] false = Some true.
Proof. split; reflexivity. Qed.

(** * Several alternatives (an OR of requirement objects) naming one scheme.
    Every (alternative, scheme) pair is described, in document order, and the wrapper stores them in that order: the key
    of a scheme holds the scopes of the LAST alternative that names it. *)
Lemma describe_app a b : describe (a ++ b) = (describe a ++ describe b)%list.
Proof. unfold describe. apply flat_map_app. Qed.

Theorem last_alternative_wins (key_of : string -> string) before r after s :
  NoDup (map fst r) -> In s (map fst r) ->
  (forall k, In k (map fst r) -> k <> s -> key_of k <> key_of s) ->
  (forall r' k, In r' after -> In k (map fst r') -> key_of k <> key_of s) ->
  ctx_get (publish key_of (describe (before ++ r :: after))) (key_of s) = Some (lookup_scopes r s).
Proof.
  intros Hnd Hin Hr Hafter.
  assert (Hperm : Permutation (map fst r) (sorted_map_keys r)) by (apply sort_strings_is_perm).
  assert (Hs : In s (sorted_map_keys r)) by (eapply Permutation_in; eassumption).
  assert (Hnd' : NoDup (sorted_map_keys r)) by (eapply Permutation_NoDup; eassumption).
  apply in_split in Hs. destruct Hs as [l1 [l2 Hsplit]].
  rewrite describe_app. change (r :: after) with ([r] ++ after)%list. rewrite describe_app.
  unfold describe at 2. cbn [flat_map]. rewrite app_nil_r. rewrite Hsplit. rewrite map_app. cbn [map].
  rewrite <- !app_assoc. cbn [app]. rewrite app_assoc.
  apply publish_exact. intros d Hd. apply in_app_or in Hd. destruct Hd as [Hd|Hd].
  - apply in_map_iff in Hd. destruct Hd as [k [Hk Hkin]]. subst d. cbn [fst].
    assert (Hkr : In k (map fst r)).
    { eapply Permutation_in; [apply Permutation_sym; exact Hperm|].
      rewrite Hsplit. apply in_or_app. right. right. exact Hkin. }
    apply Hr; [exact Hkr|]. intros ->. rewrite Hsplit in Hnd'. apply NoDup_remove_2 in Hnd'.
    apply Hnd'. apply in_or_app. right. exact Hkin.
  - unfold describe in Hd. apply in_flat_map in Hd. destruct Hd as [r' [Hr' Hd]].
    apply in_map_iff in Hd. destruct Hd as [k [Hk Hkin]]. subst d. cbn [fst].
    apply (Hafter r' k Hr'). eapply Permutation_in; [apply Permutation_sym, sort_strings_is_perm|exact Hkin].
Qed.

(** Describing a scheme only for the FIRST alternative that names it publishes other scopes. *)
Fixpoint dedupe_first (seen : list string) (defs : list (string * list string)) : list (string * list string) :=
  match defs with
  | [] => []
  | d :: rest => if existsb (String.eqb (fst d)) seen then dedupe_first seen rest
                 else d :: dedupe_first (fst d :: seen) rest
  end.

Theorem first_alternative_refuted :
  let alts := [[("oauth", ["reports:read"])]; [("oauth", ["reports:write"; "admin"]); ("apiKey", [])]] in
  let key := fun s => s ++ "Scopes" in
  ctx_get (publish key (describe alts)) "oauthScopes" = Some ["reports:write"; "admin"]
  /\ ctx_get (publish key (dedupe_first [] (describe alts))) "oauthScopes" = Some ["reports:read"].
Proof. vm_compute. split; reflexivity. Qed.
