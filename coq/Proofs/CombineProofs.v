From Coq Require Import List String Bool.
From V Require Import Model.Combine.
Import ListNotations.

Section Proofs.
Context {A : Type}.
Notation param := (@param A).

Lemma key_eqb_refl k : key_eqb k k = true.
Proof. unfold key_eqb. rewrite !String.eqb_refl. reflexivity. Qed.

Lemma key_eqb_eq a b : key_eqb a b = true <-> a = b.
Proof.
  unfold key_eqb. destruct a as [a1 a2], b as [b1 b2]. simpl. rewrite andb_true_iff, !String.eqb_eq.
  split; [intros [-> ->]; reflexivity|intros H; inversion H; auto].
Qed.

Lemma has_in k l : has k l = true <-> In k l.
Proof.
  unfold has. rewrite existsb_exists. split.
  - intros [x [Hx E]]. apply key_eqb_eq in E. subst. exact Hx.
  - intros H. exists k. split; [exact H|apply key_eqb_refl].
Qed.

Lemma take_local_id : forall (l : list param) seen ls, take_local seen l = Some ls -> ls = l.
Proof.
  induction l as [|p t IH]; intros seen ls H; simpl in H; [inversion H; reflexivity|].
  destruct (has (fst p) seen); [discriminate|].
  destruct (take_local (fst p :: seen) t) as [r|] eqn:E; [|discriminate]. inversion H; subst. f_equal. eapply IH; eauto.
Qed.

Lemma take_local_nodup : forall (l : list param) seen ls,
  take_local seen l = Some ls -> NoDup (map fst l) /\ forall k, In k (map fst l) -> ~ In k seen.
Proof.
  induction l as [|p t IH]; intros seen ls H; simpl in H.
  - split; [constructor|intros k []].
  - destruct (has (fst p) seen) eqn:Hs; [discriminate|].
    destruct (take_local (fst p :: seen) t) as [r|] eqn:E; [|discriminate].
    destruct (IH _ _ E) as [N F]. split.
    + simpl. constructor; [|exact N]. intros X. apply (F _ X). left. reflexivity.
    + intros k [<-|X]; [intros Y; apply has_in in Y; congruence|]. intros Y. apply (F _ X). right. exact Y.
Qed.

Lemma take_local_none : forall (l : list param) seen,
  take_local seen l = None -> exists k, (In k seen /\ In k (map fst l)) \/ ~ NoDup (map fst l).
Proof.
  induction l as [|p t IH]; intros seen H; simpl in H; [discriminate|].
  destruct (has (fst p) seen) eqn:Hs.
  - exists (fst p). left. split; [apply has_in; exact Hs|left; reflexivity].
  - destruct (take_local (fst p :: seen) t) eqn:E; [discriminate|].
    destruct (IH _ E) as [k [[[<-|Hk] Hin]|Hn]].
    + exists (fst p). right. intros N. inversion N; subst. contradiction.
    + exists k. left. split; [exact Hk|right; exact Hin].
    + exists (fst p). right. intros N. inversion N; subst. contradiction.
Qed.

(** * The statement *)
(** Every parameter the operation declares is in the result, unchanged: the operation's declaration governs. *)
Theorem local_governs (g l out : list param) :
  combine_params g l = Some out -> forall p, In p l -> In p out.
Proof.
  unfold combine_params. intros H p Hp.
  destruct (take_local [] l) as [ls|] eqn:E; [|discriminate].
  destruct (take_global (map fst l) [] g) as [gs|]; [|discriminate]. inversion H; subst.
  apply in_or_app. left. rewrite (take_local_id _ _ _ E). exact Hp.
Qed.

Lemma take_global_spec : forall (g : list param) locals seen gs,
  take_global locals seen g = Some gs ->
  (forall p, In p gs <-> In p g /\ ~ In (fst p) locals) /\
  NoDup (map fst gs) /\ (forall p, In p gs -> ~ In (fst p) seen).
Proof.
  induction g as [|p t IH]; intros locals seen gs H; simpl in H.
  - inversion H; subst. split; [|split].
    + intros p. split; [intros []|intros [[] _]].
    + constructor.
    + intros p [].
  - destruct (has (fst p) locals) eqn:Hl.
    + destruct (IH _ _ _ H) as [S [N F]]. split; [|split; assumption].
      intros q. split.
      * intros X. apply S in X. destruct X as [X1 X2]. split; [right; exact X1|exact X2].
      * intros [[<-|X1] X2]; [exfalso; apply X2; apply has_in; exact Hl|apply S; split; assumption].
    + destruct (has (fst p) seen) eqn:Hs; [discriminate|].
      destruct (take_global locals (fst p :: seen) t) as [r|] eqn:E; [|discriminate]. inversion H; subst.
      destruct (IH _ _ _ E) as [S [N F]]. split; [|split].
      * intros q. split.
        -- intros [<-|X]; [split; [left; reflexivity|intros Y; apply has_in in Y; congruence]|].
           apply S in X. destruct X as [X1 X2]. split; [right; exact X1|exact X2].
        -- intros [[<-|X1] X2]; [left; reflexivity|right; apply S; split; assumption].
      * simpl. constructor; [|exact N]. intros X. apply in_map_iff in X. destruct X as [q [Eq Hq]].
        apply (F q Hq). left. symmetry. exact Eq.
      * intros q [<-|Hq]; [intros Y; apply has_in in Y; congruence|]. intros Y. apply (F q Hq). right. exact Y.
Qed.

(** The result is exactly: the operation's parameters, plus the path-level ones whose location and name the
    operation does not declare. *)
Theorem result_characterised (g l out : list param) :
  combine_params g l = Some out ->
  forall p, In p out <-> In p l \/ (In p g /\ ~ In (fst p) (map fst l)).
Proof.
  unfold combine_params. intros H p.
  destruct (take_local [] l) as [ls|] eqn:E; [|discriminate].
  destruct (take_global (map fst l) [] g) as [gs|] eqn:G; [|discriminate]. inversion H; subst.
  destruct (take_global_spec _ _ _ _ G) as [S _]. rewrite (take_local_id _ _ _ E).
  rewrite in_app_iff, S. tauto.
Qed.

Lemma nodup_app {B} : forall (a b : list B), NoDup a -> NoDup b -> (forall k, In k a -> ~ In k b) -> NoDup (a ++ b).
Proof.
  induction a as [|x a IH]; intros b Na Nb D; [exact Nb|]. inversion Na; subst. simpl. constructor.
  - intros X. apply in_app_or in X. destruct X as [X|X]; [contradiction|]. apply (D x); [left; reflexivity|exact X].
  - apply IH; [assumption|assumption|]. intros k Hk. apply D. right. exact Hk.
Qed.

(** The result never holds two parameters with one location and name. *)
Theorem result_keys_unique (g l out : list param) :
  combine_params g l = Some out -> NoDup (map fst out).
Proof.
  unfold combine_params. intros H.
  destruct (take_local [] l) as [ls|] eqn:E; [|discriminate].
  destruct (take_global (map fst l) [] g) as [gs|] eqn:G; [|discriminate]. inversion H; subst.
  destruct (take_local_nodup _ _ _ E) as [NL _]. destruct (take_global_spec _ _ _ _ G) as [S [NG _]].
  rewrite (take_local_id _ _ _ E), map_app.
  apply nodup_app; [exact NL|exact NG|].
  intros k Hk X. apply in_map_iff in X. destruct X as [q [<- Hq]]. apply S in Hq. destruct Hq as [_ Hq]. apply Hq. exact Hk.
Qed.
(** Two declarations of one parameter inside the operation are rejected, never merged. *)
Theorem local_duplicates_rejected (g l out : list param) :
  combine_params g l = Some out -> NoDup (map fst l).
Proof.
  unfold combine_params. intros H. destruct (take_local [] l) as [ls|] eqn:E; [|discriminate].
  apply (take_local_nodup _ _ _ E).
Qed.
End Proofs.
