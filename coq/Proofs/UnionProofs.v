From Coq Require Import List String Bool Arith.
From V Require Import Model.Union.
Import ListNotations.
Local Open Scope string_scope.
Local Open Scope list_scope.

Section UnionProofs.
Variable jv : Type.
Notation put := (put jv).
Notation get := (get jv).
Notation overlay := (overlay jv).

Lemma find_app {A} (f : A -> bool) (a b : list A) :
  find f (a ++ b) = match find f a with Some x => Some x | None => find f b end.
Proof. induction a as [|x a IH]; simpl; [reflexivity|]. destruct (f x); [reflexivity|exact IH]. Qed.

Lemma get_put_same k v m : get (put k v m) k = Some v.
Proof.
  unfold Union.get. induction m as [|[k' v'] m IH]; simpl.
  - rewrite String.eqb_refl. reflexivity.
  - destruct (String.eqb k' k) eqn:E; simpl; [rewrite String.eqb_refl; reflexivity|rewrite E; exact IH].
Qed.

Lemma get_put_other k v m k' : k <> k' -> get (put k v m) k' = get m k'.
Proof.
  intros Hne. unfold Union.get. induction m as [|[a b] m IH]; simpl.
  - destruct (String.eqb k k') eqn:E; [apply String.eqb_eq in E; congruence|reflexivity].
  - destruct (String.eqb a k) eqn:E; simpl.
    + apply String.eqb_eq in E. subst a.
      destruct (String.eqb k k') eqn:E'; [apply String.eqb_eq in E'; congruence|reflexivity].
    + destruct (String.eqb a k'); [reflexivity|exact IH].
Qed.

(** * Merge overlays the new member's JSON onto the stored one *)
Lemma overlay_get : forall patch data k,
  get (overlay data patch) k =
  match get (rev patch) k with Some v => Some v | None => get data k end.
Proof.
  unfold Union.overlay. induction patch as [|[a b] patch IH]; intros data k; simpl; [reflexivity|].
  rewrite IH. unfold Union.get at 1 3. rewrite find_app.
  destruct (find (fun p => String.eqb (fst p) k) (rev patch)) as [p|] eqn:F; [reflexivity|]. simpl.
  destruct (String.eqb a k) eqn:E.
  - apply String.eqb_eq in E. subst. apply get_put_same.
  - apply get_put_other. intros ->. rewrite String.eqb_refl in E. discriminate.
Qed.

Theorem merge_overlays d str i member st k :
  get (u_raw jv (merge_member jv d str i member st)) k =
  match get (rev (with_disc jv d str i member)) k with Some v => Some v | None => get (u_raw jv st) k end.
Proof. unfold merge_member. simpl. apply overlay_get. Qed.

(** * Marshalling = the stored member merged with the union's own fixed properties *)
Theorem marshal_member_merged_with_fixed st k :
  get (marshal jv st) k =
  match get (rev (present jv (u_fixed jv st))) k with Some v => Some v | None => get (u_raw jv st) k end.
Proof. unfold marshal. apply overlay_get. Qed.

(** * Unmarshal followed by marshal is lossless *)
Lemma get_in (m : jobj jv) k v : get m k = Some v -> In (k, v) m.
Proof.
  unfold Union.get. destruct (find (fun p => String.eqb (fst p) k) m) as [[a c]|] eqn:F; [|discriminate].
  intros H. inversion H; subst. apply find_some in F. destruct F as [Fin Feq]. simpl in Feq.
  apply String.eqb_eq in Feq. subst. exact Fin.
Qed.

Lemma get_present_unmarshal names b k v :
  get (rev (present jv (map (fun n => (n, get b n)) names))) k = Some v -> get b k = Some v.
Proof.
  intros H. apply get_in in H. apply in_rev in H. unfold present in H.
  apply in_flat_map in H. destruct H as [[n ov] [Hin Hx]]. simpl in Hx.
  destruct ov as [w|]; [|contradiction]. destruct Hx as [Hx|[]]. inversion Hx; subst.
  apply in_map_iff in Hin. destruct Hin as [n' [Heq _]]. inversion Heq as [[Hn Hv]]. congruence.
Qed.

Theorem unmarshal_marshal_lossless names b k :
  get (marshal jv (unmarshal jv names b)) k = get b k.
Proof.
  rewrite marshal_member_merged_with_fixed. unfold unmarshal. simpl.
  destruct (get (rev (present jv (map (fun n => (n, get b n)) names))) k) as [v|] eqn:E; [|reflexivity].
  symmetry. apply (get_present_unmarshal names b k v E).
Qed.

(** * As after From returns what was stored (with the discriminator set, if there is one) *)
Theorem as_from_no_discriminator str i member st :
  as_member jv (from_member jv None str i member st) = member.
Proof. reflexivity. Qed.

Lemma fold_put_get prop (str : string -> jv) : forall vals member k,
  k <> prop -> get (fold_left (fun m v => put prop (str v) m) vals member) k = get member k.
Proof.
  induction vals as [|v vals IH]; intros member k Hne; simpl; [reflexivity|].
  rewrite IH by exact Hne. apply get_put_other. congruence.
Qed.

Lemma fold_put_last prop (str : string -> jv) : forall vals member v,
  get (fold_left (fun m x => put prop (str x) m) (vals ++ [v]) member) prop = Some (str v).
Proof.
  intros vals member v. rewrite fold_left_app. simpl. apply get_put_same.
Qed.

(** every other member of the stored value is untouched ... *)
Theorem from_keeps_other_members d str i member st k :
  k <> d_prop d -> get (as_member jv (from_member jv (Some d) str i member st)) k = get member k.
Proof. intros Hne. unfold as_member, from_member, with_disc. simpl. apply fold_put_get. exact Hne. Qed.

(** ... and the discriminator property is set to a value mapped to that member (the last one in
    sorted order when several values designate it). *)
Theorem from_sets_mapped_discriminator d str i member st vals v :
  values_of d i = vals ++ [v] ->
  get (as_member jv (from_member jv (Some d) str i member st)) (d_prop d) = Some (str v) /\
  In (v, i) (d_mapping d).
Proof.
  intros H. split.
  - unfold as_member, from_member, with_disc. simpl. rewrite H. apply fold_put_last.
  - assert (Hin : In v (values_of d i)) by (rewrite H; apply in_or_app; right; left; reflexivity).
    unfold values_of in Hin. apply in_map_iff in Hin. destruct Hin as [[v' j] [Hv Hf]]. simpl in Hv. subst v'.
    apply filter_In in Hf. destruct Hf as [Hin Hj]. simpl in Hj. apply Nat.eqb_eq in Hj. subst j. exact Hin.
Qed.

(** * Dispatch: every mapped value — also several values mapped to one member — leads to the
      member the mapping designates; any other value is an error. *)
Theorem dispatch_mapped d text st v s i :
  NoDup (map fst (d_mapping d)) ->
  get (u_raw jv st) (d_prop d) = Some v -> text v = Some s -> In (s, i) (d_mapping d) ->
  dispatch jv d text st = Some i.
Proof.
  intros Hnd Hg Ht Hin. unfold dispatch. rewrite Hg, Ht.
  destruct (find (fun p => String.eqb (fst p) s) (d_mapping d)) as [[s' j]|] eqn:F.
  - apply find_some in F. destruct F as [Fin Feq]. simpl in Feq. apply String.eqb_eq in Feq. subst s'. simpl.
    f_equal. clear -Hnd Hin Fin. induction (d_mapping d) as [|[a b] l IH]; [contradiction|].
    simpl in Hnd. inversion Hnd as [|? ? Hnotin Hnd']; subst.
    destruct Hin as [Hin|Hin]; destruct Fin as [Fin|Fin].
    + inversion Hin; inversion Fin; subst. reflexivity.
    + inversion Hin; subst. exfalso. apply Hnotin. apply in_map_iff. exists (s, j). auto.
    + inversion Fin; subst. exfalso. apply Hnotin. apply in_map_iff. exists (s, i). auto.
    + apply IH; assumption.
  - exfalso. apply (find_none _ _ F (s, i)) in Hin. simpl in Hin. rewrite String.eqb_refl in Hin. discriminate.
Qed.

Theorem dispatch_unmapped d text st v s :
  get (u_raw jv st) (d_prop d) = Some v -> text v = Some s ->
  (forall i, ~ In (s, i) (d_mapping d)) -> dispatch jv d text st = None.
Proof.
  intros Hg Ht Hn. unfold dispatch. rewrite Hg, Ht.
  destruct (find (fun p => String.eqb (fst p) s) (d_mapping d)) as [[s' j]|] eqn:F; [|reflexivity].
  apply find_some in F. destruct F as [Fin Feq]. simpl in Feq. apply String.eqb_eq in Feq. subst s'.
  exfalso. apply (Hn j). exact Fin.
Qed.

(** Storing a member and dispatching on the stored value returns that member. *)
Theorem dispatch_after_from d str text i member st vals v :
  NoDup (map fst (d_mapping d)) -> values_of d i = vals ++ [v] -> (forall s, text (str s) = Some s) ->
  dispatch jv d text (from_member jv (Some d) str i member st) = Some i.
Proof.
  intros Hnd Hv Ht. destruct (from_sets_mapped_discriminator d str i member st vals v Hv) as [Hg Hin].
  apply (dispatch_mapped d text _ (str v) v i Hnd Hg (Ht v) Hin).
Qed.
End UnionProofs.

(** * Additional properties of a union: each key is decoded on its own *)
Section Addl.
Variable jv : Type.
Lemma put_absent (k : string) (v : jv) m : ~ In k (map fst m) -> put jv k v m = m ++ [(k, v)].
Proof.
  induction m as [|[k' v'] m IH]; simpl; intro H; [reflexivity|].
  destruct (String.eqb k' k) eqn:E.
  - apply String.eqb_eq in E. exfalso. apply H. left. exact E.
  - f_equal. apply IH. intro Hin. apply H. right. exact Hin.
Qed.

Lemma overlay_disjoint : forall (text acc : jobj jv),
  NoDup (map fst text) -> (forall k, In k (map fst text) -> ~ In k (map fst acc)) -> overlay jv acc text = acc ++ text.
Proof.
  induction text as [|[k v] text IH]; intros acc Hnd Hdis; unfold overlay in *; simpl.
  - rewrite app_nil_r. reflexivity.
  - inversion Hnd as [|? ? Hk Hnd']. subst.
    rewrite put_absent by (apply Hdis; left; reflexivity).
    rewrite IH; [rewrite <- app_assoc; reflexivity|exact Hnd'|].
    intros k' Hin Hacc. rewrite map_app in Hacc. apply in_app_or in Hacc. destruct Hacc as [Hacc|Hacc].
    + apply (Hdis k'); [right; exact Hin|exact Hacc].
    + simpl in Hacc. destruct Hacc as [<-|[]]. apply Hk. exact Hin.
Qed.

(** decoded key by key into a fresh variable, the additional members are the document's: nothing is carried over *)
Theorem decode_fresh_exact (residual : list (string * jobj jv)) :
  (forall kv, In kv residual -> NoDup (map fst (snd kv))) -> decode_fresh jv residual = residual.
Proof.
  induction residual as [|[k v] r IH]; intro H; [reflexivity|].
  unfold decode_fresh in *. cbn [map fst snd]. f_equal.
  - f_equal. unfold decode_into. rewrite overlay_disjoint; [reflexivity|apply (H (k, v)); left; reflexivity|intros ? _ []].
  - apply IH. intros kv Hin. apply H. right. exact Hin.
Qed.
End Addl.

(** one variable for all keys: a key's value inherits the members the key before it had *)
Theorem decode_shared_refuted :
  let doc := [("from", [("x", 1); ("label", 7)]); ("to", [("y", 2)]); ("origin", [])] in
  decode_fresh nat doc = doc
  /\ decode_shared nat [] doc = [("from", [("x", 1); ("label", 7)]); ("to", [("x", 1); ("label", 7); ("y", 2)]);
                                  ("origin", [("x", 1); ("label", 7); ("y", 2)])].
Proof. vm_compute. split; reflexivity. Qed.
