From Coq Require Import List String Bool Arith Lia.
From V Require Import Model.EnumConflict.
Import ListNotations.
Local Open Scope string_scope.

Lemma inner_length e1 : forall later f1, List.length (snd (inner e1 f1 later)) = List.length later.
Proof.
  induction later as [|[e2 f2] t IH]; intros f1; [reflexivity|]. cbn [inner].
  destruct (shares _ _); cbn [snd List.length]; rewrite IH; reflexivity.
Qed.

Lemma inner_enums e1 : forall later f1, map fst (snd (inner e1 f1 later)) = map fst later.
Proof.
  induction later as [|[e2 f2] t IH]; intros f1; [reflexivity|]. cbn [inner].
  destruct (shares _ _); cbn [snd map fst]; rewrite IH; reflexivity.
Qed.

(** the pass keeps the enums and their order, and it terminates on the given fuel *)
Lemma outer_enums types : forall n l, List.length l <= n -> map fst (outer n types l) = map fst l.
Proof.
  induction n as [|n IH]; intros l H.
  - destruct l; [reflexivity|simpl in H; lia].
  - destruct l as [|[e1 f1] t]; [reflexivity|]. cbn [outer map fst]. f_equal.
    rewrite IH; [apply inner_enums|]. rewrite inner_length. simpl in H. lia.
Qed.

Theorem resolve_keeps_enums always types enums : map fst (resolve always types enums) = enums.
Proof.
  unfold resolve. rewrite outer_enums; [|rewrite map_length; lia].
  rewrite map_map. simpl. apply map_id.
Qed.

(** flags only ever go from plain to prefixed *)
Lemma inner_monotone e1 : forall later f1,
  (f1 = true -> fst (inner e1 f1 later) = true) /\
  Forall2 (fun a b => snd a = true -> snd b = true) later (snd (inner e1 f1 later)).
Proof.
  induction later as [|[e2 f2] t IH]; intros f1; [split; [auto|constructor]|]. cbn [inner].
  destruct (shares _ _); cbn [fst snd].
  - destruct (IH true) as [A B]. split; [intros _; apply A; reflexivity|constructor; [auto|exact B]].
  - destruct (IH f1) as [A B]. split; [exact A|constructor; [auto|exact B]].
Qed.

(** Frame: when nothing clashes - no two enums share a constant name, no constant is named like a non-enum
    type or like its own enum - and prefixing is not forced, no enum is prefixed: the output is the plain one. *)
Definition quiet (types : list string) (e : enum) : bool :=
  negb (existsb (fun tp => mem tp (snd e)) types) && negb (mem (fst e) (snd e)).

Lemma inner_quiet e1 : forall later,
  Forall (fun p => snd p = false /\ shares (snd e1) (snd (fst p)) = false) later ->
  inner e1 false later = (false, later).
Proof.
  induction later as [|[e2 f2] t IH]; intros H; [reflexivity|].
  inversion H as [|? ? [Hf Hs] Ht]; subst. cbn [fst snd] in *. subst f2. cbn [inner vals].
  rewrite Hs. rewrite (IH Ht). reflexivity.
Qed.

Fixpoint pairwise_disjoint (l : list enum) : Prop :=
  match l with
  | [] => True
  | e :: t => Forall (fun e2 => shares (snd e) (snd e2) = false) t /\ pairwise_disjoint t
  end.

Lemma outer_quiet types : forall n l,
  List.length l <= n -> pairwise_disjoint (map fst l) ->
  Forall (fun p => snd p = false /\ quiet types (fst p) = true) l ->
  outer n types l = l.
Proof.
  induction n as [|n IH]; intros l Hn Hd Hq.
  - destruct l; [reflexivity|simpl in Hn; lia].
  - destruct l as [|[e1 f1] t]; [reflexivity|].
    inversion Hq as [|? ? [Hf Hq1] Hqt]; subst. cbn [fst snd] in *. subst f1.
    destruct Hd as [Hd1 Hdt]. cbn [outer].
    rewrite inner_quiet.
    + cbn [fst snd]. unfold finish. unfold quiet in Hq1. apply andb_prop in Hq1. destruct Hq1 as [Q1 Q2].
      apply negb_true_iff in Q1. apply negb_true_iff in Q2. rewrite Q1. cbn [orb vals]. rewrite Q2.
      rewrite IH; [reflexivity|simpl in Hn; lia|exact Hdt|exact Hqt].
    + rewrite Forall_forall in *. intros p Hp. split; [apply (Hqt p Hp)|].
      apply Hd1. apply in_map. exact Hp.
Qed.

Theorem no_clash_no_prefix types enums :
  pairwise_disjoint enums -> Forall (fun e => quiet types e = true) enums ->
  resolve false types enums = map (fun e => (e, false)) enums.
Proof.
  intros Hd Hq. unfold resolve. apply outer_quiet.
  - rewrite map_length. lia.
  - rewrite map_map. simpl. rewrite map_id. exact Hd.
  - rewrite Forall_forall in *. intros p Hp. apply in_map_iff in Hp. destruct Hp as [e [<- He]]. split; [reflexivity|apply Hq; exact He].
Qed.

(** Two enums that share a constant name are both prefixed. *)
Theorem shared_name_prefixes_both types e1 e2 :
  shares (snd e1) (snd e2) = true ->
  map snd (resolve false types [e1; e2]) = [true; true].
Proof.
  intros H. unfold resolve. cbn [List.length map outer inner vals]. rewrite H. cbn [fst snd inner outer map].
  unfold finish. reflexivity.
Qed.

(** A constant named like a non-enum type, or like the enum's own type, prefixes the enum. *)
Theorem type_name_clash_prefixes types e :
  existsb (fun tp => mem tp (snd e)) types = true \/ mem (fst e) (snd e) = true ->
  map snd (resolve false types [e]) = [true].
Proof.
  intros H. unfold resolve. cbn [List.length map outer inner fst snd]. unfold finish.
  destruct H as [H|H]; [rewrite H; reflexivity|].
  destruct (existsb _ types); [reflexivity|]. cbn [orb vals]. rewrite H. reflexivity.
Qed.

(** The pass is a single sweep, not a fixpoint: a prefixed name can meet a plain name of an enum that was
    compared earlier.  The property's "all constant names are distinct" is REFUTED for the faithful model. *)
Theorem single_sweep_refuted :
  let enums := [("Color", ["Red"]); ("Dpaint", ["ColorRed"]); ("Light", ["Red"])] in
  map snd (resolve false [] enums) = [true; false; true] /\
  ~ NoDup (constants (resolve false [] enums)).
Proof.
  split; [reflexivity|]. vm_compute. intros H. inversion H as [|? ? Hn _]. apply Hn. left. reflexivity.
Qed.

(** and prefixing itself is ambiguous when one type name is a prefix of another *)
Theorem prefix_ambiguity_refuted :
  let enums := [("A", ["BRed"; "X"]); ("AB", ["Red"; "X"])] in
  map snd (resolve false [] enums) = [true; true] /\ ~ NoDup (constants (resolve false [] enums)).
Proof.
  split; [reflexivity|]. vm_compute. intros H. inversion H as [|? ? Hn _]. apply Hn. vm_compute. tauto.
Qed.

(** * What the single sweep does guarantee: two enums that both stay unprefixed have no constant in common. *)
Lemma inner_false e1 : forall later f1,
  fst (inner e1 f1 later) = false ->
  f1 = false /\ snd (inner e1 f1 later) = later /\
  Forall (fun p => shares (vals e1 false) (vals (fst p) (snd p)) = false) later.
Proof.
  induction later as [|[e2 f2] t IH]; intros f1 H; [simpl in H; subst; repeat split; constructor|].
  cbn [inner] in *. destruct (shares (vals e1 f1) (vals e2 f2)) eqn:S; cbn [fst snd] in *.
  - destruct (IH true H) as [X _]. discriminate X.
  - destruct (IH f1 H) as [F [E A]]. subst f1. repeat split; [rewrite E; reflexivity|].
    constructor; [exact S|exact A].
Qed.

Definition keeps (a b : enum * bool) : Prop := fst a = fst b /\ (snd b = false -> snd a = false).

Lemma inner_keeps e1 : forall later f1, Forall2 keeps later (snd (inner e1 f1 later)).
Proof.
  induction later as [|[e2 f2] t IH]; intros f1; [constructor|]. cbn [inner].
  destruct (shares _ _); cbn [snd]; constructor; try apply IH; split; auto; cbn; intros X; try discriminate X; exact X.
Qed.

Lemma finish_false types e f : finish types e f = false -> f = false.
Proof. unfold finish. intros H. apply orb_false_iff in H. destruct H as [H _]. apply orb_false_iff in H. apply H. Qed.

Lemma Forall2_trans_keeps : forall a b c, Forall2 keeps a b -> Forall2 keeps b c -> Forall2 keeps a c.
Proof.
  induction a as [|x a IH]; intros b c H1 H2; inversion H1; subst; inversion H2; subst; constructor.
  - unfold keeps in *. destruct H3 as [A B]. destruct H4 as [C D]. split; [congruence|auto].
  - eapply IH; eauto.
Qed.

Lemma outer_keeps types : forall n l, List.length l <= n -> Forall2 keeps l (outer n types l).
Proof.
  induction n as [|n IH]; intros l H.
  - destruct l; [constructor|simpl in H; lia].
  - destruct l as [|[e1 f1] t]; [constructor|]. cbn [outer]. constructor.
    + split; [reflexivity|]. cbn [snd]. intros X. apply finish_false in X.
      destruct (inner_false e1 t f1 X) as [F _]. exact F.
    + eapply Forall2_trans_keeps; [apply inner_keeps|]. apply IH. rewrite inner_length. simpl in H. lia.
Qed.

Fixpoint unprefixed_disjoint (l : list (enum * bool)) : Prop :=
  match l with
  | [] => True
  | p :: t => (snd p = false -> Forall (fun q => snd q = false -> shares (snd (fst p)) (snd (fst q)) = false) t)
              /\ unprefixed_disjoint t
  end.

Lemma transfer e1 : forall t t',
  Forall (fun p => shares (vals e1 false) (vals (fst p) (snd p)) = false) t -> Forall2 keeps t t' ->
  Forall (fun q => snd q = false -> shares (snd e1) (snd (fst q)) = false) t'.
Proof.
  induction t as [|p t IH]; intros t' HF HK.
  - inversion HK; subst. constructor.
  - inversion HK as [|? q ? t2 Hpq Hrest]; subst. inversion HF as [|? ? Hp Ht]; subst.
    constructor; [|apply IH; assumption].
    intros Q. destruct Hpq as [E K]. specialize (K Q). rewrite K in Hp. cbn [vals] in Hp. rewrite E in Hp. exact Hp.
Qed.

Lemma outer_unprefixed_disjoint types : forall n l, List.length l <= n -> unprefixed_disjoint (outer n types l).
Proof.
  induction n as [|n IH]; intros l H.
  - destruct l; [exact I|simpl in H; lia].
  - destruct l as [|[e1 f1] t]; [exact I|]. cbn [outer unprefixed_disjoint fst snd]. split.
    + intros X. apply finish_false in X. destruct (inner_false e1 t f1 X) as [_ [E A]]. rewrite E.
      apply (transfer e1 t); [exact A|]. apply outer_keeps. simpl in H. lia.
    + apply IH. rewrite inner_length. simpl in H. lia.
Qed.

Theorem unprefixed_enums_are_disjoint always types enums : unprefixed_disjoint (resolve always types enums).
Proof. unfold resolve. apply outer_unprefixed_disjoint. rewrite map_length. lia. Qed.
