(** Obligation tying the regenerated inventory of package-level variables to C17's proviso. *)
From Coq Require Import List String Bool.
From V Require Import Model.History Gen.Globals.
Import ListNotations.

(** Every package-level variable of pkg/codegen is never written after initialisation, or
    reset unconditionally by every call before it is read, or written only by setters that
    Generate never calls. *)
Theorem globals_ok : forallb (fun g => class_ok (snd g)) globals = true.
Proof. vm_compute. reflexivity. Qed.
