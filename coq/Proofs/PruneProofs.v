From Coq Require Import List String Bool Arith Lia.
From V Require Import Model.Prune.
Import ListNotations.

(** * Generic facts about [filter] *)

Lemma filter_length_le {A} (f : A -> bool) l : List.length (filter f l) <= List.length l.
Proof. induction l as [|x xs IH]; simpl; [lia|]. destruct (f x); simpl; lia. Qed.

Lemma filter_length_eq_id {A} (f : A -> bool) l :
  List.length (filter f l) = List.length l -> filter f l = l.
Proof.
  induction l as [|x xs IH]; simpl; intros H; [reflexivity|].
  destruct (f x) eqn:E; simpl in H.
  - f_equal. apply IH. lia.
  - pose proof (filter_length_le f xs). lia.
Qed.

Lemma string_in_In s l : string_in s l = true <-> In s l.
Proof.
  unfold string_in. rewrite existsb_exists. split.
  - intros [x [Hin He]]. apply String.eqb_eq in He. subst. exact Hin.
  - intros H. exists s. split; [exact H|apply String.eqb_refl].
Qed.

Lemma flat_map_incl {A B} (f : A -> list B) l l' :
  incl l l' -> incl (flat_map f l) (flat_map f l').
Proof.
  intros H x Hx. apply in_flat_map in Hx. destruct Hx as [a [Ha Hxa]].
  apply in_flat_map. exists a. split; [apply H; exact Ha|exact Hxa].
Qed.

(** * One step *)

Lemma prune_step_paths d : d_paths (prune_step d) = d_paths d.
Proof. reflexivity. Qed.

Lemma prune_step_comps_incl d : incl (d_comps (prune_step d)) (d_comps d).
Proof. intros c Hc. simpl in Hc. apply filter_In in Hc. tauto. Qed.

Lemma prune_step_length d : List.length (d_comps (prune_step d)) <= List.length (d_comps d).
Proof. simpl. apply filter_length_le. Qed.

Lemma prune_step_fixed d :
  List.length (d_comps (prune_step d)) = List.length (d_comps d) -> prune_step d = d.
Proof.
  intros H. destruct d as [ps cs]. unfold prune_step, remove_orphans in *. simpl in *.
  f_equal. apply filter_length_eq_id. exact H.
Qed.

Lemma refs_mono d d' :
  d_paths d' = d_paths d -> incl (d_comps d') (d_comps d) ->
  incl (find_component_refs d') (find_component_refs d).
Proof.
  intros Hp Hc. unfold find_component_refs. rewrite Hp.
  apply incl_app; [apply incl_appl, incl_refl|].
  apply incl_appr. unfold refs_comps. apply flat_map_incl. exact Hc.
Qed.

(** * The loop *)

Lemma prune_fuel_enough : forall f d, List.length (d_comps d) < f -> exists d', prune_fuel f d = Some d'.
Proof.
  induction f as [|f IH]; intros d Hlt; [lia|].
  cbn [prune_fuel]. destruct (Nat.eqb _ _) eqn:E.
  - eexists; reflexivity.
  - apply Nat.eqb_neq in E. apply IH.
    pose proof (prune_step_length d). lia.
Qed.

Theorem prune_total d : exists d', prune d = Some d'.
Proof. apply prune_fuel_enough. lia. Qed.

(** Induction principle: anything preserved by a step holds of the result. *)
Lemma prune_fuel_inv (P : doc -> Prop) :
  (forall d, P d -> P (prune_step d)) ->
  forall f d d', P d -> prune_fuel f d = Some d' -> P d'.
Proof.
  intros Hstep. induction f as [|f IH]; intros d d' Hd H; [discriminate|].
  cbn [prune_fuel] in H. destruct (Nat.eqb _ _).
  - inversion H; subst. apply Hstep, Hd.
  - eapply IH; [apply Hstep, Hd|exact H].
Qed.

Lemma prune_fuel_fixed : forall f d d', prune_fuel f d = Some d' -> prune_step d' = d'.
Proof.
  induction f as [|f IH]; intros d d' H; [discriminate|].
  cbn [prune_fuel] in H. destruct (Nat.eqb _ _) eqn:E.
  - inversion H; subst. apply Nat.eqb_eq in E.
    rewrite (prune_step_fixed d E). apply prune_step_fixed. exact E.
  - eapply IH; exact H.
Qed.

Lemma prune_fuel_paths f d d' : prune_fuel f d = Some d' -> d_paths d' = d_paths d.
Proof.
  intros H. apply (prune_fuel_inv (fun x => d_paths x = d_paths d)) with f d; auto.
Qed.

Lemma prune_fuel_incl f d d' : prune_fuel f d = Some d' -> incl (d_comps d') (d_comps d).
Proof.
  intros H. apply (prune_fuel_inv (fun x => incl (d_comps x) (d_comps d))) with f d; auto.
  - intros x Hx. eapply incl_tran; [apply prune_step_comps_incl|exact Hx].
  - apply incl_refl.
Qed.

(** * Reachability from the operations *)

Inductive reach (d : doc) : string -> Prop :=
| reach_root r : In r (refs_paths (d_paths d)) -> reach d r
| reach_step r c r' :
    reach d r -> In c (d_comps d) -> comp_ref c = r ->
    In r' (refs_node (c_body c)) -> reach d r'.

Lemma keep_reached d0 d c :
  d_paths d = d_paths d0 ->
  (forall c', In c' (d_comps d0) -> reach d0 (comp_ref c') -> In c' (d_comps d)) ->
  In c (d_comps d) -> reach d0 (comp_ref c) -> In c (d_comps (prune_step d)).
Proof.
  intros Hp Hinv Hc Hr. simpl. apply filter_In. split; [exact Hc|].
  unfold keep_comp. apply orb_true_iff. right. apply string_in_In.
  unfold find_component_refs. apply in_or_app.
  inversion Hr as [r Hroot|r c' r' Hr' Hc' Hcr Hin]; subst.
  - left. rewrite Hp. exact Hroot.
  - right. unfold refs_comps. apply in_flat_map. exists c'. split; [|exact Hin].
    apply Hinv; [exact Hc'|]. exact Hr'.
Qed.

Theorem prune_sound d d' c :
  prune d = Some d' -> In c (d_comps d) -> reach d (comp_ref c) -> In c (d_comps d').
Proof.
  intros H Hc Hr.
  assert (Hinv : d_paths d' = d_paths d /\
                 forall c', In c' (d_comps d) -> reach d (comp_ref c') -> In c' (d_comps d')).
  { apply (prune_fuel_inv (fun x => d_paths x = d_paths d /\
             forall c', In c' (d_comps d) -> reach d (comp_ref c') -> In c' (d_comps x)))
      with (S (List.length (d_comps d))) d; auto.
    intros x [Hp Hx]. split; [exact Hp|].
    intros c' Hc' Hr'. apply keep_reached with d; auto. }
  apply Hinv; assumption.
Qed.

(** Security schemes are never removed. *)
Theorem prune_keeps_security d d' c :
  prune d = Some d' -> In c (d_comps d) -> c_kind c = KSecuritySchemes -> In c (d_comps d').
Proof.
  intros H Hc Hk.
  apply (prune_fuel_inv (fun x => In c (d_comps x))) with (S (List.length (d_comps d))) d; auto.
  intros x Hx. simpl. apply filter_In. split; [exact Hx|].
  unfold keep_comp, prunable. rewrite Hk. reflexivity.
Qed.

(** * Minimality: everything that survives is referred to by something that survives *)

Theorem prune_minimal d d' c :
  prune d = Some d' -> In c (d_comps d') -> prunable (c_kind c) = true ->
  In (comp_ref c) (find_component_refs d').
Proof.
  intros H Hc Hk. apply prune_fuel_fixed in H.
  rewrite <- H in Hc. simpl in Hc. apply filter_In in Hc. destruct Hc as [_ Hkeep].
  unfold keep_comp in Hkeep. rewrite Hk in Hkeep. simpl in Hkeep.
  apply string_in_In. exact Hkeep.
Qed.

(** * Greatest self-supporting subset: pruning removes nothing it need not remove,
      and removes everything else. *)

Definition self_supporting (d : doc) (S : list component) : Prop :=
  forall c, In c S -> prunable (c_kind c) = true ->
            In (comp_ref c) (refs_paths (d_paths d) ++ refs_comps S).

Theorem prune_greatest d d' S :
  prune d = Some d' -> incl S (d_comps d) -> self_supporting d S -> incl S (d_comps d').
Proof.
  intros H HS Hself.
  assert (Hinv : d_paths d' = d_paths d /\ incl S (d_comps d')).
  { apply (prune_fuel_inv (fun x => d_paths x = d_paths d /\ incl S (d_comps x)))
      with (Datatypes.S (List.length (d_comps d))) d; auto.
    intros x [Hp Hx]. split; [exact Hp|].
    intros c Hc. simpl. apply filter_In. split; [apply Hx, Hc|].
    unfold keep_comp. destruct (prunable (c_kind c)) eqn:Hk; [|reflexivity]. simpl.
    apply string_in_In. specialize (Hself c Hc Hk).
    unfold find_component_refs. rewrite Hp.
    apply in_app_or in Hself. apply in_or_app. destruct Hself as [Hl|Hr]; [left; exact Hl|right].
    revert Hr. apply flat_map_incl. exact Hx. }
  apply Hinv.
Qed.

Theorem prune_result_self_supporting d d' :
  prune d = Some d' -> self_supporting d (d_comps d').
Proof.
  intros H c Hc Hk. pose proof (prune_minimal d d' c H Hc Hk) as Hm.
  unfold find_component_refs in Hm. rewrite (prune_fuel_paths _ _ _ H) in Hm. exact Hm.
Qed.

(** * No dangling references *)

Lemma prune_fuel_keeps_referenced : forall f d d',
  prune_fuel f d = Some d' ->
  forall c, In c (d_comps d) -> In (comp_ref c) (find_component_refs d') -> In c (d_comps d').
Proof.
  induction f as [|f IH]; intros d d' H c Hc Hr; [discriminate|].
  cbn [prune_fuel] in H. destruct (Nat.eqb _ _) eqn:E.
  - inversion H; subst. apply Nat.eqb_eq in E. rewrite (prune_step_fixed d E). exact Hc.
  - apply (IH _ _ H); [|exact Hr].
    simpl. apply filter_In. split; [exact Hc|].
    unfold keep_comp. apply orb_true_iff. right. apply string_in_In.
    assert (Hmono : incl (find_component_refs d') (find_component_refs d)).
    { apply refs_mono.
      - rewrite (prune_fuel_paths _ _ _ H). reflexivity.
      - eapply incl_tran; [apply (prune_fuel_incl _ _ _ H)|apply prune_step_comps_incl]. }
    apply Hmono, Hr.
Qed.

(** [L] singles out the reference strings that are supposed to name a component of this
    document (local "#/components/..." references). *)
Definition closed (L : string -> Prop) (d : doc) : Prop :=
  forall r, In r (find_component_refs d) -> L r -> exists c, In c (d_comps d) /\ comp_ref c = r.

Theorem prune_no_dangling L d d' : prune d = Some d' -> closed L d -> closed L d'.
Proof.
  intros H Hcl r Hr HL.
  assert (Hmono : incl (find_component_refs d') (find_component_refs d)).
  { apply refs_mono; [apply (prune_fuel_paths _ _ _ H)|apply (prune_fuel_incl _ _ _ H)]. }
  destruct (Hcl r (Hmono r Hr) HL) as [c [Hc Hcr]].
  exists c. split; [|exact Hcr].
  apply (prune_fuel_keeps_referenced _ _ _ H); [exact Hc|]. rewrite Hcr. exact Hr.
Qed.

(** * Idempotence, and the paths are untouched *)

Theorem prune_idempotent d d' : prune d = Some d' -> prune d' = Some d'.
Proof.
  intros H. apply prune_fuel_fixed in H. unfold prune. cbn [prune_fuel].
  rewrite H. rewrite Nat.eqb_refl. reflexivity.
Qed.

Theorem prune_paths_unchanged d d' : prune d = Some d' -> d_paths d' = d_paths d.
Proof. apply prune_fuel_paths. Qed.

Theorem prune_only_removes d d' : prune d = Some d' -> incl (d_comps d') (d_comps d).
Proof. apply prune_fuel_incl. Qed.

(** * Chains of orphans: one link per round, so no fixed number of rounds is enough. *)
Lemma append_cancel_l (p a b : string) : (p ++ a)%string = (p ++ b)%string -> a = b.
Proof. induction p as [|c p IH]; simpl; intro H; [exact H|]. inversion H. auto. Qed.

Lemma unary_inj a b : unary a = unary b -> a = b.
Proof.
  revert b; induction a as [|a IH]; intros [|b] H; simpl in H; try discriminate; auto.
  inversion H. f_equal. auto.
Qed.

Lemma chain_ref_inj a b : chain_ref a = chain_ref b -> a = b.
Proof. unfold chain_ref. intro H. apply unary_inj. eapply append_cancel_l. exact H. Qed.

Lemma chain_comp_ref i body :
  comp_ref {| c_kind := KSchemas; c_name := ("N" ++ unary i)%string; c_body := body |} = chain_ref i.
Proof. reflexivity. Qed.

Lemma chain_refs i n : refs_comps (chain_comps i n) = map chain_ref (seq (S i) (Nat.pred n)).
Proof.
  revert i; induction n as [|n IH]; intro i; [reflexivity|].
  cbn [chain_comps refs_comps flat_map]. fold (refs_comps (chain_comps (S i) n)). rewrite IH.
  destruct n as [|n]; reflexivity.
Qed.

Lemma chain_keep_all refs i n :
  (forall j, S i <= j -> j < S i + n -> In (chain_ref j) refs) ->
  filter (keep_comp refs) (chain_comps (S i) n) = chain_comps (S i) n.
Proof.
  revert i; induction n as [|n IH]; intros i H; [reflexivity|].
  cbn [chain_comps filter]. unfold keep_comp at 1. cbn [c_kind prunable kind_eqb negb orb].
  rewrite chain_comp_ref.
  assert (Hin : string_in (chain_ref (S i)) refs = true).
  { apply string_in_In. apply H; auto with arith. rewrite <- plus_n_Sm. auto with arith. }
  rewrite Hin. f_equal. apply IH. intros j H1 H2. apply H; auto with arith.
  rewrite <- plus_n_Sm in *. simpl in *. auto with arith.
Qed.

Lemma chain_step i n : prune_step (chain_doc i (S n)) = chain_doc (S i) n.
Proof.
  unfold prune_step, remove_orphans, chain_doc, find_component_refs. cbn [d_paths d_comps refs_paths flat_map app].
  f_equal. rewrite chain_refs. cbn [Nat.pred chain_comps filter].
  unfold keep_comp at 1. cbn [c_kind prunable kind_eqb negb orb]. rewrite chain_comp_ref.
  assert (Hout : string_in (chain_ref i) (map chain_ref (seq (S i) n)) = false).
  { destruct (string_in _ _) eqn:E; [|reflexivity]. apply string_in_In in E. apply in_map_iff in E.
    destruct E as [j [Hj Hin]]. apply chain_ref_inj in Hj. subst j. apply in_seq in Hin.
    exfalso. destruct Hin as [Hlt _]. exact (Nat.nle_succ_diag_l _ Hlt). }
  rewrite Hout. apply chain_keep_all. intros j H1 H2. apply in_map. apply in_seq. split; assumption.
Qed.

Lemma chain_fixed i : prune_step (chain_doc i 0) = chain_doc i 0.
Proof. reflexivity. Qed.

Lemma chain_bounded : forall b i n, prune_bounded b (chain_doc i (b + n)) = chain_doc (b + i) n.
Proof.
  induction b as [|b IH]; intros i n; [reflexivity|].
  cbn [prune_bounded plus]. rewrite chain_step. rewrite IH. f_equal. rewrite <- plus_n_Sm. reflexivity.
Qed.

Lemma chain_length i n : List.length (chain_comps i n) = n.
Proof. revert i; induction n as [|n IH]; intro i; simpl; auto. Qed.

Lemma chain_prune_fuel : forall n f i, n < f -> prune_fuel f (chain_doc i n) = Some (chain_doc (n + i) 0).
Proof.
  induction n as [|n IH]; intros f i Hf; (destruct f as [|f]; [inversion Hf|]).
  - reflexivity.
  - cbn [prune_fuel]. rewrite chain_step. unfold chain_doc at 1 2. cbn [d_comps]. rewrite !chain_length.
    replace (Nat.eqb n (S n)) with false by (symmetry; apply Nat.eqb_neq; apply Nat.neq_succ_diag_r).
    rewrite IH by (apply Nat.succ_lt_mono; exact Hf). rewrite <- plus_n_Sm. reflexivity.
Qed.

(** Whatever the bound [b], there is a document (a chain of b+1 orphans) on which a loop of at most [b] rounds leaves a
    component that nothing refers to, while the loop of the code removes everything. *)
Theorem prune_bounded_refuted : forall b, exists d,
  (exists c, In c (d_comps (prune_bounded b d)) /\ prunable (c_kind c) = true /\
             ~ In (comp_ref c) (find_component_refs (prune_bounded b d)))
  /\ option_map comp_keys (prune d) = Some [].
Proof.
  intro b. exists (chain_doc 0 (b + 1)). split.
  - rewrite chain_bounded. eexists. split; [left; reflexivity|]. split; [reflexivity|]. intros [].
  - unfold prune. unfold chain_doc at 1. cbn [d_comps]. rewrite chain_length.
    rewrite chain_prune_fuel by auto. reflexivity.
Qed.

