From Coq Require Import List String Ascii Bool Arith Lia.
From V Require Import Model.Enum.
Import ListNotations.
Local Open Scope string_scope.
Local Open Scope list_scope.

(** * Storing entries with pairwise distinct keys loses nothing and keeps the order *)
Lemma put_fresh {V} k (v : V) m : ~ In k (map fst m) -> put k v m = m ++ [(k, v)].
Proof.
  induction m as [|[k' v'] m IH]; intros H; simpl; [reflexivity|].
  destruct (String.eqb k' k) eqn:E.
  - apply String.eqb_eq in E. subst. exfalso. apply H. left. reflexivity.
  - rewrite IH; [reflexivity|]. intros Hin. apply H. right. exact Hin.
Qed.

Lemma build_from_nodup {V} : forall (l acc : list (string * V)),
  NoDup (map fst (acc ++ l)) -> build_from acc l = acc ++ l.
Proof.
  induction l as [|[k v] l IH]; intros acc H; simpl.
  - rewrite app_nil_r. reflexivity.
  - unfold build_from in *. simpl. rewrite put_fresh.
    + rewrite IH; [rewrite <- app_assoc; reflexivity|]. rewrite <- app_assoc. exact H.
    + rewrite map_app in H. apply NoDup_remove_2 in H. simpl in H.
      intros Hin. apply H. apply in_or_app. left. exact Hin.
Qed.

Theorem build_nodup {V} (l : list (string * V)) : NoDup (map fst l) -> build l = l.
Proof. intros H. apply (build_from_nodup l []). exact H. Qed.

(** The keys of a built map are always pairwise distinct (constant names never clash inside one enum). *)
Lemma put_keys {V} k (v : V) m : NoDup (map fst m) -> NoDup (map fst (put k v m)) /\ incl (map fst (put k v m)) (k :: map fst m).
Proof.
  induction m as [|[k' v'] m IH]; intros H; simpl.
  - split; [constructor; [intros []|constructor]|intros x Hx; exact Hx].
  - destruct (String.eqb k' k) eqn:E.
    + apply String.eqb_eq in E. subst. simpl. split; [exact H|intros x Hx; right; exact Hx].
    + inversion H as [|? ? Hnotin Hnd]; subst. destruct (IH Hnd) as [IH1 IH2]. simpl. split.
      * constructor; [|exact IH1]. intros Hin. apply IH2 in Hin. destruct Hin as [Hk|Hin].
        -- subst. rewrite String.eqb_refl in E. discriminate.
        -- contradiction.
      * intros x [Hx|Hx]; [right; left; exact Hx|]. apply IH2 in Hx. destruct Hx as [Hx|Hx]; [left; exact Hx|right; right; exact Hx].
Qed.

Lemma build_from_keys_nodup {V} : forall (l acc : list (string * V)),
  NoDup (map fst acc) -> NoDup (map fst (build_from acc l)).
Proof.
  induction l as [|[k v] l IH]; intros acc H; simpl; [exact H|].
  unfold build_from in *. simpl. apply IH. apply put_keys. exact H.
Qed.

Theorem build_keys_nodup {V} (l : list (string * V)) : NoDup (map fst (build l)).
Proof. apply build_from_keys_nodup. constructor. Qed.

(** * Helpers on combine *)
Lemma map_fst_combine {A B} : forall (a : list A) (b : list B), List.length a = List.length b -> map fst (combine a b) = a.
Proof. induction a as [|x a IH]; intros [|y b] H; simpl in *; try discriminate; [reflexivity|]. f_equal. apply IH. lia. Qed.
Lemma map_snd_combine {A B} : forall (a : list A) (b : list B), List.length a = List.length b -> map snd (combine a b) = b.
Proof. induction a as [|x a IH]; intros [|y b] H; simpl in *; try discriminate; [reflexivity|]. f_equal. apply IH. lia. Qed.
Lemma map_key_combine {A B C} (f : A -> C) : forall (a : list A) (b : list B),
  map (fun kv => (f (fst kv), snd kv)) (combine a b) = combine (map f a) b.
Proof. induction a as [|x a IH]; intros [|y b]; simpl; try reflexivity. f_equal. apply IH. Qed.

Lemma stage2_keys_length norm : forall names counts, List.length (stage2_keys norm counts names) = List.length names.
Proof. induction names as [|n r IH]; intros counts; simpl; [reflexivity|]. f_equal. apply IH. Qed.

Lemma stage1_nodup : forall l seen,
  (forall n, In n (map fst l) -> ~ In n seen) -> NoDup (map fst l) -> stage1 seen l = l.
Proof.
  induction l as [|[n v] l IH]; intros seen Hs Hn; simpl; [reflexivity|].
  destruct (existsb (String.eqb n) seen) eqn:E.
  - apply existsb_exists in E. destruct E as [x [Hx Hx']]. apply String.eqb_eq in Hx'. subst.
    exfalso. apply (Hs x); [left; reflexivity|exact Hx].
  - f_equal. inversion Hn as [|? ? Hnotin Hn']; subst. apply IH; [|exact Hn'].
    intros m Hm [Hm'|Hm'].
    + subst. contradiction.
    + apply (Hs m); [right; exact Hm|exact Hm'].
Qed.

(** * Completeness: under the guard, every value of the list has exactly one constant, in
      order, and the constant names are pairwise distinct *)
Theorem enum_complete norm norm2 names values :
  List.length names = List.length values ->
  NoDup names ->
  let keys := stage2_keys norm [] names in
  NoDup keys -> NoDup (map norm2 keys) ->
  enum_constants norm norm2 names values = combine (map norm2 keys) values.
Proof.
  intros Hlen Hnd keys Hk Hk2. unfold enum_constants.
  rewrite stage1_nodup.
  2: { intros n _ []. }
  2: { rewrite map_fst_combine by exact Hlen. exact Hnd. }
  unfold stage2. rewrite map_fst_combine, map_snd_combine by exact Hlen.
  assert (Hkl : List.length keys = List.length values) by (unfold keys; rewrite stage2_keys_length; exact Hlen).
  fold keys. rewrite build_nodup by (rewrite map_fst_combine by exact Hkl; exact Hk).
  unfold stage3. rewrite map_key_combine.
  apply build_nodup. rewrite map_fst_combine by (rewrite map_length; exact Hkl). exact Hk2.
Qed.

(** Consequences: the values of the constants are exactly the specification's values (none
    lost, none invented, none merged), and the names are pairwise distinct. *)
Corollary enum_values_preserved norm norm2 names values :
  List.length names = List.length values -> NoDup names ->
  NoDup (stage2_keys norm [] names) -> NoDup (map norm2 (stage2_keys norm [] names)) ->
  map snd (enum_constants norm norm2 names values) = values.
Proof.
  intros Hlen Hnd Hk Hk2. rewrite (enum_complete norm norm2 names values Hlen Hnd Hk Hk2).
  apply map_snd_combine. rewrite map_length, stage2_keys_length. exact Hlen.
Qed.

Theorem enum_names_distinct norm norm2 names values :
  NoDup (map fst (enum_constants norm norm2 names values)).
Proof. unfold enum_constants, stage3. apply build_keys_nodup. Qed.

(** * The guard is needed: values are lost without it (faithful model, concrete normaliser tables) *)
Definition table (t : list (string * string)) (s : string) : string :=
  match find (fun p => String.eqb (fst p) s) t with Some p => snd p | None => s end.

(** ["foo1"; "Foo"; "foo"]: the third name's key Foo ++ "1" collides with the first name's key. *)
Theorem suffix_collision_refuted :
  let norm := table [("foo1", "Foo1"); ("Foo", "Foo"); ("foo", "Foo")] in
  map snd (enum_constants norm (fun s => s) ["foo1"; "Foo"; "foo"] ["foo1"; "Foo"; "foo"]) = ["foo"; "Foo"].
Proof. vm_compute. reflexivity. Qed.

(** [""; " "]: stage-2 keys "" and "Empty"... both become Empty in stage 3; which value
    survives depends on the iteration order of the stage-2 map. *)
Theorem empty_collision_refuted :
  let norm := table [("", "Empty"); (" ", "")] in
  let norm2 := table [("", "Empty"); ("Empty", "Empty")] in
  stage3 norm2 [("Empty", ""); ("", " ")] = [("Empty", " ")] /\
  stage3 norm2 [("", " "); ("Empty", "")] = [("Empty", "")].
Proof. vm_compute. split; reflexivity. Qed.

(** * Literal fidelity *)
Lemma unquote_body_safe : forall v, literal_safe v = true -> unquote_body (v ++ String "034" "") = Some v.
Proof.
  induction v as [|a r IH]; intros H; simpl in *; [reflexivity|].
  apply andb_true_iff in H. destruct H as [H Hr].
  apply andb_true_iff in H. destruct H as [H Hn].
  apply andb_true_iff in H. destruct H as [Hq Hb].
  apply negb_true_iff in Hq, Hb, Hn.
  rewrite (IH Hr).
  destruct a as [b0 b1 b2 b3 b4 b5 b6 b7].
  destruct b0, b1, b2, b3, b4, b5, b6, b7; try reflexivity; simpl in Hq, Hb, Hn; try discriminate.
Qed.

(** A value without quote, backslash or newline is compiled to exactly itself. *)
Theorem render_faithful v : literal_safe v = true -> go_unquote (render v) = Some v.
Proof. intros H. unfold go_unquote, render. apply unquote_body_safe. exact H. Qed.

(** Otherwise it is not: backslash-t becomes a TAB, a quote breaks the literal. *)
Theorem render_backslash_refuted :
  go_unquote (render (String "a" (String "092" (String "t" (String "b" ""))))) = Some (String "a" (String "009" (String "b" ""))).
Proof. vm_compute. reflexivity. Qed.

Theorem render_quote_refuted : go_unquote (render (String "a" (String "034" (String "b" "")))) = None.
Proof. vm_compute. reflexivity. Qed.

(** After the repair: every value is compiled to exactly itself — quotes, backslashes, tabs
    and newlines included. *)
Lemma unquote_quote_body : forall v, unquote_body (quote_body v) = Some v.
Proof.
  induction v as [|a r IH]; [reflexivity|].
  cbn [quote_body].
  destruct (Ascii.eqb a "034") eqn:E1; [apply Ascii.eqb_eq in E1; subst; cbn; rewrite IH; reflexivity|].
  destruct (Ascii.eqb a "092") eqn:E2; [apply Ascii.eqb_eq in E2; subst; cbn; rewrite IH; reflexivity|].
  destruct (Ascii.eqb a "010") eqn:E3; [apply Ascii.eqb_eq in E3; subst; cbn; rewrite IH; reflexivity|].
  destruct (Ascii.eqb a "009") eqn:E4; [apply Ascii.eqb_eq in E4; subst; cbn; rewrite IH; reflexivity|].
  destruct a as [b0 b1 b2 b3 b4 b5 b6 b7].
  destruct b0, b1, b2, b3, b4, b5, b6, b7; cbn in E1, E2, E3, E4; try discriminate;
    cbn [unquote_body]; rewrite IH; reflexivity.
Qed.

Theorem quote_faithful v : go_unquote (quote v) = Some v.
Proof. unfold go_unquote, quote. apply unquote_quote_body. Qed.

(** * The old-enum-conflicts arm *)
Lemma map_pair_combine {A B C} (f : A * B -> C) : forall (a : list A) (b : list B),
  map (fun kv => (f kv, snd kv)) (combine a b) = combine (map f (combine a b)) b.
Proof. induction a as [|x a IH]; intros [|y b]; simpl; try reflexivity. f_equal. apply IH. Qed.

Lemma combine_length_eq {A B} : forall (a : list A) (b : list B), List.length a = List.length b -> List.length (combine a b) = List.length b.
Proof. intros a b H. rewrite combine_length, H. apply Nat.min_id. Qed.

(** Under the guard (distinct stage-2 keys, distinct final names) every value keeps exactly one constant. *)
Theorem enum_old_complete norm pathname names values :
  List.length names = List.length values -> NoDup names ->
  let keys := stage2_keys norm [] names in
  let finals := map (fun kv => pathname (old_key kv)) (combine keys values) in
  NoDup keys -> NoDup finals ->
  enum_constants_old norm pathname names values = combine finals values.
Proof.
  intros Hlen Hnd keys finals Hk Hf. unfold enum_constants_old.
  rewrite stage1_nodup.
  2: { intros n _ []. }
  2: { rewrite map_fst_combine by exact Hlen. exact Hnd. }
  unfold stage2. rewrite map_fst_combine, map_snd_combine by exact Hlen.
  assert (Hkl : List.length keys = List.length values) by (unfold keys; rewrite stage2_keys_length; exact Hlen).
  fold keys. rewrite build_nodup by (rewrite map_fst_combine by exact Hkl; exact Hk).
  unfold stage3_old. rewrite (map_pair_combine (fun kv => pathname (old_key kv))). fold finals.
  apply build_nodup. rewrite map_fst_combine; [exact Hf|].
  unfold finals. rewrite map_length. apply combine_length_eq. exact Hkl.
Qed.

Corollary enum_old_values_preserved norm pathname names values :
  List.length names = List.length values -> NoDup names ->
  NoDup (stage2_keys norm [] names) ->
  NoDup (map (fun kv => pathname (old_key kv)) (combine (stage2_keys norm [] names) values)) ->
  map snd (enum_constants_old norm pathname names values) = values.
Proof.
  intros Hlen Hnd Hk Hf. rewrite (enum_old_complete norm pathname names values Hlen Hnd Hk Hf).
  apply map_snd_combine. rewrite map_length. apply combine_length_eq. rewrite stage2_keys_length. exact Hlen.
Qed.

Theorem enum_old_names_distinct norm pathname names values :
  NoDup (map fst (enum_constants_old norm pathname names values)).
Proof. unfold enum_constants_old, stage3_old. apply build_keys_nodup. Qed.

(** The guard fails on the unchanged code for [empty; ""]: the earlier stages give the empty value the key Empty1,
    the arm forces Empty, the two entries meet and one value is lost (which one depends on the order in which the
    stage-2 map is iterated). *)
Theorem old_conflicts_empty_refuted :
  let norm := table [("empty", "Empty"); ("", "Empty")] in
  let pathname := fun k => ("Color" ++ k)%string in
  stage2 norm (stage1 [] (combine ["empty"; ""] ["empty"; ""])) = [("Empty", "empty"); ("Empty1", "")] /\
  stage3_old pathname [("Empty", "empty"); ("Empty1", "")] = [("ColorEmpty", "")] /\
  stage3_old pathname [("Empty1", ""); ("Empty", "empty")] = [("ColorEmpty", "empty")].
Proof. vm_compute. repeat split; reflexivity. Qed.
