From Coq Require Import List Bool Arith Lia.
From V Require Import Model.Chain.
Import ListNotations.

Definition all_pass (ms : list (nat * mw)) : Prop := forall m, In m ms -> snd m = Pass.

(** * wrap_loop: the order of execution is the reverse of the order of wrapping *)

Lemma wrap_loop_app tag a b k : wrap_loop tag (a ++ b) k = wrap_loop tag b (wrap_loop tag a k).
Proof. unfold wrap_loop. apply fold_left_app. Qed.

Lemma wrap_loop_all_pass tag : forall order k,
  all_pass order -> wrap_loop tag order k = map (fun m => tag (fst m)) (rev order) ++ k.
Proof.
  induction order as [|m order IH] using rev_ind; intros k H.
  - reflexivity.
  - rewrite wrap_loop_app. simpl. rewrite rev_app_distr. simpl.
    unfold apply_mw. rewrite (H m) by (apply in_or_app; right; left; reflexivity).
    f_equal. apply IH. intros x Hx. apply H. apply in_or_app. left. exact Hx.
Qed.

(** If the middleware wrapped at position [length before] stops and everything wrapped after it
    (= run before it) passes, the trace is exactly those, then it, and nothing else: in
    particular whatever [k] contains (later middlewares, the handler) never runs. *)
Lemma wrap_loop_stop tag before i after k :
  all_pass after ->
  wrap_loop tag (before ++ (i, Stop) :: after) k = map (fun m => tag (fst m)) (rev after) ++ [tag i].
Proof.
  intros H. rewrite wrap_loop_app. simpl.
  rewrite (wrap_loop_all_pass tag after _ H). reflexivity.
Qed.

(** * seq_loop *)

Lemma seq_loop_all_pass tag : forall ms k,
  all_pass ms -> seq_loop tag ms k = map (fun m => tag (fst m)) ms ++ k.
Proof.
  induction ms as [|m ms IH]; intros k H; simpl; [reflexivity|].
  rewrite (H m) by (left; reflexivity). f_equal. apply IH. intros x Hx. apply H. right. exact Hx.
Qed.

Lemma seq_loop_stop tag before i after k :
  all_pass before ->
  seq_loop tag (before ++ (i, Stop) :: after) k = map (fun m => tag (fst m)) before ++ [tag i].
Proof.
  induction before as [|m before IH]; intros H; simpl; [reflexivity|].
  rewrite (H m) by (left; reflexivity). f_equal. apply IH. intros x Hx. apply H. right. exact Hx.
Qed.

(** * indexed *)

Lemma map_fst_combine_eq {A B} : forall (a : list A) (b : list B),
  length a = length b -> map fst (combine a b) = a.
Proof.
  induction a as [|x a IH]; intros [|y b] H; simpl in *; try discriminate; [reflexivity|].
  f_equal. apply IH. lia.
Qed.

Lemma indexed_fst ms : map fst (indexed ms) = seq 0 (length ms).
Proof.
  unfold indexed. apply map_fst_combine_eq. apply seq_length.
Qed.

Lemma indexed_all_pass ms : (forall m, In m ms -> m = Pass) -> all_pass (indexed ms).
Proof.
  intros H m Hm. unfold indexed in Hm. destruct m as [i b]. apply in_combine_r in Hm. simpl. apply H. exact Hm.
Qed.

Lemma map_tag_fst {A} (tag : nat -> event) (l : list (nat * A)) :
  map (fun m => tag (fst m)) l = map tag (map fst l).
Proof. rewrite map_map. reflexivity. Qed.

(** * C14: each middleware exactly once, in the documented order, then the handler *)

Theorem nethttp_each_once_in_order ftl ms inner :
  (forall m, In m ms -> m = Pass) ->
  nethttp_chain ftl ms inner = map EMw (documented_order Chi ftl (length ms)) ++ inner.
Proof.
  intros H. unfold nethttp_chain. pose proof (indexed_all_pass ms H) as Hall.
  destruct ftl; simpl.
  - rewrite wrap_loop_all_pass.
    + rewrite rev_involutive, map_tag_fst, indexed_fst. reflexivity.
    + intros m Hm. apply Hall. apply in_rev. exact Hm.
  - rewrite wrap_loop_all_pass by exact Hall.
    rewrite map_tag_fst, map_rev, indexed_fst. reflexivity.
Qed.

Theorem seq_each_once_in_order ms inner :
  (forall m, In m ms -> m = Pass) ->
  seq_loop EMw (indexed ms) inner = map EMw (seq 0 (length ms)) ++ inner.
Proof.
  intros H. rewrite seq_loop_all_pass by (apply indexed_all_pass; exact H).
  rewrite map_tag_fst, indexed_fst. reflexivity.
Qed.

Theorem strict_each_once_in_order ms :
  (forall m, In m ms -> m = Pass) ->
  strict_chain ms = map EStrict (rev (seq 0 (length ms))) ++ [EHandler].
Proof.
  intros H. unfold strict_chain. rewrite wrap_loop_all_pass by (apply indexed_all_pass; exact H).
  rewrite map_tag_fst, map_rev, indexed_fst. reflexivity.
Qed.

(** The handler runs at most once, and only at the very end. *)
Definition handler_count (t : list event) : nat := length (filter (event_eqb EHandler) t).

Lemma handler_count_app a b : handler_count (a ++ b) = handler_count a + handler_count b.
Proof. unfold handler_count. rewrite filter_app, app_length. reflexivity. Qed.

Lemma handler_count_map_mw (tag : nat -> event) (l : list nat) :
  (forall i, tag i <> EHandler) -> handler_count (map tag l) = 0.
Proof.
  intros Ht. induction l as [|x l IH]; simpl; [reflexivity|].
  unfold handler_count in *. simpl. destruct (tag x) eqn:E; simpl; try exact IH.
  exfalso. apply (Ht x). exact E.
Qed.

(** * Short circuit: no later middleware and no handler *)

Lemma wrap_loop_no_handler_after_stop tag before i after k :
  (forall j, tag j <> EHandler) -> all_pass after ->
  handler_count (wrap_loop tag (before ++ (i, Stop) :: after) k) = 0.
Proof.
  intros Ht H. rewrite wrap_loop_stop by exact H.
  rewrite handler_count_app, map_tag_fst, handler_count_map_mw by exact Ht.
  unfold handler_count. simpl. destruct (tag i) eqn:E; try reflexivity. exfalso. apply (Ht i). exact E.
Qed.

Lemma seq_loop_no_handler_after_stop tag before i after k :
  (forall j, tag j <> EHandler) -> all_pass before ->
  handler_count (seq_loop tag (before ++ (i, Stop) :: after) k) = 0.
Proof.
  intros Ht H. rewrite seq_loop_stop by exact H.
  rewrite handler_count_app, map_tag_fst, handler_count_map_mw by exact Ht.
  unfold handler_count. simpl. destruct (tag i) eqn:E; try reflexivity. exfalso. apply (Ht i). exact E.
Qed.

(** General form (any mix of passing and stopping middlewares): the handler runs iff no
    middleware stops; proved for both loop shapes. *)
Definition none_stops (ms : list (nat * mw)) : bool :=
  forallb (fun m => match snd m with Pass => true | Stop => false end) ms.

Lemma hc_cons e t : handler_count (e :: t) = (if event_eqb EHandler e then 1 else 0) + handler_count t.
Proof. unfold handler_count. cbn [filter]. destruct (event_eqb EHandler e); reflexivity. Qed.

Lemma tag_not_handler (tag : nat -> event) i :
  (forall j, tag j <> EHandler) -> event_eqb EHandler (tag i) = false.
Proof. intros Ht. destruct (tag i) eqn:E; try reflexivity. exfalso. apply (Ht i). exact E. Qed.

Lemma none_stops_cons i b ms :
  none_stops ((i, b) :: ms) = (match b with Pass => true | Stop => false end) && none_stops ms.
Proof. reflexivity. Qed.

Lemma seq_loop_handler_iff (tag : nat -> event) : forall ms k,
  (forall j, tag j <> EHandler) ->
  handler_count (seq_loop tag ms k) = if none_stops ms then handler_count k else 0.
Proof.
  intros ms k Ht. induction ms as [|[i b] ms IH]; [reflexivity|].
  cbn [seq_loop fst snd]. rewrite hc_cons, (tag_not_handler tag i Ht), none_stops_cons.
  destruct b; cbn [andb plus]; [exact IH|reflexivity].
Qed.

Lemma wrap_loop_handler_iff (tag : nat -> event) : forall ms k,
  (forall j, tag j <> EHandler) ->
  handler_count (wrap_loop tag ms k) = if none_stops ms then handler_count k else 0.
Proof.
  intros ms k Ht. revert k. induction ms as [|[i b] ms IH]; intros k; [reflexivity|].
  unfold wrap_loop in *. cbn [fold_left]. rewrite IH, none_stops_cons.
  unfold apply_mw. cbn [fst snd]. rewrite hc_cons, (tag_not_handler tag i Ht).
  destruct b; cbn [andb plus].
  - reflexivity.
  - destruct (none_stops ms); reflexivity.
Qed.

Lemma none_stops_rev ms : none_stops (rev ms) = none_stops ms.
Proof.
  unfold none_stops. induction ms as [|m ms IH]; simpl; [reflexivity|].
  rewrite forallb_app. simpl. rewrite IH, andb_true_r. apply andb_comm.
Qed.

Lemma emw_not_handler : forall j, EMw j <> EHandler. Proof. discriminate. Qed.
Lemma estrict_not_handler : forall j, EStrict j <> EHandler. Proof. discriminate. Qed.

(** For every flavour that installs per-operation middleware and every strict chain: the user's
    handler runs exactly once if no middleware stops, and not at all otherwise. *)
Theorem handler_runs_iff_nothing_stops fw ftl ms strict :
  fw <> Echo ->
  handler_count (request_trace fw ftl ms strict) =
  if none_stops (indexed ms) && match strict with Some sm => none_stops (indexed sm) | None => true end
  then 1 else 0.
Proof.
  intros He.
  assert (Hinner : handler_count (match strict with Some sm => strict_chain sm | None => [EHandler] end)
                   = if match strict with Some sm => none_stops (indexed sm) | None => true end then 1 else 0).
  { destruct strict as [sm|]; [|reflexivity]. unfold strict_chain.
    rewrite wrap_loop_handler_iff by exact estrict_not_handler. reflexivity. }
  destruct fw; try congruence; simpl.
  - unfold nethttp_chain. rewrite wrap_loop_handler_iff by exact emw_not_handler.
    destruct ftl; rewrite ?none_stops_rev; destruct (none_stops (indexed ms)); simpl; auto.
  - rewrite seq_loop_handler_iff by exact emw_not_handler.
    destruct (none_stops (indexed ms)); simpl; auto.
  - unfold nethttp_chain. rewrite wrap_loop_handler_iff by exact emw_not_handler.
    destruct ftl; rewrite ?none_stops_rev; destruct (none_stops (indexed ms)); simpl; auto.
  - unfold nethttp_chain. rewrite wrap_loop_handler_iff by exact emw_not_handler.
    destruct ftl; rewrite ?none_stops_rev; destruct (none_stops (indexed ms)); simpl; auto.
  - rewrite seq_loop_handler_iff by exact emw_not_handler.
    destruct (none_stops (indexed ms)); simpl; auto.
  - rewrite seq_loop_handler_iff by exact emw_not_handler.
    destruct (none_stops (indexed ms)); simpl; auto.
Qed.

(** Full trace when nothing stops: per-operation middlewares in documented order, then the
    strict middlewares (last configured first), then the handler — each exactly once. *)
Theorem request_trace_all_pass fw ftl ms strict :
  (forall m, In m ms -> m = Pass) ->
  (forall sm, strict = Some sm -> forall m, In m sm -> m = Pass) ->
  request_trace fw ftl ms strict =
  map EMw (documented_order fw ftl (length ms)) ++
  match strict with
  | Some sm => map EStrict (rev (seq 0 (length sm))) ++ [EHandler]
  | None => [EHandler]
  end.
Proof.
  intros H Hs.
  assert (Hinner : match strict with Some sm => strict_chain sm | None => [EHandler] end =
                   match strict with Some sm => map EStrict (rev (seq 0 (length sm))) ++ [EHandler] | None => [EHandler] end).
  { destruct strict as [sm|]; [|reflexivity]. apply strict_each_once_in_order. apply (Hs sm eq_refl). }
  unfold request_trace. rewrite Hinner.
  destruct fw; simpl; try reflexivity;
    try (apply nethttp_each_once_in_order; exact H);
    try (apply seq_each_once_in_order; exact H).
Qed.

(** * Histories of requests on one mounted server *)
Lemma serve_first fw ftl ms strict :
  snd (serve fw ftl strict (indexed ms)) = request_trace fw ftl ms strict.
Proof. unfold serve, request_trace, nethttp_chain, inner_of. destruct fw; reflexivity. Qed.

Lemma serve_keeps_state fw ftl strict s : fst (serve fw ftl strict s) = s.
Proof. reflexivity. Qed.

Lemma serve_n_repeat fw ftl strict s : forall n,
  serve_n (serve fw ftl strict) s n = repeat (snd (serve fw ftl strict s)) n.
Proof. induction n as [|n IH]; [reflexivity|]. cbn [serve_n repeat]. rewrite serve_keeps_state, IH. reflexivity. Qed.

Lemma nth_repeat_last {A} (x d : A) : forall k, nth k (repeat x (S k)) d = x.
Proof. induction k as [|k IH]; [reflexivity|]. cbn [repeat nth] in *. exact IH. Qed.

(** Every request a mounted server serves leaves the trace of the first one: the n-th request is treated as the first. *)
Theorem every_request_like_the_first fw ftl ms strict k :
  nth_request fw ftl ms strict k = request_trace fw ftl ms strict.
Proof. unfold nth_request. rewrite serve_n_repeat, nth_repeat_last. apply serve_first. Qed.

(** ... and the whole history of n requests is n copies of that trace. *)
Theorem history_is_constant fw ftl ms strict n :
  serve_n (serve fw ftl strict) (indexed ms) n = repeat (request_trace fw ftl ms strict) n.
Proof. rewrite serve_n_repeat, serve_first. reflexivity. Qed.

(** A wrapper that reverses its slice in place (instead of iterating it backwards) serves the first request as
    documented and the second one in the opposite order. *)
Theorem reversing_in_place_refuted :
  serve_n (serve_reversing true None) (indexed [Pass; Pass]) 3 =
  [[EMw 0; EMw 1; EHandler]; [EMw 1; EMw 0; EHandler]; [EMw 0; EMw 1; EHandler]].
Proof. vm_compute. reflexivity. Qed.

(** * gin: writing to the response is not short-circuiting *)
Lemma gin_loop_is_seq_loop : forall ms w inner,
  gin_loop template_stop ms w inner = seq_loop EMw (map (fun m => (fst m, erase (snd m))) ms) inner.
Proof.
  induction ms as [|[i m] r IH]; intros w inner; cbn [gin_loop seq_loop map fst snd]; [reflexivity|].
  unfold template_stop. destruct m; cbn [aborts erase]; try rewrite IH; reflexivity.
Qed.

Lemma gin_writers_reach_the_handler : forall ms w,
  (forall m, In m ms -> snd m <> GAbort) ->
  gin_loop template_stop ms w [EHandler] = map (fun m => EMw (fst m)) ms ++ [EHandler].
Proof.
  induction ms as [|[i m] r IH]; intros w H; cbn [gin_loop map app fst snd]; [reflexivity|].
  unfold template_stop. destruct m; cbn [aborts].
  - rewrite IH; [reflexivity|]. intros m Hm. apply H. right. exact Hm.
  - exfalso. apply (H (i, GAbort)); [left; reflexivity|reflexivity].
  - rewrite IH; [reflexivity|]. intros m Hm. apply H. right. exact Hm.
Qed.

Lemma stop_when_written_refuted :
  exists ms, (forall m, In m ms -> snd m <> GAbort)
             /\ gin_loop stop_when_written ms false [EHandler] <> map (fun m => EMw (fst m)) ms ++ [EHandler].
Proof.
  exists [(0, GPass); (1, GWrite); (2, GPass)]. split.
  - intros m [H|[H|[H|[]]]]; subst m; discriminate.
  - vm_compute. discriminate.
Qed.

(** the first-to-last flag is about the per-operation middlewares: the strict part of every trace is the same with and
    without it *)
Lemma strict_only_trace_ignores_first_to_last : forall fw sm,
  request_trace fw true [] (Some sm) = request_trace fw false [] (Some sm).
Proof. intros fw sm. destruct fw; reflexivity. Qed.

Lemma all_pass_strict_suffix : forall fw ftl ms sm,
  (forall m, In m ms -> m = Pass) ->
  exists pre, request_trace fw ftl ms (Some sm) = pre ++ strict_chain sm.
Proof.
  intros fw ftl ms sm Hp.
  assert (Hw : forall order inner, all_pass order -> exists pre, wrap_loop EMw order inner = pre ++ inner).
  { intros order. induction order as [|[i m] r IH] using rev_ind; intros inner Ha.
    - exists []. reflexivity.
    - unfold wrap_loop. rewrite fold_left_app. cbn [fold_left].
      destruct (IH inner) as [pre Hpre]; [intros x Hx; apply Ha; apply in_or_app; left; exact Hx|].
      unfold wrap_loop in Hpre. rewrite Hpre. unfold apply_mw. cbn [fst snd].
      assert (Hm : snd (i, m) = Pass) by (apply Ha; apply in_or_app; right; left; reflexivity).
      cbn [snd] in Hm. subst m. exists (EMw i :: pre). reflexivity. }
  assert (Hs : forall order inner, all_pass order -> exists pre, seq_loop EMw order inner = pre ++ inner).
  { intros order. induction order as [|[i m] r IH]; intros inner Ha.
    - exists []. reflexivity.
    - cbn [seq_loop fst snd]. assert (Hm : snd (i, m) = Pass) by (apply Ha; left; reflexivity). cbn [snd] in Hm. subst m.
      destruct (IH inner) as [pre Hpre]; [intros x Hx; apply Ha; right; exact Hx|]. rewrite Hpre. exists (EMw i :: pre). reflexivity. }
  pose proof (indexed_all_pass ms Hp) as Hi.
  assert (Hr : all_pass (rev (indexed ms))) by (intros x Hx; apply Hi; apply in_rev; exact Hx).
  unfold request_trace. destruct fw; try (unfold nethttp_chain; destruct ftl; [apply Hw; exact Hr|apply Hw; exact Hi]); try (apply Hs; exact Hi).
  exists []. reflexivity.
Qed.

(** * Mounting from an options value *)
Theorem mounted_trace_is_request_trace fw ftl strict o :
  mounted_trace mount fw ftl strict o = request_trace fw ftl (o_mws o) strict.
Proof. unfold mounted_trace, mount. apply serve_first. Qed.

(** what else the options carry is irrelevant: the chain is that of the middlewares *)
Theorem mounted_trace_ignores_other_options fw ftl strict o o' :
  o_mws o = o_mws o' -> mounted_trace mount fw ftl strict o = mounted_trace mount fw ftl strict o'.
Proof. intro H. rewrite !mounted_trace_is_request_trace. rewrite H. reflexivity. Qed.

(** storing the middlewares only next to the default error handler: with an error handler of the caller's an
    authenticating middleware that answers itself no longer keeps the request from the handler *)
Theorem mount_under_default_error_handler_refuted :
  let o := {| o_mws := [Stop]; o_error_handler := true; o_base_url := false |} in
  mounted_trace mount Chi false None o = [EMw 0]
  /\ mounted_trace mount_under_default_error_handler Chi false None o = [EHandler].
Proof. vm_compute. split; reflexivity. Qed.

(** * The counting loop visits the slice from its last element to its first *)
Lemma countdown_app : forall (a : slice) m, countdown (length a) (a ++ [m]) = countdown (length a) a.
Proof.
  intros a m. remember (length a) as k eqn:Hk. assert (Hle : k <= length a) by (subst; auto). clear Hk.
  induction k as [|j IH]; [reflexivity|]. cbn [countdown].
  rewrite nth_error_app1 by exact Hle. rewrite IH by (apply Nat.lt_le_incl; exact Hle). reflexivity.
Qed.

Theorem countdown_is_rev : forall s : slice, countdown (length s) s = rev s.
Proof.
  induction s as [|m s IH] using rev_ind; [reflexivity|].
  rewrite app_length. cbn [length]. rewrite Nat.add_1_r. cbn [countdown].
  rewrite nth_error_app2 by auto. rewrite Nat.sub_diag. cbn [nth_error].
  rewrite countdown_app. rewrite IH. rewrite rev_app_distr. reflexivity.
Qed.

(** so the first-to-last chain of the templates is the model's: wrapping in the order the loop visits *)
Theorem first_to_last_loop (ms : list mw) inner :
  wrap_loop EMw (countdown (length (indexed ms)) (indexed ms)) inner = nethttp_chain true ms inner.
Proof. rewrite countdown_is_rev. reflexivity. Qed.

(** the loop that stops at i > 0 never wraps the first middleware: with one middleware nothing runs before the handler *)
Theorem countdown_stopping_early_refuted :
  wrap_loop EMw (countdown 1 (indexed [Stop])) [EHandler] = [EMw 0]
  /\ wrap_loop EMw (countdown_stopping_early 1 (indexed [Stop])) [EHandler] = [EHandler].
Proof. vm_compute. split; reflexivity. Qed.
