From Coq Require Import List NArith ZArith Bool Lia.
From Coq Require Import ZifyN ZifyBool.
From V Require Import Model.Escape.
Import ListNotations.
Local Open Scope N_scope.
Ltac Zify.zify_post_hook ::= Z.div_mod_to_equations.

Lemma unhex_hex : forall n, n < 16 -> unhex (hex_digit n) = Some n.
Proof.
  intros n H. unfold hex_digit, unhex.
  destruct (n <? 10) eqn:E.
  - replace ((48 <=? 48 + n) && (48 + n <=? 57)) with true by lia. f_equal. lia.
  - replace ((48 <=? 55 + n) && (55 + n <=? 57)) with false by lia.
    replace ((65 <=? 55 + n) && (55 + n <=? 70)) with true by lia. f_equal. lia.
Qed.

Lemma hex_not_percent : forall n, n < 16 -> hex_digit n <> 37.
Proof. intros n H. unfold hex_digit. destruct (n <? 10) eqn:E; lia. Qed.

Lemma unescaped_byte_is_not_percent : forall m b, should_escape m b = false -> b <> 37.
Proof.
  intros m b H E. subst b. destruct m; vm_compute in H; discriminate.
Qed.

Lemma unescaped_byte_is_not_plus_in_query : forall b, should_escape QueryComponent b = false -> b <> 43.
Proof. intros b H E. subst b. vm_compute in H. discriminate. Qed.

Theorem escape_roundtrip : forall m s, Forall (fun b => b < 256) s -> unescape m (escape m s) = Some s.
Proof.
  intros m s H. induction H as [|b r Hb Hr IH]; [reflexivity|].
  cbn [escape].
  destruct (match m with QueryComponent => b =? 32 | PathSegment => false end) eqn:Esp.
  - (* a blank in a query component travels as + *)
    destruct m; [discriminate|]. assert (b = 32) by lia. subst b.
    cbn [unescape]. replace (43 =? 37) with false by reflexivity. rewrite IH. reflexivity.
  - destruct (should_escape m b) eqn:Ese.
    + cbn [unescape]. replace (37 =? 37) with true by reflexivity.
      rewrite !unhex_hex by lia. rewrite IH. f_equal. f_equal. lia.
    + cbn [unescape]. pose proof (unescaped_byte_is_not_percent m b Ese) as Hp.
      replace (b =? 37) with false by lia. rewrite IH. f_equal. f_equal.
      destruct m; [reflexivity|].
      pose proof (unescaped_byte_is_not_plus_in_query b Ese) as Hq. replace (b =? 43) with false by lia. reflexivity.
Qed.

(** an escaped path segment stays ONE segment and carries no query or fragment mark: no / ? # in it *)
Theorem escaped_segment_has_no_separator : forall s,
  Forall (fun b => b < 256) s -> Forall (fun c => c <> 47 /\ c <> 63 /\ c <> 35) (escape PathSegment s).
Proof.
  intros s H. induction H as [|b r Hb Hr IH]; [constructor|].
  cbn [escape]. destruct (should_escape PathSegment b) eqn:E.
  - constructor; [lia|]. constructor; [unfold hex_digit; destruct (b / 16 <? 10) eqn:E1; lia|].
    constructor; [unfold hex_digit; destruct (b mod 16 <? 10) eqn:E2; lia|]. exact IH.
  - constructor; [|exact IH]. repeat split; intros ->; vm_compute in E; discriminate.
Qed.

(** an escaped query component carries no & = + other than the blank's, no # *)
Theorem escaped_component_has_no_delimiter : forall s,
  Forall (fun b => b < 256) s -> Forall (fun c => c <> 38 /\ c <> 61 /\ c <> 35) (escape QueryComponent s).
Proof.
  intros s H. induction H as [|b r Hb Hr IH]; [constructor|].
  cbn [escape]. destruct (b =? 32) eqn:Esp; [constructor; [lia|exact IH]|].
  destruct (should_escape QueryComponent b) eqn:E.
  - constructor; [lia|]. constructor; [unfold hex_digit; destruct (b / 16 <? 10) eqn:E1; lia|].
    constructor; [unfold hex_digit; destruct (b mod 16 <? 10) eqn:E2; lia|]. exact IH.
  - constructor; [|exact IH]. repeat split; intros ->; vm_compute in E; discriminate.
Qed.

(** decoding a path segment by the query rules is NOT the identity: a plus sign arrives as a blank *)
Theorem path_segment_decoded_as_query_refuted :
  unescape QueryComponent (escape PathSegment [43]) = Some [32].
Proof. reflexivity. Qed.
