(** Proofs about Model/Tmpl.v: the criteria computed on a term hold of every text the term renders, under EVERY
    environment (every operation, every parameter list, every option). *)
From Coq Require Import List String Bool Arith Lia.
From V Require Import Model.Tmpl.
Import ListNotations.

(** * stops *)
Lemma stops_app : forall a b, stops false a = Some false -> forall p, stops p (a ++ b) = match stops p a with Some q => stops q b | None => None end.
Proof.
  intros a b _. induction a as [|g a IH]; intro p; [reflexivity|].
  destruct g; cbn [app stops]; try apply IH; destruct p; try reflexivity; apply IH.
Qed.

Lemma stops_app_ok a b : stops false a = Some false -> stops false b = Some false -> stops false (a ++ b) = Some false.
Proof. intros Ha Hb. rewrite stops_app by exact Ha. rewrite Ha. exact Hb. Qed.

Lemma stops_flat_map {A} (f : A -> list gtok) : forall l,
  (forall x, In x l -> stops false (f x) = Some false) -> stops false (flat_map f l) = Some false.
Proof.
  induction l as [|x l IH]; intro H; [reflexivity|]. cbn [flat_map].
  apply stops_app_ok; [apply H; left; reflexivity|apply IH; intros y Hy; apply H; right; exact Hy].
Qed.

Lemma sar_iff l : stops_after_report l = true <-> stops false l = Some false.
Proof. unfold stops_after_report. destruct (stops false l) as [[|]|]; split; congruence. Qed.

Theorem segments_stop_sound : forall t, segments_stop t = true -> forall e, stops_after_report (render t e) = true.
Proof.
  induction t as [|l|c a IHa b IHb|r a IHa b IHb|a IHa b IHb]; cbn [segments_stop render]; intros H e.
  - reflexivity.
  - exact H.
  - apply andb_true_iff in H. destruct H as [Ha Hb]. destruct (cond_of e c); auto.
  - apply andb_true_iff in H. destruct H as [Ha Hb]. destruct (range_of e r) as [|e0 es] eqn:E; [auto|].
    apply sar_iff. apply stops_flat_map. intros x _. apply sar_iff. auto.
  - apply andb_true_iff in H. destruct H as [Ha Hb]. apply sar_iff. apply stops_app_ok; apply sar_iff; auto.
Qed.

(** * handler calls *)
Lemma handler_calls_app a b : handler_calls (a ++ b) = handler_calls a + handler_calls b.
Proof. unfold handler_calls. rewrite filter_app, app_length. reflexivity. Qed.

Lemma handler_calls_flat_map_zero {A} (f : A -> list gtok) : forall l,
  (forall x, handler_calls (f x) = 0) -> handler_calls (flat_map f l) = 0.
Proof. induction l as [|x l IH]; intro H; [reflexivity|]. cbn [flat_map]. rewrite handler_calls_app, H, IH; auto. Qed.

Theorem static_handler_calls_sound : forall t n, static_handler_calls t = Some n -> forall e, handler_calls (render t e) = n.
Proof.
  induction t as [|l|c a IHa b IHb|r a IHa b IHb|a IHa b IHb]; cbn [static_handler_calls render]; intros n H e.
  - inversion H. reflexivity.
  - inversion H. reflexivity.
  - destruct (static_handler_calls a) as [x|]; [|discriminate]. destruct (static_handler_calls b) as [y|]; [|discriminate].
    destruct (Nat.eqb x y) eqn:E; [|discriminate]. inversion H. subst n. apply Nat.eqb_eq in E. subst y.
    destruct (cond_of e c); auto.
  - destruct (static_handler_calls a) as [[|x]|]; try discriminate. destruct (static_handler_calls b) as [[|y]|]; try discriminate.
    inversion H. subst n. destruct (range_of e r) as [|e0 es]; [auto|]. apply handler_calls_flat_map_zero. intro x. auto.
  - destruct (static_handler_calls a) as [x|]; [|discriminate]. destruct (static_handler_calls b) as [y|]; [|discriminate].
    inversion H. rewrite handler_calls_app. f_equal; auto.
Qed.

(** * scopes published first *)
Lemma published_first_true_entered : forall l, published_first true l = true -> existsb publishes l = false.
Proof.
  induction l as [|g l IH]; [reflexivity|]. cbn [published_first existsb]. destruct (publishes g); cbn [andb orb]; [discriminate|].
  exact IH.
Qed.

Lemma published_first_no_publish : forall l b, existsb publishes l = false -> published_first b l = true.
Proof.
  induction l as [|g l IH]; intros b H; [reflexivity|]. cbn [published_first existsb] in *.
  apply orb_false_iff in H. destruct H as [Hg Hl]. rewrite Hg. cbn [andb]. apply IH. exact Hl.
Qed.

Lemma published_first_weaken : forall l, published_first true l = true -> published_first false l = true.
Proof. intros l H. apply published_first_no_publish. apply published_first_true_entered. exact H. Qed.

Lemma published_first_app : forall a b entered,
  published_first entered (a ++ b) = published_first entered a && published_first (entered || existsb enters a) b.
Proof.
  induction a as [|g a IH]; intros b entered; cbn [app published_first existsb].
  - rewrite orb_false_r. reflexivity.
  - destruct (publishes g && entered); [reflexivity|]. rewrite IH. rewrite orb_assoc. reflexivity.
Qed.

Lemma may_render (p : gtok -> bool) : forall t e, existsb p (render t e) = true -> may p t = true.
Proof.
  induction t as [|l|c a IHa b IHb|r a IHa b IHb|a IHa b IHb]; cbn [may render]; intros e H.
  - discriminate.
  - exact H.
  - apply orb_true_iff. destruct (cond_of e c); [left|right]; eauto.
  - apply orb_true_iff. destruct (range_of e r) as [|e0 es]; [right; eauto|left].
    apply existsb_exists in H. destruct H as [g [Hin Hg]]. apply in_flat_map in Hin. destruct Hin as [x [_ Hx]].
    apply (IHa x). apply existsb_exists. exists g. split; assumption.
  - rewrite existsb_app in H. apply orb_true_iff in H. apply orb_true_iff. destruct H; [left|right]; eauto.
Qed.

Lemma not_may_render (p : gtok -> bool) t e : may p t = false -> existsb p (render t e) = false.
Proof. intro H. destruct (existsb p (render t e)) eqn:E; [|reflexivity]. apply may_render in E. congruence. Qed.

Lemma published_first_flat_map {A} (f : A -> list gtok) : forall l,
  (forall x, published_first false (f x) = true) ->
  ((forall x, existsb enters (f x) = false) \/ (forall x, existsb publishes (f x) = false)) ->
  published_first false (flat_map f l) = true.
Proof.
  intros l Hord Hex. destruct Hex as [Hne|Hnp].
  - induction l as [|x l IH]; [reflexivity|]. cbn [flat_map]. rewrite published_first_app. rewrite Hord, Hne. exact IH.
  - apply published_first_no_publish. induction l as [|x l IH]; [reflexivity|]. cbn [flat_map]. rewrite existsb_app, Hnp. exact IH.
Qed.

Theorem ordered_sound : forall t, ordered t = true -> forall e, published_first false (render t e) = true.
Proof.
  induction t as [|l|c a IHa b IHb|r a IHa b IHb|a IHa b IHb]; cbn [ordered render]; intros H e.
  - reflexivity.
  - exact H.
  - apply andb_true_iff in H. destruct H as [Ha Hb]. destruct (cond_of e c); auto.
  - apply andb_true_iff in H. destruct H as [H Hx]. apply andb_true_iff in H. destruct H as [Ha Hb].
    destruct (range_of e r) as [|e0 es]; [auto|]. apply published_first_flat_map; [intro x; auto|].
    apply negb_true_iff in Hx. apply andb_false_iff in Hx. destruct Hx as [Hx|Hx]; [left|right]; intro x; apply not_may_render; exact Hx.
  - apply andb_true_iff in H. destruct H as [H Hx]. apply andb_true_iff in H. destruct H as [Ha Hb].
    rewrite published_first_app. rewrite IHa by exact Ha. cbn [andb orb].
    apply negb_true_iff in Hx. apply andb_false_iff in Hx. destruct Hx as [Hx|Hx].
    + rewrite (not_may_render enters a e Hx). auto.
    + apply published_first_no_publish. apply not_may_render. exact Hx.
Qed.

(** * the forgetful wrapper *)
Theorem forgetful_rejected_and_wrong :
  segments_stop forgetful = false
  /\ let e := EnvL [] [("params"%string, [EnvL [] []])] in
     render forgetful e = [GOpen; GReport; GClose; GHandler; GClose] /\ stops_after_report (render forgetful e) = false.
Proof. vm_compute. repeat split; reflexivity. Qed.


(** * criteria as automata: segment-wise closed terms render closed texts, under every environment *)
Section AutomatonProofs.
Variable S : Type.
Variable step : S -> gtok -> option S.
Variable s0 : S.
Variable is_s0 : S -> bool.
Hypothesis is_s0_spec : forall s, is_s0 s = true -> s = s0.

Lemma run_app : forall a b s, run S step s (a ++ b) = match run S step s a with Some s' => run S step s' b | None => None end.
Proof. induction a as [|g a IH]; intros b s; [reflexivity|]. cbn [app run]. destruct (step s g); [apply IH|reflexivity]. Qed.

Lemma closed_run l : closed_text S step s0 is_s0 l = true -> run S step s0 l = Some s0.
Proof. unfold closed_text. destruct (run S step s0 l) as [s|]; [|discriminate]. intro H. rewrite (is_s0_spec s H). reflexivity. Qed.

Lemma run_closed l : run S step s0 l = Some s0 -> is_s0 s0 = true -> closed_text S step s0 is_s0 l = true.
Proof. intros H H0. unfold closed_text. rewrite H. exact H0. Qed.

Hypothesis s0_is_s0 : is_s0 s0 = true.

Lemma closed_app a b : closed_text S step s0 is_s0 a = true -> closed_text S step s0 is_s0 b = true ->
  closed_text S step s0 is_s0 (a ++ b) = true.
Proof.
  intros Ha Hb. apply run_closed; [|exact s0_is_s0]. rewrite run_app. rewrite (closed_run a Ha). apply closed_run. exact Hb.
Qed.

Lemma closed_flat_map {A} (f : A -> list gtok) : forall l,
  (forall x, closed_text S step s0 is_s0 (f x) = true) -> closed_text S step s0 is_s0 (flat_map f l) = true.
Proof.
  induction l as [|x l IH]; intro H; [apply run_closed; [reflexivity|exact s0_is_s0]|].
  cbn [flat_map]. apply closed_app; [apply H|apply IH; exact H].
Qed.

Theorem segments_closed_sound : forall t, segments_closed S step s0 is_s0 t = true ->
  forall e, closed_text S step s0 is_s0 (render t e) = true.
Proof.
  induction t as [|l|c a IHa b IHb|r a IHa b IHb|a IHa b IHb]; cbn [segments_closed render]; intros H e.
  - apply run_closed; [reflexivity|exact s0_is_s0].
  - exact H.
  - apply andb_true_iff in H. destruct H as [Ha Hb]. destruct (cond_of e c); auto.
  - apply andb_true_iff in H. destruct H as [Ha Hb]. destruct (range_of e r) as [|e0 es]; [auto|].
    apply closed_flat_map. intro x. auto.
  - apply andb_true_iff in H. destruct H as [Ha Hb]. apply closed_app; auto.
Qed.
End AutomatonProofs.

(** the strict tail *)
Lemma is_idle_spec : forall s, is_idle s = true -> s = TIdle.
Proof. intros [| | |]; simpl; intro H; try discriminate; reflexivity. Qed.

Theorem strict_segments_sound : forall t, strict_segments_ok t = true -> forall e, visits_guarded (render t e) = true.
Proof. intros t H e. apply (segments_closed_sound tail_state tail_step TIdle is_idle is_idle_spec eq_refl t H e). Qed.

Theorem tail_without_else_refuted :
  visits_guarded tail_of_the_templates = true /\ visits_guarded tail_without_else = false.
Proof. vm_compute. split; reflexivity. Qed.
