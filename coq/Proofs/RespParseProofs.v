From Coq Require Import List String Ascii Bool Arith NArith Lia.
From V Require Import Model.Det Model.RespParse Proofs.DetProofs.
Import ListNotations.
Local Open Scope string_scope.

(** * The key order puts an exact code before its range before default
      (finite sweep over every status code 100..599, lifted from a computation) *)

Definition codes : list nat := seq 100 500.

Definition order_ok (n : nat) : bool :=
  let k := fun r => "9.json." ++ rname_string r in
  sleb (k (RCode n)) (k (RRange (n / 100))) && negb (sleb (k (RRange (n / 100))) (k (RCode n)))
  && sleb (k (RRange (n / 100))) (k RDefault) && negb (sleb (k RDefault) (k (RRange (n / 100))))
  && sleb (k (RCode n)) (k RDefault) && negb (sleb (k RDefault) (k (RCode n))).

Lemma order_sweep : forallb order_ok codes = true.
Proof. vm_compute. reflexivity. Qed.

Lemma in_codes n : 100 <= n < 600 -> In n codes.
Proof. intros H. unfold codes. apply in_seq. lia. Qed.

Theorem key_order n :
  100 <= n < 600 -> order_ok n = true.
Proof.
  intros H. pose proof order_sweep as S. rewrite forallb_forall in S. apply S. apply in_codes. exact H.
Qed.

(** The comparison of two keys with a common prefix is the comparison of the suffixes. *)
Lemma compare_prefix p a b : String.compare (p ++ a) (p ++ b) = String.compare a b.
Proof.
  induction p as [|c p IH]; simpl; [reflexivity|].
  unfold Ascii.compare. rewrite N.compare_refl. exact IH.
Qed.

Lemma sleb_prefix p a b : sleb (p ++ a) (p ++ b) = sleb a b.
Proof. unfold sleb. rewrite compare_prefix. reflexivity. Qed.

(** Same kind, same status: exact beats range beats default, whatever the kind's key. *)
Theorem precedence_same_kind k n fa fb fc :
  100 <= n < 600 ->
  let exact := {| c_kind := k; c_resp := RCode n; c_field := fa |} in
  let range := {| c_kind := k; c_resp := RRange (n / 100); c_field := fb |} in
  let dflt := {| c_kind := k; c_resp := RDefault; c_field := fc |} in
  better exact range = exact /\ better range exact = exact /\
  better range dflt = range /\ better dflt range = range /\
  better exact dflt = exact /\ better dflt exact = exact.
Proof.
  intros H exact range dflt. pose proof (key_order n H) as K. unfold order_ok in K.
  repeat (apply andb_true_iff in K; destruct K as [K ?]).
  unfold better, clause_key, exact, range, dflt. cbn [c_kind c_resp].
  assert (P : forall a b, sleb ("9." ++ kind_key k ++ "." ++ rname_string a) ("9." ++ kind_key k ++ "." ++ rname_string b)
                    = sleb ("9.json." ++ rname_string a) ("9.json." ++ rname_string b)).
  { intros a b. change ("9." ++ kind_key k ++ "." ++ rname_string a) with ("9." ++ (kind_key k ++ "." ++ rname_string a)).
    change ("9." ++ kind_key k ++ "." ++ rname_string b) with ("9." ++ (kind_key k ++ "." ++ rname_string b)).
    rewrite (sleb_prefix "9."). rewrite (sleb_prefix (kind_key k)).
    change ("9.json." ++ rname_string a) with ("9.json" ++ ("." ++ rname_string a)).
    change ("9.json." ++ rname_string b) with ("9.json" ++ ("." ++ rname_string b)).
    rewrite (sleb_prefix "9.json"). reflexivity. }
  rewrite !P.
  repeat match goal with H : negb _ = true |- _ => apply negb_true_iff in H end.
  repeat match goal with H : sleb _ _ = _ |- _ => rewrite H end.
  repeat split; reflexivity.
Qed.

(** * pick returns the matching clause with the least key *)
Lemma fold_better_in : forall r c, In (fold_left better r c) (c :: r).
Proof.
  induction r as [|d r IH]; intros c; cbn [fold_left]; [left; reflexivity|].
  destruct (IH (better c d)) as [H|H].
  - unfold better at 1 in H. destruct (sleb (clause_key c) (clause_key d)); [left; exact H|right; left; exact H].
  - right. right. exact H.
Qed.

Theorem parse_only_matching status ct cs c :
  pick status ct cs = Some c -> clause_matches status ct c = true /\ In c cs.
Proof.
  unfold pick. destruct (filter (clause_matches status ct) cs) as [|x r] eqn:E; simpl; [discriminate|].
  intros H. inversion H; subst. pose proof (fold_better_in r x) as Hin. rewrite <- E in Hin.
  apply filter_In in Hin. tauto.
Qed.

Lemma pick_none status ct cs :
  (forall c, In c cs -> clause_matches status ct c = false) -> pick status ct cs = None.
Proof.
  intros H. unfold pick.
  assert (E : filter (clause_matches status ct) cs = []).
  { induction cs as [|d cs IH]; simpl; [reflexivity|].
    rewrite (H d (or_introl eq_refl)). apply IH. intros c Hc. apply H. right. exact Hc. }
  rewrite E. reflexivity.
Qed.

Lemma fold_better_min : forall r c m,
  In m (c :: r) ->
  (forall d, In d (c :: r) -> sleb (clause_key m) (clause_key d) = true) ->
  (forall d, In d (c :: r) -> sleb (clause_key d) (clause_key m) = true -> d = m) ->
  fold_left better r c = m.
Proof.
  induction r as [|d r IH]; intros c m Hin Hle Huniq; cbn [fold_left].
  - destruct Hin as [H|[]]. exact H.
  - apply IH.
    + destruct Hin as [->|[->|Hin]].
      * left. unfold better. rewrite (Hle d (or_intror (or_introl eq_refl))). reflexivity.
      * left. unfold better. destruct (sleb (clause_key c) (clause_key m)) eqn:E; [|reflexivity].
        apply (Huniq c (or_introl eq_refl) E).
      * right. exact Hin.
    + intros x [Hx|Hx]; apply Hle.
      * unfold better in Hx. destruct (sleb _ _); [left; exact Hx|right; left; exact Hx].
      * right. right. exact Hx.
    + intros x [Hx|Hx]; apply Huniq.
      * unfold better in Hx. destruct (sleb _ _); [left; exact Hx|right; left; exact Hx].
      * right. right. exact Hx.
Qed.

(** The matching clause whose key is least among the matching ones is the one that fires. *)
Theorem pick_least status ct cs m :
  In m cs -> clause_matches status ct m = true ->
  (forall d, In d cs -> clause_matches status ct d = true -> sleb (clause_key m) (clause_key d) = true) ->
  (forall d, In d cs -> clause_matches status ct d = true -> sleb (clause_key d) (clause_key m) = true -> d = m) ->
  pick status ct cs = Some m.
Proof.
  intros Hin Hm Hle Huniq. unfold pick.
  assert (Hf : In m (filter (clause_matches status ct) cs)) by (apply filter_In; auto).
  destruct (filter (clause_matches status ct) cs) as [|x r] eqn:E; [contradiction|].
  simpl. f_equal. apply fold_better_min; [exact Hf| |].
  - intros d Hd. rewrite <- E in Hd. apply filter_In in Hd. apply Hle; tauto.
  - intros d Hd. rewrite <- E in Hd. apply filter_In in Hd. apply Huniq; tauto.
Qed.

(** A reply matching no declared (response, media type) fills no typed field. *)
Theorem undeclared_fills_nothing responses status ct :
  (forall c, In c (clause_map (flat_map (fun r => clauses_of (fst r) (snd r)) responses)) ->
             clause_matches status ct c = false) ->
  parse responses status ct = None.
Proof. intros H. unfold parse. rewrite pick_none by exact H. reflexivity. Qed.

(** * The order between kinds is NOT by specificity: the statement fails on the faithful model *)

(** 200: {application/json, text/x-json}, default: {application/json}: a 200 text/x-json reply
    lands in JSONDefault. *)
Theorem precedence_refuted_1 :
  parse [ (RCode 200, [(MJson "application/json", "JSON200"); (MJson "text/x-json", "TextXJSON200")]);
          (RDefault, [(MJson "application/json", "JSONDefault")]) ] 200 "text/x-json"
  = Some "JSONDefault".
Proof. vm_compute. reflexivity. Qed.

(** 200: {application/json}, default: {application/json, application/problem+json}: every 200
    application/json reply lands in JSONDefault. *)
Theorem precedence_refuted_2 :
  parse [ (RCode 200, [(MJson "application/json", "JSON200")]);
          (RDefault, [(MJson "application/json", "JSONDefault"); (MJson "application/problem+json", "ApplicationProblemJSONDefault")]) ]
        200 "application/json"
  = Some "JSONDefault".
Proof. vm_compute. reflexivity. Qed.


(** * A range clause (1XX ... 5XX) fires exactly for the hundred statuses of its range, for EVERY status *)
From Coq Require Import Lia.
Theorem range_clause_bounds : forall d status,
  status_matches (RRange d) status = true <-> (d * 100 <= status /\ status < d * 100 + 100).
Proof.
  intros d status. unfold status_matches. rewrite Nat.eqb_eq. split.
  - intro H. subst d. split.
    + rewrite Nat.mul_comm. apply Nat.mul_div_le. discriminate.
    + pose proof (Nat.div_mod status 100 ltac:(discriminate)) as E. pose proof (Nat.mod_upper_bound status 100 ltac:(discriminate)). lia.
  - intros [H1 H2]. symmetry. apply (Nat.div_unique status 100 d (status - d * 100)); lia.
Qed.

(** the clause spelled as bounds with the upper bound one short misses the last status of the range *)
Definition range_clause_off_by_one (d status : nat) : bool := Nat.leb (d * 100) status && Nat.ltb status (d * 100 + 99).
Theorem range_clause_off_by_one_refuted :
  status_matches (RRange 4) 499 = true /\ range_clause_off_by_one 4 499 = false
  /\ forall d status, status <> d * 100 + 99 -> range_clause_off_by_one d status = status_matches (RRange d) status.
Proof.
  split; [reflexivity|]. split; [reflexivity|]. intros d status Hne.
  destruct (status_matches (RRange d) status) eqn:E.
  - apply range_clause_bounds in E. unfold range_clause_off_by_one. apply andb_true_iff. split; [apply Nat.leb_le|apply Nat.ltb_lt]; lia.
  - unfold range_clause_off_by_one. destruct (Nat.leb (d * 100) status) eqn:E1; [|reflexivity].
    destruct (Nat.ltb status (d * 100 + 99)) eqn:E2; [|reflexivity]. exfalso.
    apply Nat.leb_le in E1. apply Nat.ltb_lt in E2.
    assert (X : status_matches (RRange d) status = true) by (apply range_clause_bounds; lia). congruence.
Qed.
