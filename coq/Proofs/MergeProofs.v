From Coq Require Import List String Bool Permutation.
From V Require Import Model.Merge.
Import ListNotations.
Local Open Scope string_scope.
Local Open Scope list_scope.

(** * put / merge_props: the key set is the union *)
Lemma put_keys k v m x : In x (map fst (put k v m)) <-> x = k \/ In x (map fst m).
Proof.
  induction m as [|[k' v'] m IH]; simpl.
  - split; [intros [H|[]]; left; symmetry; exact H|intros [H|[]]; left; symmetry; exact H].
  - destruct (String.eqb k' k) eqn:E; simpl.
    + apply String.eqb_eq in E. subst. split.
      * intros [H|H]; [left; symmetry; exact H|right; right; exact H].
      * intros [H|[H|H]]; [left; symmetry; exact H|left; exact H|right; exact H].
    + rewrite IH. split.
      * intros [H|[H|H]]; [right; left; exact H|left; exact H|right; right; exact H].
      * intros [H|[H|H]]; [right; left; exact H|left; exact H|right; right; exact H].
Qed.

Lemma fold_put_keys : forall l m x,
  In x (map fst (fold_left (fun m kv => put (fst kv) (snd kv) m) l m)) <-> In x (map fst l) \/ In x (map fst m).
Proof.
  induction l as [|[k v] l IH]; intros m x; simpl.
  - split; [auto|intros [[]|H]; exact H].
  - rewrite IH. rewrite put_keys. split; intros H.
    + destruct H as [H|[H|H]]; auto.
    + destruct H as [[H|H]|H]; auto.
Qed.

Theorem merge_props_keys a b x :
  In x (map fst (merge_props a b)) <-> In x (map fst a) \/ In x (map fst b).
Proof.
  unfold merge_props. rewrite fold_put_keys, fold_put_keys. simpl. tauto.
Qed.

(** * One merge step *)
Theorem merge2_props a b r x : merge2 a b = Some r -> (In x (keys r) <-> In x (keys a) \/ In x (keys b)).
Proof.
  unfold merge2. destruct (types_conflict _ _); [discriminate|].
  destruct (negb (String.eqb _ _)); [discriminate|]. destruct (negb (Bool.eqb _ _)); [discriminate|].
  destruct (merge_addl _ _); [|discriminate]. intros H. inversion H; subst. unfold keys. simpl.
  apply merge_props_keys.
Qed.

Theorem merge2_required a b r x : merge2 a b = Some r -> (In x (l_required r) <-> In x (l_required a) \/ In x (l_required b)).
Proof.
  unfold merge2. destruct (types_conflict _ _); [discriminate|].
  destruct (negb (String.eqb _ _)); [discriminate|]. destruct (negb (Bool.eqb _ _)); [discriminate|].
  destruct (merge_addl _ _); [|discriminate]. intros H. inversion H; subst. simpl. apply in_app_iff.
Qed.

(** Members that disagree on type or on format are rejected, never resolved silently. *)
Theorem conflict_rejected a b :
  (exists x y, l_type a = Some x /\ l_type b = Some y /\ x <> y) \/ l_format a <> l_format b ->
  merge2 a b = None.
Proof.
  intros [[x [y [Ha [Hb Hne]]]]|Hf]; unfold merge2.
  - rewrite Ha, Hb. simpl. destruct (String.eqb x y) eqn:E; [apply String.eqb_eq in E; contradiction|reflexivity].
  - destruct (types_conflict _ _); [reflexivity|].
    destruct (String.eqb (l_format a) (l_format b)) eqn:E; [apply String.eqb_eq in E; contradiction|reflexivity].
Qed.

(** additionalProperties: forbidden if some member forbids them; otherwise kept with the
    declared value type; two different value types are rejected. *)
Theorem additional_rule a b :
  match l_addl a, l_addl b with
  | AFalse, _ | _, AFalse => merge_addl (l_addl a) (l_addl b) = Some AFalse
  | ASchema _, ASchema _ => merge_addl (l_addl a) (l_addl b) = None
  | ASchema x, _ => merge_addl (l_addl a) (l_addl b) = Some (ASchema x)
  | _, ASchema y => merge_addl (l_addl a) (l_addl b) = Some (ASchema y)
  | AAbsent, AAbsent => merge_addl (l_addl a) (l_addl b) = Some AAbsent
  | _, _ => merge_addl (l_addl a) (l_addl b) = Some ATrue
  end.
Proof. destruct (l_addl a), (l_addl b); reflexivity. Qed.

Lemma merge_addl_comm a b : merge_addl a b = merge_addl b a \/ (exists x y, a = ASchema x /\ b = ASchema y).
Proof. destruct a, b; simpl; auto. Qed.

(** * The whole list: properties and required are the unions over all members *)
Lemma merge_from_props : forall rest acc r x,
  merge_from acc rest = Some r ->
  (In x (keys r) <-> In x (keys acc) \/ exists m, In m rest /\ In x (keys m)).
Proof.
  induction rest as [|m rest IH]; intros acc r x H; simpl in H.
  - inversion H; subst. split; [auto|intros [H0|[m [[] _]]]; exact H0].
  - destruct (merge2 acc m) as [y|] eqn:E; [|discriminate].
    rewrite (IH y r x H). rewrite (merge2_props acc m y x E). split.
    + intros [[H0|H0]|[m' [Hm Hx]]]; [left; exact H0|right; exists m; split; [left; reflexivity|exact H0]|right; exists m'; split; [right; exact Hm|exact Hx]].
    + intros [H0|[m' [[->|Hm] Hx]]]; [left; left; exact H0|left; right; exact Hx|right; exists m'; auto].
Qed.

Lemma merge_from_required : forall rest acc r x,
  merge_from acc rest = Some r ->
  (In x (l_required r) <-> In x (l_required acc) \/ exists m, In m rest /\ In x (l_required m)).
Proof.
  induction rest as [|m rest IH]; intros acc r x H; simpl in H.
  - inversion H; subst. split; [auto|intros [H0|[m [[] _]]]; exact H0].
  - destruct (merge2 acc m) as [y|] eqn:E; [|discriminate].
    rewrite (IH y r x H). rewrite (merge2_required acc m y x E). split.
    + intros [[H0|H0]|[m' [Hm Hx]]]; [left; exact H0|right; exists m; split; [left; reflexivity|exact H0]|right; exists m'; split; [right; exact Hm|exact Hx]].
    + intros [H0|[m' [[->|Hm] Hx]]]; [left; left; exact H0|left; right; exact Hx|right; exists m'; auto].
Qed.

(** The merged type has exactly the union of the members' properties ... *)
Theorem props_union ms r x : merge_all ms = Some r -> (In x (keys r) <-> exists m, In m ms /\ In x (keys m)).
Proof.
  destruct ms as [|m ms]; simpl; [discriminate|]. intros H. rewrite (merge_from_props ms m r x H). split.
  - intros [H0|[m' [Hm Hx]]]; [exists m; auto|exists m'; auto].
  - intros [m' [[->|Hm] Hx]]; [left; exact Hx|right; exists m'; auto].
Qed.

(** ... a property is required iff some member requires it ... *)
Theorem required_iff ms r x : merge_all ms = Some r -> (In x (l_required r) <-> exists m, In m ms /\ In x (l_required m)).
Proof.
  destruct ms as [|m ms]; simpl; [discriminate|]. intros H. rewrite (merge_from_required ms m r x H). split.
  - intros [H0|[m' [Hm Hx]]]; [exists m; auto|exists m'; auto].
  - intros [m' [[->|Hm] Hx]]; [left; exact Hx|right; exists m'; auto].
Qed.

(** ... hence, for two orders of the same members that both merge, the property set and the
    required set do not depend on the order. *)
Theorem order_independent_sets ms ms' r r' :
  Permutation ms ms' -> merge_all ms = Some r -> merge_all ms' = Some r' ->
  (forall x, In x (keys r) <-> In x (keys r')) /\ (forall x, In x (l_required r) <-> In x (l_required r')).
Proof.
  intros Hp H H'. split; intros x.
  - rewrite (props_union ms r x H), (props_union ms' r' x H'). split; intros [m [Hm Hx]]; exists m; split; auto.
    + eapply Permutation_in; eauto.
    + eapply Permutation_in; [apply Permutation_sym; eauto|auto].
  - rewrite (required_iff ms r x H), (required_iff ms' r' x H'). split; intros [m [Hm Hx]]; exists m; split; auto.
    + eapply Permutation_in; eauto.
    + eapply Permutation_in; [apply Permutation_sym; eauto|auto].
Qed.

(** The type, however, is taken from the FIRST member only: order matters when only a later
    member is typed (refutes full order independence). *)
Definition mk (t : option string) : leaf :=
  {| l_type := t; l_format := ""; l_required := []; l_props := []; l_addl := AAbsent; l_nullable := false |}.

Theorem type_order_refuted :
  option_map l_type (merge_all [mk None; mk (Some "string")]) = Some None /\
  option_map l_type (merge_all [mk (Some "string"); mk None]) = Some (Some "string").
Proof. vm_compute. split; reflexivity. Qed.

(** With the guard "every member is typed alike", the type is order independent too. *)
Lemma merge_from_type : forall rest acc r, merge_from acc rest = Some r -> l_type r = l_type acc.
Proof.
  induction rest as [|m rest IH]; intros acc r H; simpl in H; [inversion H; reflexivity|].
  destruct (merge2 acc m) as [y|] eqn:E; [|discriminate]. rewrite (IH y r H).
  unfold merge2 in E. destruct (types_conflict _ _); [discriminate|].
  destruct (negb (String.eqb _ _)); [discriminate|]. destruct (negb (Bool.eqb _ _)); [discriminate|].
  destruct (merge_addl _ _); [|discriminate]. inversion E; subst. reflexivity.
Qed.

Theorem type_order_independent ms ms' r r' t :
  Permutation ms ms' -> (forall m, In m ms -> l_type m = t) ->
  merge_all ms = Some r -> merge_all ms' = Some r' -> l_type r = l_type r'.
Proof.
  intros Hp Ht H H'. destruct ms as [|m ms]; [discriminate|]. destruct ms' as [|m' ms']; [discriminate|].
  assert (Hm' : In m' (m :: ms)) by (eapply Permutation_in; [apply Permutation_sym; exact Hp|left; reflexivity]).
  cbn [merge_all] in H, H'. rewrite (merge_from_type _ _ _ H), (merge_from_type _ _ _ H').
  rewrite (Ht m (or_introl eq_refl)). symmetry. apply Ht. exact Hm'.
Qed.

(** A schema that has both an allOf and properties of its own loses its own properties. *)
Theorem own_properties_lost_refuted :
  let base := {| l_type := Some "object"; l_format := ""; l_required := []; l_props := [("id", "s")]; l_addl := AAbsent; l_nullable := false |} in
  let own := {| l_type := Some "object"; l_format := ""; l_required := []; l_props := [("own", "s")]; l_addl := AAbsent; l_nullable := false |} in
  option_map keys (flat (Node own [Node base []])) = Some ["id"].
Proof. vm_compute. reflexivity. Qed.

(** * The legacy merge and additional properties *)
Lemma v1_fold_rejected ms : fold_left v1_step ms None = None.
Proof. induction ms as [|m ms IH]; simpl; auto. Qed.

Lemma v1_fold_on : forall ms t,
  fold_left v1_step ms (Some (Some t)) =
  if forallb (fun m => match m with None => true | Some t' => String.eqb t' t end) ms then Some (Some t) else None.
Proof.
  induction ms as [|m ms IH]; intro t; [reflexivity|].
  cbn [fold_left forallb]. destruct m as [t'|]; cbn [v1_step].
  - destruct (String.eqb t' t); cbn [andb]; [apply IH|apply v1_fold_rejected].
  - cbn [andb]. apply IH.
Qed.

Lemma v1_off_iff ms : v1_addl ms = Some None <-> (forall m, In m ms -> m = None).
Proof.
  unfold v1_addl. induction ms as [|m ms IH]; cbn [fold_left].
  - split; [intros _ m []|reflexivity].
  - destruct m as [t|]; cbn [v1_step].
    + rewrite v1_fold_on. split.
      * destruct (forallb _ ms); discriminate.
      * intro H. specialize (H (Some t) (or_introl eq_refl)). discriminate.
    + rewrite IH. split; intros H m Hm.
      * destruct Hm as [<-|Hm]; auto.
      * apply H. right. exact Hm.
Qed.

Lemma v1_on_iff ms t :
  v1_addl ms = Some (Some t) <-> (In (Some t) ms /\ forall t', In (Some t') ms -> t' = t).
Proof.
  unfold v1_addl. induction ms as [|m ms IH]; cbn [fold_left].
  - split; [discriminate|intros [[] _]].
  - destruct m as [t0|]; cbn [v1_step].
    + rewrite v1_fold_on. destruct (forallb _ ms) eqn:E.
      * rewrite forallb_forall in E. split.
        -- intro H. inversion H. subst t0. split; [left; reflexivity|].
           intros t' [H'|H']; [inversion H'; reflexivity|]. specialize (E _ H'). apply String.eqb_eq in E. exact E.
        -- intros [_ Hall]. f_equal. f_equal. apply Hall. left. reflexivity.
      * split; [discriminate|]. intros [_ Hall]. exfalso.
        assert (Hc : forallb (fun m => match m with None => true | Some t' => String.eqb t' t0 end) ms = true).
        { apply forallb_forall. intros [t'|] Hm; [|reflexivity]. apply String.eqb_eq.
          rewrite (Hall t' (or_intror Hm)). symmetry. apply Hall. left. reflexivity. }
        rewrite Hc in E. discriminate.
    + rewrite IH. split.
      * intros [Hin Hall]. split; [right; exact Hin|]. intros t' [H'|H']; [discriminate|auto].
      * intros [[H'|Hin] Hall]; [discriminate|]. split; [exact Hin|]. intros t' H'. apply Hall. right. exact H'.
Qed.

(** the aggregate has additional properties exactly when some member has them, with that member's type *)
Theorem v1_addl_kept ms t : In (Some t) ms -> v1_addl ms = Some (Some t) \/ v1_addl ms = None.
Proof.
  intro Hin. destruct (v1_addl ms) as [[t'|]|] eqn:E; [left|exfalso|right; reflexivity].
  - apply v1_on_iff in E. destruct E as [_ Hall]. rewrite (Hall t Hin). reflexivity.
  - apply (proj1 (v1_off_iff ms)) with (m := Some t) in E; [discriminate|exact Hin].
Qed.

(** the order of the members is irrelevant *)
Theorem v1_addl_perm ms ms' : Permutation ms ms' -> v1_addl ms = v1_addl ms'.
Proof.
  intro P.
  assert (Hin : forall m, In m ms <-> In m ms').
  { intro m. split; apply Permutation_in; [exact P|apply Permutation_sym; exact P]. }
  destruct (v1_addl ms) as [[t|]|] eqn:E.
  - symmetry. apply v1_on_iff. apply v1_on_iff in E. destruct E as [H1 H2]. split; [apply Hin; exact H1|].
    intros t' H'. apply H2. apply Hin. exact H'.
  - symmetry. apply v1_off_iff. intros m Hm. apply (proj1 (v1_off_iff ms) E). apply Hin. exact Hm.
  - destruct (v1_addl ms') as [[t|]|] eqn:E'; [exfalso|exfalso|reflexivity].
    + apply v1_on_iff in E'. destruct E' as [H1 H2].
      assert (X : v1_addl ms = Some (Some t)).
      { apply v1_on_iff. split; [apply Hin; exact H1|]. intros t' H'. apply H2. apply Hin. exact H'. }
      rewrite X in E. discriminate.
    + assert (X : v1_addl ms = Some None).
      { apply v1_off_iff. intros m Hm. apply (proj1 (v1_off_iff ms') E'). apply Hin. exact Hm. }
      rewrite X in E. discriminate.
Qed.

(** the flattened test forgets the additional properties of an earlier member and depends on the order *)
Theorem v1_flat_refuted :
  v1_addl [Some "int"; None] = Some (Some "int") /\ v1_addl_flat [Some "int"; None] = Some None
  /\ v1_addl_flat [None; Some "int"] = Some (Some "int")
  /\ v1_addl [Some "int"; None; Some "string"] = None /\ v1_addl_flat [Some "int"; None; Some "string"] = Some (Some "string").
Proof. vm_compute. repeat split; reflexivity. Qed.

(** * the alternatives (oneOf / anyOf) of the members *)
Lemma alts_fold_app : forall (ms : list (list string)) acc,
  fold_left (fun a m => (a ++ m)%list) ms acc = (acc ++ List.concat ms)%list.
Proof.
  induction ms as [|m ms IH]; intro acc; cbn [fold_left List.concat]; [rewrite app_nil_r; reflexivity|].
  rewrite IH. rewrite app_assoc. reflexivity.
Qed.

Theorem alts_merge_is_concat ms : alts_merge ms = List.concat ms.
Proof. unfold alts_merge. rewrite alts_fold_app. reflexivity. Qed.

(** every alternative of every member is an alternative of the merged type, wherever the member stands *)
Theorem alts_merge_keeps_all ms m x : In m ms -> In x m -> In x (alts_merge ms).
Proof. intros Hm Hx. rewrite alts_merge_is_concat. apply in_concat. exists m. split; assumption. Qed.

Theorem alts_merge_invents_nothing ms x : In x (alts_merge ms) -> exists m, In m ms /\ In x m.
Proof. rewrite alts_merge_is_concat. intro H. apply in_concat in H. exact H. Qed.

Theorem alts_merge_dropping_refuted :
  alts_merge [["Cat"; "Dog"]; []] = ["Cat"; "Dog"] /\ alts_merge_dropping [["Cat"; "Dog"]; []] = []
  /\ alts_merge_dropping [[]; ["Cat"; "Dog"]] = ["Cat"; "Dog"].
Proof. vm_compute. repeat split; reflexivity. Qed.
