From Coq Require Import List Arith Lia.
From V Require Import Model.Inline.
Import ListNotations.

Section ChunkProofs.
Context {A : Type}.
Implicit Types s : list A.

Lemma chunk_fuel_enough : forall f w s, 0 < w -> length s < f ->
  exists cs, chunk_fuel f w s = Some cs.
Proof.
  induction f as [|f IH]; intros w s Hw Hlt; [lia|].
  cbn [chunk_fuel]. destruct (Nat.ltb w (length s)) eqn:E.
  - apply Nat.ltb_lt in E.
    destruct (IH w (skipn w s) Hw) as [cs Hcs]; [rewrite skipn_length; lia|].
    rewrite Hcs. eexists; reflexivity.
  - eexists; reflexivity.
Qed.

Theorem chunk_total w s : 0 < w -> exists cs, chunk w s = Some cs.
Proof. intros Hw. apply chunk_fuel_enough; [exact Hw|lia]. Qed.

Lemma chunk_fuel_concat : forall f w s cs, chunk_fuel f w s = Some cs -> concat cs = s.
Proof.
  induction f as [|f IH]; intros w s cs H; [discriminate|].
  cbn [chunk_fuel] in H. destruct (Nat.ltb w (length s)) eqn:E.
  - destruct (chunk_fuel f w (skipn w s)) as [cs'|] eqn:E'; [|discriminate].
    inversion H; subst. simpl. rewrite (IH _ _ _ E'). apply firstn_skipn.
  - inversion H; subst. destruct (Nat.ltb 0 (length s)) eqn:E0; simpl.
    + apply app_nil_r.
    + apply Nat.ltb_ge in E0. destruct s; [reflexivity|simpl in E0; lia].
Qed.

(** Nothing is lost, duplicated or reordered. *)
Theorem chunk_concat w s cs : chunk w s = Some cs -> concat cs = s.
Proof. apply chunk_fuel_concat. Qed.

Lemma chunk_fuel_widths : forall f w s cs, 0 < w -> chunk_fuel f w s = Some cs ->
  Forall (fun c => 0 < length c /\ length c <= w) cs.
Proof.
  induction f as [|f IH]; intros w s cs Hw H; [discriminate|].
  cbn [chunk_fuel] in H. destruct (Nat.ltb w (length s)) eqn:E.
  - destruct (chunk_fuel f w (skipn w s)) as [cs'|] eqn:E'; [|discriminate].
    inversion H; subst. apply Nat.ltb_lt in E. constructor.
    + rewrite firstn_length. lia.
    + apply (IH _ _ _ Hw E').
  - inversion H; subst. apply Nat.ltb_ge in E.
    destruct (Nat.ltb 0 (length s)) eqn:E0; [|constructor].
    apply Nat.ltb_lt in E0. constructor; [lia|constructor].
Qed.

(** Every line is non-empty and at most [w] wide. *)
Theorem chunk_widths w s cs : 0 < w -> chunk w s = Some cs ->
  Forall (fun c => 0 < length c /\ length c <= w) cs.
Proof. intros Hw. apply chunk_fuel_widths. exact Hw. Qed.

Lemma chunk_fuel_full : forall f w s cs, chunk_fuel f w s = Some cs ->
  forall c, In c (removelast cs) -> length c = w.
Proof.
  induction f as [|f IH]; intros w s cs H c Hc; [discriminate|].
  cbn [chunk_fuel] in H. destruct (Nat.ltb w (length s)) eqn:E.
  - destruct (chunk_fuel f w (skipn w s)) as [cs'|] eqn:E'; [|discriminate].
    inversion H; subst. apply Nat.ltb_lt in E.
    destruct cs' as [|c' cs''].
    + simpl in Hc. contradiction.
    + change (removelast (firstn w s :: c' :: cs'')) with (firstn w s :: removelast (c' :: cs'')) in Hc.
      destruct Hc as [Hc|Hc].
      * subst. rewrite firstn_length. lia.
      * apply (IH _ _ _ E' c Hc).
  - inversion H; subst. destruct (Nat.ltb 0 (length s)); simpl in Hc; contradiction.
Qed.

(** All lines but the last are exactly [w] wide. *)
Theorem chunk_full w s cs : chunk w s = Some cs ->
  forall c, In c (removelast cs) -> length c = w.
Proof. apply chunk_fuel_full. Qed.

(** The embedded text is the encoding of the prepared document: for any encoder with a
    left inverse (JSON marshal + gzip + base64 in the code; hypotheses, not modelled). *)
Section Embed.
Context {D : Type} (encode : D -> list A) (decode : list A -> option D).
Hypothesis decode_encode : forall d, decode (encode d) = Some d.

Theorem embedded_decodes d cs : chunk 80 (encode d) = Some cs -> decode (concat cs) = Some d.
Proof. intros H. rewrite (chunk_concat _ _ _ H). apply decode_encode. Qed.
End Embed.

End ChunkProofs.
