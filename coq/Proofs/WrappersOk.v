(** Obligations tying the seven server wrapper templates of /repo (Gen/Wrappers.v, regenerated from the template text on
    every run) to the criteria of Model/Tmpl.v.  With Proofs/TmplProofs.v they give, for EVERY operation and parameter
    list: the wrapper leaves after each call of the error path, calls the user's handler exactly once when nothing was
    reported, and stores the security scopes before it enters the middleware chain or calls the handler. *)
From Coq Require Import List String Bool.
From V Require Import Model.Tmpl Gen.Wrappers.
Import ListNotations.

Definition is_report (g : gtok) : bool := match g with GReport => true | _ => false end.

Theorem wrappers_all_seven_translated :
  Nat.eqb (List.length wrappers) 7 = true
  /\ forallb (fun p => may is_report (snd p) && may is_handler (snd p)) wrappers = true.
Proof. vm_compute. split; reflexivity. Qed.

Theorem wrappers_stop_after_report : forallb (fun p => segments_stop (snd p)) wrappers = true.
Proof. vm_compute. reflexivity. Qed.

Theorem wrappers_call_the_handler_once :
  forallb (fun p => match static_handler_calls (snd p) with Some 1 => true | _ => false end) wrappers = true.
Proof. vm_compute. reflexivity. Qed.

Theorem wrappers_publish_scopes_first : forallb (fun p => ordered (snd p)) wrappers = true.
Proof. vm_compute. reflexivity. Qed.

(** With the soundness of the criteria: statements about every text a wrapper template renders. *)
From V Require Import Proofs.TmplProofs.

Theorem every_wrapper_leaves_after_reporting : forall name t e,
  In (name, t) wrappers -> stops_after_report (render t e) = true.
Proof.
  intros name t e Hin. apply segments_stop_sound.
  pose proof wrappers_stop_after_report as H. rewrite forallb_forall in H. exact (H _ Hin).
Qed.

Theorem every_wrapper_calls_the_handler_once : forall name t e,
  In (name, t) wrappers -> handler_calls (render t e) = 1.
Proof.
  intros name t e Hin. pose proof wrappers_call_the_handler_once as H. rewrite forallb_forall in H.
  specialize (H _ Hin). cbn [snd] in H. destruct (static_handler_calls t) as [[|[|n]]|] eqn:E; try discriminate.
  eapply static_handler_calls_sound. exact E.
Qed.

Theorem every_wrapper_publishes_scopes_first : forall name t e,
  In (name, t) wrappers -> published_first false (render t e) = true.
Proof.
  intros name t e Hin. apply ordered_sound.
  pose proof wrappers_publish_scopes_first as H. rewrite forallb_forall in H. exact (H _ Hin).
Qed.

(** * The strict wrapper templates (strict-http, strict-gin, strict-echo, strict-fiber, strict-iris; strict alphabet) *)
Definition is_visit (g : gtok) : bool := match g with GVisit => true | _ => false end.
Definition is_invoke (g : gtok) : bool := match g with GInvoke => true | _ => false end.

Theorem strict_wrappers_all_five_translated :
  Nat.eqb (List.length strict_wrappers) 5 = true
  /\ forallb (fun p => may is_visit (snd p) && may is_invoke (snd p)) strict_wrappers = true.
Proof. vm_compute. split; reflexivity. Qed.

Theorem strict_wrappers_guard_their_visits : forallb (fun p => strict_segments_ok (snd p)) strict_wrappers = true.
Proof. vm_compute. reflexivity. Qed.

Theorem every_strict_wrapper_guards_its_visits : forall name t e,
  In (name, t) strict_wrappers -> visits_guarded (render t e) = true.
Proof.
  intros name t e Hin. apply strict_segments_sound.
  pose proof strict_wrappers_guard_their_visits as H. rewrite forallb_forall in H. exact (H _ Hin).
Qed.
