From Coq Require Import List String Bool.
From V Require Import Model.TypeMap.
Import ListNotations.
Local Open Scope string_scope.

Ltac crush a := destruct a as [rq nl ro wo sk om ig dr nt]; simpl in *.

(** A pointer exactly for members that are optional, nullable, read-only or write-only. *)
Theorem pointer_rule a : plain_options a ->
  field_wrap a = if doc_pointer a then Pointer else Plain.
Proof.
  crush a. unfold plain_options; simpl. intros [-> [-> [-> [-> ->]]]]. unfold field_wrap, doc_pointer. simpl.
  destruct rq, nl, ro, wo; reflexivity.
Qed.

(** omitempty exactly for non-nullable members that are optional, read-only or write-only. *)
Theorem omitempty_rule a : plain_options a -> field_omitempty a = doc_omitempty a.
Proof.
  crush a. unfold plain_options; simpl. intros [-> [-> [-> [-> ->]]]]. unfold field_omitempty, doc_omitempty, should_omit. simpl.
  destruct rq, nl, ro, wo; reflexivity.
Qed.

(** The JSON tag is the property name (plus ",omitempty" when the rule says so). *)
Theorem tag_rule a name : plain_options a ->
  field_json_tag a name = if doc_omitempty a then name ++ ",omitempty" else name.
Proof.
  intros H. unfold field_json_tag. destruct H as [H1 [H2 [H3 [H4 H5]]]]. rewrite H3. simpl.
  rewrite (omitempty_rule a (conj H1 (conj H2 (conj H3 (conj H4 H5))))). reflexivity.
Qed.

Definition set_skip (a : attrs) v := {| a_required := a_required a; a_nullable := a_nullable a; a_readonly := a_readonly a; a_writeonly := a_writeonly a;
  a_skip_pointer := v; a_omitempty_ext := a_omitempty_ext a; a_json_ignore := a_json_ignore a;
  o_disable_rro_pointer := o_disable_rro_pointer a; o_nullable_type := o_nullable_type a |}.
Definition set_omit (a : attrs) v := {| a_required := a_required a; a_nullable := a_nullable a; a_readonly := a_readonly a; a_writeonly := a_writeonly a;
  a_skip_pointer := a_skip_pointer a; a_omitempty_ext := v; a_json_ignore := a_json_ignore a;
  o_disable_rro_pointer := o_disable_rro_pointer a; o_nullable_type := o_nullable_type a |}.
Definition set_ignore (a : attrs) v := {| a_required := a_required a; a_nullable := a_nullable a; a_readonly := a_readonly a; a_writeonly := a_writeonly a;
  a_skip_pointer := a_skip_pointer a; a_omitempty_ext := a_omitempty_ext a; a_json_ignore := v;
  o_disable_rro_pointer := o_disable_rro_pointer a; o_nullable_type := o_nullable_type a |}.
Definition set_rro (a : attrs) v := {| a_required := a_required a; a_nullable := a_nullable a; a_readonly := a_readonly a; a_writeonly := a_writeonly a;
  a_skip_pointer := a_skip_pointer a; a_omitempty_ext := a_omitempty_ext a; a_json_ignore := a_json_ignore a;
  o_disable_rro_pointer := v; o_nullable_type := o_nullable_type a |}.
Definition set_nt (a : attrs) v := {| a_required := a_required a; a_nullable := a_nullable a; a_readonly := a_readonly a; a_writeonly := a_writeonly a;
  a_skip_pointer := a_skip_pointer a; a_omitempty_ext := a_omitempty_ext a; a_json_ignore := a_json_ignore a;
  o_disable_rro_pointer := o_disable_rro_pointer a; o_nullable_type := v |}.

(** * Each extension / option changes what it documents and nothing else *)

(** x-go-type-skip-optional-pointer: only the pointer; and it removes it. *)
Theorem frame_skip_pointer a v name :
  field_omitempty (set_skip a v) = field_omitempty a /\
  field_json_tag (set_skip a v) name = field_json_tag a name /\
  (o_nullable_type a && a_nullable a = false -> field_wrap (set_skip a (Some true)) = Plain).
Proof.
  crush a. unfold field_omitempty, field_json_tag, field_wrap, should_omit; simpl. repeat split.
  intros H. rewrite H. reflexivity.
Qed.

(** x-omitempty: only omitempty (hence only the tag); and it decides it. *)
Theorem frame_omitempty a v :
  field_wrap (set_omit a v) = field_wrap a /\
  (forall b, field_omitempty (set_omit a (Some b)) = b).
Proof. crush a. unfold field_wrap, field_omitempty; simpl. split; [reflexivity|intros b; reflexivity]. Qed.

(** x-go-json-ignore: only the json tag; true makes it "-". *)
Theorem frame_json_ignore a v name :
  field_wrap (set_ignore a v) = field_wrap a /\ field_omitempty (set_ignore a v) = field_omitempty a /\
  field_json_tag (set_ignore a (Some true)) name = "-".
Proof. crush a. unfold field_wrap, field_omitempty, field_json_tag; simpl. repeat split. Qed.

(** disable-required-readonly-as-pointer: only members that are required AND read-only change. *)
Theorem frame_disable_rro a v name :
  (a_required a && a_readonly a = false) ->
  field_wrap (set_rro a v) = field_wrap a /\ field_omitempty (set_rro a v) = field_omitempty a /\
  field_json_tag (set_rro a v) name = field_json_tag a name.
Proof.
  crush a. unfold field_wrap, field_omitempty, field_json_tag, should_omit; simpl. intros H.
  destruct rq, ro; simpl in *; try discriminate; destruct v, dr; repeat split; reflexivity.
Qed.

(** nullable-type: only nullable members change. *)
Theorem frame_nullable_type a v name :
  a_nullable a = false ->
  field_wrap (set_nt a v) = field_wrap a /\ field_omitempty (set_nt a v) = field_omitempty a /\
  field_json_tag (set_nt a v) name = field_json_tag a name.
Proof.
  crush a. unfold field_wrap, field_omitempty, field_json_tag, should_omit; simpl. intros ->.
  rewrite !andb_false_r. simpl. repeat split.
Qed.

(** * The implementation's table agrees with the documented one on every documented row *)
Theorem type_table :
  forallb (fun r => match go_type (fst (fst r)) (snd (fst r)) with
                    | Some g => String.eqb g (snd r) | None => false end) doc_table = true.
Proof. vm_compute. reflexivity. Qed.

Theorem type_table_row t f g : In (t, f, g) doc_table -> go_type t f = Some g.
Proof.
  intros H. pose proof type_table as T. rewrite forallb_forall in T. specialize (T (t, f, g) H). simpl in T.
  destruct (go_type t f) as [g'|]; [|discriminate]. apply String.eqb_eq in T. subst. reflexivity.
Qed.

(** * alias or defined type *)
Lemma alias_frame_disable_array : forall old d k,
  k <> KArray -> declared_as_alias old d k = declared_as_alias old false k.
Proof. intros old d k H. destruct k; try reflexivity. exfalso; apply H; reflexivity. Qed.

Lemma alias_disable_array_defines_arrays : forall old, declared_as_alias old true KArray = false.
Proof. intros old. unfold declared_as_alias. cbn. apply Bool.andb_false_r. Qed.

Lemma alias_old_aliasing_defines_everything : forall d k, declared_as_alias true d k = false.
Proof. reflexivity. Qed.

Lemma alias_default : forall k,
  declared_as_alias false false k = match k with KStruct | KEnum => false | _ => true end.
Proof. intros k. destruct k; reflexivity. Qed.

(** * Sized integer formats: the Go type of the table holds every value the format stands for. *)
From Coq Require Import ZArith Lia.
Theorem sized_formats_hold_their_range : forall f r v,
  In f sized_formats -> int_range f = Some r -> in_range r v = true -> decodes go_type f v = true.
Proof.
  intros f r v Hin Hr Hv. unfold sized_formats in Hin. simpl in Hin.
  repeat (destruct Hin as [<-|Hin]; [vm_compute in Hr; inversion Hr; subst r; exact Hv|]). destruct Hin.
Qed.

Theorem uint64_as_int_refuted :
  in_range (0, 18446744073709551615)%Z 9223372036854775808%Z = true
  /\ decodes go_type "uint64" 9223372036854775808%Z = true
  /\ decodes go_type_without_uint64 "uint64" 9223372036854775808%Z = false.
Proof. vm_compute. repeat split; reflexivity. Qed.
