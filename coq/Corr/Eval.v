(** Executable comparison functions used by the generated cases files: each returns
    the indices of the cases on which the model and the observed implementation differ. *)
From Coq Require Import List String Bool Arith.
From V Require Import Model.Prune Model.Filter Model.Inline.
Import ListNotations.

Fixpoint list_eqb {A} (eqb : A -> A -> bool) (a b : list A) : bool :=
  match a, b with
  | [], [] => true
  | x :: xs, y :: ys => eqb x y && list_eqb eqb xs ys
  | _, _ => false
  end.

Definition mismatches {A} (ok : A -> bool) (cases : list A) : list nat :=
  let fix go (i : nat) (l : list A) : list nat :=
    match l with
    | [] => []
    | c :: cs => if ok c then go (S i) cs else i :: go (S i) cs
    end in go 0 cases.

Definition ok_prune (c : doc * list string) : bool :=
  match prune (fst c) with
  | Some d' => list_eqb String.eqb (comp_keys d') (snd c)
  | None => false
  end.

Definition mismatches_prune := mismatches ok_prune.
