(** Executable comparison functions used by the generated cases files: each returns
    the indices of the cases on which the model and the observed implementation differ. *)
From Coq Require Import List String Bool Arith.
From V Require Import Model.Prune Model.Filter Model.Inline.
Import ListNotations.

Fixpoint list_eqb {A} (eqb : A -> A -> bool) (a b : list A) : bool :=
  match a, b with
  | [], [] => true
  | x :: xs, y :: ys => eqb x y && list_eqb eqb xs ys
  | _, _ => false
  end.

Definition mismatches {A} (ok : A -> bool) (cases : list A) : list nat :=
  let fix go (i : nat) (l : list A) : list nat :=
    match l with
    | [] => []
    | c :: cs => if ok c then go (S i) cs else i :: go (S i) cs
    end in go 0 cases.

Definition ok_prune (c : doc * list string) : bool :=
  match prune (fst c) with
  | Some d' => list_eqb String.eqb (comp_keys d') (snd c)
  | None => false
  end.

Definition mismatches_prune := mismatches ok_prune.

Definition pair_eqb (a b : string * string) : bool :=
  String.eqb (fst a) (fst b) && String.eqb (snd a) (snd b).

(** C16 / C19: observed = (path items, (path, method) of surviving operations, component keys). *)
Definition ok_prepare (c : filter_cfg * doc * (list string * list (string * string) * list string)) : bool :=
  let '(cfg, d, (paths, ops, comps)) := c in
  match prepare cfg d with
  | Some d' =>
      list_eqb String.eqb (map p_path (d_paths d')) paths
      && list_eqb pair_eqb (op_keys (d_paths d')) ops
      && list_eqb String.eqb (comp_keys d') comps
  | None => false
  end.

Definition mismatches_prepare := mismatches ok_prepare.

(** C19: chunking of the embedded text: observed = (line lengths, total length). *)
Definition ok_chunk (c : nat * list nat) : bool :=
  let '(total, lens) := c in
  match chunk 80 (repeat tt total) with
  | Some cs => list_eqb Nat.eqb (map (@List.length unit) cs) lens
  | None => false
  end.

Definition mismatches_chunk := mismatches ok_chunk.

(** C17: trajectory of the response-type suffix over one in-process history, under the class
    the scanner found for that variable. *)
From V Require Import Model.History Gen.Globals.

Definition class_of (v : string) : gclass :=
  match find (fun g => String.eqb (fst g) v) globals with
  | Some g => snd g
  | None => InitOnly
  end.

Definition ok_suffix (c : string * list suffix_call * list string) : bool :=
  let '(start, h, obs) := c in
  list_eqb String.eqb (suffix_trajectory (class_of "responseTypeSuffix") start h) obs.

Definition mismatches_suffix := mismatches ok_suffix.

(** C14: observed = trace of one request. *)
From V Require Import Model.Chain.

Definition ok_chain (c : flavour * bool * list mw * option (list mw) * list event) : bool :=
  let '(fw, ftl, ms, strict, obs) := c in
  list_eqb event_eqb (request_trace fw ftl ms strict) obs.

Definition mismatches_chain := mismatches ok_chain.

(** C03 *)
From V Require Import Model.Route.

Definition opt_eqb {A} (eqb : A -> A -> bool) (a b : option A) : bool :=
  match a, b with Some x, Some y => eqb x y | None, None => true | _, _ => false end.

(** translation: observed = the seven translated strings in the order of [all_flavours], and
    the ordered parameter names. *)
Definition all_flavours := [Echo; Chi; Gin; Gorilla; StdHTTP; Fiber; Iris].

Definition ok_translate (c : template * string * list string * list string) : bool :=
  let '(t, path, translated, names) := c in
  String.eqb (openapi_path t) path
  && list_eqb String.eqb (map (fun fw => translate fw t) all_flavours) translated
  && list_eqb String.eqb (vars t) names.

Definition mismatches_translate := mismatches ok_translate.

(** dispatch: observed = which operation ran with which positional path values (None = no
    handler ran). *)
Definition ok_dispatch (c : list string * list route * string * list string * option (string * list string)) : bool :=
  let '(base, rs, m, path, obs) := c in
  opt_eqb (fun a b => String.eqb (fst a) (fst b) && list_eqb String.eqb (snd a) (snd b))
          (dispatch base rs m path) obs.

Definition mismatches_dispatch := mismatches ok_dispatch.

(** SortParamsByPath: declared names in declaration order; observed = resulting order or error. *)
Definition ok_sort_params (c : template * list string * option (list string)) : bool :=
  let '(t, declared, obs) := c in
  opt_eqb (list_eqb String.eqb) (sort_params_by_path (fun x => x) t declared) obs.

Definition mismatches_sort_params := mismatches ok_sort_params.
