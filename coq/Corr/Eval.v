(** Executable comparison functions used by the generated cases files: each returns
    the indices of the cases on which the model and the observed implementation differ. *)
From Coq Require Import List String Bool Arith.
From V Require Import Model.Prune Model.Filter Model.Inline.
Import ListNotations.

Fixpoint list_eqb {A} (eqb : A -> A -> bool) (a b : list A) : bool :=
  match a, b with
  | [], [] => true
  | x :: xs, y :: ys => eqb x y && list_eqb eqb xs ys
  | _, _ => false
  end.

Definition mismatches {A} (ok : A -> bool) (cases : list A) : list nat :=
  let fix go (i : nat) (l : list A) : list nat :=
    match l with
    | [] => []
    | c :: cs => if ok c then go (S i) cs else i :: go (S i) cs
    end in go 0 cases.

Definition ok_prune (c : doc * list string) : bool :=
  match prune (fst c) with
  | Some d' => list_eqb String.eqb (comp_keys d') (snd c)
  | None => false
  end.

Definition mismatches_prune := mismatches ok_prune.

Definition pair_eqb (a b : string * string) : bool :=
  String.eqb (fst a) (fst b) && String.eqb (snd a) (snd b).

(** C16 / C19: observed = (path items, (path, method) of surviving operations, component keys). *)
Definition ok_prepare (c : filter_cfg * doc * (list string * list (string * string) * list string)) : bool :=
  let '(cfg, d, (paths, ops, comps)) := c in
  match prepare cfg d with
  | Some d' =>
      list_eqb String.eqb (map p_path (d_paths d')) paths
      && list_eqb pair_eqb (op_keys (d_paths d')) ops
      && list_eqb String.eqb (comp_keys d') comps
  | None => false
  end.

Definition mismatches_prepare := mismatches ok_prepare.

(** C19: chunking of the embedded text: observed = (line lengths, total length). *)
Definition ok_chunk (c : nat * list nat) : bool :=
  let '(total, lens) := c in
  match chunk 80 (repeat tt total) with
  | Some cs => list_eqb Nat.eqb (map (@List.length unit) cs) lens
  | None => false
  end.

Definition mismatches_chunk := mismatches ok_chunk.

(** C17: trajectory of the response-type suffix over one in-process history, under the class
    the scanner found for that variable. *)
From V Require Import Model.History Gen.Globals.

Definition class_of (v : string) : gclass :=
  match find (fun g => String.eqb (fst g) v) globals with
  | Some g => snd g
  | None => InitOnly
  end.

Definition ok_suffix (c : string * list suffix_call * list string) : bool :=
  let '(start, h, obs) := c in
  list_eqb String.eqb (suffix_trajectory (class_of "responseTypeSuffix") start h) obs.

Definition mismatches_suffix := mismatches ok_suffix.

(** C14: observed = trace of one request. *)
From V Require Import Model.Chain.

Definition ok_chain (c : flavour * bool * list mw * option (list mw) * list event) : bool :=
  let '(fw, ftl, ms, strict, obs) := c in
  list_eqb event_eqb (request_trace fw ftl ms strict) obs.

Definition mismatches_chain := mismatches ok_chain.
