(** Executable comparison functions used by the generated cases files: each returns
    the indices of the cases on which the model and the observed implementation differ. *)
From Coq Require Import List String Bool Arith.
From V Require Import Model.Prune Model.Filter Model.Inline.
Import ListNotations.

Fixpoint list_eqb {A} (eqb : A -> A -> bool) (a b : list A) : bool :=
  match a, b with
  | [], [] => true
  | x :: xs, y :: ys => eqb x y && list_eqb eqb xs ys
  | _, _ => false
  end.

Definition mismatches {A} (ok : A -> bool) (cases : list A) : list nat :=
  let fix go (i : nat) (l : list A) : list nat :=
    match l with
    | [] => []
    | c :: cs => if ok c then go (S i) cs else i :: go (S i) cs
    end in go 0 cases.

Definition ok_prune (c : doc * list string) : bool :=
  match prune (fst c) with
  | Some d' => list_eqb String.eqb (comp_keys d') (snd c)
  | None => false
  end.

Definition mismatches_prune := mismatches ok_prune.

Definition pair_eqb (a b : string * string) : bool :=
  String.eqb (fst a) (fst b) && String.eqb (snd a) (snd b).

(** C16 / C19: observed = (path items, (path, method) of surviving operations, component keys). *)
Definition ok_prepare (c : filter_cfg * doc * (list string * list (string * string) * list string)) : bool :=
  let '(cfg, d, (paths, ops, comps)) := c in
  match prepare cfg d with
  | Some d' =>
      list_eqb String.eqb (map p_path (d_paths d')) paths
      && list_eqb pair_eqb (op_keys (d_paths d')) ops
      && list_eqb String.eqb (comp_keys d') comps
  | None => false
  end.

Definition mismatches_prepare := mismatches ok_prepare.

(** C19: chunking of the embedded text: observed = (line lengths, total length). *)
Definition ok_chunk (c : nat * list nat) : bool :=
  let '(total, lens) := c in
  match chunk 80 (repeat tt total) with
  | Some cs => list_eqb Nat.eqb (map (@List.length unit) cs) lens
  | None => false
  end.

Definition mismatches_chunk := mismatches ok_chunk.

(** C17: trajectory of the response-type suffix over one in-process history, under the class
    the scanner found for that variable. *)
From V Require Import Model.History Gen.Globals.

Definition class_of (v : string) : gclass :=
  match find (fun g => String.eqb (fst g) v) globals with
  | Some g => snd g
  | None => InitOnly
  end.

Definition ok_suffix (c : string * list suffix_call * list string) : bool :=
  let '(start, h, obs) := c in
  list_eqb String.eqb (suffix_trajectory (class_of "responseTypeSuffix") start h) obs.

Definition mismatches_suffix := mismatches ok_suffix.

(** C14: observed = trace of one request. *)
From V Require Import Model.Chain.

Definition ok_chain (c : flavour * bool * list mw * option (list mw) * list event) : bool :=
  let '(fw, ftl, ms, strict, obs) := c in
  list_eqb event_eqb (request_trace fw ftl ms strict) obs.

Definition mismatches_chain := mismatches ok_chain.

(** the observed request was preceded by [warm] identical requests on the same mounted handler *)
Definition ok_chain_hist (c : flavour * bool * list mw * option (list mw) * nat * list event) : bool :=
  let '(fw, ftl, ms, strict, warm, obs) := c in
  list_eqb event_eqb (nth_request fw ftl ms strict warm) obs.
Definition mismatches_chain_hist := mismatches ok_chain_hist.

(** C14: a server mounted from an options value that carries the middlewares next to an error handler of the caller's. *)
Definition ok_chain_opts (c : flavour * bool * list mw * bool * option (list mw) * list event) : bool :=
  let '(fw, ftl, ms, errh, strict, obs) := c in
  list_eqb event_eqb (mounted_trace mount fw ftl strict {| o_mws := ms; o_error_handler := errh; o_base_url := false |}) obs.
Definition mismatches_chain_opts := mismatches ok_chain_opts.

(** gin, middlewares that pass, abort or write-and-pass, no strict layer: the observed trace *)
Definition ok_gin_writes (c : list gmw * list event) : bool :=
  list_eqb event_eqb (gin_loop template_stop (combine (seq 0 (List.length (fst c))) (fst c)) false [EHandler]) (snd c).
Definition mismatches_gin_writes := mismatches ok_gin_writes.

(** C03 *)
From V Require Import Model.Route.

Definition opt_eqb {A} (eqb : A -> A -> bool) (a b : option A) : bool :=
  match a, b with Some x, Some y => eqb x y | None, None => true | _, _ => false end.

(** translation: observed = the seven translated strings in the order of [all_flavours], and
    the ordered parameter names. *)
Definition all_flavours := [Echo; Chi; Gin; Gorilla; StdHTTP; Fiber; Iris].

Definition ok_translate (c : template * string * list string * list string) : bool :=
  let '(t, path, translated, names) := c in
  String.eqb (openapi_path t) path
  && list_eqb String.eqb (map (fun fw => translate fw t) all_flavours) translated
  && list_eqb String.eqb (vars t) names.

Definition mismatches_translate := mismatches ok_translate.

(** dispatch: observed = which operation ran with which positional path values (None = no
    handler ran). *)
Definition ok_dispatch (c : list string * list route * string * list string * option (string * list string)) : bool :=
  let '(base, rs, m, path, obs) := c in
  opt_eqb (fun a b => String.eqb (fst a) (fst b) && list_eqb String.eqb (snd a) (snd b))
          (dispatch base rs m path) obs.

Definition mismatches_dispatch := mismatches ok_dispatch.

(** SortParamsByPath: declared names in declaration order; observed = resulting order or error. *)
Definition ok_sort_params (c : template * list string * option (list string)) : bool :=
  let '(t, declared, obs) := c in
  opt_eqb (list_eqb String.eqb) (sort_params_by_path (fun x => x) t declared) obs.

Definition mismatches_sort_params := mismatches ok_sort_params.

(** C04 / C05: the OAS table against observed wire forms and decoded values. *)
From V Require Import Model.OasTable.

Definition value_eqb (a b : value) : bool :=
  match a, b with
  | VPrim x, VPrim y => String.eqb x y
  | VArr x, VArr y => list_eqb String.eqb x y
  | VObj x, VObj y => list_eqb pair_eqb x y
  | _, _ => false
  end.

(** C05 (client side): observed = what the generated client put on the wire, unescaped:
    a single string for path / header / cookie, decoded pairs (sorted by key, as the client's
    url.Values.Encode emits them) for query. *)
Inductive wire := WSingle (s : string) | WPairs (l : list (string * string)).

Fixpoint insert_pair (p : string * string) (l : list (string * string)) : list (string * string) :=
  match l with
  | [] => [p]
  | q :: r => match String.compare (fst p) (fst q) with
              | Gt => q :: insert_pair p r
              | _ => p :: l
              end
  end.
(* stable insertion sort by key: equal keys keep their relative order *)
Definition sort_pairs (l : list (string * string)) : list (string * string) :=
  fold_right insert_pair [] l.

Definition table_wire (loc : location) (st : option style) (ex : option bool) (name : string) (v : value) : option wire :=
  let s := match st with Some s => s | None => default_style loc end in
  let e := match ex with Some e => e | None => default_explode s end in
  match loc, s with
  | LQuery, (Form | DeepObject) => Some (WPairs (sort_pairs (ser_query s e name v)))
  | LCookie, Form => Some (WSingle (ser_simple e v))   (* cookie values use the simple value syntax *)
  | (LPath | LHeader), Simple => Some (WSingle (ser_simple e v))
  | LPath, Label => Some (WSingle (ser_label e v))
  | LPath, Matrix => Some (WSingle (ser_matrix e name v))
  | _, _ => None
  end.

Definition wire_eqb (a b : wire) : bool :=
  match a, b with
  | WSingle x, WSingle y => String.eqb x y
  | WPairs x, WPairs y => list_eqb pair_eqb x y
  | _, _ => false
  end.

Definition ok_wire (c : location * option style * option bool * string * value * wire) : bool :=
  let '(loc, st, ex, name, v, obs) := c in
  opt_eqb wire_eqb (table_wire loc st ex name v) (Some obs).

Definition mismatches_wire := mismatches ok_wire.

(** C04 (server side): parsing the observed wire form with the table's parser gives the value
    the generated server handed to the handler. *)
Definition table_parse (loc : location) (st : option style) (ex : option bool) (name : string)
           (sh : shape) (w : wire) : option value :=
  let s := match st with Some s => s | None => default_style loc end in
  let e := match ex with Some e => e | None => default_explode s end in
  match loc, s, w with
  | LQuery, Form, WPairs q => parse_query Form e name sh q
  | LCookie, Form, WSingle x => parse_simple e sh x
  | (LPath | LHeader), Simple, WSingle x => parse_simple e sh x
  | LPath, Label, WSingle x => parse_label e sh x
  | LPath, Matrix, WSingle x => parse_matrix e name sh x
  | LQuery, DeepObject, WPairs q => parse_query DeepObject true name sh q
  | _, _, _ => None
  end.

Definition ok_decode (c : location * option style * option bool * string * shape * wire * value) : bool :=
  let '(loc, st, ex, name, sh, w, decoded) := c in
  opt_eqb value_eqb (table_parse loc st ex name sh w) (Some decoded).

Definition mismatches_decode := mismatches ok_decode.

(** C06 *)
From V Require Import Model.Wrapper.
Definition ok_wrapper (c : list param * list wevent) : bool :=
  list_eqb wevent_eqb (wrapper 0 (fst c)) (snd c).
Definition mismatches_wrapper := mismatches ok_wrapper.

(** query parameters next to a form body: (declared (name, required), states found in the query string, states of the
    body's fields, handler called) *)
Definition ok_form (c : list (string * bool) * list (string * presence) * list (string * presence) * bool) : bool :=
  let '(decl, q, b, obs) := c in
  Bool.eqb (handler_called (qwrapper read_query decl {| in_query := q; in_body := b |})) obs.
Definition mismatches_form := mismatches ok_form.

(** C18 *)
From V Require Import Model.Security.

Definition key_map (m : list (string * string)) (s : string) : string :=
  match find (fun p => String.eqb (fst p) s) m with Some p => snd p | None => s end.

Fixpoint insert_ctx (p : string * list string) (l : list (string * list string)) :=
  match l with
  | [] => [p]
  | q :: r => match String.compare (fst p) (fst q) with Gt => q :: insert_ctx p r | _ => p :: l end
  end.
Definition sort_ctx (l : list (string * list string)) := fold_right insert_ctx [] l.

Definition ctx_entry_eqb (a b : string * list string) : bool :=
  String.eqb (fst a) (fst b) && list_eqb String.eqb (snd a) (snd b).

(** observed = the (constant, scopes) pairs the stub handler found in the request context, sorted by constant *)
Definition ok_published (c : list (string * string) * list requirement * option (list requirement) * list (string * list string)) : bool :=
  let '(km, global, op, obs) := c in
  list_eqb ctx_entry_eqb (sort_ctx (published (key_map km) global op)) obs.

Definition mismatches_published := mismatches ok_published.

(** providers: observed = the request after Intercept *)
Definition hdrs_eqb (a b : list (string * list string)) : bool :=
  list_eqb ctx_entry_eqb (sort_ctx a) (sort_ctx b).

Definition ok_intercept (c : provider * request * request) : bool :=
  let '(p, r, obs) := c in
  let r' := intercept p r in
  hdrs_eqb (headers r') (headers obs)
  && list_eqb pair_eqb (sort_pairs (query r')) (sort_pairs (query obs))
  && list_eqb pair_eqb (cookies r') (cookies obs).

Definition mismatches_intercept := mismatches ok_intercept.

(** C13: observed = the typed field Parse<Op>Response filled (None = none). *)
From V Require Import Model.RespParse.
Definition ok_parse (c : list (rname * list (mtype * string)) * nat * string * option string) : bool :=
  let '(rs, status, ct, obs) := c in
  opt_eqb String.eqb (parse rs status ct) obs.
Definition mismatches_parse := mismatches ok_parse.

(** C12: observed = what the generated strict handler wrote for a response object. *)
From V Require Import Model.Strict.
Definition ok_visit (c : rcell * supplied * (nat * option string * list (string * string))) : bool :=
  let '(r, v, (st, ct, hdrs)) := c in
  let w := visit r v in
  Nat.eqb (w_status w) st && opt_eqb String.eqb (w_ctype w) ct && list_eqb pair_eqb (w_headers w) hdrs.
Definition mismatches_visit := mismatches ok_visit.

(** what the chain handed back, and whether the reply was an error reply (status >= 400) *)
Definition ok_tail (c : chain_result * bool) : bool :=
  Bool.eqb (outcome_eqb (deliver (fst c)) OErrorPath) (snd c).
Definition mismatches_tail := mismatches ok_tail.

Definition ok_bodies (c : list string * string * list string) : bool :=
  let '(declared, ct, obs) := c in list_eqb String.eqb (bodies_decoded declared ct) obs.
Definition mismatches_bodies := mismatches ok_bodies.

(** C11 *)
From V Require Import Model.Enum.
Definition table_fn (t : list (string * string)) (s : string) : string :=
  match find (fun p => String.eqb (fst p) s) t with Some p => snd p | None => s end.

Fixpoint insert_kv (p : string * string) (l : list (string * string)) :=
  match l with
  | [] => [p]
  | q :: r => match String.compare (fst p) (fst q) with Gt => q :: insert_kv p r | _ => p :: l end
  end.
Definition sort_kv (l : list (string * string)) := fold_right insert_kv [] l.

(** SanitizeEnumNames: observed = the returned map, sorted by key. *)
Definition ok_sanitize (c : list (string * string) * list string * list string * list (string * string)) : bool :=
  let '(norm_t, names, values, obs) := c in
  list_eqb pair_eqb (sort_kv (stage2 (table_fn norm_t) (stage1 [] (combine names values)))) obs.
Definition mismatches_sanitize := mismatches ok_sanitize.

(** Constants of a generated file for one enum whose stage-2 and stage-3 keys are collision-free
    (otherwise the result depends on map order): observed = (constant name, compiled value), sorted. *)
Definition ok_constants (c : list (string * string) * list (string * string) * list string * list string * list (string * string)) : bool :=
  let '(norm_t, norm2_t, names, values, obs) := c in
  list_eqb pair_eqb (sort_kv (enum_constants (table_fn norm_t) (table_fn norm2_t) names values)) obs.
Definition mismatches_constants := mismatches ok_constants.

(** the old-enum-conflicts arm: pathname table observed from SchemaNameToTypeName . PathToTypeName *)
Definition ok_constants_old (c : list (string * string) * list (string * string) * list string * list string * list (string * string)) : bool :=
  let '(norm_t, path_t, names, values, obs) := c in
  list_eqb pair_eqb (sort_kv (enum_constants_old (table_fn norm_t) (table_fn path_t) names values)) obs.
Definition mismatches_constants_old := mismatches ok_constants_old.

(** literal fidelity: observed = the value go/parser + strconv read back from the emitted literal *)
Definition ok_literal (c : string * string) : bool :=
  let '(lit, v) := c in opt_eqb String.eqb (go_unquote lit) (Some v) && String.eqb (quote v) lit.
Definition mismatches_literal := mismatches ok_literal.

(** C08: observed = (wrapper of the field's type, json tag) read from the generated struct. *)
From V Require Import Model.TypeMap.
Definition wrap_eqb (a b : wrap) : bool :=
  match a, b with Plain, Plain | Pointer, Pointer | NullableOf, NullableOf => true | _, _ => false end.
Definition ok_field (c : attrs * string * (wrap * string)) : bool :=
  let '(a, name, (w, tag)) := c in
  wrap_eqb (field_wrap a) w && String.eqb (field_json_tag a name) tag.
Definition mismatches_field := mismatches ok_field.

Definition ok_type (c : otype * string * option string) : bool :=
  let '(t, f, obs) := c in opt_eqb String.eqb (go_type t f) obs.
Definition mismatches_type := mismatches ok_type.

(** (old-aliasing, disable-type-aliases-for-type has "array", kind of the named type, declared with "=") *)
Definition ok_alias (c : bool * bool * tkind * bool) : bool :=
  let '(old, dis, k, obs) := c in Bool.eqb (declared_as_alias old dis k) obs.
Definition mismatches_alias := mismatches ok_alias.

(** C10: observed = result of mergeOpenapiSchemas on two schemas (None = error):
    (type, format, required in order, property names sorted with their schema identity, additionalProperties). *)
From V Require Import Model.Merge.
Definition addl_eqb (a b : addl) : bool :=
  match a, b with
  | AAbsent, AAbsent | ATrue, ATrue | AFalse, AFalse => true
  | ASchema x, ASchema y => String.eqb x y
  | _, _ => false
  end.
Definition ok_merge2 (c : leaf * leaf * option (option string * string * list string * list (string * string) * addl)) : bool :=
  let '(a, b, obs) := c in
  match merge2 a b, obs with
  | None, None => true
  | Some r, Some (t, f, req, props, ad) =>
      opt_eqb String.eqb (l_type r) t && String.eqb (l_format r) f && list_eqb String.eqb (l_required r) req
      && list_eqb pair_eqb (sort_kv (l_props r)) props && addl_eqb (l_addl r) ad
  | _, _ => false
  end.
Definition mismatches_merge2 := mismatches ok_merge2.

(** the legacy merge: members by what they say about additional properties (None / value type), observed = rejected
    (None), no additional properties (Some None), or the value type of the merged type's AdditionalProperties map *)
Definition ok_v1_addl (c : list (option string) * option (option string)) : bool :=
  let '(ms, obs) := c in opt_eqb (opt_eqb String.eqb) (v1_addl ms) obs.
Definition mismatches_v1_addl := mismatches ok_v1_addl.

(** C20: observed = the generate section (and skip flags) the tool resolved for a list of
    targets, read from --output-config (None = rejected). *)
From V Require Import Model.Cli.
Definition flags_eqb (a b : out_flags) : bool := Bool.eqb (skip_fmt a) (skip_fmt b) && Bool.eqb (skip_prune a) (skip_prune b).
Definition ok_targets (c : list string * option (gen * out_flags)) : bool :=
  let '(ts, obs) := c in
  opt_eqb (fun a b => gen_eqb (fst a) (fst b) && flags_eqb (snd a) (snd b))
          (generation_targets ts (gen_zero, {| skip_fmt := false; skip_prune := false |})) obs.
Definition mismatches_targets := mismatches ok_targets.

(** new-style resolution: observed = (package, generate section, initialism-overrides) after
    --output-config, or None when the tool exits non-zero *)
Definition ok_resolve (c : @config unit * option (string * gen * bool)) : bool :=
  let '(cfg, obs) := c in
  opt_eqb (fun a b => String.eqb (fst (fst a)) (fst (fst b)) && gen_eqb (snd (fst a)) (snd (fst b)) && Bool.eqb (snd a) (snd b))
          (option_map (fun r => (c_package r, c_gen r, c_initialism r)) (resolve_new cfg)) obs.
Definition mismatches_resolve := mismatches ok_resolve.

(** (keys of the file, -old-config-style given, a legacy flag given, observed: processed as old / as new / refused) *)
Definition ok_style (c : cfile * bool * bool * option cstyle) : bool :=
  let '(f, e, l, obs) := c in opt_eqb cstyle_eqb (detect strict_old e l f) obs.
Definition mismatches_style := mismatches ok_style.

(** C07: JSON member values are canonical texts; None = null. observed = the re-encoded object, sorted by key. *)
From V Require Import Model.Codec.
Definition jval := option string.
Definition jval_is_null (v : jval) : bool := match v with None => true | Some _ => false end.
Definition jval_eqb (a b : jval) : bool := opt_eqb String.eqb a b.
Fixpoint insert_jk (p : string * jval) (l : list (string * jval)) :=
  match l with
  | [] => [p]
  | q :: r => match String.compare (fst p) (fst q) with Gt => q :: insert_jk p r | _ => p :: l end
  end.
Definition sort_jobj (l : list (string * jval)) := fold_right insert_jk [] l.
Definition jentry_eqb (a b : string * jval) : bool := String.eqb (fst a) (fst b) && jval_eqb (snd a) (snd b).

Definition ok_codec (c : list fdecl * bool * list (string * jval) * list (string * jval)) : bool :=
  let '(fs, has_addl, o, obs) := c in
  list_eqb jentry_eqb (sort_jobj (encode jval None fs has_addl (decode jval jval_is_null fs has_addl o))) obs.
Definition mismatches_codec := mismatches ok_codec.

(** C09: union accessors on compiled types; member JSON objects with canonical-text member values. *)
From V Require Import Model.Union.
Definition ujobj := list (string * string).
Definition sort_ujobj (l : ujobj) := sort_kv l.

(** observed after From<Member>(member) [then Merge<Member2>(member2)]: the union's JSON, sorted by key;
    and what ValueByDiscriminator dispatches to (None = error). *)
Definition mk_disc (prop : string) (mapping : list (string * nat)) : disc := {| d_prop := prop; d_mapping := mapping |}.
Definition dtext (v : string) : option string :=
  (* canonical JSON text of a string without escapes: "..." *)
  match v with
  | String "034" r =>
      let fix strip (s : string) : option string :=
        match s with
        | EmptyString => None
        | String "034" EmptyString => Some EmptyString
        | String c r' => match strip r' with Some t => Some (String c t) | None => None end
        end in strip r
  | _ => None
  end.
Definition dstr (s : string) : string := String "034" (s ++ String "034" "").

Definition ok_union (c : option (string * list (string * nat)) * nat * ujobj * option (nat * ujobj) * list (string * string) * (ujobj * option nat)) : bool :=
  let '(d, i, member, merge, fixed, (obs_json, obs_dispatch)) := c in
  let dd := option_map (fun p => mk_disc (fst p) (snd p)) d in
  let st0 := {| u_raw := []; u_fixed := map (fun p => (fst p, Some (snd p))) fixed |} in
  let st1 := from_member string dd dstr i member st0 in
  let st2 := match merge with Some (j, m2) => merge_member string dd dstr j m2 st1 | None => st1 end in
  list_eqb pair_eqb (sort_ujobj (marshal string st2)) obs_json
  && match dd with
     | Some x => opt_eqb Nat.eqb (dispatch string x dtext st2) obs_dispatch
     | None => true
     end.
Definition mismatches_union := mismatches ok_union.

(** * C01: names and type de-duplication *)
From Coq Require Import NArith.
From V Require Import Model.Names.

(** a case: the runes of a name as the unicode package describes them (code, class, upper-case image), and
    the code points of what ToCamelCase, ToCamelCaseWithDigits, SchemaNameToTypeName and SanitizeGoIdentity
    returned for it (None = the function panicked) *)
Definition mk_rune (q : N * cls * (N * cls)) : rune := let '(c, k, u) := q in {| code := c; cl := k; up := u |}.
Definition ok_names (c : list (N * cls * (N * cls)) * (list N * list N * list N * option (list N))) : bool :=
  let '(rs, (o_camel, o_digits, o_type, o_san)) := c in
  let s := map mk_rune rs in
  forallb wf_runeb s
  && codes_eqb (map fst (camel s)) o_camel
  && codes_eqb (map fst (camel_digits s)) o_digits
  && codes_eqb (map fst (type_name camel s)) o_type
  && match o_san with
     | Some o => codes_eqb (map fst (sanitize (map out s))) o && negb (sanitize_panics (map out s))
     | None => sanitize_panics (map out s)
     end.
Definition mismatches_names := mismatches ok_names.

(** the rename chain of an enum constant on an ASCII name: observed = code points of
    SchemaNameToTypeName (SanitizeGoIdentity (SchemaNameToTypeName name)) *)
Definition ok_enum_chain (c : string * list N) : bool :=
  let '(name, obs) := c in codes_eqb (map fst (enum_name_chain name)) obs.
Definition mismatches_enum_chain := mismatches ok_enum_chain.

(** a case: the (name, definition) numbers handed to GenerateTypes and the names it emitted (None = error) *)
Definition ok_dedup (c : list (nat * nat) * option (list nat)) : bool :=
  let '(l, obs) := c in
  match dedup l, obs with
  | Some o, Some names => list_eqb Nat.eqb (map fst o) names
  | None, None => true
  | _, _ => false
  end.
Definition mismatches_dedup := mismatches ok_dedup.

(** * C11: the conflict pass of GenerateEnums *)
From V Require Import Model.EnumConflict.
(** a case: always-prefix option, names of the non-enum types, the enums in processing order, and for every
    enum whether its constants were emitted with the type name in front *)
Definition ok_enum_conflict (c : bool * list string * list (string * list string) * list bool) : bool :=
  let '(always, types, enums, obs) := c in
  list_eqb Bool.eqb (map snd (resolve always types enums)) obs.
Definition mismatches_enum_conflict := mismatches ok_enum_conflict.

(** * C06: CombineOperationParameters *)
From V Require Import Model.Combine.
(** a case: path-level and operation-level parameters as (location, name, declaration number) and the combined
    list the implementation returned (None = error) *)
Definition tparam (q : string * string * nat) : (string * string) * nat := let '(i, n, k) := q in ((i, n), k).
Definition ok_combine (c : list (string * string * nat) * list (string * string * nat) * option (list (string * string * nat))) : bool :=
  let '(g, l, obs) := c in
  let peq (a b : (string * string) * nat) := key_eqb (fst a) (fst b) && Nat.eqb (snd a) (snd b) in
  match combine_params (map tparam g) (map tparam l), obs with
  | Some o, Some x => list_eqb peq o (map tparam x)
  | None, None => true
  | _, _ => false
  end.
Definition mismatches_combine := mismatches ok_combine.

(** * C20: the legacy -import-mapping flag (pkg/util.ParseCommandlineMap) *)
From V Require Import Model.CmdMap.
(** a case: the flag value and the parsed map sorted by key (None = rejected); inputs have pairwise different keys *)
Definition ok_cmdmap (c : string * option (list (string * string))) : bool :=
  let '(s, obs) := c in
  match parse_map s, obs with
  | Some m, Some o => list_eqb pair_eqb (sort_pairs m) o
  | None, None => true
  | _, _ => false
  end.
Definition mismatches_cmdmap := mismatches ok_cmdmap.

(** C02, one loaded document generated n times: (embedded-spec, local component names, components of other documents the
    document refers to, for each generation the watched names that were declared as local types) *)
From V Require Import Model.Det.
Definition ok_onedoc (c : bool * list string * list string * list (list string)) : bool :=
  let '(emb, locals, ext, obs) := c in
  list_eqb (list_eqb String.eqb) (declared_of emb {| ld_locals := locals; ld_external := ext |} ext (List.length obs)) obs.
Definition mismatches_onedoc := mismatches ok_onedoc.

(** C04: net/url's escaping of one path segment / one query component, and the two decoders (None = error) *)
From Coq Require Import NArith.
From V Require Import Model.Escape.
Definition nlist_eqb := list_eqb N.eqb.
Definition ok_escape (c : list N * list N * list N) : bool :=
  let '(s, p, q) := c in nlist_eqb (escape PathSegment s) p && nlist_eqb (escape QueryComponent s) q.
Definition mismatches_escape := mismatches ok_escape.
Definition ok_unescape (c : list N * option (list N) * option (list N)) : bool :=
  let '(s, p, q) := c in
  opt_eqb nlist_eqb (unescape PathSegment s) p && opt_eqb nlist_eqb (unescape QueryComponent s) q.
Definition mismatches_unescape := mismatches ok_unescape.

(** C19: encoding/base64 against Model/Base64.v.  [ok_b64_encode]: the text Go produced for the bytes is the model's and the
    model reads it back; [ok_b64_decode]: the model reads a text (the joined lines of a generated swaggerSpec literal) as
    the bytes Go read. *)
From V Require Import Model.Base64.
Fixpoint ns_eqb (a b : list N) : bool :=
  match a, b with
  | [], [] => true
  | x :: a', y :: b' => N.eqb x y && ns_eqb a' b'
  | _, _ => false
  end.
Definition ok_b64_encode (c : list N * list N) : bool :=
  let '(bs, text) := c in
  ns_eqb (Base64.encode bs) text && match Base64.decode text with Some r => ns_eqb r bs | None => false end.
Definition mismatches_b64_encode := mismatches ok_b64_encode.
Definition ok_b64_decode (c : list N * option (list N)) : bool :=
  let '(text, obs) := c in
  match Base64.decode text, obs with
  | Some r, Some bs => ns_eqb r bs
  | None, None => true
  | _, _ => false
  end.
Definition mismatches_b64_decode := mismatches ok_b64_decode.

(** new-style resolution with the two middleware-order flags as the rest of the configuration: observed = (package,
    generate section, initialism-overrides, (chi flag, gorilla flag)) after --output-config *)
Definition ok_resolve_flags (c : @config (bool * bool) * option (string * gen * bool * (bool * bool))) : bool :=
  let '(cfg, obs) := c in
  opt_eqb (fun a b => let '(p1, g1, i1, (x1, y1)) := a in let '(p2, g2, i2, (x2, y2)) := b in
                      String.eqb p1 p2 && gen_eqb g1 g2 && Bool.eqb i1 i2 && Bool.eqb x1 x2 && Bool.eqb y1 y2)
          (option_map (fun r => (c_package r, c_gen r, c_initialism r, c_rest r)) (resolve_new cfg)) obs.
Definition mismatches_resolve_flags := mismatches ok_resolve_flags.
