(** Correspondence for the template terms: the model's [render] of the translated term under the environment the real
    engine computed (every pipeline of the template evaluated by text/template on the same data) against the tokens of
    the text the real engine produced. *)
From Coq Require Import List String Bool.
From V Require Import Model.Tmpl Gen.Wrappers.
Import ListNotations.

Fixpoint toks_eqb (a b : list gtok) : bool :=
  match a, b with
  | [], [] => true
  | x :: a', y :: b' => gtok_eqb x y && toks_eqb a' b'
  | _, _ => false
  end.

Definition ok_template (c : nat * env * list gtok) : bool :=
  let '(i, e, obs) := c in
  match nth_error wrappers_whole i with
  | Some p => toks_eqb (render (snd p) e) obs
  | None => false
  end.

Fixpoint mismatches_from {A} (ok : A -> bool) (i : nat) (l : list A) : list nat :=
  match l with
  | [] => []
  | x :: r => if ok x then mismatches_from ok (S i) r else i :: mismatches_from ok (S i) r
  end.
Definition mismatches_template := mismatches_from ok_template 0.

Definition ok_strict_template (c : nat * env * list gtok) : bool :=
  let '(i, e, obs) := c in
  match nth_error strict_wrappers_whole i with
  | Some p => toks_eqb (render (snd p) e) obs
  | None => false
  end.
Definition mismatches_strict_template := mismatches_from ok_strict_template 0.
