(** Model for C20: how cmd/oapi-codegen turns a configuration file (new style, old style) and
    flags into the codegen.Configuration it hands to the library. Fields the command line tool
    only copies are kept together in an opaque component [rest]. *)
From Coq Require Export List String Bool Arith.
Export ListNotations.
Local Open Scope string_scope.

Record gen := {
  g_iris : bool; g_chi : bool; g_fiber : bool; g_echo : bool; g_gin : bool; g_gorilla : bool; g_stdhttp : bool;
  g_strict : bool; g_client : bool; g_models : bool; g_spec : bool }.

Definition gen_zero : gen :=
  {| g_iris := false; g_chi := false; g_fiber := false; g_echo := false; g_gin := false; g_gorilla := false;
     g_stdhttp := false; g_strict := false; g_client := false; g_models := false; g_spec := false |}.

Definition gen_eqb (a b : gen) : bool :=
  Bool.eqb (g_iris a) (g_iris b) && Bool.eqb (g_chi a) (g_chi b) && Bool.eqb (g_fiber a) (g_fiber b)
  && Bool.eqb (g_echo a) (g_echo b) && Bool.eqb (g_gin a) (g_gin b) && Bool.eqb (g_gorilla a) (g_gorilla b)
  && Bool.eqb (g_stdhttp a) (g_stdhttp b) && Bool.eqb (g_strict a) (g_strict b) && Bool.eqb (g_client a) (g_client b)
  && Bool.eqb (g_models a) (g_models b) && Bool.eqb (g_spec a) (g_spec b).

Inductive target_effect :=
  EIris | EChi | EFiber | EEcho | EGin | EGorilla | EStdHTTP | EStrict | EClient | EModels | ESpec | ESkipFmt | ESkipPrune.

(** the switch of generationTargets *)
Definition target_table : list (string * target_effect) := [
  ("iris", EIris); ("iris-server", EIris); ("chi-server", EChi); ("chi", EChi);
  ("fiber-server", EFiber); ("fiber", EFiber); ("server", EEcho); ("echo-server", EEcho); ("echo", EEcho);
  ("gin", EGin); ("gin-server", EGin); ("gorilla", EGorilla); ("gorilla-server", EGorilla);
  ("std-http", EStdHTTP); ("std-http-server", EStdHTTP); ("strict-server", EStrict); ("client", EClient);
  ("types", EModels); ("models", EModels); ("spec", ESpec); ("embedded-spec", ESpec);
  ("skip-fmt", ESkipFmt); ("skip-prune", ESkipPrune) ].

Definition lookup_target (t : string) : option target_effect :=
  match find (fun p => String.eqb (fst p) t) target_table with Some p => Some (snd p) | None => None end.

Record out_flags := { skip_fmt : bool; skip_prune : bool }.

Definition apply_effect (e : target_effect) (s : gen * out_flags) : gen * out_flags :=
  let '(g, o) := s in
  let set (f : gen -> gen) := (f g, o) in
  match e with
  | EIris => ({| g_iris := true; g_chi := g_chi g; g_fiber := g_fiber g; g_echo := g_echo g; g_gin := g_gin g; g_gorilla := g_gorilla g; g_stdhttp := g_stdhttp g; g_strict := g_strict g; g_client := g_client g; g_models := g_models g; g_spec := g_spec g |}, o)
  | EChi => ({| g_iris := g_iris g; g_chi := true; g_fiber := g_fiber g; g_echo := g_echo g; g_gin := g_gin g; g_gorilla := g_gorilla g; g_stdhttp := g_stdhttp g; g_strict := g_strict g; g_client := g_client g; g_models := g_models g; g_spec := g_spec g |}, o)
  | EFiber => ({| g_iris := g_iris g; g_chi := g_chi g; g_fiber := true; g_echo := g_echo g; g_gin := g_gin g; g_gorilla := g_gorilla g; g_stdhttp := g_stdhttp g; g_strict := g_strict g; g_client := g_client g; g_models := g_models g; g_spec := g_spec g |}, o)
  | EEcho => ({| g_iris := g_iris g; g_chi := g_chi g; g_fiber := g_fiber g; g_echo := true; g_gin := g_gin g; g_gorilla := g_gorilla g; g_stdhttp := g_stdhttp g; g_strict := g_strict g; g_client := g_client g; g_models := g_models g; g_spec := g_spec g |}, o)
  | EGin => ({| g_iris := g_iris g; g_chi := g_chi g; g_fiber := g_fiber g; g_echo := g_echo g; g_gin := true; g_gorilla := g_gorilla g; g_stdhttp := g_stdhttp g; g_strict := g_strict g; g_client := g_client g; g_models := g_models g; g_spec := g_spec g |}, o)
  | EGorilla => ({| g_iris := g_iris g; g_chi := g_chi g; g_fiber := g_fiber g; g_echo := g_echo g; g_gin := g_gin g; g_gorilla := true; g_stdhttp := g_stdhttp g; g_strict := g_strict g; g_client := g_client g; g_models := g_models g; g_spec := g_spec g |}, o)
  | EStdHTTP => ({| g_iris := g_iris g; g_chi := g_chi g; g_fiber := g_fiber g; g_echo := g_echo g; g_gin := g_gin g; g_gorilla := g_gorilla g; g_stdhttp := true; g_strict := g_strict g; g_client := g_client g; g_models := g_models g; g_spec := g_spec g |}, o)
  | EStrict => ({| g_iris := g_iris g; g_chi := g_chi g; g_fiber := g_fiber g; g_echo := g_echo g; g_gin := g_gin g; g_gorilla := g_gorilla g; g_stdhttp := g_stdhttp g; g_strict := true; g_client := g_client g; g_models := g_models g; g_spec := g_spec g |}, o)
  | EClient => ({| g_iris := g_iris g; g_chi := g_chi g; g_fiber := g_fiber g; g_echo := g_echo g; g_gin := g_gin g; g_gorilla := g_gorilla g; g_stdhttp := g_stdhttp g; g_strict := g_strict g; g_client := true; g_models := g_models g; g_spec := g_spec g |}, o)
  | EModels => ({| g_iris := g_iris g; g_chi := g_chi g; g_fiber := g_fiber g; g_echo := g_echo g; g_gin := g_gin g; g_gorilla := g_gorilla g; g_stdhttp := g_stdhttp g; g_strict := g_strict g; g_client := g_client g; g_models := true; g_spec := g_spec g |}, o)
  | ESpec => ({| g_iris := g_iris g; g_chi := g_chi g; g_fiber := g_fiber g; g_echo := g_echo g; g_gin := g_gin g; g_gorilla := g_gorilla g; g_stdhttp := g_stdhttp g; g_strict := g_strict g; g_client := g_client g; g_models := g_models g; g_spec := true |}, o)
  | ESkipFmt => (g, {| skip_fmt := true; skip_prune := skip_prune o |})
  | ESkipPrune => (g, {| skip_fmt := skip_fmt o; skip_prune := true |})
  end.

(** generationTargets: starts from a blank GenerateOptions; an unknown name is an error. *)
Fixpoint generation_targets (ts : list string) (s : gen * out_flags) : option (gen * out_flags) :=
  match ts with
  | [] => Some s
  | t :: r => match lookup_target t with
              | Some e => generation_targets r (apply_effect e s)
              | None => None
              end
  end.

Definition count_servers (g : gen) : nat :=
  (if g_iris g then 1 else 0) + (if g_chi g then 1 else 0) + (if g_fiber g then 1 else 0) + (if g_echo g then 1 else 0)
  + (if g_gin g then 1 else 0) + (if g_gorilla g then 1 else 0) + (if g_stdhttp g then 1 else 0).

Section Config.
Context {rest : Type}.   (* every other field: copied, never inspected *)

Record config := { c_package : string; c_gen : gen; c_out : out_flags; c_initialism : bool; c_rest : rest }.

(** Configuration.UpdateDefaults *)
Definition update_defaults (c : config) : config :=
  if gen_eqb (c_gen c) gen_zero
  then {| c_package := c_package c;
          c_gen := {| g_iris := false; g_chi := false; g_fiber := false; g_echo := true; g_gin := false; g_gorilla := false;
                      g_stdhttp := false; g_strict := false; g_client := false; g_models := true; g_spec := true |};
          c_out := c_out c; c_initialism := c_initialism c; c_rest := c_rest c |}
  else c.

(** Configuration.Validate *)
Definition validate (c : config) : bool :=
  negb (String.eqb (c_package c) "") && Nat.leb (count_servers (c_gen c)) 1.

(** updateConfigFromFlags with every flag at its default: only initialism-overrides is
    overwritten (by the flag's default, false). *)
Definition update_from_default_flags (c : config) : config :=
  {| c_package := c_package c; c_gen := c_gen c; c_out := c_out c; c_initialism := false; c_rest := c_rest c |}.

(** New-style run: the configuration handed to codegen.Generate, or a rejection. *)
Definition resolve_new (c : config) : option config :=
  let c' := update_defaults (update_from_default_flags c) in
  if validate c' then Some c' else None.
End Config.

(** * Finding out the style of a configuration file.  The tool decodes the file strictly as an old-style and as a
      new-style configuration; one that decodes only one way is of that style, one that decodes neither way is refused,
      one that decodes both ways is old style exactly when a legacy flag is present.  -old-config-style on the command line
      settles it without probing; the file is then read strictly all the same. *)
Inductive ckey :=
| KCommon      (* package, output: both styles *)
| KGenList     (* generate: [types, server] - the old style's list *)
| KGenMap      (* generate: {models: true} - the new style's mapping *)
| KOldOnly     (* top-level include-tags, import-mapping, ...: old style only *)
| KNewOnly     (* output-options, compatibility, additional-imports: new style only *)
| KUnknown.    (* a key neither style has (a misspelt one) *)
Definition cfile := list ckey.
Definition old_knows (k : ckey) : bool := match k with KCommon | KGenList | KOldOnly => true | _ => false end.
Definition new_knows (k : ckey) : bool := match k with KCommon | KGenMap | KNewOnly => true | _ => false end.
Definition strict_old (f : cfile) : bool := forallb old_knows f.
Definition strict_new (f : cfile) : bool := forallb new_knows f.
(** the non-strict decoder only fails on a shape it cannot store: a mapping where the old style has a list *)
Definition lax_old (f : cfile) : bool := forallb (fun k => match k with KGenMap => false | _ => true end) f.

Inductive cstyle := SOld | SNew.
(** [None] = refused with a non-zero exit and no output *)
Definition detect (old_probe : cfile -> bool) (explicit_old legacy_flag : bool) (f : cfile) : option cstyle :=
  let chosen :=
    if explicit_old then Some SOld
    else match old_probe f, strict_new f with
         | false, true => Some SNew
         | true, false => Some SOld
         | false, false => None
         | true, true => Some (if legacy_flag then SOld else SNew)
         end in
  match chosen with
  | Some SOld => if strict_old f then Some SOld else None          (* the file is read strictly as what it was taken for *)
  | Some SNew => if strict_new f then Some SNew else None
  | None => None
  end.
Definition cstyle_eqb (a b : cstyle) : bool := match a, b with SOld, SOld | SNew, SNew => true | _, _ => false end.
