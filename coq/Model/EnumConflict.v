(** Model of the conflict pass of GenerateEnums (pkg/codegen/codegen.go): which enums get their type name
    prefixed to their constants.  An enum is its type name and the names of its constants (the keys of
    Schema.EnumValues, already capitalised); [types] are the names of the types that are not enums.
    The pass is a SINGLE sweep: enum i is compared with every later enum j using the flags both have at
    that moment, then with the non-enum type names, then with its own type name. *)
From Coq Require Export List String Bool Arith.
Export ListNotations.
Local Open Scope string_scope.

Definition enum := (string * list string)%type.

Definition mem (k : string) (l : list string) : bool := existsb (String.eqb k) l.

(** EnumDefinition.GetValues (names only) *)
Definition vals (e : enum) (prefixed : bool) : list string :=
  if prefixed then map (fun n => fst e ++ n) (snd e) else snd e.

Definition shares (a b : list string) : bool := existsb (fun k => mem k b) a.

(** the loop over j > i; returns the flag of enum i afterwards and the later enums with their flags *)
Fixpoint inner (e1 : enum) (f1 : bool) (later : list (enum * bool)) : bool * list (enum * bool) :=
  match later with
  | [] => (f1, [])
  | (e2, f2) :: t =>
      if shares (vals e1 f1) (vals e2 f2)
      then let r := inner e1 true t in (fst r, (e2, true) :: snd r)
      else let r := inner e1 f1 t in (fst r, (e2, f2) :: snd r)
  end.

Definition finish (types : list string) (e1 : enum) (f : bool) : bool :=
  let f' := f || existsb (fun tp => mem tp (snd e1)) types in
  f' || mem (fst e1) (vals e1 f').

(** the loop over i, on fuel (= the number of enums) *)
Fixpoint outer (fuel : nat) (types : list string) (l : list (enum * bool)) : list (enum * bool) :=
  match fuel, l with
  | S n, (e1, f1) :: t =>
      let r := inner e1 f1 t in
      (e1, finish types e1 (fst r)) :: outer n types (snd r)
  | _, _ => []
  end.

Definition resolve (always : bool) (types : list string) (enums : list enum) : list (enum * bool) :=
  outer (List.length enums) types (map (fun e => (e, always)) enums).

(** all constants of the package after the pass *)
Definition constants (l : list (enum * bool)) : list string := flat_map (fun p => vals (fst p) (snd p)) l.
