(** Model of pkg/codegen/prune.go (pruneUnusedComponents and its walkers).

    A document is abstracted to the positions the walkers of prune.go visit:
    every *Ref-typed position (SchemaRef, ParameterRef, HeaderRef, RequestBodyRef,
    ResponseRef, SecuritySchemeRef, ExampleRef, LinkRef, CallbackRef) is a [node];
    a node is either a [$ref] (the walker records the string and does not descend:
    findComponentRefs returns false) or an inline value whose children are the
    *Ref positions below it.  Which children an inline value has (properties, items,
    not, ...) is decided by the harness's own converter, written from the property's
    list of positions, NOT from prune.go: a walker that forgets a position then
    disagrees with this model on documents using that position. *)
From Coq Require Export List String Bool Arith.
Export ListNotations.
Open Scope list_scope.

Inductive kind :=
  KSchemas | KParameters | KSecuritySchemes | KRequestBodies | KResponses
| KHeaders | KExamples | KLinks | KCallbacks.

Definition kind_eqb (a b : kind) : bool :=
  match a, b with
  | KSchemas, KSchemas | KParameters, KParameters | KSecuritySchemes, KSecuritySchemes
  | KRequestBodies, KRequestBodies | KResponses, KResponses | KHeaders, KHeaders
  | KExamples, KExamples | KLinks, KLinks | KCallbacks, KCallbacks => true
  | _, _ => false
  end.

Definition kind_name (k : kind) : string :=
  match k with
  | KSchemas => "schemas"%string | KParameters => "parameters"%string
  | KSecuritySchemes => "securitySchemes"%string | KRequestBodies => "requestBodies"%string
  | KResponses => "responses"%string | KHeaders => "headers"%string | KExamples => "examples"%string
  | KLinks => "links"%string | KCallbacks => "callbacks"%string
  end.

Inductive node := NRef (r : string) | NVal (children : list node).

Record component := { c_kind : kind; c_name : string; c_body : node }.

Record operation := { o_method : string; o_id : string; o_tags : list string; o_body : list node }.

Record pathitem := { p_path : string; p_params : list node; p_ops : list operation }.

Record doc := { d_paths : list pathitem; d_comps : list component }.

(** fmt.Sprintf("#/components/<kind>/%s", key) *)
Definition comp_ref (c : component) : string :=
  ("#/components/" ++ kind_name (c_kind c) ++ "/" ++ c_name c)%string.

(** findComponentRefs: the callback appends ref.Ref when non-empty and stops. *)
Fixpoint refs_node (n : node) : list string :=
  match n with
  | NRef r => [r]
  | NVal cs => flat_map refs_node cs
  end.

Definition refs_nodes (ns : list node) : list string := flat_map refs_node ns.

Definition refs_op (o : operation) : list string := refs_nodes (o_body o).

Definition refs_pathitem (p : pathitem) : list string :=
  refs_nodes (p_params p) ++ flat_map refs_op (p_ops p).

Definition refs_paths (ps : list pathitem) : list string := flat_map refs_pathitem ps.

Definition refs_comps (cs : list component) : list string :=
  flat_map (fun c => refs_node (c_body c)) cs.

(** walkSwagger: paths first, then walkComponents (every component, whatever its kind). *)
Definition find_component_refs (d : doc) : list string :=
  refs_paths (d_paths d) ++ refs_comps (d_comps d).

Definition string_in (s : string) (l : list string) : bool := existsb (String.eqb s) l.

(** removeOrphanedComponents: every kind except securitySchemes. *)
Definition prunable (k : kind) : bool := negb (kind_eqb k KSecuritySchemes).

Definition keep_comp (refs : list string) (c : component) : bool :=
  negb (prunable (c_kind c)) || string_in (comp_ref c) refs.

Definition remove_orphans (d : doc) (refs : list string) : doc :=
  {| d_paths := d_paths d; d_comps := filter (keep_comp refs) (d_comps d) |}.

Definition prune_step (d : doc) : doc := remove_orphans d (find_component_refs d).

(** pruneUnusedComponents: loop until an iteration removes nothing.
    [None] = out of fuel (excluded by [prune_fuel_enough]). *)
Fixpoint prune_fuel (fuel : nat) (d : doc) : option doc :=
  match fuel with
  | O => None
  | S f =>
      let d' := prune_step d in
      if Nat.eqb (List.length (d_comps d')) (List.length (d_comps d)) then Some d'
      else prune_fuel f d'
  end.

Definition prune (d : doc) : option doc := prune_fuel (S (List.length (d_comps d))) d.

(** Names of the components of a document, for comparison with the implementation. *)
Definition comp_keys (d : doc) : list string := map comp_ref (d_comps d).

(** * A loop that gives up after a fixed number of rounds.
    [prune_bounded b] runs at most [b] rounds of the loop (a round that removes nothing changes nothing, so running the
    remaining rounds anyway is the same as leaving the loop). *)
Fixpoint prune_bounded (b : nat) (d : doc) : doc :=
  match b with O => d | S b' => prune_bounded b' (prune_step d) end.

(** Chains: component number j is referred to by component number j-1 only; nothing refers to the first one. *)
Fixpoint unary (n : nat) : string := match n with O => EmptyString | S k => ("x" ++ unary k)%string end.
Definition chain_ref (j : nat) : string := ("#/components/schemas/N" ++ unary j)%string.
Fixpoint chain_comps (i n : nat) : list component :=
  match n with
  | O => []
  | S k => {| c_kind := KSchemas; c_name := ("N" ++ unary i)%string;
              c_body := NVal (match k with O => [] | S _ => [NRef (chain_ref (S i))] end) |} :: chain_comps (S i) k
  end.
Definition chain_doc (i n : nat) : doc := {| d_paths := []; d_comps := chain_comps i n |}.
