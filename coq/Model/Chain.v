(** Model of the middleware chains the templates emit (C14).

    A middleware either calls its successor ([Pass]) or answers itself ([Stop]).  A handler
    chain is modelled by the trace of events it leaves: a continuation-passing rendering of
    what the generated code builds.

    - chi / gorilla / std-http wrappers:   handler := H; for m in ms (or reversed under the
      compatibility flag): handler = m(handler); handler.ServeHTTP   -- [wrap_loop]
    - gin wrapper:  for m in ms { m(c); if c.IsAborted() { return } }; H   -- [seq_loop]
    - fiber, iris: router.Use(m) for m in ms, then the route            -- [seq_loop]
    - strict handlers (all flavours): handler := H; for m in ms: handler = m(handler, opid) -- [wrap_loop]
    - echo (non-strict): no per-operation middleware option. *)
From Coq Require Export List Bool Arith.
Export ListNotations.

Inductive mw := Pass | Stop.
Inductive event := EMw (i : nat) | EStrict (i : nat) | EHandler.

Definition event_eqb (a b : event) : bool :=
  match a, b with
  | EMw i, EMw j | EStrict i, EStrict j => Nat.eqb i j
  | EHandler, EHandler => true
  | _, _ => false
  end.

(** One middleware applied to the continuation [k]. *)
Definition apply_mw (tag : nat -> event) (m : nat * mw) (k : list event) : list event :=
  tag (fst m) :: match snd m with Pass => k | Stop => [] end.

Definition indexed (ms : list mw) : list (nat * mw) := combine (seq 0 (length ms)) ms.

(** handler = m(handler) for each m in [order]: the last one wrapped runs first. *)
Definition wrap_loop (tag : nat -> event) (order : list (nat * mw)) (inner : list event) : list event :=
  fold_left (fun k m => apply_mw tag m k) order inner.

(** The chi / gorilla / std-http wrapper: iteration order is the slice order, or the reversed
    slice under apply-*-middleware-first-to-last. *)
Definition nethttp_chain (first_to_last : bool) (ms : list mw) (inner : list event) : list event :=
  wrap_loop EMw (if first_to_last then rev (indexed ms) else indexed ms) inner.

(** The gin wrapper / fiber's router.Use: run in slice order, stop at the first that aborts. *)
Fixpoint seq_loop (tag : nat -> event) (ms : list (nat * mw)) (inner : list event) : list event :=
  match ms with
  | [] => inner
  | m :: r => tag (fst m) :: match snd m with Pass => seq_loop tag r inner | Stop => [] end
  end.

Definition strict_chain (ms : list mw) : list event := wrap_loop EStrict (indexed ms) [EHandler].

Inductive flavour := Echo | Chi | Gin | Gorilla | StdHTTP | Fiber | Iris.

(** The whole request: per-operation middlewares (where the flavour installs them) around the
    strict middlewares (if strict mode) around the user's handler. *)
Definition request_trace (fw : flavour) (first_to_last : bool) (ms : list mw)
           (strict : option (list mw)) : list event :=
  let inner := match strict with Some sm => strict_chain sm | None => [EHandler] end in
  match fw with
  | Chi | Gorilla | StdHTTP => nethttp_chain first_to_last ms inner
  | Gin | Fiber | Iris => seq_loop EMw (indexed ms) inner
  | Echo => inner
  end.

(** Execution order promised by the documentation: the last configured middleware runs first,
    unless the compatibility flag asks for first-to-last; gin/fiber run in configuration order. *)
Definition documented_order (fw : flavour) (first_to_last : bool) (n : nat) : list nat :=
  match fw with
  | Chi | Gorilla | StdHTTP => if first_to_last then seq 0 n else rev (seq 0 n)
  | Gin | Fiber | Iris => seq 0 n
  | Echo => []
  end.

(** * The mounted server over its life.  The wrapper holds the configured middlewares in a slice; that slice is
      the only state a request could change.  [serve] is what the templates do (the slice is read, never written);
      [serve_reversing] is the variant that reverses the slice in place before wrapping (refuted below). *)
Definition slice := list (nat * mw).
Definition inner_of (strict : option (list mw)) : list event :=
  match strict with Some sm => strict_chain sm | None => [EHandler] end.
Definition serve (fw : flavour) (ftl : bool) (strict : option (list mw)) (s : slice) : slice * list event :=
  (s, match fw with
      | Chi | Gorilla | StdHTTP => wrap_loop EMw (if ftl then rev s else s) (inner_of strict)
      | Gin | Fiber | Iris => seq_loop EMw s (inner_of strict)
      | Echo => inner_of strict
      end).
Fixpoint serve_n (step : slice -> slice * list event) (s : slice) (n : nat) : list (list event) :=
  match n with
  | O => []
  | S k => let st := step s in snd st :: serve_n step (fst st) k
  end.
(** the trace of request number k (from 0) on a freshly mounted server *)
Definition nth_request (fw : flavour) (ftl : bool) (ms : list mw) (strict : option (list mw)) (k : nat) : list event :=
  nth k (serve_n (serve fw ftl strict) (indexed ms) (S k)) [].
Definition serve_reversing (ftl : bool) (strict : option (list mw)) (s : slice) : slice * list event :=
  let s' := if ftl then rev s else s in (s', wrap_loop EMw s' (inner_of strict)).

(** * What a gin middleware does to the context besides its own work.  gin's loop in the generated wrapper is
      [for _, m := range siw.HandlerMiddlewares { m(c); if c.IsAborted() { return } }]: only aborting stops the chain.
      A middleware that has written to the response (flushed headers, a streaming prefix) and did not abort passes on. *)
Inductive gmw := GPass | GAbort | GWrite.
Definition erase (m : gmw) : mw := match m with GAbort => Stop | _ => Pass end.
Definition aborts (m : gmw) : bool := match m with GAbort => true | _ => false end.
Definition writes (m : gmw) : bool := match m with GPass => false | _ => true end.   (* AbortWithStatus writes too *)
Fixpoint gin_loop (stop : bool -> bool -> bool) (ms : list (nat * gmw)) (written : bool) (inner : list event) : list event :=
  match ms with
  | [] => inner
  | m :: r => EMw (fst m) ::
      (if stop (aborts (snd m)) (written || writes (snd m)) then [] else gin_loop stop r (written || writes (snd m)) inner)
  end.
Definition template_stop (aborted written : bool) : bool := aborted.
Definition stop_when_written (aborted written : bool) : bool := aborted || written.

(** * Mounting.  HandlerWithOptions / RegisterHandlersWithOptions copy the middlewares of the options value into the
      wrapper (or install them on the router) whatever else the options carry: an error handler of the caller's, a base
      URL.  [mount] is what the templates do; [mount_under_default_error_handler] is the variant that stores the
      middlewares only on the branch that installs the default error handler (refuted in the proofs). *)
Record options := { o_mws : list mw; o_error_handler : bool; o_base_url : bool }.
Definition mount (o : options) : slice := indexed (o_mws o).
Definition mount_under_default_error_handler (o : options) : slice :=
  if o_error_handler o then [] else indexed (o_mws o).
Definition mounted_trace (mnt : options -> slice) (fw : flavour) (ftl : bool) (strict : option (list mw)) (o : options)
  : list event := snd (serve fw ftl strict (mnt o)).

(** * The counting loop of the first-to-last variants: [for i := len(s) - 1; i >= 0; i-- { handler = s[i](handler) }].
      [countdown k s] visits the indices k-1, ..., 0; [countdown_stopping_early] is the loop with the bound [i > 0]. *)
Fixpoint countdown (k : nat) (s : slice) : slice :=
  match k with O => [] | S j => match nth_error s j with Some m => m :: countdown j s | None => countdown j s end end.
Fixpoint countdown_stopping_early (k : nat) (s : slice) : slice :=
  match k with
  | O | S O => []
  | S j => match nth_error s j with Some m => m :: countdown_stopping_early j s | None => countdown_stopping_early j s end
  end.
