(** Model for C13: the switch Parse<Op>Response uses to pick the typed field of a reply.

    genResponseUnmarshal builds one case clause per (response, parsable media type), stores the
    clauses in a map keyed by "9." ++ kind ++ "." ++ responseName and emits them in the sorted
    order of the keys; the first clause whose condition holds fills its field.  kind is "json"
    (condition: Content-Type contains "json") when the response declares one JSON media type,
    the media type itself (condition: Content-Type equals it) when it declares several, "yaml" /
    "xml" (substring conditions) for those. *)
From Coq Require Export List String Ascii Bool Arith.
From V Require Export Model.Det.
Export ListNotations.
Local Open Scope string_scope.

Inductive rname := RCode (n : nat) | RRange (d : nat) | RDefault.

Definition digit (n : nat) : ascii := ascii_of_nat (48 + n mod 10).
Definition code_string (n : nat) : string :=
  String (digit (n / 100)) (String (digit (n / 10)) (String (digit n) "")).
Definition rname_string (r : rname) : string :=
  match r with
  | RCode n => code_string n
  | RRange d => String (digit d) "XX"
  | RDefault => "default"
  end.

(** getConditionOfResponseName *)
Definition status_matches (r : rname) (status : nat) : bool :=
  match r with
  | RCode n => Nat.eqb status n
  | RRange d => Nat.eqb (status / 100) d
  | RDefault => true
  end.

(** strings.Contains *)
Fixpoint has_prefix (p s : string) : bool :=
  match p, s with
  | EmptyString, _ => true
  | String a p', String b s' => Ascii.eqb a b && has_prefix p' s'
  | _, _ => false
  end.
Fixpoint contains_sub (sub s : string) : bool :=
  has_prefix sub s || match s with EmptyString => false | String _ s' => contains_sub sub s' end.

Inductive ckind := KSub (word : string) | KExact (ct : string).

Definition kind_key (k : ckind) : string := match k with KSub w => w | KExact ct => ct end.
Definition kind_matches (k : ckind) (content_type : string) : bool :=
  match k with
  | KSub w => contains_sub w content_type
  | KExact ct => String.eqb content_type ct
  end.

Record clause := { c_kind : ckind; c_resp : rname; c_field : string }.

Definition clause_key (c : clause) : string := "9." ++ kind_key (c_kind c) ++ "." ++ rname_string (c_resp c).
Definition clause_matches (status : nat) (ct : string) (c : clause) : bool :=
  kind_matches (c_kind c) ct && status_matches (c_resp c) status.

(** Media types of one response -> clauses (GetResponseTypeDefinitions + genResponseUnmarshal). *)
Inductive mtype := MJson (ct : string) | MYaml (ct : string) | MXml (ct : string) | MOther (ct : string).

Definition json_count (ms : list mtype) : nat :=
  List.length (filter (fun m => match m with MJson _ => true | _ => false end) ms).

Definition clauses_of (r : rname) (ms : list (mtype * string)) : list clause :=
  let jc := json_count (map fst ms) in
  flat_map (fun mf =>
    match fst mf with
    | MJson ct => [{| c_kind := if Nat.ltb 1 jc then KExact ct else KSub "json"; c_resp := r; c_field := snd mf |}]
    | MYaml _ => [{| c_kind := KSub "yaml"; c_resp := r; c_field := snd mf |}]
    | MXml _ => [{| c_kind := KSub "xml"; c_resp := r; c_field := snd mf |}]
    | MOther _ => []
    end) ms.

(** The clause map: a later clause with the same key replaces an earlier one. *)
Fixpoint put (c : clause) (l : list clause) : list clause :=
  match l with
  | [] => [c]
  | d :: r => if String.eqb (clause_key d) (clause_key c) then c :: r else d :: put c r
  end.
Definition clause_map (cs : list clause) : list clause := fold_left (fun m c => put c m) cs [].

(** First matching clause in the sorted order of the keys = the matching clause with the least key. *)
Definition better (a b : clause) : clause := if sleb (clause_key a) (clause_key b) then a else b.
Definition min_clause (l : list clause) : option clause :=
  match l with [] => None | c :: r => Some (fold_left better r c) end.
Definition pick (status : nat) (ct : string) (cs : list clause) : option clause :=
  min_clause (filter (clause_matches status ct) cs).

Definition parse (responses : list (rname * list (mtype * string))) (status : nat) (ct : string) : option string :=
  option_map c_field (pick status ct (clause_map (flat_map (fun r => clauses_of (fst r) (snd r)) responses))).

(** * The statement: the most specific declared response that matches the status decides. *)
Definition specificity (r : rname) : nat := match r with RCode _ => 0 | RRange _ => 1 | RDefault => 2 end.
