(** Percent-encoding as net/url does it for one path segment (url.PathEscape / PathUnescape) and for one query component
    (url.QueryEscape / QueryUnescape).  Bytes are numbers below 256.  The generated clients escape every parameter value
    with one of the two, the wrappers and the runtime unescape with the matching one: "values containing characters that
    need URL escaping arrive unchanged" is the round trip below; decoding a path segment by the query rules is not. *)
From Coq Require Import List NArith Bool Lia.
From Coq Require Import ZifyN ZifyBool.
Import ListNotations.
Local Open Scope N_scope.

Inductive mode := PathSegment | QueryComponent.

Definition is_alnum (b : N) : bool :=
  ((48 <=? b) && (b <=? 57)) || ((65 <=? b) && (b <=? 90)) || ((97 <=? b) && (b <=? 122)).
Definition is_mark (b : N) : bool := (b =? 45) || (b =? 95) || (b =? 46) || (b =? 126).        (* - _ . ~ *)
(** the reserved characters a path segment may hold as they are: $ & + : = @ *)
Definition path_ok (b : N) : bool := (b =? 36) || (b =? 38) || (b =? 43) || (b =? 58) || (b =? 61) || (b =? 64).

Definition should_escape (m : mode) (b : N) : bool :=
  if is_alnum b || is_mark b then false
  else match m with PathSegment => negb (path_ok b) | QueryComponent => true end.

Definition hex_digit (n : N) : N := if n <? 10 then 48 + n else 55 + n.                     (* 0-9 A-F *)
Definition unhex (c : N) : option N :=
  if (48 <=? c) && (c <=? 57) then Some (c - 48)
  else if (65 <=? c) && (c <=? 70) then Some (c - 55)
  else if (97 <=? c) && (c <=? 102) then Some (c - 87)
  else None.

Fixpoint escape (m : mode) (s : list N) : list N :=
  match s with
  | [] => []
  | b :: r =>
      if match m with QueryComponent => b =? 32 | PathSegment => false end then 43 :: escape m r
      else if should_escape m b then 37 :: hex_digit (b / 16) :: hex_digit (b mod 16) :: escape m r
      else b :: escape m r
  end.

Fixpoint unescape (m : mode) (s : list N) : option (list N) :=
  match s with
  | [] => Some []
  | c :: r =>
      if c =? 37 then
        match r with
        | h :: l :: r' =>
            match unhex h, unhex l, unescape m r' with
            | Some a, Some b, Some t => Some (16 * a + b :: t)
            | _, _, _ => None
            end
        | _ => None
        end
      else match unescape m r with
           | Some t => Some ((if match m with QueryComponent => c =? 43 | PathSegment => false end then 32 else c) :: t)
           | None => None
           end
  end.
