(** Model of pkg/util/inputmapping.go: the value of the legacy -import-mapping flag,
    key1:value1,key2:value2,... where double quotes protect commas and colons. *)
From Coq Require Export List String Ascii Bool.
Export ListNotations.
Local Open Scope string_scope.

Definition dq : ascii := """".

(** splitString: split on [sep] outside quoted sections; quotes stay in the parts *)
Fixpoint split_q (sep : ascii) (inq : bool) (part : string) (s : string) : list string :=
  match s with
  | EmptyString => [part]
  | String c r =>
      let inq' := if Ascii.eqb c dq then negb inq else inq in
      if Ascii.eqb c sep && negb inq' then part :: split_q sep inq' "" r
      else split_q sep inq' (part ++ String c "") r
  end.

(** strings.TrimLeft / TrimRight with the cutset of one double quote *)
Fixpoint trim_left_q (s : string) : string :=
  match s with
  | String c r => if Ascii.eqb c dq then trim_left_q r else s
  | EmptyString => EmptyString
  end.
Fixpoint trim_right_q (s : string) : string :=
  match s with
  | EmptyString => EmptyString
  | String c r =>
      match trim_right_q r with
      | EmptyString => if Ascii.eqb c dq then EmptyString else String c EmptyString
      | r' => String c r'
      end
  end.
Definition trim_q (s : string) : string := trim_right_q (trim_left_q s).

Fixpoint traverse_o {A B} (f : A -> option B) (l : list A) : option (list B) :=
  match l with
  | [] => Some []
  | x :: r => match f x, traverse_o f r with Some y, Some ys => Some (y :: ys) | _, _ => None end
  end.

(** ParseCommandlineMap, as the list of pairs in order (the Go map keeps the last pair of a key) *)
Definition parse_pair (t : string) : option (string * string) :=
  match split_q ":" false "" t with
  | [k; v] => Some (trim_q k, trim_q v)
  | _ => None
  end.
Definition parse_map (s : string) : option (list (string * string)) :=
  traverse_o parse_pair (split_q "," false "" s).

(** how a map is written on the command line with everything quoted *)
Definition quoted (s : string) : string := String dq (s ++ String dq "").
Fixpoint join_s (sep : string) (l : list string) : string :=
  match l with [] => "" | [x] => x | x :: r => x ++ sep ++ join_s sep r end.
Definition render_pair (p : string * string) : string := quoted (fst p) ++ ":" ++ quoted (snd p).
Definition render_map (l : list (string * string)) : string := join_s "," (map render_pair l).

Fixpoint has_char (c : ascii) (s : string) : bool :=
  match s with EmptyString => false | String a r => Ascii.eqb a c || has_char c r end.
