(** Model for C08: the Go declaration a property gets (Property.GoTypeDef,
    GenFieldsFromProperties) and the type/format table (oapiSchemaToGoType), next to an
    independent rendering of the documented rules. *)
From Coq Require Export List String Bool.
Export ListNotations.
Local Open Scope string_scope.

Record attrs := {
  a_required : bool; a_nullable : bool; a_readonly : bool; a_writeonly : bool;
  a_skip_pointer : option bool;      (* x-go-type-skip-optional-pointer *)
  a_omitempty_ext : option bool;     (* x-omitempty *)
  a_json_ignore : option bool;       (* x-go-json-ignore *)
  o_disable_rro_pointer : bool;      (* compatibility.disable-required-readonly-as-pointer *)
  o_nullable_type : bool }.          (* output-options.nullable-type *)

Inductive wrap := Plain | Pointer | NullableOf.

Definition opt_true (o : option bool) : bool := match o with Some true => true | _ => false end.

(** Property.GoTypeDef *)
Definition field_wrap (a : attrs) : wrap :=
  if o_nullable_type a && a_nullable a then NullableOf
  else if negb (opt_true (a_skip_pointer a)) &&
          (negb (a_required a) || a_nullable a
           || (a_readonly a && (negb (a_required a) || negb (o_disable_rro_pointer a)))
           || a_writeonly a)
       then Pointer else Plain.

(** GenFieldsFromProperties *)
Definition should_omit (a : attrs) : bool :=
  (negb (a_required a) || a_readonly a || a_writeonly a)
  && (negb (a_required a) || negb (a_readonly a) || negb (o_disable_rro_pointer a)).

Definition field_omitempty (a : attrs) : bool :=
  match a_omitempty_ext a with
  | Some b => b
  | None => if a_nullable a && o_nullable_type a then should_omit a else negb (a_nullable a) && should_omit a
  end.

Definition field_json_tag (a : attrs) (name : string) : string :=
  if opt_true (a_json_ignore a) then "-" else if field_omitempty a then name ++ ",omitempty" else name.

(** * The documented rules *)
Definition doc_pointer (a : attrs) : bool :=
  negb (a_required a) || a_nullable a || a_readonly a || a_writeonly a.
Definition doc_omitempty (a : attrs) : bool :=
  negb (a_nullable a) && (negb (a_required a) || a_readonly a || a_writeonly a).

Definition plain_options (a : attrs) : Prop :=
  a_skip_pointer a = None /\ a_omitempty_ext a = None /\ a_json_ignore a = None /\
  o_disable_rro_pointer a = false /\ o_nullable_type a = false.

(** * type / format table *)
Inductive otype := TInteger | TNumber | TBoolean | TString.

Definition go_type (t : otype) (format : string) : option string :=
  match t with
  | TInteger =>
      Some (if String.eqb format "int64" then "int64" else if String.eqb format "int32" then "int32"
            else if String.eqb format "int16" then "int16" else if String.eqb format "int8" then "int8"
            else if String.eqb format "int" then "int" else if String.eqb format "uint64" then "uint64"
            else if String.eqb format "uint32" then "uint32" else if String.eqb format "uint16" then "uint16"
            else if String.eqb format "uint8" then "uint8" else if String.eqb format "uint" then "uint" else "int")
  | TNumber =>
      if String.eqb format "double" then Some "float64"
      else if String.eqb format "float" || String.eqb format "" then Some "float32" else None
  | TBoolean => if String.eqb format "" then Some "bool" else None
  | TString =>
      Some (if String.eqb format "byte" then "[]byte" else if String.eqb format "email" then "openapi_types.Email"
            else if String.eqb format "date" then "openapi_types.Date" else if String.eqb format "date-time" then "time.Time"
            else if String.eqb format "json" then "json.RawMessage" else if String.eqb format "uuid" then "openapi_types.UUID"
            else if String.eqb format "binary" then "openapi_types.File" else "string")
  end.

(** the documented table *)
Definition doc_table : list (otype * string * string) := [
  (TInteger, "", "int"); (TInteger, "int32", "int32"); (TInteger, "int64", "int64");
  (TNumber, "", "float32"); (TNumber, "float", "float32"); (TNumber, "double", "float64");
  (TBoolean, "", "bool"); (TString, "", "string"); (TString, "byte", "[]byte");
  (TString, "date-time", "time.Time"); (TString, "date", "openapi_types.Date"); (TString, "uuid", "openapi_types.UUID");
  (TString, "email", "openapi_types.Email"); (TString, "binary", "openapi_types.File"); (TString, "json", "json.RawMessage") ].

(** * How a named type is declared: alias ([type X = T]) or defined type ([type X T]).  Objects with members and enums
      are always defined types; arrays, primitives, references and free-form objects are aliases unless the output option
      disable-type-aliases-for-type lists the kind (only "array" is documented) or compatibility.old-aliasing is set. *)
Inductive tkind := KArray | KPrimitive | KReference | KFreeForm | KEnum | KStruct.
Definition via_alias (disable_array : bool) (k : tkind) : bool :=
  match k with KStruct | KEnum => false | KArray => negb disable_array | _ => true end.
Definition declared_as_alias (old_aliasing disable_array : bool) (k : tkind) : bool :=
  negb old_aliasing && via_alias disable_array k.

(** * The integers a sized format stands for, and the integers the Go type of the table holds (64-bit platforms). *)
From Coq Require Import ZArith.
Definition int_range (name : string) : option (Z * Z) :=
  if String.eqb name "int8" then Some (-128, 127)%Z else if String.eqb name "int16" then Some (-32768, 32767)%Z
  else if String.eqb name "int32" then Some (-2147483648, 2147483647)%Z
  else if String.eqb name "int64" || String.eqb name "int" then Some (-9223372036854775808, 9223372036854775807)%Z
  else if String.eqb name "uint8" then Some (0, 255)%Z else if String.eqb name "uint16" then Some (0, 65535)%Z
  else if String.eqb name "uint32" then Some (0, 4294967295)%Z
  else if String.eqb name "uint64" || String.eqb name "uint" then Some (0, 18446744073709551615)%Z
  else None.
Definition in_range (r : Z * Z) (v : Z) : bool := (Z.leb (fst r) v && Z.leb v (snd r))%bool.
Definition sized_formats : list string := ["int8"; "int16"; "int32"; "int64"; "int"; "uint8"; "uint16"; "uint32"; "uint64"; "uint"].
(** a decoder into the Go type of the table accepts [v] *)
Definition decodes (table : otype -> string -> option string) (format : string) (v : Z) : bool :=
  match table TInteger format with
  | Some g => match int_range g with Some r => in_range r v | None => false end
  | None => false
  end.
(** the table with the unsigned 64-bit row forgotten (falls to the default int) *)
Definition go_type_without_uint64 (t : otype) (format : string) : option string :=
  if String.eqb format "uint64" then go_type t "" else go_type t format.
