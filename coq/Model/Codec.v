(** Model for C07: JSON object <-> generated Go struct, for plain structs (encoding/json with
    the tags oapi-codegen emits) and for structs with additional properties (the
    UnmarshalJSON / MarshalJSON pair of additional-properties.tmpl).

    Member values are abstract ([jv]): each member's own codec is the same problem one level
    down and is assumed to round-trip; what is modelled is what oapi-codegen contributes — which
    members are read, where unknown members go, which members are written back. *)
From Coq Require Export List String Bool.
Export ListNotations.
Local Open Scope string_scope.

Section Codec.
Variable jv : Type.
Variable jnull : jv.
Variable is_null : jv -> bool.
Hypothesis is_null_jnull : is_null jnull = true.

Record fdecl := { f_name : string; f_required : bool; f_nullable : bool }.

(** C08's rules: pointer for optional or nullable members; omitempty for non-nullable optional ones. *)
Definition f_pointer (f : fdecl) : bool := negb (f_required f) || f_nullable f.
Definition f_omitempty (f : fdecl) : bool := negb (f_nullable f) && negb (f_required f).

Definition jobj := list (string * jv).

Definition jlookup (o : jobj) (k : string) : option jv :=
  match find (fun p => String.eqb (fst p) k) o with Some p => Some (snd p) | None => None end.

(** a field's Go value: [None] = nil pointer; required non-nullable fields always hold a value *)
Record gostruct := { g_fields : list (string * option jv); g_addl : jobj }.

Definition declared (fs : list fdecl) (k : string) : bool := existsb (fun f => String.eqb (f_name f) k) fs.

(** Unmarshal: each declared member is looked up by name; null (or absence) leaves a pointer
    nil; with additional properties every other member is kept, without them it is dropped. *)
Definition decode (fs : list fdecl) (has_addl : bool) (o : jobj) : gostruct :=
  {| g_fields := map (fun f => (f_name f,
                       match jlookup o (f_name f) with
                       | Some v => if is_null v then None else Some v
                       | None => None
                       end)) fs;
     g_addl := if has_addl then filter (fun p => negb (declared fs (fst p))) o else [] |}.

Definition field_value (g : gostruct) (k : string) : option jv :=
  match find (fun p => String.eqb (fst p) k) (g_fields g) with Some p => snd p | None => None end.

(** Marshal. Plain struct: a nil pointer is skipped iff the tag says omitempty, written as null
    otherwise.  With additional properties: required members are always written, optional ones
    iff non-nil; the additional members are written afterwards. *)
Definition entry (has_addl : bool) (g : gostruct) (f : fdecl) : jobj :=
  match field_value g (f_name f) with
  | Some v => [(f_name f, v)]
  | None =>
      if has_addl then (if f_required f then [(f_name f, jnull)] else [])
      else (if f_omitempty f then [] else [(f_name f, jnull)])
  end.

Definition encode (fs : list fdecl) (has_addl : bool) (g : gostruct) : jobj :=
  (flat_map (entry has_addl g) fs ++ g_addl g)%list.

(** A JSON instance valid against the schema: member names unique, required members present,
    only nullable members null, and (without additional properties) no undeclared member. *)
Definition valid (fs : list fdecl) (has_addl : bool) (o : jobj) : Prop :=
  NoDup (map fst o) /\
  (forall f, In f fs -> f_required f = true -> jlookup o (f_name f) <> None) /\
  (forall f v, In f fs -> jlookup o (f_name f) = Some v -> is_null v = true -> f_nullable f = true) /\
  (has_addl = false -> forall k, In k (map fst o) -> declared fs k = true).
End Codec.
