(** Model of CombineOperationParameters (pkg/codegen/operations.go): the parameters of a path item ("global")
    and of one operation ("local") are combined; a parameter is identified by its location and name, the
    remaining attributes (schema, required, style ...) are an opaque payload.  The operation's declaration
    governs; a duplicate inside one list is an error. *)
From Coq Require Export List String Bool.
Export ListNotations.

Section Combine.
Context {A : Type}.  (* payload *)
Definition key := (string * string)%type.   (* (in, name) *)
Definition param := (key * A)%type.

Definition key_eqb (a b : key) : bool := String.eqb (fst a) (fst b) && String.eqb (snd a) (snd b).
Definition has (k : key) (l : list key) : bool := existsb (key_eqb k) l.

(** the first loop: local parameters, a repeated key is an error *)
Fixpoint take_local (seen : list key) (l : list param) : option (list param) :=
  match l with
  | [] => Some []
  | p :: t => if has (fst p) seen then None
              else option_map (cons p) (take_local (fst p :: seen) t)
  end.

(** the second loop: global parameters are appended unless a local one has the key; a repeated global key is an error *)
Fixpoint take_global (locals globals_seen : list key) (g : list param) : option (list param) :=
  match g with
  | [] => Some []
  | p :: t =>
      if has (fst p) locals then take_global locals globals_seen t
      else if has (fst p) globals_seen then None
      else option_map (cons p) (take_global locals (fst p :: globals_seen) t)
  end.

Definition combine_params (g l : list param) : option (list param) :=
  match take_local [] l with
  | None => None
  | Some ls => match take_global (map fst l) [] g with
               | None => None
               | Some gs => Some (ls ++ gs)
               end
  end.
End Combine.
