(** Model of the control flow of the generated server wrappers around parameter binding (C06):
    parameters are processed in order; a required parameter that is absent, or a present one
    that does not bind, sends the request to the error path AND RETURNS; only if every
    parameter passes is the user's handler called. *)
From Coq Require Export List Bool Arith.
Export ListNotations.

Inductive presence := Absent | Binds | Malformed.
Record param := { p_required : bool; p_state : presence }.

Inductive wevent := WErr (i : nat) | WHandler.

Definition wevent_eqb (a b : wevent) : bool :=
  match a, b with WErr i, WErr j => Nat.eqb i j | WHandler, WHandler => true | _, _ => false end.

Definition passes (p : param) : bool :=
  match p_state p with
  | Absent => negb (p_required p)
  | Binds => true
  | Malformed => false
  end.

Fixpoint wrapper (i : nat) (ps : list param) : list wevent :=
  match ps with
  | [] => [WHandler]
  | p :: r => if passes p then wrapper (S i) r else [WErr i]
  end.

(** A wrapper whose error branch forgets to return (what the property forbids). *)
Fixpoint wrapper_no_return (i : nat) (ps : list param) : list wevent :=
  match ps with
  | [] => [WHandler]
  | p :: r => if passes p then wrapper_no_return (S i) r else WErr i :: wrapper_no_return (S i) r
  end.

Definition handler_called (t : list wevent) : bool := existsb (wevent_eqb WHandler) t.
