(** Model of the control flow of the generated server wrappers around parameter binding (C06):
    parameters are processed in order; a required parameter that is absent, or a present one
    that does not bind, sends the request to the error path AND RETURNS; only if every
    parameter passes is the user's handler called. *)
From Coq Require Export List Bool Arith.
From Coq Require Import String.
Export ListNotations.

Inductive presence := Absent | Binds | Malformed.
Record param := { p_required : bool; p_state : presence }.

Inductive wevent := WErr (i : nat) | WHandler.

Definition wevent_eqb (a b : wevent) : bool :=
  match a, b with WErr i, WErr j => Nat.eqb i j | WHandler, WHandler => true | _, _ => false end.

Definition passes (p : param) : bool :=
  match p_state p with
  | Absent => negb (p_required p)
  | Binds => true
  | Malformed => false
  end.

Fixpoint wrapper (i : nat) (ps : list param) : list wevent :=
  match ps with
  | [] => [WHandler]
  | p :: r => if passes p then wrapper (S i) r else [WErr i]
  end.

(** A wrapper whose error branch forgets to return (what the property forbids). *)
Fixpoint wrapper_no_return (i : nat) (ps : list param) : list wevent :=
  match ps with
  | [] => [WHandler]
  | p :: r => if passes p then wrapper_no_return (S i) r else WErr i :: wrapper_no_return (S i) r
  end.

Definition handler_called (t : list wevent) : bool := existsb (wevent_eqb WHandler) t.

(** * Where a query parameter is looked up.  A request carries a query string and, possibly, a form-encoded body.  The
      state of a QUERY parameter is the state of what the query string holds under its name; the body is not where query
      parameters live, whatever its fields are called. *)
Record qreq := { in_query : list (string * presence); in_body : list (string * presence) }.
Definition found (l : list (string * presence)) (name : string) : presence :=
  match find (fun p => String.eqb (fst p) name) l with Some p => snd p | None => Absent end.
Definition read_query (r : qreq) (name : string) : presence := found (in_query r) name.
(** net/http's Request.FormValue: the body's field wins, the query string is the fallback *)
Definition read_form_value (r : qreq) (name : string) : presence :=
  match found (in_body r) name with Absent => found (in_query r) name | s => s end.
Definition qwrapper (read : qreq -> string -> presence) (decl : list (string * bool)) (r : qreq) : list wevent :=
  wrapper 0 (map (fun d => {| p_required := snd d; p_state := read r (fst d) |}) decl).
