(** Model of the chunking loop of pkg/codegen/inline.go (GenerateInlinedSpec). *)
From Coq Require Export List Arith.
Export ListNotations.

Section Chunk.
Context {A : Type}.

(** for len(str) > width { parts = append(parts, str[0:width]); str = str[width:] }
    if len(str) > 0 { parts = append(parts, str) } *)
Fixpoint chunk_fuel (fuel w : nat) (s : list A) : option (list (list A)) :=
  match fuel with
  | O => None
  | S f =>
      if Nat.ltb w (length s)
      then option_map (cons (firstn w s)) (chunk_fuel f w (skipn w s))
      else Some (if Nat.ltb 0 (length s) then [s] else [])
  end.

Definition chunk (w : nat) (s : list A) : option (list (list A)) :=
  chunk_fuel (S (length s)) w s.
End Chunk.
