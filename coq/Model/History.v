(** Model of the package-level state of pkg/codegen across a sequence of Generate calls.

    Every package-level variable is classified (by the scanner, coq/Gen/Globals.v) by how
    Generate treats it:
      InitOnly                 never written after package initialisation
      ResetEveryCall           written unconditionally in the prologue of Generate, before any read
      ConditionalReset         written in the prologue only under a condition on the call
      WrittenDuringGeneration  written by code reachable from Generate other than the prologue
      SetterOnly               written only by functions Generate never calls
    [step] is one call: the prologue performs its writes (a call that fails early performs only
    those it reaches), then the rest of the generation reads the variables and the call. *)
From Coq Require Export List String Bool.
Export ListNotations.

Inductive gclass :=
  InitOnly | ResetEveryCall | ConditionalReset | WrittenDuringGeneration | SetterOnly.

Definition gclass_eqb (a b : gclass) : bool :=
  match a, b with
  | InitOnly, InitOnly | ResetEveryCall, ResetEveryCall | ConditionalReset, ConditionalReset
  | WrittenDuringGeneration, WrittenDuringGeneration | SetterOnly, SetterOnly => true
  | _, _ => false
  end.

(** The classes under which a variable cannot carry information from one call to the next. *)
Definition class_ok (c : gclass) : bool :=
  match c with InitOnly | ResetEveryCall | SetterOnly => true | _ => false end.

Section History.
Variables var val call out : Type.
Variable class : var -> gclass.
Variable reset : var -> call -> val.       (* what the prologue writes *)
Variable written : call -> var -> bool.    (* does this call reach that write? (early error return) *)
Variable complete : call -> bool.          (* does the call get past the prologue? *)
Variable cond : var -> call -> bool.       (* guard of a conditional write *)
Variable during : (var -> val) -> call -> var -> val. (* writes made by the rest of the generation *)
Variable gen : (var -> val) -> call -> out.
Variable err : call -> out.

Definition state := var -> val.

Definition prologue (s : state) (c : call) : state := fun v =>
  match class v with
  | InitOnly | SetterOnly => s v
  | ResetEveryCall => if written c v then reset v c else s v
  | ConditionalReset => if written c v && cond v c then reset v c else s v
  | WrittenDuringGeneration => s v
  end.

Definition epilogue (s : state) (c : call) : state := fun v =>
  match class v with
  | WrittenDuringGeneration => if complete c then during s c v else s v
  | _ => s v
  end.

Definition step (s : state) (c : call) : state * out :=
  let s1 := prologue s c in
  (epilogue s1 c, if complete c then gen s1 c else err c).

Definition run (s0 : state) (h : list call) : state := fold_left (fun s c => fst (step s c)) h s0.
End History.

(** Concrete instance used by the correspondence check: the trajectory of the response-type
    suffix (the one variable whose value the hook exposes) over a history of calls, each call
    given by its response-type-suffix option ("" = unset) and whether it reaches the write. *)
Definition suffix_call := (string * bool)%type.

Definition suffix_step (cl : gclass) (s : string) (c : suffix_call) : string :=
  let '(opt, reached) := c in
  match cl with
  | ResetEveryCall => if reached then (if String.eqb opt "" then "Response"%string else opt) else s
  | ConditionalReset => if reached && negb (String.eqb opt "") then opt else s
  | _ => s
  end.

Fixpoint suffix_trajectory (cl : gclass) (s : string) (h : list suffix_call) : list string :=
  match h with
  | [] => []
  | c :: h' => let s' := suffix_step cl s c in s' :: suffix_trajectory cl s' h'
  end.
