(** Model of pkg/codegen/filter.go and of the prologue of codegen.Generate
    (filter by tag, filter by operation id, then prune unless skip-prune). *)
From V Require Export Model.Prune.

Record filter_cfg := {
  f_include_tags : list string; f_exclude_tags : list string;
  f_include_ids : list string;  f_exclude_ids : list string;
  f_skip_prune : bool }.

(** operationHasTag *)
Definition has_tag (tags : list string) (o : operation) : bool :=
  existsb (fun t => string_in t tags) (o_tags o).

(** operationHasOperationID *)
Definition has_id (ids : list string) (o : operation) : bool := string_in (o_id o) ids.

(** operationsWithTags / operationsWithOperationIDs: every operation with
    [pred op == exclude] is set to nil; the path item itself stays. *)
Definition drop_ops (pred : operation -> bool) (exclude : bool) (p : pathitem) : pathitem :=
  {| p_path := p_path p; p_params := p_params p;
     p_ops := filter (fun o => negb (Bool.eqb (pred o) exclude)) (p_ops p) |}.

Definition nonempty {A} (l : list A) : bool := match l with [] => false | _ => true end.

Definition filter_pass (l : list string) (pred : list string -> operation -> bool)
           (exclude : bool) (ps : list pathitem) : list pathitem :=
  if nonempty l then map (drop_ops (pred l) exclude) ps else ps.

(** filterOperationsByTag: exclude pass, then include pass. *)
Definition filter_by_tag (c : filter_cfg) (ps : list pathitem) : list pathitem :=
  filter_pass (f_include_tags c) has_tag false (filter_pass (f_exclude_tags c) has_tag true ps).

Definition filter_by_id (c : filter_cfg) (ps : list pathitem) : list pathitem :=
  filter_pass (f_include_ids c) has_id false (filter_pass (f_exclude_ids c) has_id true ps).

Definition filter_doc (c : filter_cfg) (d : doc) : doc :=
  {| d_paths := filter_by_id c (filter_by_tag c (d_paths d)); d_comps := d_comps d |}.

(** Prologue of Generate. *)
Definition prepare (c : filter_cfg) (d : doc) : option doc :=
  let d' := filter_doc c d in if f_skip_prune c then Some d' else prune d'.

(** The specification: an operation is kept when it matches no exclusion and,
    if an inclusion list is given, matches it. *)
Definition keep (c : filter_cfg) (o : operation) : bool :=
  negb (has_tag (f_exclude_tags c) o)
  && (negb (nonempty (f_include_tags c)) || has_tag (f_include_tags c) o)
  && negb (has_id (f_exclude_ids c) o)
  && (negb (nonempty (f_include_ids c)) || has_id (f_include_ids c) o).

Definition spec_filter_paths (c : filter_cfg) (ps : list pathitem) : list pathitem :=
  map (fun p => {| p_path := p_path p; p_params := p_params p;
                   p_ops := filter (keep c) (p_ops p) |}) ps.

(** Observables compared with the implementation. *)
Definition op_keys (ps : list pathitem) : list (string * string) :=
  flat_map (fun p => map (fun o => (p_path p, o_method o)) (p_ops p)) ps.
