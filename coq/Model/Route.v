(** Model for C03: path templates, their translation to the seven router syntaxes, the order
    of path parameters in handler signatures, and the dispatch the generated router must
    implement.

    A template is a list of segments, each a literal or a variable occupying the whole segment
    (the shape pathParamRE handles and the only one OpenAPI path templating has). *)
From Coq Require Export List String Bool Arith.
Export ListNotations.
Local Open Scope string_scope.

Inductive seg := SLit (s : string) | SVar (v : string).

Definition template := list seg.

(** OrderedParamsFromUri *)
Fixpoint vars (t : template) : list string :=
  match t with
  | [] => []
  | SLit _ :: r => vars r
  | SVar v :: r => v :: vars r
  end.

Inductive flavour := Echo | Chi | Gin | Gorilla | StdHTTP | Fiber | Iris.

(** SwaggerUriTo<Flavour>Uri: ":name" for echo, gin, fiber, iris; "{name}" for chi, gorilla, std-http. *)
Definition render_var (fw : flavour) (v : string) : string :=
  match fw with
  | Echo | Gin | Fiber | Iris => ":" ++ v
  | Chi | Gorilla | StdHTTP => "{" ++ v ++ "}"
  end.

Definition render_seg (fw : flavour) (s : seg) : string :=
  match s with SLit l => l | SVar v => render_var fw v end.

Fixpoint render_with (f : seg -> string) (t : template) : string :=
  match t with
  | [] => ""
  | s :: r => "/" ++ f s ++ render_with f r
  end.

Definition openapi_path (t : template) : string :=
  render_with (fun s => match s with SLit l => l | SVar v => "{" ++ v ++ "}" end) t.
Definition translate (fw : flavour) (t : template) : string := render_with (render_seg fw) t.

(** SortParamsByPath: the declared path parameters, reordered to the order of the variables
    in the path; an error if the counts differ or a path variable is not declared. *)
Definition find_param {P} (name_of : P -> string) (n : string) (ps : list P) : option P :=
  find (fun p => String.eqb (name_of p) n) ps.

Fixpoint collect {P} (name_of : P -> string) (names : list string) (ps : list P) : option (list P) :=
  match names with
  | [] => Some []
  | n :: r =>
      match find_param name_of n ps, collect name_of r ps with
      | Some p, Some l => Some (p :: l)
      | _, _ => None
      end
  end.

Definition sort_params_by_path {P} (name_of : P -> string) (t : template) (declared : list P) : option (list P) :=
  if Nat.eqb (List.length (vars t)) (List.length declared) then collect name_of (vars t) declared else None.

(** Matching a concrete path (list of segments) against a template.  A template variable stands for a NON-EMPTY
    segment (a path parameter is required and has a value): /pets//toys/ball does not match /pets/{id}/toys/{toy}. *)
Fixpoint match_template (t : template) (path : list string) : option (list (string * string)) :=
  match t, path with
  | [], [] => Some []
  | SLit l :: t', s :: p' => if String.eqb l s then match_template t' p' else None
  | SVar v :: t', s :: p' =>
      if String.eqb s "" then None
      else match match_template t' p' with Some b => Some ((v, s) :: b) | None => None end
  | _, _ => None
  end.

Record route := { r_method : string; r_tmpl : template; r_op : string }.

(** [more_specific a b]: at the first segment where they differ in kind, [a] has the literal. *)
Fixpoint more_specific (a b : template) : bool :=
  match a, b with
  | SLit _ :: a', SLit _ :: b' => more_specific a' b'
  | SVar _ :: a', SVar _ :: b' => more_specific a' b'
  | SLit _ :: _, SVar _ :: _ => true
  | _, _ => false
  end.

(** The dispatch the statement asks for: among the routes whose method and template match,
    the one that is more specific than every other matching one. *)
Definition matches (m : string) (path : list string) (r : route) : bool :=
  String.eqb (r_method r) m && match match_template (r_tmpl r) path with Some _ => true | None => false end.

Fixpoint best (cands : list route) : option route :=
  match cands with
  | [] => None
  | r :: rest =>
      match best rest with
      | None => Some r
      | Some r' => if more_specific (r_tmpl r') (r_tmpl r) then Some r' else Some r
      end
  end.

Definition strip_prefix (base path : list string) : option (list string) :=
  let fix go b p :=
    match b, p with
    | [], _ => Some p
    | x :: b', y :: p' => if String.eqb x y then go b' p' else None
    | _, [] => None
    end in go base path.

(** What the generated server does with a request: the operation whose handler runs and the
    arguments it receives, positionally, in the order of its signature (= path order). *)
Definition dispatch (base : list string) (rs : list route) (m : string) (path : list string)
  : option (string * list string) :=
  match strip_prefix base path with
  | None => None
  | Some p =>
      match best (filter (matches m p) rs) with
      | None => None
      | Some r =>
          match match_template (r_tmpl r) p with
          | Some b => Some (r_op r, map snd b)
          | None => None
          end
      end
  end.

(** Arguments by name: what the wrapper extracts for each variable of the template. *)
Definition lookup (b : list (string * string)) (v : string) : option string :=
  match find (fun kv => String.eqb (fst kv) v) b with Some kv => Some (snd kv) | None => None end.
