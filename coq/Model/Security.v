(** Model for C18: which scopes a generated server wrapper publishes for an operation, and
    what each client-side security provider does to a request. *)
From Coq Require Export List String Bool Arith.
From V Require Export Model.Det.
Export ListNotations.
Local Open Scope string_scope.

(** One security requirement object: scheme name -> scopes (a Go map: iteration order free). *)
Definition requirement := list (string * list string).

(** DescribeSecurityDefinition: requirement objects in document order, schemes of one object in
    sorted order. *)
Definition lookup_scopes (r : requirement) (k : string) : list string :=
  match find (fun p => String.eqb (fst p) k) r with Some p => snd p | None => [] end.

Definition describe (rs : list requirement) : list (string * list string) :=
  flat_map (fun r => map (fun k => (k, lookup_scopes r k)) (sorted_map_keys r)) rs.

(** Operation-level requirements replace the global ones; an empty list clears them. *)
Definition effective (global : list requirement) (op : option (list requirement)) : list requirement :=
  match op with Some l => l | None => global end.

(** The wrapper: for each definition in order, context[key(scheme)] := scopes. *)
Definition context := list (string * list string).
Definition ctx_set (c : context) (k : string) (v : list string) : context :=
  (k, v) :: filter (fun p => negb (String.eqb (fst p) k)) c.
Definition ctx_get (c : context) (k : string) : option (list string) :=
  match find (fun p => String.eqb (fst p) k) c with Some p => Some (snd p) | None => None end.

Definition publish (key_of : string -> string) (defs : list (string * list string)) : context :=
  fold_left (fun c d => ctx_set c (key_of (fst d)) (snd d)) defs [].

Definition published (key_of : string -> string) (global : list requirement) (op : option (list requirement)) : context :=
  publish key_of (describe (effective global op)).

(** * Client-side providers on an abstract request *)
Record request := { headers : list (string * list string);   (* canonical name -> values *)
                    query : list (string * string);
                    cookies : list (string * string) }.

Definition hdr_set (h : list (string * list string)) (k v : string) :=
  (k, [v]) :: filter (fun p => negb (String.eqb (fst p) k)) h.
Definition hdr_add (h : list (string * list string)) (k v : string) :=
  if existsb (fun p => String.eqb (fst p) k) h
  then map (fun p => if String.eqb (fst p) k then (fst p, (snd p ++ [v])%list) else p) h
  else (h ++ [(k, [v])])%list.
Definition hdr_get (h : list (string * list string)) (k : string) : list string :=
  match find (fun p => String.eqb (fst p) k) h with Some p => snd p | None => [] end.

Inductive provider :=
| Basic (encoded : string)          (* "Basic " ++ base64(user:pass), computed by net/http *)
| Bearer (token : string)
| ApiKeyHeader (name key : string)  (* name already canonicalised *)
| ApiKeyQuery (name key : string)
| ApiKeyCookie (name key : string).

Definition intercept (p : provider) (r : request) : request :=
  match p with
  | Basic enc => {| headers := hdr_set (headers r) "Authorization" enc; query := query r; cookies := cookies r |}
  | Bearer t => {| headers := hdr_set (headers r) "Authorization" ("Bearer " ++ t); query := query r; cookies := cookies r |}
  | ApiKeyHeader n k => {| headers := hdr_add (headers r) n k; query := query r; cookies := cookies r |}
  | ApiKeyQuery n k => {| headers := headers r; query := (query r ++ [(n, k)])%list; cookies := cookies r |}
  | ApiKeyCookie n k => {| headers := headers r; query := query r; cookies := (cookies r ++ [(n, k)])%list |}
  end.

(** * Who finds the published scopes.  The wrappers of chi, gorilla, std-http and gin run the per-operation middlewares
      themselves, INSIDE the wrapper; an authenticating middleware reads the scopes from the request context.  A wrapper
      is the order of three things in its text: the statement that publishes the scopes, the point where the middleware
      chain is entered, and the call of the user's handler (innermost). *)
Inductive wtok := KPublish | KChain | KHandler.
(** the context as the observers find it: everything published before the observer is reached *)
Fixpoint seen_by (who : wtok) (text : list wtok) (published_so_far : bool) : option bool :=
  match text with
  | [] => None
  | t :: r => if match t, who with KChain, KChain | KHandler, KHandler => true | _, _ => false end then Some published_so_far
              else seen_by who r (published_so_far || match t with KPublish => true | _ => false end)
  end.
Definition publishes_first (text : list wtok) : bool :=
  match seen_by KChain text false, seen_by KHandler text false with
  | Some true, Some true => true
  | _, _ => false
  end.
