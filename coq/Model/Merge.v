(** Model for C10: mergeOpenapiSchemas / mergeSchemas / mergeAllOf (pkg/codegen/merge_schemas.go)
    on the attributes the property talks about: type, format, required, properties,
    additionalProperties, nullable.  [None] = the merge is rejected with an error. *)
From Coq Require Export List String Bool.
Export ListNotations.
Local Open Scope string_scope.

Inductive addl := AAbsent | ATrue | AFalse | ASchema (id : string).

Record leaf := {
  l_type : option string; l_format : string; l_required : list string;
  l_props : list (string * string);          (* property name -> identity of its schema *)
  l_addl : addl; l_nullable : bool }.

Fixpoint put (k v : string) (m : list (string * string)) : list (string * string) :=
  match m with
  | [] => [(k, v)]
  | (k', v') :: r => if String.eqb k' k then (k, v) :: r else (k', v') :: put k v r
  end.

(** result.Properties: all of s1's, then all of s2's (a later one replaces an earlier one). *)
Definition merge_props (a b : list (string * string)) : list (string * string) :=
  fold_left (fun m kv => put (fst kv) (snd kv) m) b (fold_left (fun m kv => put (fst kv) (snd kv) m) a []).

Definition merge_addl (a b : addl) : option addl :=
  match a, b with
  | AFalse, _ | _, AFalse => Some AFalse
  | ASchema _, ASchema _ => None
  | ASchema x, _ => Some (ASchema x)
  | _, ASchema y => Some (ASchema y)
  | AAbsent, AAbsent => Some AAbsent
  | _, _ => Some ATrue
  end.

Definition types_conflict (a b : option string) : bool :=
  match a, b with Some x, Some y => negb (String.eqb x y) | _, _ => false end.

Definition merge2 (a b : leaf) : option leaf :=
  if types_conflict (l_type a) (l_type b) then None
  else if negb (String.eqb (l_format a) (l_format b)) then None
  else if negb (Bool.eqb (l_nullable a) (l_nullable b)) then None
  else match merge_addl (l_addl a) (l_addl b) with
       | None => None
       | Some ad =>
           Some {| l_type := l_type a;                       (* the first operand's type *)
                   l_format := l_format a;
                   l_required := l_required a ++ l_required b;
                   l_props := merge_props (l_props a) (l_props b);
                   l_addl := ad; l_nullable := l_nullable a |}
       end.

(** mergeSchemas for n > 1 / mergeAllOf: fold from the left. *)
Fixpoint merge_from (acc : leaf) (rest : list leaf) : option leaf :=
  match rest with
  | [] => Some acc
  | m :: r => match merge2 acc m with Some x => merge_from x r | None => None end
  end.

Definition merge_all (ms : list leaf) : option leaf :=
  match ms with [] => None | m :: r => merge_from m r end.

(** Nesting: a schema with an allOf is replaced by the merge of its members — its own
    properties are not consulted. *)
Inductive tree := Node (own : leaf) (members : list tree).

Fixpoint traverse_opt {A} (l : list (option A)) : option (list A) :=
  match l with
  | [] => Some []
  | Some x :: r => match traverse_opt r with Some xs => Some (x :: xs) | None => None end
  | None :: _ => None
  end.

Fixpoint flat (t : tree) : option leaf :=
  match t with
  | Node own [] => Some own
  | Node own ms =>
      match traverse_opt ((fix go (l : list tree) := match l with [] => [] | x :: r => flat x :: go r end) ms) with
      | Some ls => merge_all ls
      | None => None
      end
  end.

Definition keys (l : leaf) : list string := map fst (l_props l).

(** * The legacy merge (mergeSchemasV1, compatibility.old-merge-schemas): what it decides about additional properties.
    A member either has none ([None]) or has them with a value type ([Some t], the type's declaration text).  The
    aggregate starts without; the first member that has them switches them on with its type, later members that have
    them must have the same type (else the composition is rejected), members without leave the aggregate alone.
    State: [None] = rejected, [Some agg] = aggregate so far. *)
Definition v1_step (acc : option (option string)) (m : option string) : option (option string) :=
  match acc with
  | None => None
  | Some agg =>
      match m with
      | None => Some agg
      | Some t => match agg with
                  | None => Some (Some t)
                  | Some t0 => if String.eqb t t0 then Some agg else None
                  end
      end
  end.
Definition v1_addl (ms : list (option string)) : option (option string) := fold_left v1_step ms (Some None).

(** the flattened test: a member without additional properties takes the aggregate's away *)
Definition v1_step_flat (acc : option (option string)) (m : option string) : option (option string) :=
  match acc with
  | None => None
  | Some agg =>
      match m, agg with
      | Some t, Some t0 => if String.eqb t t0 then Some agg else None
      | _, _ => Some m
      end
  end.
Definition v1_addl_flat (ms : list (option string)) : option (option string) := fold_left v1_step_flat ms (Some None).

(** * oneOf / anyOf of the members: result.OneOf = append(s1.OneOf, s2.OneOf...) (and the same for anyOf), folded over
      the members.  [alts_merge_dropping] is the variant that builds the list only when the next member has alternatives of
      its own (and so forgets what was collected when it has none). *)
Definition alts_merge (ms : list (list string)) : list string := fold_left (fun acc m => (acc ++ m)%list) ms [].
Definition alts_merge_dropping (ms : list (list string)) : list string :=
  fold_left (fun acc m => match m with [] => [] | _ => (acc ++ m)%list end) ms [].
