(** The OAS 3.0.3 "Style Values / Style Examples" table, written from the specification
    (RFC 6570 operators), for the styles the pinned runtime supports: simple, label, matrix
    (path / header / cookie positions: one string) and form, deepObject (query positions:
    decoded name/value pairs).  Shares no code with the implementation. *)
From Coq Require Export List String Ascii Bool Arith.
Export ListNotations.
Local Open Scope string_scope.

Inductive value :=
| VPrim (a : string)
| VArr (l : list string)
| VObj (l : list (string * string)).

Inductive shape := SPrim | SArr | SObj.
Inductive style := Simple | Label | Matrix | Form | DeepObject.
Inductive location := LPath | LQuery | LHeader | LCookie.

(** Per-location defaults (OAS 3.0.3, Parameter Object: style / explode). *)
Definition default_style (l : location) : style :=
  match l with LPath | LHeader => Simple | LQuery | LCookie => Form end.
Definition default_explode (s : style) : bool :=
  match s with Form => true | _ => false end.

(** * Strings *)

Fixpoint join (sep : string) (l : list string) : string :=
  match l with
  | [] => ""
  | [x] => x
  | x :: r => x ++ sep ++ join sep r
  end.

(** split on one character *)
Fixpoint split_on (c : ascii) (s : string) : list string :=
  match s with
  | EmptyString => [""]
  | String a r =>
      if Ascii.eqb a c then "" :: split_on c r
      else match split_on c r with
           | [] => [String a ""]
           | x :: xs => String a x :: xs
           end
  end.

Fixpoint contains (c : ascii) (s : string) : bool :=
  match s with
  | EmptyString => false
  | String a r => Ascii.eqb a c || contains c r
  end.

Definition sep1 (c : ascii) : string := String c "".

(** first occurrence *)
Fixpoint split_once (c : ascii) (s : string) : option (string * string) :=
  match s with
  | EmptyString => None
  | String a r =>
      if Ascii.eqb a c then Some ("", r)
      else match split_once c r with
           | Some (k, v) => Some (String a k, v)
           | None => None
           end
  end.

Fixpoint pair_up (l : list string) : option (list (string * string)) :=
  match l with
  | [] => Some []
  | k :: v :: r => match pair_up r with Some p => Some ((k, v) :: p) | None => None end
  | _ => None
  end.

Definition flat (l : list (string * string)) : list string := flat_map (fun kv => [fst kv; snd kv]) l.

Fixpoint traverse {A B} (f : A -> option B) (l : list A) : option (list B) :=
  match l with
  | [] => Some []
  | x :: r => match f x, traverse f r with Some y, Some ys => Some (y :: ys) | _, _ => None end
  end.

Definition kv (c : ascii) (p : string * string) : string := fst p ++ sep1 c ++ snd p.

(** * The table: single-string positions *)

(** Body without the style's prefix: items separated by [sep]; object members either flattened
    k,v,k,v (explode=false) or k=v (explode=true). *)
Definition body (sep : ascii) (explode : bool) (v : value) : string :=
  match v with
  | VPrim a => a
  | VArr l => join (sep1 sep) l
  | VObj l => if explode then join (sep1 sep) (map (kv "=") l) else join (sep1 sep) (flat l)
  end.

Definition parse_body (sep : ascii) (explode : bool) (sh : shape) (s : string) : option value :=
  match sh with
  | SPrim => Some (VPrim s)
  | SArr => Some (VArr (split_on sep s))
  | SObj =>
      if explode then option_map VObj (traverse (split_once "=") (split_on sep s))
      else option_map VObj (pair_up (split_on sep s))
  end.

Definition comma : ascii := ",".
Definition dot : ascii := ".".
Definition semi : ascii := ";".

(** simple:  a | a,b,c | k,v,k,v | k=v,k=v *)
Definition ser_simple (explode : bool) (v : value) : string := body comma explode v.
Definition parse_simple (explode : bool) (sh : shape) (s : string) : option value :=
  parse_body comma explode sh s.

(** label:  .a | .a,b,c | .a.b.c | .k,v,k,v | .k=v.k=v *)
Definition label_sep (explode : bool) : ascii := if explode then dot else comma.
Definition ser_label (explode : bool) (v : value) : string := "." ++ body (label_sep explode) explode v.
Definition parse_label (explode : bool) (sh : shape) (s : string) : option value :=
  match s with
  | String "." r => parse_body (label_sep explode) explode sh r
  | _ => None
  end.

(** matrix:  ;n=a | ;n=a,b,c | ;n=a;n=b | ;n=k,v,k,v | ;k=v;k=v *)
Definition ser_matrix (explode : bool) (name : string) (v : value) : string :=
  match v, explode with
  | VArr l, true => join "" (map (fun a => ";" ++ name ++ "=" ++ a) l)
  | VObj l, true => join "" (map (fun p => ";" ++ kv "=" p) l)
  | _, _ => ";" ++ name ++ "=" ++ body comma false v
  end.

(** remove a prefix *)
Fixpoint strip_prefix (p s : string) : option string :=
  match p, s with
  | EmptyString, _ => Some s
  | String a p', String b s' => if Ascii.eqb a b then strip_prefix p' s' else None
  | _, _ => None
  end.

Definition parse_matrix (explode : bool) (name : string) (sh : shape) (s : string) : option value :=
  match s with
  | String ";" r =>
      match sh, explode with
      | SArr, true => option_map VArr (traverse (strip_prefix (name ++ "=")) (split_on semi r))
      | SObj, true => option_map VObj (traverse (split_once "=") (split_on semi r))
      | _, _ => match strip_prefix (name ++ "=") r with
                | Some b => parse_body comma false sh b
                | None => None
                end
      end
  | _ => None
  end.

(** * The table: query positions (decoded pairs, in order) *)
Definition ser_query (st : style) (explode : bool) (name : string) (v : value) : list (string * string) :=
  match st, v with
  | DeepObject, VObj l => map (fun p => (name ++ "[" ++ fst p ++ "]", snd p)) l
  | _, VPrim a => [(name, a)]
  | _, VArr l => if explode then map (fun a => (name, a)) l else [(name, join "," l)]
  | _, VObj l => if explode then l else [(name, join "," (flat l))]
  end.

Definition parse_query (st : style) (explode : bool) (name : string) (sh : shape)
           (q : list (string * string)) : option value :=
  let mine := filter (fun p => String.eqb (fst p) name) q in
  match st, sh with
  | DeepObject, SObj =>
      let pre := name ++ "[" in
      Some (VObj (flat_map (fun p =>
        if String.prefix pre (fst p)
        then match split_once "]" (substring (String.length pre) (String.length (fst p)) (fst p)) with
             | Some (k, _) => [(k, snd p)]
             | None => []
             end
        else []) q))
  | _, SPrim => match mine with [p] => Some (VPrim (snd p)) | _ => None end
  | _, SArr => if explode then Some (VArr (map snd mine))
               else match mine with [p] => Some (VArr (split_on comma (snd p))) | _ => None end
  | _, SObj => if explode then Some (VObj q)
               else match mine with [p] => option_map VObj (pair_up (split_on comma (snd p))) | _ => None end
  end.

(** * Values the style represents unambiguously: no delimiter of the style inside an atom;
      arrays and objects non-empty (an empty list and a list holding one empty string have the
      same serialisation). *)
Definition atoms (v : value) : list string :=
  match v with VPrim a => [a] | VArr l => l | VObj l => flat l end.

Definition clean (cs : list ascii) (v : value) : Prop :=
  forall a, In a (atoms v) -> forall c, In c cs -> contains c a = false.

Definition nonempty (v : value) : Prop :=
  match v with VPrim _ => True | VArr l => l <> [] | VObj l => l <> [] end.

Definition shape_of (v : value) : shape :=
  match v with VPrim _ => SPrim | VArr _ => SArr | VObj _ => SObj end.
