(** Model for C11: how enum values become named constants.

    SanitizeEnumNames (pkg/codegen/utils.go) and the enum branch of GenerateGoSchema:
      stage 1  drop entries whose *name* was already seen (names are x-enum-varnames /
               x-enumNames if given, else the values)
      stage 2  key := norm name; a key seen c > 0 times before becomes key ++ itoa c; store in a map
      stage 3  for each entry of that map (iteration order arbitrary): store under norm2 key
      GetValues: prefix the type name when conflicts were detected
    [norm] = SanitizeGoIdentity . SchemaNameToTypeName and [norm2] = SchemaNameToTypeName are
    parameters: the theorems hold for every name normaliser; the correspondence check feeds the
    observed tables of the real functions.  Storing into a map is [put]: a later entry with the
    same key replaces the earlier one. *)
From Coq Require Export List String Ascii Bool Arith.
Export ListNotations.
Local Open Scope string_scope.

Section Maps.
Context {V : Type}.
Fixpoint put (k : string) (v : V) (m : list (string * V)) : list (string * V) :=
  match m with
  | [] => [(k, v)]
  | (k', v') :: r => if String.eqb k' k then (k, v) :: r else (k', v') :: put k v r
  end.
Definition build_from (acc l : list (string * V)) : list (string * V) :=
  fold_left (fun m kv => put (fst kv) (snd kv) m) l acc.
Definition build (l : list (string * V)) := build_from [] l.
End Maps.

(** decimal rendering of a count (strconv.Itoa) *)
Definition digit_char (n : nat) : ascii := ascii_of_nat (48 + n).
Fixpoint itoa_fuel (fuel n : nat) (acc : string) : string :=
  match fuel with
  | O => acc
  | S f => let acc' := String (digit_char (n mod 10)) acc in
           if Nat.ltb n 10 then acc' else itoa_fuel f (n / 10) acc'
  end.
Definition itoa (n : nat) : string := itoa_fuel (S n) n "".

(** stage 1 *)
Fixpoint stage1 (seen : list string) (l : list (string * string)) : list (string * string) :=
  match l with
  | [] => []
  | (n, v) :: r => if existsb (String.eqb n) seen then stage1 seen r else (n, v) :: stage1 (n :: seen) r
  end.

(** stage 2: the keys, in order *)
Definition count_of (s : string) (counts : list (string * nat)) : nat :=
  match find (fun p => String.eqb (fst p) s) counts with Some p => snd p | None => 0 end.
Fixpoint stage2_keys (norm : string -> string) (counts : list (string * nat)) (names : list string) : list string :=
  match names with
  | [] => []
  | n :: r =>
      let s := norm n in
      let c := count_of s counts in
      (if Nat.eqb c 0 then s else s ++ itoa c) :: stage2_keys norm (put s (S c) counts) r
  end.

Definition stage2 (norm : string -> string) (l : list (string * string)) : list (string * string) :=
  build (combine (stage2_keys norm [] (map fst l)) (map snd l)).

(** stage 3, iterating the stage-2 map in the order [order] (a permutation of it) *)
Definition stage3 (norm2 : string -> string) (order : list (string * string)) : list (string * string) :=
  build (map (fun kv => (norm2 (fst kv), snd kv)) order).

Definition enum_constants (norm norm2 : string -> string) (names values : list string) : list (string * string) :=
  stage3 norm2 (stage2 norm (stage1 [] (combine names values))).

(** GetValues *)
Definition uc_first (uc : ascii -> ascii) (s : string) : string :=
  match s with EmptyString => "" | String a r => String (uc a) r end.
Definition get_values (prefix : bool) (type_name : string) (uc : string -> string) (m : list (string * string)) :=
  if prefix then map (fun kv => (type_name ++ uc (fst kv), snd kv)) m else m.

(** * Rendering: the constants template pastes the value between two double quotes.
      What the Go compiler reads back: an interpreted string literal with the escapes
      backslash-t, backslash-n, backslash-backslash, backslash-quote. *)
Fixpoint unquote_body (s : string) : option string :=
  match s with
  | EmptyString => None                       (* unterminated *)
  | String "034" EmptyString => Some ""       (* closing quote at the very end *)
  | String "034" _ => None                    (* a quote in the middle ends the literal early: syntax error *)
  | String "092" (String c r) =>
      match (if Ascii.eqb c "t" then Some "009"%char else if Ascii.eqb c "n" then Some "010"%char
             else if Ascii.eqb c "092" then Some "092"%char else if Ascii.eqb c "034" then Some "034"%char else None),
            unquote_body r with
      | Some x, Some t => Some (String x t)
      | _, _ => None
      end
  | String "092" EmptyString => None
  | String "010" _ => None                    (* newline inside an interpreted literal *)
  | String a r => match unquote_body r with Some t => Some (String a t) | None => None end
  end.
Definition go_unquote (lit : string) : option string :=
  match lit with String "034" r => unquote_body r | _ => None end.
Definition render (v : string) : string := String "034" (v ++ String "034" "").

Fixpoint literal_safe (v : string) : bool :=
  match v with
  | EmptyString => true
  | String a r => negb (Ascii.eqb a "034") && negb (Ascii.eqb a "092") && negb (Ascii.eqb a "010") && literal_safe r
  end.

(** After the repair (constants.tmpl uses %q): the value is quoted as strconv.Quote does for
    printable text, tab and newline. *)
Fixpoint quote_body (v : string) : string :=
  match v with
  | EmptyString => String "034" ""
  | String a r =>
      if Ascii.eqb a "034" then String "092" (String "034" (quote_body r))
      else if Ascii.eqb a "092" then String "092" (String "092" (quote_body r))
      else if Ascii.eqb a "010" then String "092" (String "n" (quote_body r))
      else if Ascii.eqb a "009" then String "092" (String "t" (quote_body r))
      else String a (quote_body r)
  end.
Definition quote (v : string) : string := String "034" (quote_body v).

(** * The old-enum-conflicts arm of GenerateGoSchema: the name of the constant is the path of the schema joined
      with the key; the key of the empty VALUE is replaced by Empty whatever the earlier stages called it.
      [pathname] = SchemaNameToTypeName . PathToTypeName (path ++ [.]) is a parameter. *)
Definition old_key (kv : string * string) : string :=
  if String.eqb (snd kv) "" then "Empty" else fst kv.
Definition stage3_old (pathname : string -> string) (order : list (string * string)) : list (string * string) :=
  build (map (fun kv => (pathname (old_key kv), snd kv)) order).
Definition enum_constants_old (norm pathname : string -> string) (names values : list string) : list (string * string) :=
  stage3_old pathname (stage2 norm (stage1 [] (combine names values))).
