(** Model of the identifier machinery of pkg/codegen/utils.go (C01): ToCamelCase, ToCamelCaseWithDigits,
    typeNamePrefix, SchemaNameToTypeName, SanitizeGoIdentity and the de-duplication loop of GenerateTypes
    (codegen.go).  A rune is its code point together with the facts the Go code asks the unicode package
    for: its class and its upper-case image.  The unicode tables themselves are not modelled: the harness
    supplies these facts for every rune of every case, and checks the two assumptions [wf_rune] makes. *)
From Coq Require Import List NArith Bool String Ascii.
Import ListNotations.
Local Open Scope N_scope.

Inductive cls := Upper | Lower | Digit | OLetter | ONumber | Other.

Definition cls_eqb (a b : cls) : bool :=
  match a, b with
  | Upper, Upper | Lower, Lower | Digit, Digit | OLetter, OLetter | ONumber, ONumber | Other, Other => true
  | _, _ => false
  end.

(** an output rune: code point and class *)
Definition orune := (N * cls)%type.
(** an input rune: code point, class, and its image under unicode.ToUpper *)
Record rune := { code : N; cl : cls; up : orune }.

Definition out (r : rune) : orune := (code r, cl r).

Definition is_letter (c : cls) : bool := match c with Upper | Lower | OLetter => true | _ => false end.
Definition is_number (c : cls) : bool := match c with Digit | ONumber => true | _ => false end.

(** separators of ToCamelCase: -#@!$&=.+:;_~ (){}[] *)
Definition sep_codes : list N := [45; 35; 64; 33; 36; 38; 61; 46; 43; 58; 59; 95; 126; 32; 40; 41; 123; 125; 91; 93].
Definition is_sep (c : N) : bool := existsb (N.eqb c) sep_codes.

(** strings.Trim(s, " ") *)
Fixpoint trim_left (s : list rune) : list rune :=
  match s with
  | r :: t => if N.eqb (code r) 32 then trim_left t else s
  | [] => []
  end.
Definition trim (s : list rune) : list rune := rev (trim_left (rev (trim_left s))).

(** the loop of ToCamelCase *)
Fixpoint camel_loop (cap : bool) (s : list rune) : list orune :=
  match s with
  | [] => []
  | v :: t =>
      let here :=
        match cl v with
        | Upper | Digit => [out v]
        | Lower => if cap then [up v] else [out v]
        | _ => []
        end in
      (here ++ camel_loop (is_sep (code v)) t)%list
  end.
Definition camel (s : list rune) : list orune := camel_loop true (trim s).

(** the loop of ToCamelCaseWithDigits (no trimming; a digit capitalises what follows) *)
Fixpoint camel_digits_loop (cap : bool) (s : list rune) : list orune :=
  match s with
  | [] => []
  | v :: t =>
      match cl v with
      | Upper => out v :: camel_digits_loop false t
      | Digit => out v :: camel_digits_loop true t
      | Lower => (if cap then up v else out v) :: camel_digits_loop false t
      | _ => camel_digits_loop true t
      end
  end.
Definition camel_digits (s : list rune) : list orune := camel_digits_loop true s.

(** ASCII words the prefix is made of *)
Definition ocode (a : ascii) : orune :=
  let n := N_of_ascii a in
  (n, if (65 <=? n) && (n <=? 90) then Upper else if (97 <=? n) && (n <=? 122) then Lower
      else if (48 <=? n) && (n <=? 57) then Digit else Other).
Fixpoint word (s : string) : list orune :=
  match s with EmptyString => [] | String a r => ocode a :: word r end.

Definition prefix_word (c : N) : option string :=
  if N.eqb c 45 then Some "Minus"%string else if N.eqb c 43 then Some "Plus"%string
  else if N.eqb c 38 then Some "And"%string else if N.eqb c 124 then Some "Or"%string
  else if N.eqb c 126 then Some "Tilde"%string else if N.eqb c 61 then Some "Equal"%string
  else if N.eqb c 35 then Some "Hash"%string else if N.eqb c 46 then Some "Dot"%string
  else if N.eqb c 42 then Some "Asterisk"%string else if N.eqb c 94 then Some "Caret"%string
  else if N.eqb c 37 then Some "Percent"%string else None.

(** typeNamePrefix: [single] says the whole name is one byte long (only then does '$' give DollarSign) *)
Fixpoint prefix_loop (single : bool) (acc : list orune) (s : list rune) : list orune :=
  match s with
  | [] => acc
  | r :: t =>
      if N.eqb (code r) 36 then (if single then word "DollarSign" else prefix_loop single acc t)
      else match prefix_word (code r) with
           | Some w => prefix_loop single (acc ++ word w)%list t
           | None => match acc, cl r with
                     | [], Digit => word "N"
                     | _, _ => acc
                     end
           end
  end.
Definition type_prefix (s : list rune) : list orune :=
  match s with
  | [] => word "Empty"
  | [_] => prefix_loop true [] s
  | _ => prefix_loop false [] s
  end.

(** SchemaNameToTypeName under a normaliser *)
Definition type_name (norm : list rune -> list orune) (s : list rune) : list orune :=
  (type_prefix s ++ norm s)%list.

(** * Go identifiers *)
Definition go_letter (r : orune) : bool := is_letter (snd r) || N.eqb (fst r) 95.
Definition go_digit (r : orune) : bool := cls_eqb (snd r) Digit.
Definition ident_shape (l : list orune) : bool :=
  match l with
  | [] => false
  | r :: t => go_letter r && forallb (fun x => go_letter x || go_digit x) t
  end.

Fixpoint codes_of (s : string) : list N :=
  match s with EmptyString => [] | String a r => N_of_ascii a :: codes_of r end.
Fixpoint codes_eqb (a b : list N) : bool :=
  match a, b with
  | [], [] => true
  | x :: a', y :: b' => N.eqb x y && codes_eqb a' b'
  | _, _ => false
  end.
Definition keywords : list (list N) := map codes_of
  ["break"; "case"; "chan"; "const"; "continue"; "default"; "defer"; "else"; "fallthrough"; "for"; "func"; "go";
   "goto"; "if"; "import"; "interface"; "map"; "package"; "range"; "return"; "select"; "struct"; "switch"; "type"; "var"]%string.
Definition predeclared : list (list N) := map codes_of
  ["bool"; "byte"; "complex64"; "complex128"; "error"; "float32"; "float64"; "int"; "int8"; "int16"; "int32"; "int64";
   "rune"; "string"; "uint"; "uint8"; "uint16"; "uint32"; "uint64"; "uintptr"; "true"; "false"; "iota"; "nil";
   "append"; "cap"; "close"; "complex"; "copy"; "delete"; "imag"; "len"; "make"; "new"; "panic"; "print"; "println";
   "real"; "recover"]%string.
Definition mem_codes (l : list N) (set : list (list N)) : bool := existsb (codes_eqb l) set.
Definition is_keyword (l : list orune) : bool := mem_codes (map fst l) keywords.
Definition is_predeclared (l : list orune) : bool := mem_codes (map fst l) predeclared.

(** a valid Go identifier that can be declared and used freely: shape, no keyword *)
Definition valid_ident (l : list orune) : bool := ident_shape l && negb (is_keyword l).

(** * SanitizeGoIdentity *)
Definition underscore : orune := (95, Other).
(** isValidRuneForGoID *)
Definition valid_rune (first : bool) (r : orune) : bool :=
  if first && is_number (snd r) then false
  else is_letter (snd r) || N.eqb (fst r) 95 || is_number (snd r).
Fixpoint sanitize_loop (first : bool) (s : list orune) : list orune :=
  match s with
  | [] => []
  | r :: t => (if valid_rune first r then r else underscore) :: sanitize_loop false t
  end.
Definition sanitize (s : list orune) : list orune :=
  let l := sanitize_loop true s in
  if is_keyword l || is_predeclared l then underscore :: l else l.

(** IsGoIdentity / IsValidGoIdentity exactly as written (IsGoIdentity ends with "return IsGoKeyword(str)") *)
Fixpoint all_valid (first : bool) (s : list orune) : bool :=
  match s with [] => true | r :: t => valid_rune first r && all_valid false t end.
Definition is_go_identity (s : list orune) : bool := all_valid true s && is_keyword s.
Definition is_valid_go_identity (s : list orune) : bool := negb (is_go_identity s) && negb (is_predeclared s).
(** the condition under which SanitizeGoIdentity panics *)
Definition sanitize_panics (s : list orune) : bool := negb (is_valid_go_identity (sanitize s)).

(** Well-formed runes (what the theorems assume of the unicode tables; evaluated on every rune of every case) *)
Definition alnum (c : cls) : bool := is_letter c || is_number c.
Definition wf_runeb (r : rune) : bool :=
  (if cls_eqb (cl r) Lower then is_letter (snd (up r)) else true) &&
  (if alnum (cl r) then negb (is_sep (code r)) && negb (N.eqb (code r) 36) &&
                        match prefix_word (code r) with None => true | Some _ => false end
   else true).

(** * The de-duplication loop of GenerateTypes: names and definitions are numbered by the harness;
      two definitions are equivalent iff they carry the same number *)
Local Close Scope N_scope.
Fixpoint lookup (n : nat) (seen : list (nat * nat)) : option nat :=
  match seen with
  | [] => None
  | (m, d) :: t => if Nat.eqb n m then Some d else lookup n t
  end.
Fixpoint dedup_from (seen : list (nat * nat)) (l : list (nat * nat)) : option (list (nat * nat)) :=
  match l with
  | [] => Some []
  | (n, d) :: t =>
      match lookup n seen with
      | Some d' => if Nat.eqb d d' then dedup_from seen t else None
      | None => option_map (cons (n, d)) (dedup_from ((n, d) :: seen) t)
      end
  end.
Definition dedup (l : list (nat * nat)) : option (list (nat * nat)) := dedup_from [] l.

(** * The rename chain of an enum constant (C11): SchemaNameToTypeName, SanitizeGoIdentity, SchemaNameToTypeName
      again, on ASCII names (the classes and upper-case forms of ASCII are written out) *)
Local Open Scope N_scope.
Definition ascii_rune (c : N) : rune :=
  if (65 <=? c) && (c <=? 90) then {| code := c; cl := Upper; up := (c, Upper) |}
  else if (97 <=? c) && (c <=? 122) then {| code := c; cl := Lower; up := (c - 32, Upper) |}
  else if (48 <=? c) && (c <=? 57) then {| code := c; cl := Digit; up := (c, Digit) |}
  else {| code := c; cl := Other; up := (c, Other) |}.
Definition ascii_runes (s : string) : list rune := map ascii_rune (codes_of s).
Definition enum_name_chain (s : string) : list orune :=
  type_name camel (map (fun r => ascii_rune (fst r)) (sanitize (type_name camel (ascii_runes s)))).
Local Close Scope N_scope.
