(** Model of encoding/base64's StdEncoding (RFC 4648, with padding), which GenerateInlinedSpec uses to make the gzipped
    document a string and the generated decodeSpec uses to read it back.  Bytes and characters are numbers ([N]): a byte is
    below 256, a character is its code.  [encode] groups three bytes into four sextets; a tail of one or two bytes gives two
    or three sextets and '=' padding.  [decode] is the inverse reading, [None] on anything that is no encoding. *)
From Coq Require Export List NArith Bool.
Export ListNotations.
Local Open Scope N_scope.
Local Open Scope bool_scope.

(** the alphabet: A-Z a-z 0-9 + / *)
Definition char_of (s : N) : N :=
  if s <? 26 then 65 + s else if s <? 52 then 97 + (s - 26) else if s <? 62 then 48 + (s - 52)
  else if s =? 62 then 43 else 47.
Definition sextet_of (c : N) : option N :=
  if (65 <=? c) && (c <=? 90) then Some (c - 65)
  else if (97 <=? c) && (c <=? 122) then Some (c - 97 + 26)
  else if (48 <=? c) && (c <=? 57) then Some (c - 48 + 52)
  else if c =? 43 then Some 62 else if c =? 47 then Some 63 else None.
Definition pad : N := 61.

Fixpoint encode (bs : list N) : list N :=
  match bs with
  | [] => []
  | [a] => [char_of (a / 4); char_of ((a mod 4) * 16); pad; pad]
  | [a; b] => [char_of (a / 4); char_of ((a mod 4) * 16 + b / 16); char_of ((b mod 16) * 4); pad]
  | a :: b :: c :: r =>
      char_of (a / 4) :: char_of ((a mod 4) * 16 + b / 16) :: char_of ((b mod 16) * 4 + c / 64) :: char_of (c mod 64)
      :: encode r
  end.

Fixpoint decode (cs : list N) : option (list N) :=
  match cs with
  | [] => Some []
  | c1 :: c2 :: c3 :: c4 :: r =>
      match sextet_of c1, sextet_of c2 with
      | Some s1, Some s2 =>
          if (c3 =? pad) && (c4 =? pad) then
            match r with [] => if (s2 mod 16 =? 0) then Some [s1 * 4 + s2 / 16] else None | _ => None end
          else match sextet_of c3 with
               | Some s3 =>
                   if c4 =? pad then
                     match r with
                     | [] => if (s3 mod 4 =? 0) then Some [s1 * 4 + s2 / 16; (s2 mod 16) * 16 + s3 / 4] else None
                     | _ => None
                     end
                   else match sextet_of c4, decode r with
                        | Some s4, Some rest =>
                            Some (s1 * 4 + s2 / 16 :: (s2 mod 16) * 16 + s3 / 4 :: (s3 mod 4) * 64 + s4 :: rest)
                        | _, _ => None
                        end
               | None => None
               end
      | _, _ => None
      end
  | _ => None
  end.

Definition is_byte (b : N) : bool := b <? 256.
