(** Model for C02 (determinism): the ways in which pkg/codegen consumes a Go map.

    A Go map is an association list in *iteration order*; "the order is arbitrary" is
    quantification over [Permutation].  Every [range] over a map in pkg/codegen (inventory
    regenerated into coq/Gen/Sites.v) falls into one of the loop shapes below; each shape is
    proved insensitive to the iteration order in Proofs/DetProofs.v. *)
From Coq Require Export List String Bool Arith Permutation.
Export ListNotations.

Record site := { s_func : string; s_ord : nat; s_expr : string; s_features : list string }.

(** Loop shapes. *)
Inductive sclass :=
| ViaSortedKeys      (* keys collected, then sorted before anyone sees them *)
| AppendThenSort     (* values appended to a slice that is sorted after the loop *)
| BuildsMapOrSet     (* stores into / deletes from maps keyed by the iteration key or a function of the entry *)
| CountOrAny         (* counts entries or answers "is there an entry such that" *)
| CollectForMembership (* appends to a list that is only ever asked "does it contain x" (prune walkers) *)
| FilterSelf         (* deletes entries of the iterated map by a predicate on the entry alone *)
| ErrorOnly          (* the only way out of the loop besides falling through is returning an error *)
| Guarded.           (* order reaches the output unless a stated side condition holds: a finding or a guard *)

(** sort.Strings: insertion sort on the byte-lexicographic order. *)
Definition sleb (a b : string) : bool :=
  match String.compare a b with Gt => false | _ => true end.

Fixpoint insert (a : string) (l : list string) : list string :=
  match l with
  | [] => [a]
  | b :: l' => if sleb a b then a :: l else b :: insert a l'
  end.

Definition sort_strings (l : list string) : list string := fold_right insert [] l.

(** SortedMapKeys *)
Definition sorted_map_keys {V} (m : list (string * V)) : list string := sort_strings (map fst m).

(** Maps as functions, for the BuildsMapOrSet shape. *)
Definition fmap (V : Type) := string -> option V.
Definition fupd {V} (m : fmap V) (k : string) (v : V) : fmap V :=
  fun k' => if String.eqb k' k then Some v else m k'.
Definition build_map {V W} (f : string -> V -> W) (l : list (string * V)) (m0 : fmap W) : fmap W :=
  fold_left (fun m kv => fupd m (fst kv) (f (fst kv) (snd kv))) l m0.

Definition count_if {V} (p : string -> V -> bool) (l : list (string * V)) : nat :=
  List.length (filter (fun kv => p (fst kv) (snd kv)) l).
Definition any_if {V} (p : string -> V -> bool) (l : list (string * V)) : bool :=
  existsb (fun kv => p (fst kv) (snd kv)) l.

(** The hand-maintained classification of today's sites: (function, ranged expression) -> shape.
    Proofs/SitesOk.v proves that every site the scanner finds is listed here with a body whose
    features are among those its shape allows; a map range that is not listed (for instance a
    sorted walk replaced by a plain range) breaks that obligation. *)
Local Open Scope string_scope.
Definition known_sites : list (string * string * sclass) := [
  ("importMap.GoImports", "im", AppendThenSort);
  ("constructImportMapping", "importMapping", AppendThenSort);
  ("constructImportMapping", "importMapping", BuildsMapOrSet);
  ("Generate", "opts.OutputOptions.UserTemplates", Guarded);
  ("GenerateConstants", "providerNameMap", AppendThenSort);
  ("GenerateTypesForResponses", "response.Content", CountOrAny);
  ("GenerateTypesForRequestBodies", "response.Content", Guarded);
  ("GenerateEnums", "e1.GetValues()", CountOrAny);
  ("GoSchemaImports", "schemaVal.Properties", ErrorOnly);
  ("GetSchemaImports", "schemas", ErrorOnly);
  ("GetRequestBodiesImports", "bodies", ErrorOnly);
  ("GetRequestBodiesImports", "response.Content", ErrorOnly);
  ("GetResponsesImports", "responses", ErrorOnly);
  ("GetResponsesImports", "response.Content", ErrorOnly);
  ("GetParametersImports", "params", ErrorOnly);
  ("extExtraTags", "tagsI", BuildsMapOrSet);
  ("operationsWithTags", "paths.Map()", FilterSelf);
  ("operationsWithTags", "ops", FilterSelf);
  ("operationsWithOperationIDs", "paths.Map()", FilterSelf);
  ("operationsWithOperationIDs", "ops", FilterSelf);
  ("valueWithPropagatedRef", "schema.Properties", BuildsMapOrSet);
  ("mergeOpenapiSchemas", "s1.Extensions", BuildsMapOrSet);
  ("mergeOpenapiSchemas", "s2.Extensions", BuildsMapOrSet);
  ("mergeOpenapiSchemas", "s1.Properties", BuildsMapOrSet);
  ("mergeOpenapiSchemas", "s2.Properties", BuildsMapOrSet);
  ("*ParameterDefinition.IsJson", "p.Content", CountOrAny);
  ("*OperationDefinition.GetResponseTypeDefinitions", "responseRef.Value.Content", CountOrAny);
  ("GenerateBodyDefinitions", "content.Encoding", BuildsMapOrSet);
  ("walkSwagger", "swagger.Paths.Map()", CollectForMembership);
  ("walkSwagger", "p.Operations()", CollectForMembership);
  ("walkOperation", "op.Responses.Map()", CollectForMembership);
  ("walkOperation", "op.Callbacks", CollectForMembership);
  ("walkComponents", "components.Schemas", CollectForMembership);
  ("walkComponents", "components.Parameters", CollectForMembership);
  ("walkComponents", "components.Headers", CollectForMembership);
  ("walkComponents", "components.RequestBodies", CollectForMembership);
  ("walkComponents", "components.Responses", CollectForMembership);
  ("walkComponents", "components.SecuritySchemes", CollectForMembership);
  ("walkComponents", "components.Examples", CollectForMembership);
  ("walkComponents", "components.Links", CollectForMembership);
  ("walkComponents", "components.Callbacks", CollectForMembership);
  ("walkSchemaRef", "ref.Value.Properties", CollectForMembership);
  ("walkParameterRef", "ref.Value.Examples", CollectForMembership);
  ("walkParameterRef", "ref.Value.Content", CollectForMembership);
  ("walkParameterRef", "mediaType.Examples", CollectForMembership);
  ("walkRequestBodyRef", "ref.Value.Content", CollectForMembership);
  ("walkRequestBodyRef", "mediaType.Examples", CollectForMembership);
  ("walkResponseRef", "ref.Value.Headers", CollectForMembership);
  ("walkResponseRef", "ref.Value.Content", CollectForMembership);
  ("walkResponseRef", "mediaType.Examples", CollectForMembership);
  ("walkResponseRef", "ref.Value.Links", CollectForMembership);
  ("walkCallbackRef", "ref.Value.Map()", CollectForMembership);
  ("removeOrphanedComponents", "swagger.Components.Schemas", FilterSelf);
  ("removeOrphanedComponents", "swagger.Components.Parameters", FilterSelf);
  ("removeOrphanedComponents", "swagger.Components.RequestBodies", FilterSelf);
  ("removeOrphanedComponents", "swagger.Components.Responses", FilterSelf);
  ("removeOrphanedComponents", "swagger.Components.Headers", FilterSelf);
  ("removeOrphanedComponents", "swagger.Components.Examples", FilterSelf);
  ("removeOrphanedComponents", "swagger.Components.Links", FilterSelf);
  ("removeOrphanedComponents", "swagger.Components.Callbacks", FilterSelf);
  ("*EnumDefinition.GetValues", "e.Schema.EnumValues", Guarded);
  ("GenerateGoSchema", "sanitizedValues", Guarded);
  ("generateUnion", "discriminator.Mapping", BuildsMapOrSet);
  ("NameNormalizerMap.Options", "NameNormalizers", AppendThenSort);
  ("SortedMapKeys", "m", ViaSortedKeys);
  ("SortedSchemaKeys", "dict", ViaSortedKeys);
  ("ParseGoImportExtension", "importI", Guarded);
  ("MergeImports", "src", BuildsMapOrSet)
].

(** Features of a loop body (computed by the scanner) each shape tolerates. *)
Definition allowed (c : sclass) : list string :=
  match c with
  | ViaSortedKeys => ["append-then-sort"; "assign"; "count"; "map-store"]
  | AppendThenSort => ["append-then-sort"; "assign"]
  | BuildsMapOrSet => ["map-store"; "assign"; "return"]
  | CountOrAny => ["count"; "assign"; "break"; "return"]
  | CollectForMembership => []
  | FilterSelf => ["count"; "append"; "assign"]
  | ErrorOnly => ["return"]
  | Guarded => ["append"; "assign"; "return"; "break"; "map-store"; "count"; "append-then-sort"]
  end.

Definition site_class (s : site) : option sclass :=
  match find (fun k => String.eqb (fst (fst k)) (s_func s) && String.eqb (snd (fst k)) (s_expr s)) known_sites with
  | Some k =>
      (* several sites of one function over one expression share an entry only if all of
         them have an allowed body for one of the listed shapes *)
      let cands := filter (fun k => String.eqb (fst (fst k)) (s_func s) && String.eqb (snd (fst k)) (s_expr s)) known_sites in
      match find (fun k => forallb (fun f => existsb (String.eqb f) (allowed (snd k))) (s_features s)) cands with
      | Some k' => Some (snd k')
      | None => None
      end
  | None => None
  end.

Definition site_ok (s : site) : bool :=
  match site_class s with Some _ => true | None => false end.

Definition guarded_sites (l : list site) : list (string * string) :=
  flat_map (fun s => match site_class s with Some Guarded => [(s_func s, s_expr s)] | _ => [] end) l.

(** * Ambient inputs: what a generation could read besides its arguments.  The output is a function of the document,
      the configuration and the values of the ambient reads the code performs; a read is [stable] when its value is
      fixed for a given binary (the build information), unstable when it varies from run to run. *)
Inductive ambient := BuildInfo | Clock | Random | Environment | Host | Process | Network.
Definition stable (a : ambient) : bool := match a with BuildInfo => true | _ => false end.
Definition env := ambient -> nat.                       (* the value each source would yield in a run *)
Definition same_binary (e1 e2 : env) : Prop := forall a, stable a = true -> e1 a = e2 a.
Definition observe (reads : list ambient) (e : env) : list nat := map e reads.
Local Open Scope string_scope.
Definition classify_callee (c : string) : ambient :=
  if String.eqb c "runtime/debug.ReadBuildInfo" then BuildInfo
  else if String.prefix "time." c then Clock
  else if String.prefix "math/rand" c || String.prefix "crypto/rand" c then Random
  else if String.prefix "os/user" c || String.prefix "os.Get" c || String.prefix "os.Lookup" c || String.prefix "os.Environ" c || String.prefix "os.User" c || String.prefix "os.Temp" c || String.prefix "os.Args" c then Environment
  else if String.prefix "os.Hostname" c || String.prefix "net." c then Host
  else Process.

(** * One loaded document generated again and again.  A generation gets the caller's document VALUE; what it leaves of
      that value is what the next generation from the same value reads. *)
Section OneDocument.
  Context {doc out : Type}.
  Variable gen : doc -> out * doc.
  Definition out_of (d : doc) : out := fst (gen d).
  Definition left_of (d : doc) : doc := snd (gen d).
  Fixpoint outputs (n : nat) (d : doc) : list out :=
    match n with O => [] | S k => out_of d :: outputs k (left_of d) end.
  (** the changes a generation makes to its input do not show in the next output *)
  Definition input_stable : Prop := forall d, out_of (left_of d) = out_of d.
End OneDocument.

(** The part of Generate that touches the caller's document besides filtering and pruning (both idempotent): with
    embedded-spec, InternalizeRefs copies the components of OTHER documents that the document refers to into its own
    components.  A generation declares one local type per local component. *)
Record ldoc := { ld_locals : list string; ld_external : list string }.
Definition has (l : list string) (x : string) : bool := existsb (String.eqb x) l.
Definition internalise (d : ldoc) : ldoc :=
  {| ld_locals := ld_locals d ++ filter (fun e => negb (has (ld_locals d) e)) (ld_external d); ld_external := [] |}.
Definition lgen (embedded : bool) (d : ldoc) : list string * ldoc :=
  (ld_locals d, if embedded then internalise d else d).
(** which of the names [watch] each of n generations from one loaded document declares locally *)
Definition declared_of (embedded : bool) (d : ldoc) (watch : list string) (n : nat) : list (list string) :=
  map (fun o => filter (has o) watch) (outputs (lgen embedded) n d).

(** * The ErrorOnly shape: the loop body computes something from the entry, merges it into an accumulator, and the only
      way out besides falling through is returning the entry's error (GoSchemaImports, GetSchemaImports, ...). *)
Inductive res (A E : Type) := ROk (a : A) | RErr (e : E).
Arguments ROk {A E} a.
Arguments RErr {A E} e.
Fixpoint error_only {K V A E} (f : K -> V -> res A E) (merge : A -> A -> A) (l : list (K * V)) (acc : A) : res A E :=
  match l with
  | [] => ROk acc
  | (k, v) :: r => match f k v with RErr e => RErr e | ROk x => error_only f merge r (merge acc x) end
  end.
Definition fails {K V A E} (f : K -> V -> res A E) (kv : K * V) : bool :=
  match f (fst kv) (snd kv) with RErr _ => true | ROk _ => false end.
