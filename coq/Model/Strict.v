(** Model for C12: the shape of a strict response type, what its Visit<Op>Response writes, and
    how the strict handler picks the request body decoder. *)
From Coq Require Export List String Bool Arith.
Export ListNotations.
Local Open Scope string_scope.

(** * Responses *)
Inductive ctag := TJson | TText | TForm | TMultipart | TOther.   (* NameTag; TOther = no tag: io.Reader *)

Record content := { c_tag : ctag; c_type : string; c_fixed_type : bool (* no '*' in the media type *) }.

Record rcell := {
  r_fixed_status : option nat;          (* Some n for "200"; None for NXX / default *)
  r_headers : list string;              (* declared header names, sorted *)
  r_is_ref : bool;                      (* $ref to components/responses *)
  r_content : option content }.

(** strict-interface.tmpl's five-way decision. *)
Inductive rshape :=
| ShText                                (* type T string *)
| ShEmbedRef                            (* type T struct{ <Ref><Tag>Response } *)
| ShRefAlias                            (* type T <Ref>MultipartResponse *)
| ShAlias                               (* type T = / T <schema type> / func / io.Reader *)
| ShStruct (hdrs status ctype clen : bool)  (* struct { Body; Headers?; StatusCode?; ContentType?; ContentLength? } *)
| ShNoContent (hdrs status : bool)      (* no content: struct { Headers?; StatusCode? } *)
| ShNoContentRef.

Definition supported (t : ctag) : bool := match t with TOther => false | _ => true end.
Definition nonempty {A} (l : list A) : bool := match l with [] => false | _ => true end.
Definition is_some {A} (o : option A) : bool := match o with Some _ => true | None => false end.

Definition shape_of (r : rcell) : rshape :=
  let fixed := is_some (r_fixed_status r) in
  let hdrs := nonempty (r_headers r) in
  match r_content r with
  | None => if fixed && r_is_ref r then ShNoContentRef else ShNoContent hdrs (negb fixed)
  | Some c =>
      match c_tag c with
      | TText => ShText
      | t =>
          if fixed && r_is_ref r then
            (if negb hdrs && supported t && match t with TMultipart => true | _ => false end then ShRefAlias else ShEmbedRef)
          else if negb hdrs && fixed && supported t then ShAlias
          else ShStruct hdrs (negb fixed) (negb (c_fixed_type c)) (negb (supported t))
      end
  end.

(** What the handler supplies with a response object (fields that exist in its type). *)
Record supplied := { s_status : nat; s_ctype : string; s_headers : list (string * string); s_body : string }.

(** What Visit<Op>Response writes. *)
Record written := { w_status : nat; w_ctype : option string; w_headers : list (string * string); w_body : option string }.

Definition visit (r : rcell) (v : supplied) : written :=
  {| w_status := match r_fixed_status r with Some n => n | None => s_status v end;
     w_ctype := match r_content r with
                | None => None
                | Some c => Some (if c_fixed_type c then c_type c else s_ctype v)
                end;
     w_headers := map (fun h => (h, match find (fun p => String.eqb (fst p) h) (s_headers v) with
                                    | Some p => snd p | None => "" end)) (r_headers r);
     w_body := match r_content r with None => None | Some _ => Some (s_body v) end |}.

(** Does the response type have a place where the handler can put this piece? *)
Definition can_supply_status (sh : rshape) : bool :=
  match sh with ShStruct _ s _ _ => s | ShNoContent _ s => s | _ => false end.
Definition can_supply_ctype (sh : rshape) : bool :=
  match sh with ShStruct _ _ c _ => c | _ => false end.
Definition can_supply_headers (sh : rshape) : bool :=
  match sh with ShStruct h _ _ _ => h | ShNoContent h _ => h | ShEmbedRef | ShNoContentRef | ShRefAlias => true | _ => false end.

(** * Requests: which declared bodies the strict handler decodes for a Content-Type *)
Fixpoint is_prefix (p s : string) : bool :=
  match p, s with
  | EmptyString, _ => true
  | String a p', String b s' => Ascii.eqb a b && is_prefix p' s'
  | _, _ => false
  end.

(** One declared body: always decoded. Several: every one whose media type is a prefix of the
    request's Content-Type (sequential ifs in the template). *)
Definition bodies_decoded (declared : list string) (content_type : string) : list string :=
  match declared with
  | [b] => [b]
  | _ => filter (fun b => is_prefix b content_type) declared
  end.

(** * The tail of every strict wrapper: what the strict handler chain (the user's handler under the strict middlewares,
      typed [interface{}]) handed back, and where it goes. *)
Inductive chain_result := RError | RValid | RForeign | RNil.
Inductive outcome := OErrorPath | OVisited | ONothing.
Definition deliver (res : chain_result) : outcome :=
  match res with RError => OErrorPath | RValid => OVisited | RForeign => OErrorPath | RNil => ONothing end.
(** a wrapper whose last branch was lost: whatever is not a valid response object falls through *)
Definition deliver_falling_through (res : chain_result) : outcome :=
  match res with RError => OErrorPath | RValid => OVisited | _ => ONothing end.
Definition outcome_eqb (a b : outcome) : bool :=
  match a, b with OErrorPath, OErrorPath | OVisited, OVisited | ONothing, ONothing => true | _, _ => false end.

(** What the chain hands back is a PAIR (value, error), as Go functions do: the error is looked at first, and with an
    error the value - even a valid response object of the operation - is not written.  [deliver_pair] is the wrapper's
    if err != nil {...} else if valid {...} else if value != nil {...}; [deliver_pair_no_else] is the text with the first
    else lost: both branches run, the response is written over the pending error status. *)
Inductive value_kind := VNil | VValid | VForeign.
Definition deliver_pair (v : value_kind) (err : bool) : list outcome :=
  if err then [OErrorPath]
  else match v with VValid => [OVisited] | VForeign => [OErrorPath] | VNil => [] end.
Definition deliver_pair_no_else (v : value_kind) (err : bool) : list outcome :=
  (if err then [OErrorPath] else []) ++ match v with VValid => [OVisited] | VForeign => [OErrorPath] | VNil => [] end.
