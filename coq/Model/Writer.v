(** Model of net/http's ResponseWriter contract as the strict Visit functions use it (C12): the handler writes into
    a live header map; the first WriteHeader (or the first Write) commits status and a snapshot of that map to the
    wire; whatever is set afterwards stays in the live map and never reaches the client. *)
From Coq Require Export List String Bool Arith.
Export ListNotations.
Local Open Scope string_scope.

Inductive wop := WSet (k v : string) | WStatus (n : nat) | WBody (b : string).

Record wstate := { ws_live : list (string * string);
                   ws_wire : option (nat * list (string * string));
                   ws_body : string }.

Definition winit : wstate := {| ws_live := []; ws_wire := None; ws_body := "" |}.

(** Header().Set: replaces the value of the key *)
Definition hput (k v : string) (m : list (string * string)) : list (string * string) :=
  (filter (fun p => negb (String.eqb (fst p) k)) m ++ [(k, v)])%list.

Definition commit (n : nat) (s : wstate) : wstate :=
  match ws_wire s with
  | Some _ => s                                                     (* superfluous WriteHeader: ignored *)
  | None => {| ws_live := ws_live s; ws_wire := Some (n, ws_live s); ws_body := ws_body s |}
  end.

Definition wstep (s : wstate) (o : wop) : wstate :=
  match o with
  | WSet k v => {| ws_live := hput k v (ws_live s); ws_wire := ws_wire s; ws_body := ws_body s |}
  | WStatus n => commit n s
  | WBody b => let s' := commit 200 s in
               {| ws_live := ws_live s'; ws_wire := ws_wire s'; ws_body := ws_body s' ++ b |}
  end.

Definition wrun (ops : list wop) : wstate := fold_left wstep ops winit.

(** what the client receives *)
Definition wire_headers (s : wstate) : list (string * string) :=
  match ws_wire s with Some (_, h) => h | None => [] end.
Definition wire_status (s : wstate) : option nat :=
  match ws_wire s with Some (n, _) => Some n | None => None end.

(** the static criterion: every Set comes before the first WriteHeader / Write *)
Definition is_set (o : wop) : bool := match o with WSet _ _ => true | _ => false end.
Definition no_sets (l : list wop) : bool := forallb (fun o => negb (is_set o)) l.
Fixpoint sets_first (l : list wop) : bool :=
  match l with
  | [] => true
  | WSet _ _ :: r => sets_first r
  | _ :: r => no_sets r
  end.

(** the same criterion on the tokens a scanner reads off a template: the text of a Visit function in order *)
Inductive wtoken := TSet | TStatus | TBody.
Definition token_op (t : wtoken) : wop :=
  match t with TSet => WSet "h" "v" | TStatus => WStatus 200 | TBody => WBody "b" end.
Definition tokens_ok (l : list wtoken) : bool := sets_first (map token_op l).
