(** Model for C09: the accessors union.tmpl emits for a oneOf/anyOf type.  A union value holds the
    raw JSON of the stored member ([u_raw], an object for the cases with a discriminator or fixed
    properties) and the union's own fixed properties.  Member values are abstract ([jv]). *)
From Coq Require Export List String Bool.
Export ListNotations.
Local Open Scope string_scope.

Section Union.
Variable jv : Type.
Definition jobj := list (string * jv).

Fixpoint put (k : string) (v : jv) (m : jobj) : jobj :=
  match m with
  | [] => [(k, v)]
  | (k', v') :: r => if String.eqb k' k then (k, v) :: r else (k', v') :: put k v r
  end.
Definition get (m : jobj) (k : string) : option jv :=
  match find (fun p => String.eqb (fst p) k) m with Some p => Some (snd p) | None => None end.

(** runtime.JSONMerge on two objects, top level: members of the patch replace or extend. *)
Definition overlay (data patch : jobj) : jobj := fold_left (fun m kv => put (fst kv) (snd kv) m) patch data.

Record ustate := { u_raw : jobj; u_fixed : list (string * option jv) }.

(** The discriminator: property name, and for each member the mapping values that designate it,
    in sorted order (text/template ranges over the mapping map in key order). *)
Record disc := { d_prop : string; d_mapping : list (string * nat) }.   (* value -> member index, sorted by value *)

(** From<Member>: the template assigns v.<prop> = value for EVERY mapping entry of that member,
    in order, so the last one sticks; then the member is marshalled into the union. *)
Definition values_of (d : disc) (i : nat) : list string :=
  map fst (filter (fun p => Nat.eqb (snd p) i) (d_mapping d)).

Definition with_disc (d : option disc) (str : string -> jv) (i : nat) (member : jobj) : jobj :=
  match d with
  | None => member
  | Some dd => fold_left (fun m v => put (d_prop dd) (str v) m) (values_of dd i) member
  end.

Definition from_member (d : option disc) (str : string -> jv) (i : nat) (member : jobj) (st : ustate) : ustate :=
  {| u_raw := with_disc d str i member; u_fixed := u_fixed st |}.

Definition merge_member (d : option disc) (str : string -> jv) (i : nat) (member : jobj) (st : ustate) : ustate :=
  {| u_raw := overlay (u_raw st) (with_disc d str i member); u_fixed := u_fixed st |}.

(** As<Member> reads the raw JSON back. *)
Definition as_member (st : ustate) : jobj := u_raw st.

(** MarshalJSON: the stored member's JSON, then each fixed property that is set. *)
Definition present (fixed : list (string * option jv)) : jobj :=
  flat_map (fun p => match snd p with Some v => [(fst p, v)] | None => [] end) fixed.
Definition marshal (st : ustate) : jobj := overlay (u_raw st) (present (u_fixed st)).

(** UnmarshalJSON: the whole object is the raw member; each fixed property is read from it. *)
Definition unmarshal (fixed_names : list string) (b : jobj) : ustate :=
  {| u_raw := b; u_fixed := map (fun n => (n, get b n)) fixed_names |}.

(** Discriminator() and ValueByDiscriminator(): [text] reads the discriminator's string. *)
Definition dispatch (d : disc) (text : jv -> option string) (st : ustate) : option nat :=
  match get (u_raw st) (d_prop d) with
  | Some v => match text v with
              | Some s => match find (fun p => String.eqb (fst p) s) (d_mapping d) with
                          | Some p => Some (snd p)
                          | None => None
                          end
              | None => None
              end
  | None => None
  end.

(** * Unions with additionalProperties (union-and-additional-properties.tmpl).  UnmarshalJSON decodes every key of the
    document that is no fixed property into a variable of the additional type.  json.Unmarshal into a variable that
    already holds a value does not start from scratch: members of an object that the new text does not mention keep
    their old values ([decode_into] = overlay).  The template declares the variable INSIDE the loop over the keys
    ([decode_fresh]); [decode_shared] is the loop with the variable hoisted out of it. *)
Definition decode_into (var : jobj) (text : jobj) : jobj := overlay var text.
Definition decode_fresh (residual : list (string * jobj)) : list (string * jobj) :=
  map (fun kv => (fst kv, decode_into [] (snd kv))) residual.
Fixpoint decode_shared (var : jobj) (residual : list (string * jobj)) : list (string * jobj) :=
  match residual with
  | [] => []
  | kv :: r => let var' := decode_into var (snd kv) in (fst kv, var') :: decode_shared var' r
  end.
End Union.
