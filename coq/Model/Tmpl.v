(** Model of the template language of text/template as the server wrapper templates use it, and of what a wrapper does
    with a request that fails parameter binding (C06), where the handler is called (C06), and where the security scopes
    are published relative to the middleware chain (C18).

    The TERMS are not written by hand: coq/Gen/Wrappers.v is regenerated on every run from the templates of /repo by
    harness/tmpl.go (parsed with text/template/parse; the Go text between control nodes is read with go/scanner and
    reduced to the tokens below).  [render] is the engine: if / with pick a branch by the truth of their pipeline, range
    renders its body once per element (with the element as the environment) or its else branch when there is none.
    That [render] agrees with the real engine is checked on every run (cases_C06_templates: the real templates executed
    on concrete operations, the output read with the same tokeniser). *)
From Coq Require Export List String Bool Arith.
Export ListNotations.

Inductive gtok :=
| GReport    (* a call of the framework's error path: ErrorHandlerFunc, ErrorHandler, NewHTTPError, NewError, StatusCode(400) *)
| GReturn
| GOpen | GClose   (* block braces *)
| GHandler   (* the call of the user's handler *)
| GServe     (* handler.ServeHTTP: entering the wrapped chain (net/http flavours) *)
| GChain     (* the loop over the per-operation middlewares *)
| GPublish   (* a security scheme's scopes stored in the request context *)
(* the strict wrappers (read with the tokeniser's strict mode): *)
| GInvoke    (* response, err := handler(...): the strict handler chain is called *)
| GErrIf     (* if err != nil { *)
| GElse      (* } else : the branch is closed and the if / else-if chain goes on *)
| GVisit.    (* a call of a Visit...Response method: the response object writes itself *)

Inductive tmpl :=
| TEmpty
| TSeg (l : list gtok)
| TIf (cond : string) (a b : tmpl)
| TRange (over : string) (body els : tmpl)
| TSeq (a b : tmpl).

(** An environment gives every pipeline its value at this point: truth for if / with, the elements' environments for range. *)
Inductive env := EnvL (conds : list (string * bool)) (ranges : list (string * list env)).

Definition cond_of (e : env) (c : string) : bool :=
  match e with EnvL cs _ => match find (fun p => String.eqb (fst p) c) cs with Some p => snd p | None => false end end.
Definition range_of (e : env) (r : string) : list env :=
  match e with EnvL _ rs => match find (fun p => String.eqb (fst p) r) rs with Some p => snd p | None => [] end end.

Fixpoint render (t : tmpl) (e : env) : list gtok :=
  match t with
  | TEmpty => []
  | TSeg l => l
  | TIf c a b => if cond_of e c then render a e else render b e
  | TRange r body els =>
      match range_of e r with
      | [] => render els e
      | es => flat_map (render body) es
      end
  | TSeq a b => render a e ++ render b e
  end.

(** The per-operation wrapper: the body of the template's range over the operations ([{{range .}}]). *)
Fixpoint op_body (t : tmpl) : option tmpl :=
  match t with
  | TRange r body _ => if String.eqb r "." then Some body else None
  | TSeq a b => match op_body a with Some x => Some x | None => op_body b end
  | _ => None
  end.
Definition op_body_or_empty (t : tmpl) : tmpl := match op_body t with Some b => b | None => TEmpty end.

Definition gtok_eqb (a b : gtok) : bool :=
  match a, b with
  | GReport, GReport | GReturn, GReturn | GOpen, GOpen | GClose, GClose | GHandler, GHandler | GServe, GServe
  | GChain, GChain | GPublish, GPublish | GInvoke, GInvoke | GErrIf, GErrIf | GElse, GElse | GVisit, GVisit => true
  | _, _ => false
  end.

(** * After the error path has been called the wrapper leaves: no block is closed, no handler called, no chain entered
      while a report is pending.  [None] = the text goes on after a report. *)
Fixpoint stops (pending : bool) (l : list gtok) : option bool :=
  match l with
  | [] => Some pending
  | GReport :: r => stops true r
  | GReturn :: r => stops false r
  | GOpen :: r | GPublish :: r => stops pending r
  | _ :: r => if pending then None else stops false r
  end.
Definition stops_after_report (l : list gtok) : bool :=
  match stops false l with Some false => true | _ => false end.

(** the criterion on a term: every segment, on its own, returns after each report *)
Fixpoint segments_stop (t : tmpl) : bool :=
  match t with
  | TEmpty => true
  | TSeg l => stops_after_report l
  | TIf _ a b | TRange _ a b | TSeq a b => segments_stop a && segments_stop b
  end.

(** * The user's handler is called exactly once by a wrapper that reports nothing. *)
Definition is_handler (g : gtok) : bool := match g with GHandler => true | _ => false end.
Definition handler_calls (l : list gtok) : nat := List.length (filter is_handler l).
(** the criterion: the number of calls does not depend on the branch taken, and no call sits inside a range *)
Fixpoint static_handler_calls (t : tmpl) : option nat :=
  match t with
  | TEmpty => Some 0
  | TSeg l => Some (handler_calls l)
  | TIf _ a b => match static_handler_calls a, static_handler_calls b with
                 | Some x, Some y => if Nat.eqb x y then Some x else None
                 | _, _ => None
                 end
  | TRange _ a b => match static_handler_calls a, static_handler_calls b with
                    | Some 0, Some 0 => Some 0
                    | _, _ => None
                    end
  | TSeq a b => match static_handler_calls a, static_handler_calls b with
                | Some x, Some y => Some (x + y)
                | _, _ => None
                end
  end.

(** * The scopes are published before the chain is entered / the handler called: in the text a wrapper renders, no
      GPublish comes after a GChain, GServe or GHandler. *)
Definition enters (g : gtok) : bool := match g with GChain | GServe | GHandler => true | _ => false end.
Definition publishes (g : gtok) : bool := match g with GPublish => true | _ => false end.
Fixpoint published_first (entered : bool) (l : list gtok) : bool :=
  match l with
  | [] => true
  | g :: r => if publishes g && entered then false else published_first (entered || enters g) r
  end.
(** the criterion: (may publish, may enter, ordered) computed over all branches *)
Fixpoint may (p : gtok -> bool) (t : tmpl) : bool :=
  match t with
  | TEmpty => false
  | TSeg l => existsb p l
  | TIf _ a b | TRange _ a b | TSeq a b => may p a || may p b
  end.
Fixpoint ordered (t : tmpl) : bool :=
  match t with
  | TEmpty => true
  | TSeg l => published_first false l
  | TIf _ a b => ordered a && ordered b
  | TRange _ a b => ordered a && ordered b && negb (may enters a && may publishes a)
  | TSeq a b => ordered a && ordered b && negb (may enters a && may publishes b)
  end.

(** The wrapper that goes on after a report (the return forgotten): the criterion rejects it, and it does run the handler. *)
Definition forgetful : tmpl :=
  TSeq (TRange "params" (TSeg [GOpen; GReport; GClose]) TEmpty) (TSeg [GHandler; GClose]).


(** * Criteria as automata.  A criterion is an automaton over the tokens with a state to come back to; a term whose every
      segment, read on its own from that state, comes back to it, renders only texts that do (Proofs/TmplProofs.v), under
      every environment. *)
Section Automaton.
Variable S : Type.
Variable step : S -> gtok -> option S.
Fixpoint run (s : S) (l : list gtok) : option S :=
  match l with [] => Some s | g :: r => match step s g with Some s' => run s' r | None => None end end.
Variable s0 : S.
Variable is_s0 : S -> bool.
Definition closed_text (l : list gtok) : bool := match run s0 l with Some s => is_s0 s | None => false end.
Fixpoint segments_closed (t : tmpl) : bool :=
  match t with
  | TEmpty => true
  | TSeg l => closed_text l
  | TIf _ a b | TRange _ a b | TSeq a b => segments_closed a && segments_closed b
  end.
End Automaton.

(** * The tail of a strict wrapper: the response object is written (Visit...Response) only in an else-branch of the
      [if err != nil] that directly follows the call of the strict handler chain - never when the chain returned an
      error, never outside that chain of branches. *)
Inductive tail_state := TIdle | TInvoked | TInErr (d : nat) | TInElse (d : nat).
Definition tail_step (s : tail_state) (g : gtok) : option tail_state :=
  match s, g with
  | TIdle, GInvoke => Some TInvoked
  | TIdle, GVisit => None
  | TIdle, _ => Some TIdle
  | TInvoked, GErrIf => Some (TInErr 1)
  | TInvoked, (GVisit | GInvoke | GOpen | GClose | GElse) => None
  | TInvoked, _ => Some TInvoked
  | TInErr d, (GOpen | GErrIf) => Some (TInErr (S d))
  | TInErr d, GClose => Some (match d with 0 | 1 => TIdle | S d' => TInErr d' end)
  | TInErr d, GElse => Some (match d with 0 | 1 => TInElse 0 | S d' => TInErr d' end)
  | TInErr _, (GVisit | GInvoke) => None
  | TInErr d, _ => Some (TInErr d)
  | TInElse d, (GOpen | GErrIf) => Some (TInElse (S d))
  | TInElse d, GClose => Some (match d with 0 | 1 => TIdle | S d' => TInElse d' end)
  | TInElse d, GElse => Some (match d with 0 | 1 => TInElse 0 | S d' => TInElse d' end)
  | TInElse d, GVisit => match d with 0 => None | _ => Some (TInElse d) end
  | TInElse _, GInvoke => None
  | TInElse d, _ => Some (TInElse d)
  end.
Definition is_idle (s : tail_state) : bool := match s with TIdle => true | _ => false end.
Definition visits_guarded (l : list gtok) : bool := closed_text tail_state tail_step TIdle is_idle l.
Definition strict_segments_ok (t : tmpl) : bool := segments_closed tail_state tail_step TIdle is_idle t.

(** the tail with the first else lost: the response is written although the chain returned an error *)
Definition tail_without_else : list gtok :=
  [GInvoke; GErrIf; GReport; GClose; GOpen; GOpen; GVisit; GReport; GClose; GElse; GOpen; GReport; GClose].
Definition tail_of_the_templates : list gtok :=
  [GInvoke; GErrIf; GReport; GElse; GOpen; GOpen; GVisit; GReport; GClose; GElse; GOpen; GReport; GClose].
