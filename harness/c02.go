package main

import (
	"bytes"
	"encoding/json"
	"fmt"
	"math/rand"
	"regexp"
	"sort"
	"strings"

	"github.com/oapi-codegen/oapi-codegen/v2/pkg/codegen"

	"verif/harness/gendoc"
)

// c02Wide has at least three entries in every map the generator walks: paths, operations,
// properties, content types, responses, headers, import mappings, discriminator mappings,
// x-go-type imports, encodings, security requirements, extensions.
const c02Wide = `{"openapi":"3.0.3","info":{"title":"w","version":"1"},
"security":[{"k1":["s1","s2"],"k2":[]},{"k3":["s3"]}],
"paths":{
 "/b/{id}":{"parameters":[{"name":"id","in":"path","required":true,"schema":{"type":"string"}}],
   "get":{"operationId":"getB","parameters":[{"name":"q1","in":"query","schema":{"type":"integer"}},{"name":"q2","in":"query","schema":{"type":"string"}},{"name":"X-H1","in":"header","schema":{"type":"string"}},{"name":"c1","in":"cookie","schema":{"type":"string"}}],
     "responses":{"200":{"description":"ok","headers":{"X-A":{"schema":{"type":"string"}},"X-B":{"schema":{"type":"integer"}},"X-C":{"schema":{"type":"string"}}},
        "content":{"application/json":{"schema":{"$ref":"#/components/schemas/Pet"}},"application/vnd.x+json":{"schema":{"$ref":"#/components/schemas/Dog"}},"text/plain":{"schema":{"type":"string"}},"application/xml":{"schema":{"$ref":"#/components/schemas/Cat"}}}},
      "404":{"$ref":"#/components/responses/NotFound"},"4XX":{"description":"x","content":{"application/json":{"schema":{"$ref":"#/components/schemas/Err"}}}},"default":{"description":"d","content":{"application/json":{"schema":{"$ref":"#/components/schemas/Err"}}}}}},
   "put":{"operationId":"putB","security":[{"k2":["w"]}],"requestBody":{"content":{"application/json":{"schema":{"$ref":"#/components/schemas/Pet"}},"application/x-www-form-urlencoded":{"schema":{"$ref":"#/components/schemas/Dog"},"encoding":{"name":{"style":"form"},"bark":{"explode":true},"x":{"style":"deepObject"}}},"multipart/form-data":{"schema":{"$ref":"#/components/schemas/Dog"}},"text/plain":{"schema":{"type":"string"}}}},
     "responses":{"204":{"description":"ok"}}},
   "delete":{"operationId":"deleteB","responses":{"204":{"description":"ok"}}}},
 "/a":{"post":{"operationId":"postA","requestBody":{"$ref":"#/components/requestBodies/PetBody"},"responses":{"201":{"$ref":"#/components/responses/Created"}}},"get":{"operationId":"getA","responses":{"200":{"description":"ok","content":{"application/json":{"schema":{"type":"array","items":{"$ref":"#/components/schemas/Animal"}}}}}}}},
 "/c":{"get":{"operationId":"getC","parameters":[{"$ref":"#/components/parameters/Limit"},{"$ref":"#/components/parameters/Offset"},{"$ref":"#/components/parameters/Sort"}],"responses":{"200":{"description":"ok"}}}}
},
"components":{
 "securitySchemes":{"k1":{"type":"http","scheme":"basic"},"k2":{"type":"http","scheme":"bearer"},"k3":{"type":"apiKey","in":"header","name":"X-K"}},
 "parameters":{"Limit":{"name":"limit","in":"query","schema":{"type":"integer"}},"Offset":{"name":"offset","in":"query","schema":{"type":"integer"}},"Sort":{"name":"sort","in":"query","schema":{"type":"string","enum":["asc","desc","none"]}}},
 "requestBodies":{"PetBody":{"content":{"application/json":{"schema":{"$ref":"#/components/schemas/Pet"}}}}},
 "responses":{"NotFound":{"description":"nf","content":{"application/json":{"schema":{"$ref":"#/components/schemas/Err"}}}},"Created":{"description":"c","headers":{"Location":{"schema":{"type":"string"}},"X-Id":{"schema":{"type":"integer"}}},"content":{"application/json":{"schema":{"$ref":"#/components/schemas/Pet"}}}}},
 "schemas":{
  "CaseVariants":{"type":"object","properties":{"id":{"type":"string"},"ID":{"type":"string"},"userName":{"type":"string"},"username":{"type":"string"},"Zip":{"type":"integer"},"zip":{"type":"integer"}}},
  "Pet":{"type":"object","required":["name","kind"],"x-go-type-skip-optional-pointer":false,"properties":{"cv":{"$ref":"#/components/schemas/CaseVariants"},"name":{"type":"string"},"kind":{"type":"string","enum":["cat","dog","bird"]},"age":{"type":"integer","x-order":2},"tags":{"type":"array","items":{"type":"string"},"x-order":1},"when":{"type":"string","format":"date-time"},"id":{"type":"string","format":"uuid"},"ext":{"$ref":"other.yaml#/components/schemas/Ext"},"t3":{"$ref":"third.yaml#/components/schemas/T"},
     "custom":{"type":"string","x-go-type":"decimal.Decimal","x-go-type-import":{"path":"github.com/shopspring/decimal"}},"custom2":{"type":"string","x-go-type":"ulid.ULID","x-go-type-import":{"path":"github.com/oklog/ulid","name":"ulid"}},"custom4":{"type":"string","x-go-type":"acmemoney.Money","x-go-type-import":{"path":"example.com/money","name":"acmemoney"}},"custom5":{"type":"string","x-go-type":"refundmoney.Money","x-go-type-import":{"path":"example.com/money","name":"refundmoney"}},"custom3":{"type":"string","x-go-type":"money.Money","x-go-type-import":{"path":"example.com/money"},"x-oapi-codegen-extra-tags":{"db":"c3","validate":"required","xml":"c"}}}},
  "Dog":{"type":"object","required":["petType"],"properties":{"petType":{"type":"string"},"name":{"type":"string"},"bark":{"type":"boolean"},"x":{"type":"object","properties":{"a":{"type":"string"}}}}},
  "Cat":{"type":"object","required":["petType"],"properties":{"petType":{"type":"string"},"lives":{"type":"integer"}}},
  "Bird":{"type":"object","required":["petType"],"properties":{"petType":{"type":"string"},"wings":{"type":"integer"}}},
  "Animal":{"oneOf":[{"$ref":"#/components/schemas/Dog"},{"$ref":"#/components/schemas/Cat"},{"$ref":"#/components/schemas/Bird"}],"discriminator":{"propertyName":"petType","mapping":{"dog":"#/components/schemas/Dog","cat":"#/components/schemas/Cat","bird":"#/components/schemas/Bird"}}},
  "Merged":{"allOf":[{"$ref":"#/components/schemas/Dog"},{"type":"object","x-a":1,"x-b":2,"x-c":3,"properties":{"m1":{"type":"string"},"m2":{"type":"integer"},"m3":{"type":"boolean"}}}]},
  "Err":{"type":"object","properties":{"code":{"type":"integer"},"msg":{"type":"string"},"detail":{"type":"object","additionalProperties":{"type":"string"}}}}
 }}}`

// permuteJSON re-serialises a decoded JSON value with every object's members in a random order.
func permuteJSON(rng *rand.Rand, v any, b *bytes.Buffer) {
	switch t := v.(type) {
	case map[string]any:
		ks := make([]string, 0, len(t))
		for k := range t {
			ks = append(ks, k)
		}
		sort.Strings(ks)
		rng.Shuffle(len(ks), func(i, j int) { ks[i], ks[j] = ks[j], ks[i] })
		b.WriteByte('{')
		for i, k := range ks {
			if i > 0 {
				b.WriteByte(',')
			}
			kb, _ := json.Marshal(k)
			b.Write(kb)
			b.WriteByte(':')
			permuteJSON(rng, t[k], b)
		}
		b.WriteByte('}')
	case []any:
		b.WriteByte('[')
		for i, x := range t {
			if i > 0 {
				b.WriteByte(',')
			}
			permuteJSON(rng, x, b)
		}
		b.WriteByte(']')
	default:
		xb, _ := json.Marshal(t)
		b.Write(xb)
	}
}

type c02Doc struct {
	label string
	spec  []byte
	sig   string // signature class of a known order dependence, "" for documents that must be deterministic
}

func mutateJSON(spec string, f func(root map[string]any)) []byte {
	var root map[string]any
	must(json.Unmarshal([]byte(spec), &root))
	f(root)
	b, _ := json.Marshal(root)
	return b
}

func c02Docs(rng *rand.Rand, nRandom int) []c02Doc {
	docs := []c02Doc{{"wide", []byte(c02Wide), ""}}
	docs = append(docs, c02Doc{"wide + several discriminator values for one schema", mutateJSON(c02Wide, func(r map[string]any) {
		m := r["components"].(map[string]any)["schemas"].(map[string]any)["Animal"].(map[string]any)["discriminator"].(map[string]any)["mapping"].(map[string]any)
		m["kitty"] = "#/components/schemas/Cat"
		m["puppy"] = "#/components/schemas/Dog"
	}), "discriminator_many_to_one"})
	docs = append(docs, c02Doc{"wide + enum values whose sanitised names collide", mutateJSON(c02Wide, func(r map[string]any) {
		p := r["components"].(map[string]any)["schemas"].(map[string]any)["Pet"].(map[string]any)["properties"].(map[string]any)["kind"].(map[string]any)
		p["enum"] = []any{"", " ", "cat"}
	}), "enum_sanitised_name_collision"})
	// a composition that only type generation resolves (no operation names it): its base type is emitted before the merge runs
	docs = append(docs, c02Doc{"wide + allOf composition reached through components only", mutateJSON(c02Wide, func(r map[string]any) {
		sc := r["components"].(map[string]any)["schemas"].(map[string]any)
		sc["Creature"] = map[string]any{"type": "object", "required": []any{"name"}, "properties": map[string]any{"name": map[string]any{"type": "string"}}}
		sc["Hound"] = map[string]any{"allOf": []any{map[string]any{"$ref": "#/components/schemas/Creature"},
			map[string]any{"type": "object", "properties": map[string]any{"barks": map[string]any{"type": "boolean"}, "breed": map[string]any{"type": "string"}}}}}
		sc["Pet"].(map[string]any)["properties"].(map[string]any)["hound"] = map[string]any{"$ref": "#/components/schemas/Hound"}
	}), ""})
	// media types whose words begin like two initialisms at once (uid: UI / UID, https: HTTP / HTTPS): whichever the
	// normaliser prefers must be the same in every process
	docs = append(docs, c02Doc{"wide + vendor media types with words that begin like two initialisms", mutateJSON(c02Wide, func(r map[string]any) {
		paths := r["paths"].(map[string]any)
		obj := map[string]any{"type": "object", "properties": map[string]any{"a": map[string]any{"type": "string"}}}
		paths["/vendor-words"] = map[string]any{"post": map[string]any{"operationId": "createVendorThing",
			"requestBody": map[string]any{"content": map[string]any{"application/json": map[string]any{"schema": obj}, "application/vnd.acme.uid+json": map[string]any{"schema": obj},
				"application/vnd.acme.https-report+json": map[string]any{"schema": obj}, "application/vnd.acme.apis.ipv6+json": map[string]any{"schema": obj}}},
			"responses": map[string]any{"204": map[string]any{"description": "d"}}}}
	}), ""})
	// "(or the identical error)": documents on which generation FAILS at several places at once - whichever entry of a map
	// the generator meets first, the error must be the same text
	bad := map[string]any{"type": "string", "x-go-type": "uuid.UUID", "x-go-type-import": "github.com/google/uuid"} // the import must be a mapping
	holder := func(schemas map[string]any) []byte {
		refs := map[string]any{}
		for n := range schemas {
			refs[strings.ToLower(n)] = map[string]any{"$ref": "#/components/schemas/" + n}
		}
		schemas["Holder"] = map[string]any{"type": "object", "properties": refs}
		b, _ := json.Marshal(map[string]any{"openapi": "3.0.3", "info": map[string]any{"title": "bad", "version": "1"},
			"paths": map[string]any{"/h": map[string]any{"get": map[string]any{"operationId": "getH", "responses": map[string]any{"200": map[string]any{"description": "d",
				"content": map[string]any{"application/json": map[string]any{"schema": map[string]any{"$ref": "#/components/schemas/Holder"}}}}}}}},
			"components": map[string]any{"schemas": schemas}})
		return b
	}
	docs = append(docs, c02Doc{"four component schemas with a malformed x-go-type-import", holder(map[string]any{"Alpha": bad, "Beta": bad, "Gamma": bad, "Delta": bad}), ""})
	docs = append(docs, c02Doc{"four properties with a malformed x-go-type-import", holder(map[string]any{"Box": map[string]any{"type": "object",
		"properties": map[string]any{"north": bad, "south": bad, "east": bad, "west": bad}}}), ""})
	docs = append(docs, c02Doc{"two schemas that normalise to one type name, twice over", holder(map[string]any{"foo_bar": map[string]any{"type": "object"}, "FooBar": map[string]any{"type": "object"},
		"baz_qux": map[string]any{"type": "object"}, "BazQux": map[string]any{"type": "object"}}), ""})
	// documents on which generation fails at ONE place: the error text must not depend on the run either (a text that
	// prints a value of the loaded document by address differs from load to load)
	strMap := map[string]any{"type": "object", "additionalProperties": map[string]any{"type": "string"}}
	intMap := map[string]any{"type": "object", "additionalProperties": map[string]any{"type": "integer"}}
	docs = append(docs, c02Doc{"allOf of two members with additional-properties schemas (rejected)", holder(map[string]any{"Labels": strMap, "Counters": intMap,
		"Both": map[string]any{"allOf": []any{map[string]any{"$ref": "#/components/schemas/Labels"}, map[string]any{"$ref": "#/components/schemas/Counters"}}}}), ""})
	docs = append(docs, c02Doc{"allOf of members that disagree on the type (rejected)", holder(map[string]any{"S": map[string]any{"type": "string"}, "N": map[string]any{"type": "integer"},
		"Both": map[string]any{"allOf": []any{map[string]any{"$ref": "#/components/schemas/S"}, map[string]any{"$ref": "#/components/schemas/N"}}}}), ""})
	docs = append(docs, c02Doc{"allOf of members that disagree on the format (rejected)", holder(map[string]any{"D": map[string]any{"type": "string", "format": "date"}, "U": map[string]any{"type": "string", "format": "uuid"},
		"Both": map[string]any{"allOf": []any{map[string]any{"$ref": "#/components/schemas/D"}, map[string]any{"$ref": "#/components/schemas/U"}}}}), ""})
	{
		b, _ := json.Marshal(map[string]any{"openapi": "3.0.3", "info": map[string]any{"title": "bad", "version": "1"},
			"paths": map[string]any{"/things/{id}": map[string]any{"get": map[string]any{"operationId": "getThing", "responses": map[string]any{"204": map[string]any{"description": "d"}}}}}})
		docs = append(docs, c02Doc{"path variable without a parameter declaration (rejected)", b, ""})
	}
	for i := 0; i < nRandom; i++ {
		d, _ := gendoc.Generate(rng, tameOpts())
		docs = append(docs, c02Doc{fmt.Sprintf("random#%d", i), d.JSON(), ""})
	}
	return docs
}

func c02Configs() []codegen.Configuration {
	im := map[string]string{"other.yaml": "example.com/other", "third.yaml": "example.com/third", "fourth.yaml": "example.com/a/fourth"}
	mk := func(g codegen.GenerateOptions, f func(*codegen.Configuration)) codegen.Configuration {
		c := codegen.Configuration{PackageName: "gen", Generate: g, ImportMapping: im}
		if f != nil {
			f(&c)
		}
		return c
	}
	return []codegen.Configuration{
		mk(codegen.GenerateOptions{EchoServer: true, Client: true, Models: true, EmbeddedSpec: true}, nil),
		mk(codegen.GenerateOptions{ChiServer: true, Strict: true, Client: true, Models: true, EmbeddedSpec: true}, nil),
		mk(codegen.GenerateOptions{GinServer: true, Models: true}, func(c *codegen.Configuration) { c.Compatibility.OldMergeSchemas = true }),
		mk(codegen.GenerateOptions{StdHTTPServer: true, Strict: true, Models: true}, func(c *codegen.Configuration) { c.OutputOptions.NullableType = true }),
	}
}

func runC02(r *Report, rng *rand.Rand, thorough bool) {
	kIn, kProc, kPerm, nRandom := 5, 3, 4, 12
	if thorough {
		kIn, kProc, kPerm, nRandom = 40, 30, 20, 120
	}
	docs := c02Docs(rng, nRandom)
	cfgs := c02Configs()
	// model tie for generations from one loaded document: which components of OTHER documents each generation declares locally
	ocases := NewCases("cases_C02_onedoc", "From V Require Import Model.Det Corr.Eval.", "bool * list string * list string * list (list string)", "mismatches_onedoc")
	defer ocases.WriteTo(r)
	extRefRe := regexp.MustCompile(`[\w./-]+\.yaml#/components/schemas/(\w+)`)
	for di, d := range docs {
		var root any
		must(json.Unmarshal(d.spec, &root))
		for ci, cfg := range cfgs {
			if strings.HasPrefix(d.label, "random") && ci > 1 {
				continue
			}
			for _, skipFmt := range []bool{false, true} {
				cfg := cfg
				cfg.OutputOptions.SkipFmt = skipFmt
				call := genCall{Label: d.label, Spec: d.spec, Cfg: cfg}
				ref := call.run()
				outs := map[string]int{ref: 1}
				runs := 1
				for i := 0; i < kIn; i++ {
					if i%2 == 1 {
						// another configuration generated in between must not change the next output of this one
						f := cfg
						switch (i / 2) % 3 {
						case 0:
							f.OutputOptions.NameNormalizer = "ToCamelCaseWithInitialisms"
						case 1:
							f.OutputOptions.ResponseTypeSuffix = "Resp"
							f.OutputOptions.ClientTypeName = "OtherClient"
						case 2:
							f.ImportMapping = map[string]string{"other.yaml": "example.com/zzz", "third.yaml": "-", "fourth.yaml": "example.com/aaa"}
							f.Compatibility.AlwaysPrefixEnumValues = true
						}
						_ = genCall{Spec: d.spec, Cfg: f}.run()
						r.Dist["interleaved_other_configuration"]++
					}
					outs[call.run()]++
					runs++
				}
				// the same LOADED document generated again and again (a generation must not change its input in a way that shows)
				one := call.runOnOneDocument(3)
				runs += len(one)
				if !skipFmt {
					extSet := map[string]bool{}
					for _, m := range extRefRe.FindAllStringSubmatch(string(d.spec), -1) {
						extSet[m[1]] = true
					}
					var ext, locals []string
					for e := range extSet {
						ext = append(ext, e)
					}
					sort.Strings(ext)
					if rm, ok := root.(map[string]any); ok {
						if cm, ok := rm["components"].(map[string]any); ok {
							if sm, ok := cm["schemas"].(map[string]any); ok {
								for k := range sm {
									locals = append(locals, k)
								}
							}
						}
					}
					sort.Strings(locals)
					var obs []string
					okAll := true
					for _, o := range one {
						pg, err := parseGo(o)
						if strings.HasPrefix(o, "ERROR") || err != nil {
							okAll = false
							break
						}
						tn := pg.typeNames()
						var decl []string
						for _, e := range ext {
							if tn[e] {
								decl = append(decl, e)
							}
						}
						obs = append(obs, gendoc.CoqStrList(decl))
					}
					if okAll {
						ocases.Add(fmt.Sprintf("(%v, %s, %s, [%s])", cfg.Generate.EmbeddedSpec, gendoc.CoqStrList(locals), gendoc.CoqStrList(ext), strings.Join(obs, "; ")), call)
					}
				}
				r.Dist["same_loaded_document_generated_three_times"]++
				outs[one[0]]++
				for k := 1; k < len(one); k++ {
					if one[k] == one[0] {
						continue
					}
					sig := "later_generation_from_one_loaded_document_differs"
					if cfg.Generate.EmbeddedSpec && bytes.Contains(d.spec, []byte(`.yaml#/`)) {
						// the embedded specification is made by InternalizeRefs on the caller's document: components of other
						// documents become local ones, and the next generation declares them as local types
						sig = "embedded_spec_internalises_references_in_the_callers_document"
					} else if d.sig != "" {
						sig = d.sig // a document with a recorded order dependence: any two generations may differ
					}
					r.Violate(sig, fmt.Sprintf("document %q (configuration %d, skip-fmt=%v): generation %d from the same loaded document differs from the first: %s", d.label, ci, skipFmt, k+1, firstLineDiff(one[0], one[k])), call)
					break
				}
				nproc := kProc
				if strings.HasPrefix(d.label, "random") || skipFmt {
					nproc = 1
				}
				for i := 0; i < nproc; i++ {
					o, err := call.runFresh()
					if err != nil {
						r.Violate("fresh_process_failed", err.Error(), call)
						continue
					}
					outs[o]++
					runs++
				}
				for i := 0; i < kPerm; i++ {
					var b bytes.Buffer
					permuteJSON(rng, root, &b)
					outs[genCall{Spec: b.Bytes(), Cfg: cfg}.run()]++
					runs++
				}
				r.Count(fmt.Sprintf("%d/%d/%v", di, ci, skipFmt), !strings.HasPrefix(ref, "ERROR"))
				r.Dist[fmt.Sprintf("runs_per_case=%d", runs)]++
				if strings.HasPrefix(ref, "ERROR") {
					r.Dist["generation_error"]++
				}
				if len(r.Samples) < 3 {
					r.Sample(map[string]any{"document": d.label, "configuration": ci, "skip_fmt": skipFmt, "runs": runs, "distinct_outputs": len(outs)})
				}
				if len(outs) > 1 {
					sig := d.sig
					if sig == "" && skipFmt {
						// is the import block the only difference?
						if onlyImportOrderDiffers(outs) {
							sig = "skipfmt_import_order"
						}
					}
					if sig == "" {
						sig = "nondeterministic_output"
					}
					var two []string
					for o := range outs {
						two = append(two, o)
						if len(two) == 2 {
							break
						}
					}
					r.Violate(sig, fmt.Sprintf("%d distinct outputs in %d generations of document %q (configuration %d, skip-fmt=%v): %s", len(outs), runs, d.label, ci, skipFmt, firstLineDiff(two[0], two[1])), call)
				}
			}
		}
	}
	r.Rule = fmt.Sprintf("each (document, configuration, skip-fmt) generated %d+ times in one process (every second time after a generation of the same document under another configuration: name normaliser, suffix and client type name, import mapping; three times from one loaded document value), in fresh processes (fresh hash seeds) and from %d random permutations of every JSON object's members; all outputs (or error strings) must be byte-identical; documents: one wide document with >= 3 entries in every map the generator walks (paths, operations, properties, content types, responses, headers, import mappings, discriminator mappings, x-go-type imports, encodings, security requirements, extensions; sibling property names that differ only in letter case), its variants with known order dependences, three documents on which generation fails at several places at once and four on which it fails at one place (the error text must be identical from load to load and from process to process), and random documents; non-trivial = generation succeeds", kIn+1, kPerm)
}

func onlyImportOrderDiffers(outs map[string]int) bool {
	norm := map[string]bool{}
	for o := range outs {
		lines := strings.Split(o, "\n")
		sort.Strings(lines)
		norm[strings.Join(lines, "\n")] = true
	}
	return len(norm) == 1
}
