package main

import (
	"encoding/json"
	"fmt"
	"math/rand"
	"regexp"
	"sort"
	"strings"

	"github.com/oapi-codegen/oapi-codegen/v2/pkg/codegen"

	"verif/harness/gendoc"
)

func randSubset(rng *rand.Rand, pool []string, max int) []string {
	if rng.Intn(2) == 0 {
		if rng.Intn(4) == 0 {
			return []string{} // a list that is given and empty (include-tags: []) is ignored like an absent one
		}
		return nil
	}
	n := 1 + rng.Intn(max)
	seen := map[string]bool{}
	var out []string
	for i := 0; i < n; i++ {
		s := pool[rng.Intn(len(pool))]
		if !seen[s] {
			seen[s] = true
			out = append(out, s)
		}
	}
	return out
}

func randFilterCfg(rng *rand.Rand, d *gendoc.Doc) gendoc.FilterCfg {
	// incl. spellings that differ from a document tag only in letter case (tag names are case-sensitive)
	tags := []string{"a", "b", "c", "x", "nosuch", "A", "B", "X"}
	ids := []string{"nosuchop"}
	for _, p := range d.Paths {
		for _, o := range p.Ops {
			ids = append(ids, o.ID)
		}
	}
	c := gendoc.FilterCfg{
		IncludeTags: randSubset(rng, tags, 3), ExcludeTags: randSubset(rng, tags, 2),
		SkipPrune: rng.Intn(5) == 0,
	}
	if rng.Intn(2) == 0 {
		c.IncludeIDs = randSubset(rng, ids, 3)
		c.ExcludeIDs = randSubset(rng, ids, 2)
	}
	return c
}

func cfgOf(c gendoc.FilterCfg) codegen.Configuration {
	cfg := baseCfg()
	cfg.OutputOptions.IncludeTags = c.IncludeTags
	cfg.OutputOptions.ExcludeTags = c.ExcludeTags
	cfg.OutputOptions.IncludeOperationIDs = c.IncludeIDs
	cfg.OutputOptions.ExcludeOperationIDs = c.ExcludeIDs
	cfg.OutputOptions.SkipPrune = c.SkipPrune
	return cfg
}

// observedPrepared projects a document (decoded JSON) onto the observables of the model,
// listed in the order of the abstract document d.
func observedPrepared(d *gendoc.Doc, root map[string]any) (paths []string, ops [][2]string, comps []string) {
	pm, _ := root["paths"].(map[string]any)
	for _, p := range d.Paths {
		item, ok := pm[p.Path].(map[string]any)
		if !ok {
			continue
		}
		paths = append(paths, p.Path)
		for _, o := range p.Ops {
			if _, ok := item[o.Method]; ok {
				ops = append(ops, [2]string{p.Path, o.Method})
			}
		}
	}
	present := map[string]bool{}
	for _, k := range gendoc.JSONCompKeys(root) {
		present[k] = true
	}
	for _, c := range d.Comps {
		if present[c.Ref()] {
			comps = append(comps, c.Ref())
		}
	}
	return
}

func coqPairs(l [][2]string) string {
	parts := make([]string, len(l))
	for i, p := range l {
		parts[i] = "(" + gendoc.CoqStr(p[0]) + ", " + gendoc.CoqStr(p[1]) + ")"
	}
	return "[" + strings.Join(parts, "; ") + "]"
}

func preparedCase(cfg gendoc.FilterCfg, d *gendoc.Doc, paths []string, ops [][2]string, comps []string) string {
	return fmt.Sprintf("(%s, %s, (%s, %s, %s))", cfg.Coq(), d.Coq(), gendoc.CoqStrList(paths), coqPairs(ops), gendoc.CoqStrList(comps))
}

var withBodyRe = regexp.MustCompile(`With\w*Body$`)

func opName(id string) string { return strings.ToUpper(id[:1]) + id[1:] }

func eqPairs(a, b [][2]string) bool {
	if len(a) != len(b) {
		return false
	}
	for i := range a {
		if a[i] != b[i] {
			return false
		}
	}
	return true
}

func sortPairs(l [][2]string) [][2]string {
	out := append([][2]string(nil), l...)
	sort.Slice(out, func(i, j int) bool {
		if out[i][0] != out[j][0] {
			return out[i][0] < out[j][0]
		}
		return out[i][1] < out[j][1]
	})
	return out
}

// selections of outputs under which the filters are exercised end to end
var c16TargetSets = []struct {
	name string
	gen  codegen.GenerateOptions
}{
	{"models", codegen.GenerateOptions{Models: true}},
	{"models", codegen.GenerateOptions{Models: true}},
	{"models+embedded-spec", codegen.GenerateOptions{Models: true, EmbeddedSpec: true}},
	{"client", codegen.GenerateOptions{Client: true}},
	{"client+models", codegen.GenerateOptions{Client: true, Models: true}},
	{"chi+models", codegen.GenerateOptions{ChiServer: true, Models: true}},
	{"std-http+strict+models+embedded-spec", codegen.GenerateOptions{StdHTTPServer: true, Strict: true, Models: true, EmbeddedSpec: true}},
	{"gin", codegen.GenerateOptions{GinServer: true}},
	{"fiber+strict+models", codegen.GenerateOptions{FiberServer: true, Strict: true, Models: true}},
	{"embedded-spec", codegen.GenerateOptions{EmbeddedSpec: true}},
}

// diffStrings returns the elements of a that are not in b.
func diffStrings(a, b []string) []string {
	in := map[string]bool{}
	for _, x := range b {
		in[x] = true
	}
	var out []string
	for _, x := range a {
		if !in[x] {
			out = append(out, x)
		}
	}
	return out
}

func runC16(r *Report, rng *rand.Rand, nHook, nE2E int) {
	cases := NewCases("cases_C16", "From V Require Import Model.Prune Model.Filter Corr.Eval.",
		"filter_cfg * doc * (list string * list (string * string) * list string)", "mismatches_prepare")
	hookOpts := gendoc.GenOpts{MaxComps: 2, MaxPaths: 3, MaxDepth: 2, RefProb: 0.5, Tags: []string{"a", "b", "c", "x", "A", "C"}}
	for i := 0; i < nHook+nE2E; i++ {
		e2e := i >= nHook
		opts := hookOpts
		if e2e {
			opts = tameOpts()
		}
		d, dist := gendoc.Generate(rng, opts)
		cfg := randFilterCfg(rng, d)
		data := d.JSON()
		replay := map[string]any{"spec": json.RawMessage(data), "filter": cfg, "end_to_end": e2e}

		// specification (independent of filter.go / prune.go)
		want := gendoc.SpecFilter(d, cfg)
		if !cfg.SkipPrune {
			want = gendoc.SpecPrune(want)
		}
		wantOps := sortPairs(want.OpKeys())
		wantComps := sortedCopy(want.CompKeys())
		total := len(d.OpKeys())
		nontrivial := len(wantOps) > 0 && len(wantOps) < total

		var root map[string]any
		if !e2e {
			spec, err := loadSpec(data)
			if err != nil {
				r.Dist["load_error"]++
				continue
			}
			ccfg := cfgOf(cfg)
			codegen.VerifFilterOperationsByTag(spec, ccfg)
			codegen.VerifFilterOperationsByOperationID(spec, ccfg)
			if !cfg.SkipPrune {
				codegen.VerifPruneUnusedComponents(spec)
			}
			root = specJSON(spec)
			r.Dist["hook_level"]++
		} else {
			code, err := generate(data, cfgOf(cfg))
			if err != nil {
				if strings.HasPrefix(err.Error(), "PANIC") {
					r.Violate("generate_panic", err.Error(), replay)
				}
				r.Dist["generate_error"]++
				continue
			}
			p, err := parseGo(code)
			if err != nil {
				r.Dist["output_unparsable"]++
				continue
			}
			parts, ok := p.swaggerSpecLiteral()
			if !ok {
				r.Violate("no_embedded_spec", "embedded spec literal not found in output", replay)
				continue
			}
			root, _, err = decodeEmbedded(parts)
			if err != nil {
				r.Violate("embedded_undecodable", err.Error(), replay)
				continue
			}
			r.Dist["end_to_end"]++
			// the generated server interface, and client, contain exactly the kept operations
			var wantNames []string
			for _, pi := range want.Paths {
				for _, o := range pi.Ops {
					wantNames = append(wantNames, opName(o.ID))
				}
			}
			sort.Strings(wantNames)
			if got, ok := p.interfaceMethods("ServerInterface"); !ok || !eqStrings(got, wantNames) {
				r.Violate("server_interface_ops", fmt.Sprintf("ServerInterface has %v, filter keeps %v", got, wantNames), replay)
			}
			if got, ok := p.interfaceMethods("ClientInterface"); ok {
				set := map[string]bool{}
				for _, m := range got {
					set[withBodyRe.ReplaceAllString(m, "")] = true
				}
				var names []string
				for k := range set {
					names = append(names, k)
				}
				sort.Strings(names)
				if !eqStrings(names, wantNames) {
					r.Violate("client_interface_ops", fmt.Sprintf("ClientInterface has %v, filter keeps %v", names, wantNames), replay)
				}
			} else {
				r.Violate("client_interface_ops", "ClientInterface missing", replay)
			}
			// router: one registration per kept operation
			regs := strings.Count(code, "router."+"GET(") + strings.Count(code, "router.PUT(") + strings.Count(code, "router.POST(") +
				strings.Count(code, "router.DELETE(") + strings.Count(code, "router.OPTIONS(") + strings.Count(code, "router.HEAD(") +
				strings.Count(code, "router.PATCH(") + strings.Count(code, "router.TRACE(") + strings.Count(code, "router.CONNECT(")
			if regs != len(wantNames) {
				r.Violate("router_registrations", fmt.Sprintf("%d routes registered, filter keeps %d operations", regs, len(wantNames)), replay)
			}
		}
		if e2e {
			// every selection of outputs: what is generated under the filter declares exactly what is generated, without any
			// filter, from the document whose removed operations were taken out by hand (the statement's own filter)
			ts := c16TargetSets[rng.Intn(len(c16TargetSets))]
			fcfg := cfgOf(cfg)
			fcfg.Generate = ts.gen
			ncfg := cfgOf(gendoc.FilterCfg{SkipPrune: cfg.SkipPrune})
			ncfg.Generate = ts.gen
			got, err1 := generate(data, fcfg)
			ref, err2 := generate(gendoc.SpecFilter(d, cfg).JSON(), ncfg)
			r.Dist["targets="+ts.name]++
			if (err1 == nil) != (err2 == nil) {
				r.Violate("filtered_generation_differs", fmt.Sprintf("targets %s: generation under the filter: %v; generation from the document filtered by hand: %v", ts.name, err1, err2), replay)
			} else if err1 == nil {
				pg, e1 := parseGo(got)
				pr, e2 := parseGo(ref)
				if e1 == nil && e2 == nil {
					if g, w := pg.declNames(), pr.declNames(); !eqStrings(g, w) {
						r.Violate("filtered_generation_differs", fmt.Sprintf("targets %s: declarations under the filter differ from those of the document filtered by hand: only under the filter %v, only by hand %v", ts.name, diffStrings(g, w), diffStrings(w, g)), replay)
					}
					if got == ref {
						r.Dist["filtered_generation_byte_equal"]++
					}
				}
			}
		}
		paths, ops, comps := observedPrepared(d, root)
		cases.Add(preparedCase(cfg, d, paths, ops, comps), replay)
		r.AddDist(map[string]int{"positions_total": len(dist)})
		r.Count(string(data)+fmt.Sprint(cfg), nontrivial)
		if i < 2 || (e2e && i < nHook+1) {
			r.Sample(map[string]any{"filter": cfg, "operations": d.OpKeys(), "kept": ops, "components_kept": comps})
		}
		// oracle on the implementation
		if gotOps := gendoc.JSONOpKeys(root); !eqPairs(gotOps, wantOps) {
			r.Violate("op_set", fmt.Sprintf("operations after filtering %v, statement keeps %v", gotOps, wantOps), replay)
		}
		if gotComps := gendoc.JSONCompKeys(root); !eqStrings(gotComps, wantComps) {
			r.Violate("component_set", fmt.Sprintf("components after filter+prune %v, statement keeps %v", gotComps, wantComps), replay)
		}
		if len(paths) != len(d.Paths) {
			r.Violate("path_item_dropped", "a path item disappeared", replay)
		}
		if len(cfg.IncludeTags) > 0 && len(cfg.ExcludeTags) > 0 {
			r.Dist["include+exclude tags"]++
		}
		if len(cfg.IncludeIDs)+len(cfg.ExcludeIDs) > 0 {
			r.Dist["id lists"]++
		}
		for _, pi := range want.Paths {
			if len(pi.Ops) == 0 {
				r.Dist["path losing all operations"]++
				break
			}
		}
	}
	cases.WriteTo(r)
	r.Rule = "documents x 0-3 tags per operation x include/exclude lists for tags and ids (empty, disjoint, overlapping, unknown names), with and without skip-prune; hook level (filter functions + prune on the loaded document) and end to end (codegen.Generate: ServerInterface / ClientInterface method sets, router registrations, decoded embedded spec; under a selection of outputs drawn from ten - models only, client only, single servers, strict, embedded spec only - the declarations generated under the filter equal those generated without filter from the document filtered by hand); non-trivial = the filter keeps some but not all operations"
}
