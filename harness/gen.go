package main

import (
	"fmt"
	"go/ast"
	"go/parser"
	"go/token"
	"os"
	"path/filepath"
	"regexp"
	"sort"
	"strconv"
	"strings"

	"verif/harness/gendoc"
)

// runGen regenerates coq/Gen/*.v from /repo's current source (mechanism T).
func runGen(repo, outDir string) error {
	must(os.MkdirAll(outDir, 0o755))
	s, err := scanCodegen(repo)
	if err != nil {
		return err
	}
	// Globals.v
	var sb strings.Builder
	sb.WriteString("(* GENERATED from /repo/pkg/codegen by harness/scan.go on every run. Do not edit. *)\n")
	sb.WriteString("From Coq Require Import List String.\nFrom V Require Import Model.History.\nImport ListNotations.\nLocal Open Scope string_scope.\n\n")
	sb.WriteString("Definition globals : list (string * gclass) := [\n")
	gs := s.globals()
	for i, g := range gs {
		sep := ";"
		if i == len(gs)-1 {
			sep = ""
		}
		fmt.Fprintf(&sb, "  (%s, %s)%s  (* %s *)\n", coqLitStr(g.Name), g.Class, sep, strings.ReplaceAll(strings.Join(g.Details, "; "), "*)", "* )"))
	}
	sb.WriteString("].\n")
	must(os.WriteFile(filepath.Join(outDir, "Globals.v"), []byte(sb.String()), 0o644))

	// Sites.v
	sb.Reset()
	sb.WriteString("(* GENERATED from /repo/pkg/codegen by harness/scan.go on every run. Do not edit. *)\n")
	sb.WriteString("From Coq Require Import List String.\nFrom V Require Import Model.Det.\nImport ListNotations.\nLocal Open Scope string_scope.\n\n")
	sb.WriteString("(* function, ordinal of the map range within the function, ranged expression, features of the loop body *)\n")
	sb.WriteString("Definition sites : list site := [\n")
	sites := s.mapRangeSites()
	for i, st := range sites {
		sep := ";"
		if i == len(sites)-1 {
			sep = ""
		}
		fs := make([]string, len(st.Features))
		for j, f := range st.Features {
			fs[j] = coqLitStr(f)
		}
		fmt.Fprintf(&sb, "  {| s_func := %s; s_ord := %d; s_expr := %s; s_features := [%s] |}%s  (* %s *)\n",
			coqLitStr(st.Func), st.Ordinal, coqLitStr(st.Expr), strings.Join(fs, "; "), sep, st.Where)
	}
	sb.WriteString("].\n")
	must(os.WriteFile(filepath.Join(outDir, "Sites.v"), []byte(sb.String()), 0o644))

	// Targets.v: the switch of generationTargets in cmd/oapi-codegen
	tt, err := scanTargets(repo)
	if err != nil {
		return err
	}
	sb.Reset()
	sb.WriteString("(* GENERATED from /repo/cmd/oapi-codegen/oapi-codegen.go (generationTargets) on every run. Do not edit. *)\n")
	sb.WriteString("From Coq Require Import List String.\nFrom V Require Import Model.Cli.\nImport ListNotations.\nLocal Open Scope string_scope.\n\n")
	sb.WriteString("Definition scanned_targets : list (string * target_effect) := [\n")
	for i, t := range tt {
		sep := ";"
		if i == len(tt)-1 {
			sep = ""
		}
		fmt.Fprintf(&sb, "  (%s, %s)%s\n", coqLitStr(t[0]), t[1], sep)
	}
	sb.WriteString("].\n")
	must(os.WriteFile(filepath.Join(outDir, "Targets.v"), []byte(sb.String()), 0o644))

	// Ambient.v: reads of anything but the arguments (clock, randomness, environment, host, build information)
	sb.Reset()
	sb.WriteString("(* GENERATED from /repo/pkg/codegen by harness/scan.go on every run. Do not edit. *)\n")
	sb.WriteString("From Coq Require Import List String.\nImport ListNotations.\nLocal Open Scope string_scope.\n\n")
	sb.WriteString("(* enclosing function, callee *)\nDefinition ambient_reads : list (string * string) := [\n")
	ac := s.ambientCalls()
	for i, a := range ac {
		sep := ";"
		if i == len(ac)-1 {
			sep = ""
		}
		fmt.Fprintf(&sb, "  (%s, %s)%s\n", coqLitStr(a[0]), coqLitStr(a[1]), sep)
	}
	sb.WriteString("].\n")
	sb.WriteString("\n(* enclosing function, formatting verb and static type of an argument whose text holds a heap address *)\nDefinition address_formats : list (string * string) := [\n")
	af := s.addressFormats()
	for i, a := range af {
		sep := ";"
		if i == len(af)-1 {
			sep = ""
		}
		fmt.Fprintf(&sb, "  (%s, %s)%s\n", coqLitStr(a[0]), coqLitStr(a[1]), sep)
	}
	sb.WriteString("].\n")
	must(os.WriteFile(filepath.Join(outDir, "Ambient.v"), []byte(sb.String()), 0o644))

	// VisitOrder.v: the writer operations of every Visit function of strict-interface.tmpl, in textual order
	vs, err := scanVisitOrder(repo)
	if err != nil {
		return err
	}
	sb.Reset()
	sb.WriteString("(* GENERATED from /repo/pkg/codegen/templates/strict/strict-interface.tmpl on every run. Do not edit. *)\n")
	sb.WriteString("From Coq Require Import List String.\nFrom V Require Import Model.Writer.\nImport ListNotations.\nLocal Open Scope string_scope.\n\n")
	sb.WriteString("(* Visit function (ordinal in the template), its Header().Set / WriteHeader / body-write calls in the order of the text *)\n")
	sb.WriteString("Definition visit_sequences : list (string * list wtoken) := [\n")
	for i, v := range vs {
		sep := ";"
		if i == len(vs)-1 {
			sep = ""
		}
		fmt.Fprintf(&sb, "  (%s, [%s])%s\n", coqLitStr(v.Name), strings.Join(v.Tokens, "; "), sep)
	}
	sb.WriteString("].\n")
	must(os.WriteFile(filepath.Join(outDir, "VisitOrder.v"), []byte(sb.String()), 0o644))

	// ScopeOrder.v: publishing of the security scopes, entry into the per-operation middleware chain and call of the user's
	// handler in EXECUTION order, for the wrappers that run the middlewares themselves
	so, err := scanScopeOrder(repo)
	if err != nil {
		return err
	}
	sb.Reset()
	sb.WriteString("(* GENERATED from the wrapper templates of /repo (chi, gorilla, std-http, gin) on every run. Do not edit. *)\n")
	sb.WriteString("From Coq Require Import List String.\nFrom V Require Import Model.Security.\nImport ListNotations.\nLocal Open Scope string_scope.\n\n")
	sb.WriteString("(* template, [publish scopes | enter the middleware chain | call the handler] in the order in which they are executed *)\n")
	sb.WriteString("Definition scope_order : list (string * list wtok) := [\n")
	for i, v := range so {
		sep := ";"
		if i == len(so)-1 {
			sep = ""
		}
		fmt.Fprintf(&sb, "  (%s, [%s])%s\n", coqLitStr(v.Name), strings.Join(v.Tokens, "; "), sep)
	}
	sb.WriteString("].\n")
	must(os.WriteFile(filepath.Join(outDir, "ScopeOrder.v"), []byte(sb.String()), 0o644))
	// Wrappers.v: the seven server wrapper templates as terms of Model/Tmpl.v
	return writeWrappersV(repo, outDir)
}

// scanScopeOrder reads, from the body of the wrapper method of each template, where the scopes are published relative to
// the middleware chain. net/http flavours: the handler call sits in a closure (http.HandlerFunc(func...) that the
// middlewares wrap and handler.ServeHTTP enters: statements before the closure run first, then the chain, then the
// closure's body. gin: the text order is the execution order.
func scanScopeOrder(repo string) ([]visitSeq, error) {
	var out []visitSeq
	for _, rel := range []string{"chi/chi-middleware.tmpl", "gorilla/gorilla-middleware.tmpl", "stdhttp/std-http-middleware.tmpl", "gin/gin-wrappers.tmpl"} {
		b, err := os.ReadFile(filepath.Join(repo, "pkg/codegen/templates", rel))
		if err != nil {
			return nil, err
		}
		text := string(b)
		start := strings.Index(text, "func (siw *ServerInterfaceWrapper)")
		if start < 0 {
			out = append(out, visitSeq{rel, nil})
			continue
		}
		body := text[start:]
		type ev struct {
			pos int
			tok string
		}
		var evs []ev
		for _, m := range regexp.MustCompile(`Scopes, \{\{toStringArray \.Scopes\}\}\)`).FindAllStringIndex(body, -1) {
			evs = append(evs, ev{m[0], "KPublish"})
		}
		if i := strings.Index(body, "siw.Handler.{{"); i >= 0 {
			evs = append(evs, ev{i, "KHandler"})
		}
		var toks []string
		if strings.HasPrefix(rel, "gin/") {
			if i := strings.Index(body, "range siw.HandlerMiddlewares"); i >= 0 {
				evs = append(evs, ev{i, "KChain"})
			}
			sort.Slice(evs, func(i, j int) bool { return evs[i].pos < evs[j].pos })
			for _, e := range evs {
				toks = append(toks, e.tok)
			}
		} else {
			closure := strings.Index(body, "http.HandlerFunc(func(")
			serve := strings.Index(body, "handler.ServeHTTP(")
			if closure < 0 || serve < 0 {
				out = append(out, visitSeq{rel, nil})
				continue
			}
			sort.Slice(evs, func(i, j int) bool { return evs[i].pos < evs[j].pos })
			for _, e := range evs { // statements of the wrapper before the closure is made
				if e.pos < closure {
					toks = append(toks, e.tok)
				}
			}
			toks = append(toks, "KChain")
			for _, e := range evs { // the closure's body, run by the innermost middleware
				if e.pos > closure && e.pos < serve {
					toks = append(toks, e.tok)
				}
			}
		}
		out = append(out, visitSeq{rel, toks})
	}
	return out, nil
}

type visitSeq struct {
	Name   string
	Tokens []string
}

var visitStartRE = regexp.MustCompile(`func \(response [^)]*\) Visit[^(]*\(w http\.ResponseWriter\) error \{`)
var visitTokenRE = regexp.MustCompile(`w\.Header\(\)\.Set\(|w\.WriteHeader\(|w\.Write\(|NewEncoder\(w\)|io\.Copy\(w,|fmt\.Fprint\w*\(w,`)

// scanVisitOrder splits the template at the Visit functions that take an http.ResponseWriter and lists, for each, the
// calls that set a header (TSet), write the status (TStatus) or write body bytes (TBody) in the order of the text (creating a multipart writer on w writes nothing yet).
func scanVisitOrder(repo string) ([]visitSeq, error) {
	b, err := os.ReadFile(filepath.Join(repo, "pkg/codegen/templates/strict/strict-interface.tmpl"))
	if err != nil {
		return nil, err
	}
	text := string(b)
	starts := visitStartRE.FindAllStringIndex(text, -1)
	var out []visitSeq
	for i, st := range starts {
		end := len(text)
		if i+1 < len(starts) {
			end = starts[i+1][0]
		}
		var toks []string
		for _, m := range visitTokenRE.FindAllString(text[st[1]:end], -1) {
			switch {
			case strings.HasPrefix(m, "w.Header"):
				toks = append(toks, "TSet")
			case strings.HasPrefix(m, "w.WriteHeader"):
				toks = append(toks, "TStatus")
			default:
				toks = append(toks, "TBody")
			}
		}
		out = append(out, visitSeq{fmt.Sprintf("strict-interface.tmpl#%d", i+1), toks})
	}
	return out, nil
}

var targetEffects = map[string]string{"IrisServer": "EIris", "ChiServer": "EChi", "FiberServer": "EFiber", "EchoServer": "EEcho", "GinServer": "EGin",
	"GorillaServer": "EGorilla", "StdHTTPServer": "EStdHTTP", "Strict": "EStrict", "Client": "EClient", "Models": "EModels", "EmbeddedSpec": "ESpec",
	"SkipFmt": "ESkipFmt", "SkipPrune": "ESkipPrune"}

// scanTargets reads the (label, effect) pairs of the switch in generationTargets.
func scanTargets(repo string) ([][2]string, error) {
	fset := token.NewFileSet()
	f, err := parser.ParseFile(fset, filepath.Join(repo, "cmd", "oapi-codegen", "oapi-codegen.go"), nil, 0)
	if err != nil {
		return nil, err
	}
	var out [][2]string
	found := false
	for _, d := range f.Decls {
		fd, ok := d.(*ast.FuncDecl)
		if !ok || fd.Name.Name != "generationTargets" {
			continue
		}
		found = true
		ast.Inspect(fd.Body, func(n ast.Node) bool {
			cc, ok := n.(*ast.CaseClause)
			if !ok || len(cc.List) == 0 {
				return true
			}
			effect := "EUnknown_no_assignment"
			if len(cc.Body) == 1 {
				if as, ok := cc.Body[0].(*ast.AssignStmt); ok && len(as.Lhs) == 1 {
					if sel, ok := as.Lhs[0].(*ast.SelectorExpr); ok {
						if id, ok := as.Rhs[0].(*ast.Ident); ok && id.Name == "true" {
							if e, ok := targetEffects[sel.Sel.Name]; ok {
								effect = e
							} else {
								effect = "EUnknown_" + sel.Sel.Name
							}
						}
					}
				}
			} else {
				effect = "EUnknown_several_statements"
			}
			for _, l := range cc.List {
				if bl, ok := l.(*ast.BasicLit); ok {
					s, _ := strconv.Unquote(bl.Value)
					out = append(out, [2]string{s, effect})
				}
			}
			return true
		})
	}
	if !found {
		return nil, fmt.Errorf("generationTargets not found")
	}
	return out, nil
}

func coqLitStr(s string) string { return `"` + strings.ReplaceAll(s, `"`, `""`) + `"` }

var _ = gendoc.CoqStr
