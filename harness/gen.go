package main

import (
	"fmt"
	"os"
	"path/filepath"
	"strings"

	"verif/harness/gendoc"
)

// runGen regenerates coq/Gen/*.v from /repo's current source (mechanism T).
func runGen(repo, outDir string) error {
	must(os.MkdirAll(outDir, 0o755))
	s, err := scanCodegen(repo)
	if err != nil {
		return err
	}
	// Globals.v
	var sb strings.Builder
	sb.WriteString("(* GENERATED from /repo/pkg/codegen by harness/scan.go on every run. Do not edit. *)\n")
	sb.WriteString("From Coq Require Import List String.\nFrom V Require Import Model.History.\nImport ListNotations.\nLocal Open Scope string_scope.\n\n")
	sb.WriteString("Definition globals : list (string * gclass) := [\n")
	gs := s.globals()
	for i, g := range gs {
		sep := ";"
		if i == len(gs)-1 {
			sep = ""
		}
		fmt.Fprintf(&sb, "  (%s, %s)%s  (* %s *)\n", coqLitStr(g.Name), g.Class, sep, strings.ReplaceAll(strings.Join(g.Details, "; "), "*)", "* )"))
	}
	sb.WriteString("].\n")
	must(os.WriteFile(filepath.Join(outDir, "Globals.v"), []byte(sb.String()), 0o644))

	// Sites.v
	sb.Reset()
	sb.WriteString("(* GENERATED from /repo/pkg/codegen by harness/scan.go on every run. Do not edit. *)\n")
	sb.WriteString("From Coq Require Import List String.\nFrom V Require Import Model.Det.\nImport ListNotations.\nLocal Open Scope string_scope.\n\n")
	sb.WriteString("(* function, ordinal of the map range within the function, ranged expression, features of the loop body *)\n")
	sb.WriteString("Definition sites : list site := [\n")
	sites := s.mapRangeSites()
	for i, st := range sites {
		sep := ";"
		if i == len(sites)-1 {
			sep = ""
		}
		fs := make([]string, len(st.Features))
		for j, f := range st.Features {
			fs[j] = coqLitStr(f)
		}
		fmt.Fprintf(&sb, "  {| s_func := %s; s_ord := %d; s_expr := %s; s_features := [%s] |}%s  (* %s *)\n",
			coqLitStr(st.Func), st.Ordinal, coqLitStr(st.Expr), strings.Join(fs, "; "), sep, st.Where)
	}
	sb.WriteString("].\n")
	must(os.WriteFile(filepath.Join(outDir, "Sites.v"), []byte(sb.String()), 0o644))
	return nil
}

func coqLitStr(s string) string { return `"` + strings.ReplaceAll(s, `"`, `""`) + `"` }

var _ = gendoc.CoqStr
