package main

import (
	"encoding/json"
	"fmt"
	"go/ast"
	"go/token"
	"math/big"
	"math/rand"
	"sort"
	"strconv"
	"strings"

	"github.com/oapi-codegen/oapi-codegen/v2/pkg/codegen"

	"verif/harness/gendoc"
)

var enumAlphabet = []string{"", " ", "a", "A", "b", "foo", "Foo", "FOO", "foo1", "Foo1", "1", "1a", "2", "-", "a-b", "a_b", "a b", "a.b", "func", "type", "nil", "true", "string",
	"empty", "Empty", "_empty", "_1", "_12", "Kilo_Watt", "KiloWatt", "NOT_FOUND", "NOTFOUND", "é", "日本", "a\"b", "a\\tb", "a\tb", "line\nbreak", "$", "+1", "-1", "x.y", "a+b", "&", "A B"}

func coqTable(m map[string]string) string {
	ks := make([]string, 0, len(m))
	for k := range m {
		ks = append(ks, k)
	}
	sort.Strings(ks)
	var ps []string
	for _, k := range ks {
		ps = append(ps, "("+gendoc.CoqStr(k)+", "+gendoc.CoqStr(m[k])+")")
	}
	return "[" + strings.Join(ps, "; ") + "]"
}

func allCoqSafe(l ...string) bool {
	for _, s := range l {
		if !gendoc.CoqSafe(s) {
			return false
		}
	}
	return true
}

// modelKeys replays the two renaming stages with the real normaliser to decide the guard
// (pairwise distinct keys); used only to classify, never as expected output.
func enumGuard(names []string) (stage2 []string, ok2, ok3 bool) {
	seen := map[string]bool{}
	var dedup []string
	for _, n := range names {
		if !seen[n] {
			seen[n] = true
			dedup = append(dedup, n)
		}
	}
	counts := map[string]int{}
	keyset := map[string]bool{}
	ok2 = true
	for _, n := range dedup {
		s := codegen.SanitizeGoIdentity(codegen.SchemaNameToTypeName(n))
		k := s
		if counts[s] > 0 {
			k = s + strconv.Itoa(counts[s])
		}
		counts[s]++
		if keyset[k] {
			ok2 = false
		}
		keyset[k] = true
		stage2 = append(stage2, k)
	}
	k3 := map[string]bool{}
	ok3 = true
	for k := range keyset {
		n := codegen.SchemaNameToTypeName(k)
		if k3[n] {
			ok3 = false
		}
		k3[n] = true
	}
	return
}

// emptyMeetsEmpty: the list holds the empty string and another value whose name sanitises to Empty (the
// old-enum-conflicts arm names the empty value Empty whatever SanitizeEnumNames called it).
func emptyMeetsEmpty(names, vals []string) bool {
	hasEmpty, other := false, false
	for i, v := range vals {
		n := v
		if i < len(names) {
			n = names[i]
		}
		if v == "" {
			hasEmpty = true
		} else if codegen.SanitizeGoIdentity(codegen.SchemaNameToTypeName(n)) == "Empty" {
			other = true
		}
	}
	return hasEmpty && other
}

func dedupStrings(l []string) []string {
	seen := map[string]bool{}
	var out []string
	for _, x := range l {
		if !seen[x] {
			seen[x] = true
			out = append(out, x)
		}
	}
	return out
}

// valuesOfDedup: the values kept by stage 1 (first occurrence of every name).
func valuesOfDedup(names, vals []string) []string {
	seen := map[string]bool{}
	var out []string
	for i, n := range names {
		if !seen[n] && i < len(vals) {
			seen[n] = true
			out = append(out, vals[i])
		}
	}
	return out
}

// numKey is the exact value of a numeric literal (decimal, with or without exponent) as a reduced fraction.
func numKey(lit string) string {
	r, ok := new(big.Rat).SetString(lit)
	if !ok {
		return lit
	}
	return r.String()
}

// nameChainInvalid: some name goes through SchemaNameToTypeName, SanitizeGoIdentity and SchemaNameToTypeName again to
// the empty string or to a text starting with a digit (an underscore hiding a leading digit: _1, _12).
func nameChainInvalid(names []string) bool {
	for _, n := range names {
		if n == "" {
			continue
		}
		f := codegen.SchemaNameToTypeName(codegen.SanitizeGoIdentity(codegen.SchemaNameToTypeName(n)))
		if f == "" || (f[0] >= '0' && f[0] <= '9') {
			return true
		}
	}
	return false
}

func runC11(r *Report, rng *rand.Rand, thorough bool) {
	// make sure the package-level normaliser is the default one
	_, _ = generate([]byte(`{"openapi":"3.0.3","info":{"title":"t","version":"1"},"paths":{}}`), codegen.Configuration{PackageName: "x", Generate: codegen.GenerateOptions{Models: true}})
	nLists := 400
	if thorough {
		nLists = 8000
	}
	scases := NewCases("cases_C11_sanitize", "From V Require Import Model.Enum Corr.Eval.", "list (string * string) * list string * list string * list (string * string)", "mismatches_sanitize")
	type listInfo struct {
		values []string
	}
	var lists [][]string
	fixed := [][]string{{"foo1", "Foo", "foo"}, {"", " "}, {"a-b", "a_b", "a b"}, {"1", "1a", "-1", "+1"}, {"func", "type", "nil"}, {"a\"b", "a\\tb", "line\nbreak"}, {"hello", "hello\nworld", "line one\r\nline two"}, {"a", "a", "b"},
		{"empty", ""}, {"Empty", "", "x"}, {"_empty", "on", ""}, {"_1", "b"}, {"_12", "b"},
		// names that are exported Go identifiers already and meet after camel-casing
		{"Kilo_Watt", "KiloWatt", "Joule"}, {"NOT_FOUND", "NOTFOUND"}}
	lists = append(lists, fixed...)
	for len(lists) < nLists {
		n := 1 + rng.Intn(5)
		var l []string
		for i := 0; i < n; i++ {
			l = append(l, enumAlphabet[rng.Intn(len(enumAlphabet))])
		}
		lists = append(lists, l)
	}
	chcases := NewCases("cases_C11_chain", "From V Require Import Model.Names Corr.Eval.", "string * list N", "mismatches_enum_chain")
	chainSeen := map[string]bool{}
	addChain := func(n string) {
		if chainSeen[n] || !allCoqSafe(n) {
			return
		}
		for _, c := range n {
			if c >= 128 {
				return
			}
		}
		chainSeen[n] = true
		f := codegen.SchemaNameToTypeName(codegen.SanitizeGoIdentity(codegen.SchemaNameToTypeName(n)))
		var codes []string
		for _, c := range f {
			codes = append(codes, fmt.Sprintf("%d%%N", c))
		}
		chcases.Add(fmt.Sprintf("(%s, [%s])", gendoc.CoqStr(n), strings.Join(codes, "; ")), map[string]any{"name": n})
	}
	for _, n := range enumAlphabet {
		addChain(n)
	}
	for i := 0; i < nLists; i++ { // random ASCII names
		var b []byte
		for j := 0; j < 1+rng.Intn(6); j++ {
			b = append(b, "aZ09_-. $+&xY1"[rng.Intn(14)])
		}
		addChain(string(b))
	}
	chcases.WriteTo(r)
	for _, vals := range lists {
		names := vals
		got := codegen.SanitizeEnumNames(names, vals)
		// function-level model tie
		norm := map[string]string{}
		for _, n := range names {
			norm[n] = codegen.SanitizeGoIdentity(codegen.SchemaNameToTypeName(n))
		}
		var obs [][2]string
		for k, v := range got {
			obs = append(obs, [2]string{k, v})
		}
		obs = sortPairs(obs)
		safe := allCoqSafe(vals...)
		for _, p := range obs {
			safe = safe && allCoqSafe(p[0], p[1])
		}
		for _, v := range norm {
			safe = safe && allCoqSafe(v)
		}
		if safe {
			scases.Add(fmt.Sprintf("(%s, %s, %s, %s)", coqTable(norm), gendoc.CoqStrList(names), gendoc.CoqStrList(vals), coqPairs(obs)), map[string]any{"values": vals})
		}
		// oracle: no distinct value lost
		distinct := map[string]bool{}
		for _, v := range vals {
			distinct[v] = true
		}
		kept := map[string]bool{}
		for _, v := range got {
			kept[v] = true
		}
		_, ok2, _ := enumGuard(names)
		r.Count("sanitize:"+fmt.Sprint(vals), len(distinct) > 1)
		if len(kept) != len(distinct) {
			sig := "sanitize_loses_value"
			if !ok2 {
				sig = "enum_suffix_collision"
			}
			r.Violate(sig, fmt.Sprintf("SanitizeEnumNames(%q) = %v: %d of %d distinct values kept", vals, got, len(kept), len(distinct)), map[string]any{"values": vals})
		}
	}
	scases.WriteTo(r)

	// ---- end to end: constants of generated files
	ccases := NewCases("cases_C11_constants", "From V Require Import Model.Enum Corr.Eval.", "list (string * string) * list (string * string) * list string * list string * list (string * string)", "mismatches_constants")
	ocases := NewCases("cases_C11_constants_old", "From V Require Import Model.Enum Corr.Eval.", "list (string * string) * list (string * string) * list string * list string * list (string * string)", "mismatches_constants_old")
	lcases := NewCases("cases_C11_literal", "From V Require Import Model.Enum Corr.Eval.", "string * string", "mismatches_literal")
	nDocs := 40
	if thorough {
		nDocs = 600
	}
	positions := []string{"component", "property", "parameter", "array-item", "request-body", "response"}
	varNamePool := []string{"Empty", "None", "First", "first", "Second", "A", "B", "a-b", "Unset", "_1", "Low_Level", "LowLevel"}
	nDocs += 3 * len(fixed) // every fixed list under every option
	for d := 0; d < nDocs; d++ {
		vals := lists[rng.Intn(len(lists))]
		if d < 3*len(fixed) {
			vals = fixed[d%len(fixed)]
		}
		pos := positions[d%len(positions)]
		base := []string{"string", "string", "string", "integer", "number"}[rng.Intn(5)]
		if d < 3*len(fixed) {
			// the fixed lists are string lists, and each meets a different position under each of the three options
			base = "string"
			pos = positions[(d+d/len(fixed))%len(positions)]
		}
		var enumVals []any
		var specVals []string
		intFormat := ""
		if base == "integer" {
			// small values, and values float32 cannot hold (2^24 + 1 and beyond; all below 2^53: the loader reads numbers as float64)
			pool := []int{-2, -1, 0, 1, 2, 3, 4, 16777216, 16777217, 123456789, 20240229, 4294967297}
			// every integer format the type table knows, with values the format can hold
			intFormat = []string{"", "", "int32", "int64", "int8", "int16", "int", "uint", "uint8", "uint16", "uint32", "uint64"}[rng.Intn(12)]
			switch intFormat {
			case "int8":
				pool = []int{-128, -2, -1, 0, 1, 2, 3, 100, 127}
			case "int16":
				pool = []int{-32768, -2, -1, 0, 1, 2, 300, 32767}
			case "int32":
				pool = []int{-2147483648, -2, -1, 0, 1, 2, 16777217, 2147483647}
			case "uint8":
				pool = []int{0, 1, 2, 3, 200, 255}
			case "uint16":
				pool = []int{0, 1, 2, 3, 300, 65535}
			case "uint", "uint32":
				pool = []int{0, 1, 2, 3, 16777217, 4294967295}
			case "uint64":
				pool = []int{0, 1, 2, 3, 16777217, 4294967297}
			}
			seen := map[int]bool{}
			for i := 0; i < 1+rng.Intn(4); i++ {
				x := pool[rng.Intn(len(pool))]
				if !seen[x] {
					seen[x] = true
					enumVals = append(enumVals, x)
					specVals = append(specVals, fmt.Sprint(x))
				}
			}
		} else if base == "number" {
			pool := []float64{0.5, 1.5, -2.25, 1.23456789, 0.1, 16777217, 1e21, 3}
			seen := map[float64]bool{}
			for i := 0; i < 1+rng.Intn(4); i++ {
				x := pool[rng.Intn(len(pool))]
				if !seen[x] {
					seen[x] = true
					enumVals = append(enumVals, x)
					specVals = append(specVals, strconv.FormatFloat(x, 'g', -1, 64))
				}
			}
		} else {
			for _, v := range vals {
				enumVals = append(enumVals, v)
				specVals = append(specVals, v)
			}
		}
		if base != "string" {
			for i := range specVals {
				specVals[i] = numKey(specVals[i])
			}
		}
		enumSchema := map[string]any{"type": base, "enum": enumVals}
		if intFormat != "" {
			enumSchema["format"] = intFormat
		}
		if base == "number" {
			if f := []string{"", "float", "double"}[rng.Intn(3)]; f != "" {
				enumSchema["format"] = f
				r.Dist["number_format="+f]++
			}
		}
		if base == "integer" {
			r.Dist["integer_format="+intFormat]++
		}
		// names given by the document (x-enum-varnames / x-enumNames): distinct names for distinct values
		names := specVals
		varKey := ""
		if base == "string" && d >= 3*len(fixed) && rng.Intn(4) == 0 {
			seenV := map[string]bool{}
			enumVals, specVals = nil, nil
			for _, v := range vals {
				if !seenV[v] {
					seenV[v] = true
					enumVals = append(enumVals, v)
					specVals = append(specVals, v)
				}
			}
			perm := rng.Perm(len(varNamePool))
			names = nil
			for i := range specVals {
				names = append(names, varNamePool[perm[i]])
			}
			varKey = []string{"x-enum-varnames", "x-enumNames"}[rng.Intn(2)]
			enumSchema = map[string]any{"type": base, "enum": enumVals, varKey: names}
			r.Dist["names_from="+varKey]++
		}
		comps := map[string]any{"Other": map[string]any{"type": "object", "properties": map[string]any{"x": map[string]any{"type": "string"}}}}
		op := map[string]any{"operationId": "getE", "responses": map[string]any{"204": map[string]any{"description": "d"}}}
		typeName := ""
		switch pos {
		case "component":
			comps["Color"] = enumSchema
			typeName = "Color"
			op["responses"] = map[string]any{"200": map[string]any{"description": "d", "content": map[string]any{"application/json": map[string]any{"schema": map[string]any{"$ref": "#/components/schemas/Color"}}}}}
		case "property":
			comps["Holder"] = map[string]any{"type": "object", "properties": map[string]any{"color": enumSchema}}
			typeName = "HolderColor"
			op["responses"] = map[string]any{"200": map[string]any{"description": "d", "content": map[string]any{"application/json": map[string]any{"schema": map[string]any{"$ref": "#/components/schemas/Holder"}}}}}
		case "parameter":
			op["parameters"] = []any{map[string]any{"name": "color", "in": "query", "schema": enumSchema}}
			typeName = "GetEParamsColor"
		case "array-item":
			comps["Holder"] = map[string]any{"type": "object", "properties": map[string]any{"colors": map[string]any{"type": "array", "items": enumSchema}}}
			typeName = "HolderColors"
			op["responses"] = map[string]any{"200": map[string]any{"description": "d", "content": map[string]any{"application/json": map[string]any{"schema": map[string]any{"$ref": "#/components/schemas/Holder"}}}}}
		case "request-body":
			op["requestBody"] = map[string]any{"content": map[string]any{"application/json": map[string]any{"schema": map[string]any{"type": "object", "properties": map[string]any{"color": enumSchema}}}}}
			typeName = "GetEJSONBodyColor"
		case "response":
			op["responses"] = map[string]any{"200": map[string]any{"description": "d", "content": map[string]any{"application/json": map[string]any{"schema": map[string]any{"type": "object", "properties": map[string]any{"color": enumSchema}}}}}}
			typeName = "GetE200Color"
		}
		spec, _ := json.Marshal(map[string]any{"openapi": "3.0.3", "info": map[string]any{"title": "e", "version": "1"},
			"paths": map[string]any{"/e": map[string]any{"get": op}}, "components": map[string]any{"schemas": comps}})
		cfg := codegen.Configuration{PackageName: "gen", Generate: codegen.GenerateOptions{Models: true, Client: true, EchoServer: true}}
		optLabel := "default"
		optSel := (d / 6) % 3
		if d < 3*len(fixed) {
			optSel = d / len(fixed)
		}
		switch optSel {
		case 1:
			cfg.Compatibility.AlwaysPrefixEnumValues = true
			optLabel = "always-prefix"
		case 2:
			cfg.Compatibility.OldEnumConflicts = true
			optLabel = "old-enum-conflicts"
		}
		replay := map[string]any{"spec": json.RawMessage(spec), "position": pos, "option": optLabel, "values": specVals, "names": names, "names_from": varKey}
		_, ok2, ok3 := enumGuard(names)
		code, err := generate(spec, cfg)
		distinct := map[string]bool{}
		for _, v := range specVals {
			distinct[v] = true
		}
		r.Count("e2e:"+string(spec)+optLabel, len(distinct) > 1)
		r.Dist["position="+pos]++
		r.Dist["option="+optLabel]++
		if err != nil {
			sig := "generate_fails_on_enum/" + pos
			if base == "string" && nameChainInvalid(names) && strings.Contains(err.Error(), "error formatting Go code") {
				sig = "enum_name_reduces_to_invalid_identifier"
			}
			r.Violate(sig, fmt.Sprintf("%s enum %q (%s): generation failed: %s", pos, specVals, optLabel, trunc(err.Error(), 200)), replay)
			continue
		}
		p, err := parseGo(code)
		if err != nil {
			sig := "output_unparsable"
			if base == "string" && nameChainInvalid(names) {
				sig = "enum_name_reduces_to_invalid_identifier"
			}
			r.Violate(sig, fmt.Sprintf("%s enum %q (%s): %s", pos, specVals, optLabel, trunc(err.Error(), 200)), replay)
			continue
		}
		// all constants of the file: name -> (type, literal)
		type cst struct{ typ, lit string }
		consts := map[string]cst{}
		dupNames := []string{}
		for _, dd := range p.file.Decls {
			gd, ok := dd.(*ast.GenDecl)
			if !ok || gd.Tok != token.CONST {
				continue
			}
			for _, sp := range gd.Specs {
				vs := sp.(*ast.ValueSpec)
				for i, n := range vs.Names {
					if _, dup := consts[n.Name]; dup {
						dupNames = append(dupNames, n.Name)
					}
					c := cst{}
					if id, ok := vs.Type.(*ast.Ident); ok {
						c.typ = id.Name
					}
					if i < len(vs.Values) {
						if bl, ok := vs.Values[i].(*ast.BasicLit); ok {
							c.lit = bl.Value
						} else if ue, ok := vs.Values[i].(*ast.UnaryExpr); ok {
							if bl, ok := ue.X.(*ast.BasicLit); ok {
								c.lit = ue.Op.String() + bl.Value
							}
						}
					}
					consts[n.Name] = c
				}
			}
		}
		if len(dupNames) > 0 {
			r.Violate("duplicate_constant_names", fmt.Sprintf("constants declared twice: %v", dupNames), replay)
		}
		// the enum's constants: the document has exactly one enum, so exactly one type has typed constants
		types := map[string]bool{}
		for _, c := range consts {
			if c.typ != "" {
				types[c.typ] = true
			}
		}
		if len(types) == 1 {
			for t := range types {
				typeName = t
			}
		} else if len(types) > 1 {
			r.Violate("several_enum_types", fmt.Sprintf("one enum in the document, typed constants of types %v", types), replay)
		}
		var obs [][2]string
		gotVals := map[string]int{}
		for name, c := range consts {
			if c.typ != typeName {
				continue
			}
			val := c.lit
			if base != "string" {
				val = numKey(c.lit) // 1.6777217e+07 and 16777217 are one number
			}
			if base == "string" {
				u, err := strconv.Unquote(c.lit)
				if err != nil {
					r.Violate("constant_literal_invalid", fmt.Sprintf("constant %s = %s", name, c.lit), replay)
					continue
				}
				val = u
				if allCoqSafe(c.lit, u) && len(lcases.items) < 300 {
					lcases.Add(fmt.Sprintf("(%s, %s)", gendoc.CoqStr(c.lit), gendoc.CoqStr(u)), replay)
				}
			}
			obs = append(obs, [2]string{name, val})
			gotVals[val]++
		}
		obs = sortPairs(obs)
		if len(r.Samples) < 3 && len(distinct) > 2 {
			r.Sample(map[string]any{"position": pos, "option": optLabel, "values": specVals, "constants": obs})
		}
		// oracle: exactly one constant per distinct value, with that value
		var problems []string
		for v := range distinct {
			if gotVals[v] != 1 {
				problems = append(problems, fmt.Sprintf("value %q has %d constants", v, gotVals[v]))
			}
		}
		for v := range gotVals {
			if !distinct[v] {
				problems = append(problems, fmt.Sprintf("constant with value %q is not in the specification", v))
			}
		}
		if len(problems) > 0 {
			sig := "enum_constants/" + pos + "/" + optLabel
			switch {
			case pos == "response" && len(obs) == 0:
				sig = "enum_in_inline_response_object_gets_no_constants"
			case base == "string" && nameChainInvalid(names):
				sig = "enum_name_reduces_to_invalid_identifier"
			case base == "string" && optLabel == "old-enum-conflicts" && emptyMeetsEmpty(names, specVals):
				sig = "old_enum_conflicts_empty_value_forced_to_Empty_collides"
			case base == "string" && !ok2:
				sig = "enum_suffix_collision"
			case base == "string" && !ok3:
				sig = "enum_stage3_collision"
			}
			sort.Strings(problems)
			r.Violate(sig, fmt.Sprintf("%s enum %q (%s): constants %v: %s", pos, specVals, optLabel, obs, strings.Join(problems, "; ")), replay)
			continue
		}
		// model tie of the old-enum-conflicts arm (component position: the path is the component's name)
		if base == "string" && optLabel == "old-enum-conflicts" && pos == "component" && ok2 && allCoqSafe(specVals...) && allCoqSafe(names...) && len(names) == len(specVals) {
			norm, pathT := map[string]string{}, map[string]string{}
			for _, n := range names {
				norm[n] = codegen.SanitizeGoIdentity(codegen.SchemaNameToTypeName(n))
			}
			k2, _, _ := enumGuard(names)
			pathname := func(x string) string {
				return codegen.SchemaNameToTypeName(codegen.PathToTypeName([]string{"Color", x}))
			}
			okSafe, finals := true, map[string]bool{}
			dn := dedupStrings(names)
			dv := valuesOfDedup(names, specVals)
			for i, k := range k2 {
				x := k
				if i < len(dv) && dv[i] == "" {
					x = "Empty"
				}
				pathT[x] = pathname(x)
				okSafe = okSafe && allCoqSafe(x, pathT[x]) && !finals[pathT[x]]
				finals[pathT[x]] = true
			}
			_ = dn
			for _, p := range obs {
				okSafe = okSafe && allCoqSafe(p[0], p[1])
			}
			// a final name equal to a type name of the package makes the conflict pass prefix the whole enum (C11 cross family)
			if okSafe && !finals["Color"] && !finals["Other"] {
				ocases.Add(fmt.Sprintf("(%s, %s, %s, %s, %s)", coqTable(norm), coqTable(pathT), gendoc.CoqStrList(names), gendoc.CoqStrList(specVals), coqPairs(obs)), replay)
			}
		}
		// model tie (default options, string enums, collision-free, top-level naming rule)
		if base == "string" && optLabel == "default" && ok2 && ok3 && allCoqSafe(specVals...) && allCoqSafe(names...) {
			norm, norm2 := map[string]string{}, map[string]string{}
			okSafe := true
			for _, n := range names {
				norm[n] = codegen.SanitizeGoIdentity(codegen.SchemaNameToTypeName(n))
			}
			k2, _, _ := enumGuard(names)
			for _, k := range k2 {
				norm2[k] = codegen.SchemaNameToTypeName(k)
				okSafe = okSafe && allCoqSafe(k, norm2[k])
			}
			for _, p := range obs {
				okSafe = okSafe && allCoqSafe(p[0], p[1])
			}
			if okSafe {
				ccases.Add(fmt.Sprintf("(%s, %s, %s, %s, %s)", coqTable(norm), coqTable(norm2), gendoc.CoqStrList(names), gendoc.CoqStrList(specVals), coqPairs(obs)), replay)
			}
		}
	}
	ccases.WriteTo(r)
	ocases.WriteTo(r)
	lcases.WriteTo(r)
	runC11Cross(r, rng, thorough)
	r.Rule = "cross-enum: 2-4 top-level string enums and 0-2 other types over a small alphabet of type names and values (values meeting across enums, meeting prefixed names, type names and the own type name; three fixed shapes) x always-prefix, generated; which enums were prefixed vs the model of the conflict pass in Coq, all constant names distinct (oracle); function level: value lists over an adversarial alphabet (empty, whitespace, case / punctuation variants, leading digits, keywords, predeclared names, quotes, backslashes, tabs, newlines, non-ASCII, duplicates) through SanitizeEnumNames vs the model; end to end: string, integer (incl. values beyond 2^24) and number (fractions with 9 significant digits, 1e21) enums in six positions (component, property, parameter, array item, request body, response) x {default, always-prefix-enum-values, old-enum-conflicts}, generated, parsed; every constant of the enum's type read back (strconv.Unquote of the emitted literal) and compared with the specification's values (exactly one constant per distinct value), names pairwise distinct in the file; non-trivial = at least two distinct values"
}
