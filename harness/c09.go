package main

import (
	"encoding/json"
	"fmt"
	"math"
	"math/rand"
	"sort"
	"strings"

	"github.com/oapi-codegen/oapi-codegen/v2/pkg/codegen"

	"verif/harness/gendoc"
)

type uDef struct {
	Name     string            `json:"name"`
	Key      string            `json:"key"` // oneOf | anyOf
	Members  []string          `json:"members"`
	Mapping  map[string]string `json:"mapping"` // value -> member (explicit entries); nil = no discriminator
	Disc     bool              `json:"discriminator"`
	Fixed    bool              `json:"fixed_properties"`
	Addl     bool              `json:"additional_properties"`
	AddlInt  bool              `json:"additional_properties_integer"`
	DiscProp string            `json:"discriminator_is_fixed_property"` // "" | required | optional
	// additionalProperties with a value type that is no scalar (struct by reference, array, map): the members' own fields
	// have that type too (they are part of the residual map), and the instances carry the extra members given here
	AddlSchema map[string]any `json:"additional_properties_schema,omitempty"`
	AddlExtras map[string]any `json:"additional_members,omitempty"`
	Pkg        string         `json:"pkg"`
}

var uMembers = map[string]map[string]any{
	"Cat":    {"type": "object", "required": []string{"petType"}, "properties": map[string]any{"petType": map[string]any{"type": "string"}, "lives": map[string]any{"type": "integer"}, "name": map[string]any{"type": "string"}}},
	"Dog":    {"type": "object", "required": []string{"petType"}, "properties": map[string]any{"petType": map[string]any{"type": "string"}, "bark": map[string]any{"type": "boolean"}, "name": map[string]any{"type": "string"}}},
	"Circle": {"type": "object", "properties": map[string]any{"r": map[string]any{"type": "integer"}}},
	"Rect":   {"type": "object", "properties": map[string]any{"w": map[string]any{"type": "integer"}, "h": map[string]any{"type": "integer"}}},
	// schema names that are not spelled like the Go types made of them: an implicitly mapped member is designated by its
	// SCHEMA name (guard_dog), whatever the type is called (GuardDog)
	"guard_dog": {"type": "object", "required": []string{"petType"}, "properties": map[string]any{"petType": map[string]any{"type": "string"}, "bark": map[string]any{"type": "boolean"}, "name": map[string]any{"type": "string"}}},
	"house-cat": {"type": "object", "required": []string{"petType"}, "properties": map[string]any{"petType": map[string]any{"type": "string"}, "lives": map[string]any{"type": "integer"}, "name": map[string]any{"type": "string"}}},
	// members whose own fields are structs / arrays / maps, for unions whose additional properties have that type
	"Point":  {"type": "object", "properties": map[string]any{"x": map[string]any{"type": "integer"}, "y": map[string]any{"type": "integer"}, "label": map[string]any{"type": "string"}}},
	"Seg":    {"type": "object", "properties": map[string]any{"from": map[string]any{"$ref": "#/components/schemas/Point"}, "to": map[string]any{"$ref": "#/components/schemas/Point"}}},
	"Tagged": {"type": "object", "properties": map[string]any{"tags": map[string]any{"type": "array", "items": map[string]any{"type": "integer"}}}},
	"Dict":   {"type": "object", "properties": map[string]any{"en": map[string]any{"type": "object", "additionalProperties": map[string]any{"type": "string"}}}},
	"Bird":   {"type": "object", "required": []string{"petType"}, "properties": map[string]any{"petType": map[string]any{"type": "string"}, "wings": map[string]any{"type": "integer"}}},
}

func (u uDef) schema() map[string]any {
	var ms []any
	for _, m := range u.Members {
		ms = append(ms, map[string]any{"$ref": "#/components/schemas/" + m})
	}
	s := map[string]any{u.Key: ms}
	if u.Disc {
		d := map[string]any{"propertyName": "petType"}
		if len(u.Mapping) > 0 {
			mp := map[string]any{}
			for k, v := range u.Mapping {
				mp[k] = "#/components/schemas/" + v
			}
			d["mapping"] = mp
		}
		s["discriminator"] = d
	}
	if u.Fixed {
		s["type"] = "object"
		s["properties"] = map[string]any{"meta": map[string]any{"type": "string"}}
	}
	if u.DiscProp != "" {
		s["type"] = "object"
		s["properties"] = map[string]any{"petType": map[string]any{"type": "string"}}
		if u.DiscProp == "required" {
			s["required"] = []string{"petType"}
		}
	}
	if u.Addl {
		s["type"] = "object"
		s["additionalProperties"] = true
	}
	if u.AddlInt {
		s["type"] = "object"
		s["additionalProperties"] = map[string]any{"type": "integer"}
	}
	if u.AddlSchema != nil {
		s["type"] = "object"
		s["additionalProperties"] = u.AddlSchema
	}
	return s
}

// effective mapping: explicit entries, plus the schema name for members without one
func (u uDef) effMapping() map[string]string {
	out := map[string]string{}
	if !u.Disc {
		return out
	}
	has := map[string]bool{}
	for k, v := range u.Mapping {
		out[k] = v
		has[v] = true
	}
	for _, m := range u.Members {
		if !has[m] {
			out[m] = m
		}
	}
	return out
}

// goName: the Go type (and the From/As/Merge method suffix) of a member schema
func goName(m string) string { return codegen.SchemaNameToTypeName(m) }

func genMember(rng *rand.Rand, m string) map[string]any {
	switch m { // members of the same shape under another name
	case "guard_dog":
		m = "Dog"
	case "house-cat":
		m = "Cat"
	}
	switch m {
	case "Circle":
		return map[string]any{"r": rng.Intn(50)}
	case "Rect":
		return map[string]any{"w": rng.Intn(50), "h": rng.Intn(50)}
	case "Seg":
		return map[string]any{"from": map[string]any{"x": rng.Intn(50), "label": "start"}, "to": map[string]any{"y": 1 + rng.Intn(50)}}
	case "Tagged":
		return map[string]any{"tags": []any{rng.Intn(9), 10 + rng.Intn(9), 20 + rng.Intn(9)}}
	case "Dict":
		return map[string]any{"en": map[string]any{"hello": "hello", "bye": "bye"}}
	}
	v := map[string]any{"petType": "original"}
	if rng.Intn(2) == 0 {
		v["name"] = mStrings[rng.Intn(len(mStrings))]
	}
	switch m {
	case "Cat":
		// 64-bit extremes and the first integer float64 cannot hold: a detour through float64 changes them
		v["lives"] = []int64{int64(rng.Intn(9)), int64(rng.Intn(9)), 9007199254740993, math.MaxInt64, math.MinInt64}[rng.Intn(5)]
	case "Dog":
		v["bark"] = rng.Intn(2) == 0
	case "Bird":
		v["wings"] = 2
		delete(v, "name")
	}
	return v
}

// onlyBigIntDiff: got equals want except for members whose wanted value is an integer beyond 2^53.
func onlyBigIntDiff(want map[string]any, got json.RawMessage) bool {
	gAny, err := decodeExact(got)
	g, ok := gAny.(map[string]any)
	if err != nil || !ok || len(g) != len(want) {
		return false
	}
	some := false
	for k, w := range want {
		gv, ok := g[k]
		if !ok {
			return false
		}
		if canon(gv) == canon(w) {
			continue
		}
		n, isInt := w.(int64)
		if !isInt || (n <= 1<<53 && n >= -(1<<53)) {
			return false
		}
		some = true
	}
	return some
}

func coqUObj(m map[string]any) (string, bool) {
	ks := make([]string, 0, len(m))
	for k := range m {
		ks = append(ks, k)
	}
	sort.Strings(ks)
	var ps []string
	for _, k := range ks {
		c := canon(m[k])
		if !gendoc.CoqSafe(c) {
			return "", false
		}
		ps = append(ps, "("+gendoc.CoqStr(k)+", "+gendoc.CoqStr(c)+")")
	}
	return "[" + strings.Join(ps, "; ") + "]", true
}

func runC09(r *Report, rng *rand.Rand, thorough bool) {
	unions := []uDef{
		{Name: "UPlain", Key: "oneOf", Members: []string{"Cat", "Dog"}},
		{Name: "UAny", Key: "anyOf", Members: []string{"Cat", "Dog"}},
		{Name: "UExplicit", Key: "oneOf", Members: []string{"Cat", "Dog", "Bird"}, Disc: true, Mapping: map[string]string{"cat": "Cat", "dog": "Dog", "bird": "Bird"}},
		{Name: "UImplicit", Key: "oneOf", Members: []string{"Cat", "Dog"}, Disc: true},
		{Name: "UImplicitNames", Key: "oneOf", Members: []string{"guard_dog", "house-cat"}, Disc: true},
		{Name: "UPartialNames", Key: "anyOf", Members: []string{"guard_dog", "house-cat", "Bird"}, Disc: true, Mapping: map[string]string{"hc": "house-cat"}},
		{Name: "UManyToOne", Key: "oneOf", Members: []string{"Cat", "Dog"}, Disc: true, Mapping: map[string]string{"cat": "Cat", "kitty": "Cat", "dog": "Dog", "puppy": "Dog"}},
		{Name: "UPartial", Key: "oneOf", Members: []string{"Cat", "Dog"}, Disc: true, Mapping: map[string]string{"cat": "Cat"}},
		{Name: "UFixed", Key: "oneOf", Members: []string{"Cat", "Dog"}, Disc: true, Mapping: map[string]string{"cat": "Cat", "dog": "Dog"}, Fixed: true},
		{Name: "UFixedAddl", Key: "oneOf", Members: []string{"Cat", "Dog"}, Fixed: true, Addl: true},
		{Name: "UFixedAddlInt", Key: "oneOf", Members: []string{"Circle", "Rect"}, Fixed: true, AddlInt: true},
		{Name: "UAddlInt", Key: "anyOf", Members: []string{"Circle", "Rect"}, AddlInt: true},
		// additional properties that are structs, arrays, maps: every key of the document is decoded on its own; members absent
		// from one key's value, shorter arrays and empty values must not inherit anything from the key decoded before
		{Name: "UAddlStruct", Key: "anyOf", Members: []string{"Seg"}, AddlSchema: map[string]any{"$ref": "#/components/schemas/Point"},
			AddlExtras: map[string]any{"via": map[string]any{"x": 3, "y": 4}, "origin": map[string]any{}, "named": map[string]any{"label": "n"}}},
		{Name: "UAddlArray", Key: "oneOf", Members: []string{"Tagged"}, AddlSchema: map[string]any{"type": "array", "items": map[string]any{"type": "integer"}},
			AddlExtras: map[string]any{"more": []any{4}, "none": []any{}, "two": []any{7, 8}}},
		{Name: "UFixedAddlMap", Key: "oneOf", Members: []string{"Dict"}, Fixed: true, AddlSchema: map[string]any{"type": "object", "additionalProperties": map[string]any{"type": "string"}},
			AddlExtras: map[string]any{"de": map[string]any{"hello": "hallo"}, "fr": map[string]any{"bye": "au revoir", "yes": "oui"}, "xx": map[string]any{}}},
	}
	unions = append(unions,
		uDef{Name: "UDiscReq", Pkg: "c09_dreq", Key: "oneOf", Members: []string{"Cat", "Dog"}, Disc: true, Mapping: map[string]string{"cat": "Cat", "dog": "Dog"}, DiscProp: "required"},
		uDef{Name: "UDiscOpt", Pkg: "c09_dopt", Key: "oneOf", Members: []string{"Cat", "Dog"}, Disc: true, Mapping: map[string]string{"cat": "Cat", "dog": "Dog"}, DiscProp: "optional"})
	nRandom := 6
	if thorough {
		nRandom = 60
	}
	for i := 0; i < nRandom; i++ {
		ms := []string{"Cat", "Dog", "Bird"}
		rng.Shuffle(3, func(a, b int) { ms[a], ms[b] = ms[b], ms[a] })
		ms = ms[:1+rng.Intn(3)]
		u := uDef{Name: fmt.Sprintf("URand%d", i), Key: []string{"oneOf", "anyOf"}[rng.Intn(2)], Members: ms, Disc: rng.Intn(3) != 0, Fixed: rng.Intn(4) == 0}
		if u.Disc && rng.Intn(4) != 0 {
			u.Mapping = map[string]string{}
			for _, m := range ms {
				for k := 0; k < rng.Intn(3); k++ {
					u.Mapping[fmt.Sprintf("%s_v%d", strings.ToLower(m), k)] = m
				}
			}
		}
		unions = append(unions, u)
	}
	for i := range unions {
		if unions[i].Pkg == "" {
			unions[i].Pkg = "c09_u"
		}
	}
	cfg := codegen.Configuration{Generate: codegen.GenerateOptions{Models: true}}
	cfg.OutputOptions.SkipPrune = true
	pkgSpecs := map[string][]byte{}
	var pkgs []LabPkg
	for _, pk := range []string{"c09_u", "c09_dreq", "c09_dopt"} {
		comps := map[string]any{}
		for k, v := range uMembers {
			comps[k] = v
		}
		for _, u := range unions {
			if u.Pkg == pk {
				comps[u.Name] = u.schema()
			}
		}
		if pk == "c09_u" {
			comps["Holder"] = map[string]any{"type": "object", "properties": map[string]any{"pet": map[string]any{"$ref": "#/components/schemas/UExplicit"},
				"pets":   map[string]any{"type": "array", "items": map[string]any{"$ref": "#/components/schemas/UExplicit"}},
				"byName": map[string]any{"type": "object", "additionalProperties": map[string]any{"$ref": "#/components/schemas/UExplicit"}}}}
			comps["UPrim"] = map[string]any{"oneOf": []any{map[string]any{"type": "string"}, map[string]any{"type": "integer"}, map[string]any{"type": "array", "items": map[string]any{"type": "string"}}, map[string]any{"type": "object", "properties": map[string]any{"z": map[string]any{"type": "boolean"}}}}}
		}
		spec, _ := json.Marshal(map[string]any{"openapi": "3.0.3", "info": map[string]any{"title": "u", "version": "1"}, "paths": map[string]any{}, "components": map[string]any{"schemas": comps}})
		pkgSpecs[pk] = spec
		pkgs = append(pkgs, LabPkg{Name: pk, Spec: spec, Cfg: cfg})
	}
	lab, err := BuildLab(labRoot, "c09", pkgs)
	if err != nil {
		r.Violate("lab_build_failed", err.Error(), nil)
		return
	}
	broken := map[string]bool{}
	for _, pk := range []string{"c09_u", "c09_dreq", "c09_dopt"} {
		if st := lab.Status[pk]; !st.OK {
			broken[pk] = true
			r.Violate("lab_package_broken/"+pk, fmt.Sprintf("%s %s", trunc(st.GenerateError, 400), trunc(st.CompileError, 600)), map[string]any{"spec": json.RawMessage(pkgSpecs[pk])})
		}
	}
	if broken["c09_u"] {
		return
	}
	var scenarios []map[string]any
	type meta struct {
		u          uDef
		kind       string
		i, j       int
		member, m2 map[string]any
		discValue  string
		fixed      map[string]any
		init       map[string]any
	}
	metas := map[string]meta{}
	add := func(id string, u uDef, init any, ops []map[string]any, m meta) {
		un := map[string]any{"type": u.Name, "ops": ops}
		if init != nil {
			un["init"] = init
		}
		if broken[u.Pkg] {
			return
		}
		scenarios = append(scenarios, map[string]any{"id": id, "pkg": u.Pkg, "opts": map[string]any{"short_circuit": -1, "strict_short_circuit": -1}, "union": un})
		m.u = u
		metas[id] = m
	}
	nVals := 3
	if thorough {
		nVals = 12
	}
	for _, u := range unions {
		for i, m := range u.Members {
			for k := 0; k < nVals; k++ {
				v := genMember(rng, m)
				ops := []map[string]any{{"method": "From" + goName(m), "arg": v}, {"method": "As" + goName(m)}, {"method": "MarshalJSON"}}
				if u.Disc {
					ops = append(ops, map[string]any{"method": "Discriminator"}, map[string]any{"method": "ValueByDiscriminator"})
				}
				add(fmt.Sprintf("%s/from/%s/%d", u.Name, m, k), u, nil, ops, meta{kind: "from", i: i, member: v})
				// merge with another member
				j := rng.Intn(len(u.Members))
				v2 := genMember(rng, u.Members[j])
				delete(v2, "name")
				ops2 := []map[string]any{{"method": "From" + goName(m), "arg": v}, {"method": "Merge" + goName(u.Members[j]), "arg": v2}, {"method": "MarshalJSON"}}
				if u.Disc {
					ops2 = append(ops2, map[string]any{"method": "ValueByDiscriminator"})
				}
				add(fmt.Sprintf("%s/merge/%s/%d", u.Name, m, k), u, nil, ops2, meta{kind: "merge", i: i, j: j, member: v, m2: v2})
			}
			// unmarshal then marshal
			v := genMember(rng, m)
			init := map[string]any{}
			for k2, x := range v {
				init[k2] = x
			}
			if u.DiscProp != "" {
				init["petType"] = strings.ToLower(m)
			}
			if u.Fixed {
				init["meta"] = "fixed-value"
			}
			if u.AddlInt {
				init["extra"] = 7
				init["extra2"] = 8
			}
			if u.Fixed {
				// change a fixed property after decoding: the new value must be the one marshalled
				add(fmt.Sprintf("%s/modify/%s", u.Name, m), u, init, []map[string]any{{"method": "set:Meta", "arg": "changed"}, {"method": "MarshalJSON"}}, meta{kind: "modify", i: i, init: init})
			}
			for k2, x := range u.AddlExtras {
				init[k2] = x
			}
			if u.Addl {
				init["extra"] = "more"
				init["extra2"] = []any{1, 2, 3}
				init["extra3"] = []any{4, 5, 6}
				init["extra4"] = map[string]any{"p": "1"}
				init["extra5"] = map[string]any{"q": "2"}
			}
			add(fmt.Sprintf("%s/lossless/%s", u.Name, m), u, init, []map[string]any{{"method": "MarshalJSON"}}, meta{kind: "lossless", i: i, init: init})
		}
		if u.Disc {
			eff := u.effMapping()
			vals := make([]string, 0, len(eff)+2)
			for k := range eff {
				vals = append(vals, k)
			}
			sort.Strings(vals)
			vals = append(vals, "zzz-unmapped", "")
			for _, dv := range vals {
				init := map[string]any{"petType": dv, "name": "n"}
				add(fmt.Sprintf("%s/dispatch/%s", u.Name, dv), u, init, []map[string]any{{"method": "ValueByDiscriminator"}}, meta{kind: "dispatch", discValue: dv})
			}
		}
	}
	// primitives and nesting
	for k, pv := range []any{"text", 42, []string{"a", "b"}, map[string]any{"z": true}} {
		scenarios = append(scenarios, map[string]any{"id": fmt.Sprintf("UPrim/%d", k), "pkg": "c09_u", "opts": map[string]any{"short_circuit": -1, "strict_short_circuit": -1},
			"union": map[string]any{"type": "UPrim", "init": pv, "ops": []map[string]any{{"method": "MarshalJSON"}}}})
		metas[fmt.Sprintf("UPrim/%d", k)] = meta{kind: "prim", init: map[string]any{"v": pv}}
	}
	// a member that is not an object, stored through its From accessor (and over a stored object): As and MarshalJSON
	// must give it back
	for k, pv := range []any{"text", 42, []string{"a", "b"}, map[string]any{"z": true}} {
		id := fmt.Sprintf("UPrim/from/%d", k)
		scenarios = append(scenarios, map[string]any{"id": id, "pkg": "c09_u", "opts": map[string]any{"short_circuit": -1, "strict_short_circuit": -1},
			"union": map[string]any{"type": "UPrim", "ops": []map[string]any{{"method": "FromUPrim3", "arg": map[string]any{"z": false}}, {"method": fmt.Sprintf("FromUPrim%d", k), "arg": pv}, {"method": fmt.Sprintf("AsUPrim%d", k)}, {"method": "MarshalJSON"}}}})
		metas[id] = meta{kind: "primfrom", init: map[string]any{"v": pv}}
	}
	holder := map[string]any{"pet": map[string]any{"petType": "cat", "lives": 3}, "pets": []any{map[string]any{"petType": "dog", "bark": true}, map[string]any{"petType": "bird", "wings": 2}}, "byName": map[string]any{"rex": map[string]any{"petType": "dog", "bark": false}}}
	scenarios = append(scenarios, map[string]any{"id": "Holder/round", "pkg": "c09_u", "opts": map[string]any{"short_circuit": -1, "strict_short_circuit": -1}, "round": map[string]any{"type": "Holder", "json": holder}})
	metas["Holder/round"] = meta{kind: "holder", init: holder}

	results, err := lab.Run(scenarios)
	if err != nil {
		r.Violate("lab_run_failed", err.Error(), nil)
		return
	}
	ucases := NewCases("cases_C09", "From V Require Import Model.Union Corr.Eval.",
		"option (string * list (string * nat)) * nat * ujobj * option (nat * ujobj) * list (string * string) * (ujobj * option nat)", "mismatches_union")
	type opres struct {
		Value0 json.RawMessage `json:"value0"`
		Value  json.RawMessage `json:"value"`
		Type   string          `json:"type"`
		Error  string          `json:"error"`
	}
	for _, sc := range scenarios {
		id := sc["id"].(string)
		m := metas[id]
		res := results[id]
		replay := map[string]any{"union": m.u, "scenario": sc}
		if res == nil {
			continue
		}
		r.Count(id+canon(m.member)+canon(m.m2), m.kind == "merge" || m.kind == "dispatch" || m.u.Disc)
		r.Dist["kind="+m.kind]++
		if res.Err != "" {
			r.Violate("union_scenario_error/"+m.kind, id+": "+res.Err, replay)
			continue
		}
		var outs []opres
		for _, o := range res.Out {
			var x opres
			_ = json.Unmarshal(o, &x)
			outs = append(outs, x)
		}
		eff := m.u.effMapping()
		sfx := ""
		if m.u.DiscProp != "" {
			sfx = "/discriminator_is_own_" + m.u.DiscProp + "_property"
		}
		memberOfType := func(t string) string { // "c09_u.GuardDog" -> the member schema "guard_dog"
			g := t[strings.LastIndex(t, ".")+1:]
			for _, mm := range m.u.Members {
				if goName(mm) == g {
					return mm
				}
			}
			return g
		}
		mappedTo := func(val string) (string, bool) { mm, ok := eff[val]; return mm, ok }
		switch m.kind {
		case "holder":
			if !jsonEqual(res.Out[0], json.RawMessage(canon(m.init))) {
				r.Violate("nested_union_roundtrip", fmt.Sprintf("Holder %s -> %s", canon(m.init), string(res.Out[0])), replay)
			}
		case "primfrom":
			want := json.RawMessage(canon(m.init["v"]))
			if len(outs) < 4 || outs[1].Error != "" || outs[2].Error != "" || !jsonEqual(outs[2].Value0, want) || outs[3].Error != "" || !jsonEqual(outs[3].Value, want) {
				r.Violate("non_object_member_from_as_marshal", fmt.Sprintf("UPrim: From(%s) over a stored object, then As and MarshalJSON: %+v", canon(m.init["v"]), outs), replay)
			}
		case "prim":
			if outs[0].Error != "" || !jsonEqual(outs[0].Value, json.RawMessage(canon(m.init["v"]))) {
				r.Violate("primitive_union_roundtrip", fmt.Sprintf("%s -> %s %s", canon(m.init["v"]), string(outs[0].Value), outs[0].Error), replay)
			}
		case "lossless":
			if outs[0].Error != "" || !jsonEqual(outs[0].Value, json.RawMessage(canon(m.init))) {
				sig := "unmarshal_marshal_lossy"
				if m.u.Addl && outs[0].Error == "" && onlyBigIntDiff(m.init, outs[0].Value) {
					sig = "union_with_additional_properties_narrows_member_integers"
				}
				r.Violate(sig, fmt.Sprintf("%s: %s -> %s %s", m.u.Name, canon(m.init), string(outs[0].Value), outs[0].Error), replay)
			}
		case "modify":
			want := map[string]any{}
			for k, v := range m.init {
				want[k] = v
			}
			want["meta"] = "changed"
			last := outs[len(outs)-1]
			if last.Error != "" || !jsonEqual(last.Value, json.RawMessage(canon(want))) {
				sig := "fixed_property_changed_after_unmarshal_not_marshalled"
				if m.u.Addl && last.Error == "" && onlyBigIntDiff(want, last.Value) {
					sig = "union_with_additional_properties_narrows_member_integers"
				}
				r.Violate(sig, fmt.Sprintf("%s: decoded %s, set meta = changed, marshalled %s %s", m.u.Name, canon(m.init), string(last.Value), last.Error), replay)
			}
		case "dispatch":
			want, ok := mappedTo(m.discValue)
			got := memberOfType(outs[0].Type)
			if ok && (outs[0].Error != "" || got != want) {
				r.Violate("dispatch_mapped_value", fmt.Sprintf("%s: discriminator %q is mapped to %s, ValueByDiscriminator gave %q error %q", m.u.Name, m.discValue, want, got, outs[0].Error), replay)
			}
			if !ok && outs[0].Error == "" {
				r.Violate("dispatch_unmapped_value_accepted", fmt.Sprintf("%s: discriminator %q is not mapped, ValueByDiscriminator returned %s", m.u.Name, m.discValue, got), replay)
			}
		case "from", "merge":
			name := m.u.Members[m.i]
			// expected stored member after From: the member with the discriminator set to a mapped value
			expect := map[string]any{}
			for k, v := range m.member {
				expect[k] = v
			}
			lastIdx := 2
			if m.kind == "from" {
				// As after From
				asAny, _ := decodeExact(outs[1].Value0)
				as, _ := asAny.(map[string]any)
				if outs[1].Error != "" {
					r.Violate("as_after_from_fails", fmt.Sprintf("%s.As%s: %s", m.u.Name, name, outs[1].Error), replay)
					continue
				}
				for k, v := range m.member {
					if k == "petType" && m.u.Disc {
						pt, _ := as["petType"].(string)
						if mm, ok := mappedTo(pt); !ok || mm != name {
							r.Violate("from_discriminator_not_mapped_to_member"+sfx, fmt.Sprintf("%s.From%s: petType = %q, which the mapping does not assign to %s", m.u.Name, name, pt, name), replay)
						}
						continue
					}
					if canon(as[k]) != canon(v) {
						r.Violate("as_after_from_differs", fmt.Sprintf("%s: stored %s, As%s returned %s", m.u.Name, canon(m.member), name, canon(as)), replay)
						break
					}
				}
				if pt, ok := as["petType"].(string); ok && m.u.Disc {
					expect["petType"] = pt
				}
			} else {
				for k, v := range m.m2 {
					expect[k] = v
				}
			}
			mAny, _ := decodeExact(outs[lastIdx].Value)
			marshalled, _ := mAny.(map[string]any)
			if outs[lastIdx].Error != "" {
				r.Violate("marshal_fails", outs[lastIdx].Error, replay)
				continue
			}
			if m.u.Disc {
				pt, _ := marshalled["petType"].(string)
				wantMember := name
				if m.kind == "merge" {
					wantMember = m.u.Members[m.j]
				}
				if mm, ok := mappedTo(pt); !ok || mm != wantMember {
					r.Violate("discriminator_not_mapped_to_member", fmt.Sprintf("%s: after %s the discriminator is %q, not a value of %s", m.u.Name, m.kind, pt, wantMember), replay)
				}
				expect["petType"] = pt
			}
			if canon(marshalled) != canon(expect) {
				r.Violate("marshal_differs/"+m.kind, fmt.Sprintf("%s %s: marshalled %s, want %s", m.u.Name, m.kind, canon(marshalled), canon(expect)), replay)
				continue
			}
			// dispatch after from / merge
			dispatchIdx := -1
			var dispatched *string
			if m.u.Disc {
				di := len(outs) - 1
				if outs[di].Error == "" {
					t := memberOfType(outs[di].Type)
					dispatched = &t
					for idx, mm := range m.u.Members {
						if mm == t {
							dispatchIdx = idx
						}
					}
				}
				wantMember := name
				if m.kind == "merge" {
					wantMember = m.u.Members[m.j]
				}
				if dispatched == nil || *dispatched != wantMember {
					r.Violate("dispatch_after_store"+sfx, fmt.Sprintf("%s: stored %s, ValueByDiscriminator dispatched to %v (%s)", m.u.Name, wantMember, dispatched, outs[di].Error), replay)
				}
			}
			if len(r.Samples) < 3 && m.kind == "merge" && m.u.Disc {
				r.Sample(map[string]any{"union": m.u, "from": m.member, "merge": m.m2, "marshalled": marshalled})
			}
			// ---- model case
			if !m.u.Fixed && !m.u.Addl && !m.u.AddlInt && m.u.DiscProp == "" {
				dterm := "None"
				if m.u.Disc {
					var ks []string
					for k := range eff {
						ks = append(ks, k)
					}
					sort.Strings(ks)
					var ps []string
					for _, k := range ks {
						idx := 0
						for i2, mm := range m.u.Members {
							if mm == eff[k] {
								idx = i2
							}
						}
						ps = append(ps, fmt.Sprintf("(%s, %d)", gendoc.CoqStr(k), idx))
					}
					dterm = fmt.Sprintf("(Some (%s, [%s]))", gendoc.CoqStr("petType"), strings.Join(ps, "; "))
				}
				mem, ok1 := coqUObj(m.member)
				mergeTerm := "None"
				ok2 := true
				if m.kind == "merge" {
					var m2s string
					m2s, ok2 = coqUObj(m.m2)
					mergeTerm = fmt.Sprintf("(Some (%d, %s))", m.j, m2s)
				}
				obsJ, ok3 := coqUObj(marshalled)
				obsD := "None"
				if dispatchIdx >= 0 {
					obsD = fmt.Sprintf("(Some %d)", dispatchIdx)
				}
				if ok1 && ok2 && ok3 {
					ucases.Add(fmt.Sprintf("(%s, %d, %s, %s, [], (%s, %s))", dterm, m.i, mem, mergeTerm, obsJ, obsD), replay)
				}
			}
		}
	}
	ucases.WriteTo(r)
	r.Rule = "unions of 1-3 referenced object members (oneOf / anyOf), without discriminator, with explicit / implicit / partial / many-to-one mappings (fixed and random), with fixed properties and with additionalProperties, a union of primitives / array / inline object (decoded, and stored through From over a stored object), and unions nested in a property, an array and a map; for every member and generated member values: From then As, MarshalJSON, Discriminator, ValueByDiscriminator, From then Merge, unmarshal then marshal, and ValueByDiscriminator for EVERY mapped value plus unmapped ones, all called on the compiled generated code by reflection; compared with the statement and with the model in Coq; non-trivial = a discriminator, a merge or a dispatch"
}
