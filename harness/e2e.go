package main

import (
	"bytes"
	"compress/gzip"
	"encoding/base64"
	"encoding/json"
	"fmt"
	"go/ast"
	"go/parser"
	"go/token"
	"io"
	"sort"
	"strconv"
	"strings"

	"github.com/oapi-codegen/oapi-codegen/v2/pkg/codegen"
)

// generate loads a fresh copy of the document and runs the real generator, recovering panics.
func generate(data []byte, cfg codegen.Configuration) (code string, err error) {
	defer func() {
		if p := recover(); p != nil {
			err = fmt.Errorf("PANIC: %v", p)
		}
	}()
	spec, lerr := loadSpec(data)
	if lerr != nil {
		return "", fmt.Errorf("load: %w", lerr)
	}
	return codegen.Generate(spec, cfg)
}

// parsed is the go/parser view of one generated file.
type parsed struct {
	fset *token.FileSet
	file *ast.File
}

func parseGo(code string) (*parsed, error) {
	fset := token.NewFileSet()
	f, err := parser.ParseFile(fset, "gen.go", code, parser.ParseComments)
	if err != nil {
		return nil, err
	}
	return &parsed{fset, f}, nil
}

// interfaceMethods returns the sorted method names of the named interface type ("" if absent).
func (p *parsed) interfaceMethods(name string) ([]string, bool) {
	for _, d := range p.file.Decls {
		gd, ok := d.(*ast.GenDecl)
		if !ok {
			continue
		}
		for _, s := range gd.Specs {
			ts, ok := s.(*ast.TypeSpec)
			if !ok || ts.Name.Name != name {
				continue
			}
			it, ok := ts.Type.(*ast.InterfaceType)
			if !ok {
				return nil, false
			}
			var out []string
			for _, m := range it.Methods.List {
				for _, n := range m.Names {
					out = append(out, n.Name)
				}
			}
			sort.Strings(out)
			return out, true
		}
	}
	return nil, false
}

// typeNames returns all top-level declared type names.
func (p *parsed) typeNames() map[string]bool {
	out := map[string]bool{}
	for _, d := range p.file.Decls {
		if gd, ok := d.(*ast.GenDecl); ok {
			for _, s := range gd.Specs {
				if ts, ok := s.(*ast.TypeSpec); ok {
					out[ts.Name.Name] = true
				}
			}
		}
	}
	return out
}

// swaggerSpecLiteral extracts and concatenates the string literals of `var swaggerSpec = []string{...}`.
func (p *parsed) swaggerSpecLiteral() (parts []string, found bool) {
	for _, d := range p.file.Decls {
		gd, ok := d.(*ast.GenDecl)
		if !ok || gd.Tok != token.VAR {
			continue
		}
		for _, s := range gd.Specs {
			vs, ok := s.(*ast.ValueSpec)
			if !ok || len(vs.Names) != 1 || vs.Names[0].Name != "swaggerSpec" || len(vs.Values) != 1 {
				continue
			}
			cl, ok := vs.Values[0].(*ast.CompositeLit)
			if !ok {
				continue
			}
			for _, e := range cl.Elts {
				bl, ok := e.(*ast.BasicLit)
				if !ok {
					return nil, false
				}
				s, err := strconv.Unquote(bl.Value)
				if err != nil {
					return nil, false
				}
				parts = append(parts, s)
			}
			return parts, true
		}
	}
	return nil, false
}

// decodeEmbedded decodes the embedded specification the way the generated decodeSpec does.
func decodeEmbedded(parts []string) (map[string]any, []byte, error) {
	zipped, err := base64.StdEncoding.DecodeString(strings.Join(parts, ""))
	if err != nil {
		return nil, nil, fmt.Errorf("base64: %w", err)
	}
	zr, err := gzip.NewReader(bytes.NewReader(zipped))
	if err != nil {
		return nil, nil, fmt.Errorf("gzip: %w", err)
	}
	raw, err := io.ReadAll(zr)
	if err != nil {
		return nil, nil, fmt.Errorf("gunzip: %w", err)
	}
	var out map[string]any
	if err := json.Unmarshal(raw, &out); err != nil {
		return nil, nil, fmt.Errorf("json: %w", err)
	}
	return out, raw, nil
}

// declNames returns the sorted names of everything the file declares at top level: types, constants, variables,
// functions, and methods as Receiver.Name.
func (p *parsed) declNames() []string {
	var out []string
	for _, d := range p.file.Decls {
		switch x := d.(type) {
		case *ast.GenDecl:
			for _, s := range x.Specs {
				switch y := s.(type) {
				case *ast.TypeSpec:
					out = append(out, "type "+y.Name.Name)
				case *ast.ValueSpec:
					for _, n := range y.Names {
						out = append(out, strings.ToLower(x.Tok.String())+" "+n.Name)
					}
				}
			}
		case *ast.FuncDecl:
			name := x.Name.Name
			if x.Recv != nil && len(x.Recv.List) == 1 {
				t := x.Recv.List[0].Type
				if st, ok := t.(*ast.StarExpr); ok {
					t = st.X
				}
				if id, ok := t.(*ast.Ident); ok {
					name = id.Name + "." + name
				}
			}
			out = append(out, "func "+name)
		}
	}
	sort.Strings(out)
	return out
}
