package main

// Translator from the server wrapper templates of /repo to the template terms of coq/Model/Tmpl.v (mechanism T).
//
// A template is parsed with text/template/parse (the parser the generator itself uses). Control nodes (if / with / range)
// become TIf / TRange terms labelled with the text of their pipeline; maximal runs of text and output actions between them
// become segments, whose Go text (actions replaced by an identifier) is read with go/scanner and reduced to the tokens the
// model talks about: a call of the framework's error path, return, block braces, the call of the user's handler, the entry
// into the middleware chain, the publication of the security scopes.
//
// The same tokeniser is applied to the text the REAL template engine produces for concrete operations, and the same
// pipelines are evaluated by the real engine on the same data, so that the model's [render] of the translated term can be
// compared with the real output token by token (cases_C06_templates).

import (
	"bytes"
	"encoding/json"
	"fmt"
	"go/scanner"
	"go/token"
	"os"
	"path/filepath"
	"reflect"
	"sort"
	"strings"
	"text/template"
	"text/template/parse"

	"github.com/oapi-codegen/oapi-codegen/v2/pkg/codegen"
)

var wrapperTemplates = []string{
	"echo/echo-wrappers.tmpl", "chi/chi-middleware.tmpl", "gorilla/gorilla-middleware.tmpl", "stdhttp/std-http-middleware.tmpl",
	"gin/gin-wrappers.tmpl", "fiber/fiber-middleware.tmpl", "iris/iris-middleware.tmpl",
}

var strictTemplates = []string{"strict/strict-http.tmpl", "strict/strict-gin.tmpl", "strict/strict-echo.tmpl", "strict/strict-fiber.tmpl", "strict/strict-iris.tmpl"}

// tnode is a template term.
type tnode struct {
	Kind string // seg | if | range | seq | empty
	Toks []string
	Pipe string
	A, B *tnode
	// Prefix is the text of the nodes that precede a control node in its list: evaluating the pipeline after them gives
	// template variables assigned there ({{$seen := false}}{{range ...}}{{$seen = true}}{{end}}) their value
	Prefix string
}

func tseq(a, b *tnode) *tnode {
	if a == nil || a.Kind == "empty" {
		return b
	}
	if b == nil || b.Kind == "empty" {
		return a
	}
	return &tnode{Kind: "seq", A: a, B: b}
}

var tempty = &tnode{Kind: "empty"}

// goTokens reduces Go text to the model's tokens.
// strictMode switches the tokeniser to the alphabet of the strict wrappers (GInvoke, GErrIf, GElse, GVisit).
var strictMode bool

func goTokens(src string) []string {
	type tk struct {
		tok  token.Token
		lit  string
		line int
	}
	fset := token.NewFileSet()
	file := fset.AddFile("", fset.Base(), len(src))
	var s scanner.Scanner
	s.Init(file, []byte(src), func(token.Position, string) {}, 0)
	var toks []tk
	for {
		pos, tok, lit := s.Scan()
		if tok == token.EOF {
			break
		}
		toks = append(toks, tk{tok, lit, fset.Position(pos).Line})
	}
	identAt := func(i int, name string) bool {
		return i < len(toks) && toks[i].tok == token.IDENT && toks[i].lit == name
	}
	tokAt := func(i int, t token.Token) bool { return i < len(toks) && toks[i].tok == t }
	// sel matches a.b( at i and returns the index of the opening parenthesis
	sel := func(i int, a, b string) (int, bool) {
		if identAt(i, a) && tokAt(i+1, token.PERIOD) && identAt(i+2, b) && tokAt(i+3, token.LPAREN) {
			return i + 3, true
		}
		return 0, false
	}
	// closeParen returns the index just after the parenthesis matching the one at i (or len(toks))
	closeParen := func(i int) (int, bool) {
		depth := 0
		for j := i; j < len(toks); j++ {
			switch toks[j].tok {
			case token.LPAREN:
				depth++
			case token.RPAREN:
				depth--
				if depth == 0 {
					return j + 1, true
				}
			}
		}
		return len(toks), false
	}
	// report recognises a call of the framework's error path starting at i
	report := func(i int) (int, bool) {
		for _, p := range [][2]string{{"siw", "ErrorHandlerFunc"}, {"siw", "ErrorHandler"}, {"echo", "NewHTTPError"}, {"fiber", "NewError"}} {
			if lp, ok := sel(i, p[0], p[1]); ok {
				end, _ := closeParen(lp)
				return end, true
			}
		}
		if lp, ok := sel(i, "ctx", "StatusCode"); ok {
			end, _ := closeParen(lp)
			for j := lp; j < end; j++ {
				if toks[j].tok == token.IDENT && toks[j].lit == "StatusBadRequest" {
					return end, true
				}
			}
		}
		return 0, false
	}
	var out []string
	// Block braces and the braces of composite literals are told apart the way the Go grammar does: after if / for /
	// switch / select / func the first opening brace at the same parenthesis depth opens the body; otherwise a brace that
	// follows an identifier or a closing bracket opens a composite literal ([]string{...}, T{...}) and is no block.
	parenDepth := 0
	var header []int  // parenthesis depths of the control headers still waiting for their body
	var braces []bool // open braces: true = block
	prevKind := token.ILLEGAL
	for i := 0; i < len(toks); {
		t := toks[i]
		if end, ok := report(i); ok {
			out = append(out, "GReport")
			i = end
			prevKind = token.RPAREN
			continue
		}
		if strictMode {
			switch {
			case identAt(i, "response") && tokAt(i+1, token.COMMA) && identAt(i+2, "err") && tokAt(i+3, token.DEFINE) && identAt(i+4, "handler") && tokAt(i+5, token.LPAREN):
				out = append(out, "GInvoke")
				parenDepth++
				i += 6
				prevKind = token.LPAREN
				continue
			case t.tok == token.IF && identAt(i+1, "err") && tokAt(i+2, token.NEQ) && identAt(i+3, "nil") && tokAt(i+4, token.LBRACE):
				out = append(out, "GErrIf")
				braces = append(braces, true)
				i += 5
				prevKind = token.LBRACE
				continue
			case t.tok == token.RBRACE && tokAt(i+1, token.ELSE):
				if n := len(braces); n > 0 {
					braces = braces[:n-1]
				}
				out = append(out, "GElse")
				i += 2
				prevKind = token.ELSE
				continue
			case t.tok == token.PERIOD && i+2 < len(toks) && toks[i+1].tok == token.IDENT && strings.HasPrefix(toks[i+1].lit, "Visit") && strings.HasSuffix(toks[i+1].lit, "Response") && tokAt(i+2, token.LPAREN):
				out = append(out, "GVisit")
				i += 2
				prevKind = token.IDENT
				continue
			case t.tok == token.IDENT && (strings.HasSuffix(t.lit, "ErrorHandlerFunc") || t.lit == "StopWithError") && tokAt(i+1, token.LPAREN):
				end, _ := closeParen(i + 1)
				out = append(out, "GReport")
				i = end
				prevKind = token.RPAREN
				continue
			}
		}
		switch {
		case t.tok == token.SEMICOLON && t.lit == "\n":
			// a header's body brace is on the line the header ends on (Go inserts a semicolon otherwise): headers that met
			// no brace by the end of the line had none (a func TYPE in a declaration)
			for len(header) > 0 && header[len(header)-1] >= parenDepth {
				header = header[:len(header)-1]
			}
		case t.tok == token.LPAREN:
			parenDepth++
		case t.tok == token.RPAREN:
			if parenDepth > 0 {
				parenDepth--
			}
		case t.tok == token.IF || t.tok == token.FOR || t.tok == token.SWITCH || t.tok == token.SELECT || t.tok == token.FUNC:
			header = append(header, parenDepth)
		case t.tok == token.RETURN:
			if end, ok := report(i + 1); ok { // return <error-path value>: one statement that reports and leaves
				out = append(out, "GReport", "GReturn")
				i = end
				prevKind = token.RPAREN
				continue
			}
			out = append(out, "GReturn")
		case t.tok == token.LBRACE:
			block := true
			if n := len(header); n > 0 && header[n-1] == parenDepth {
				header = header[:n-1]
			} else if prevKind == token.IDENT && i >= 2 && toks[i-2].tok == token.RPAREN {
				// ") T {": the result type of a function whose signature began in another segment - a body, not a literal
			} else if prevKind == token.IDENT || prevKind == token.RBRACK || prevKind == token.STRUCT || prevKind == token.INTERFACE {
				// composite literals, and the member lists of struct / interface types (a parameter's type may be one)
				block = false
			}
			braces = append(braces, block)
			if block {
				out = append(out, "GOpen")
			}
		case t.tok == token.RBRACE:
			block := true
			if n := len(braces); n > 0 {
				block = braces[n-1]
				braces = braces[:n-1]
			}
			if block {
				out = append(out, "GClose")
			}
		case (identAt(i, "siw") || identAt(i, "w")) && tokAt(i+1, token.PERIOD) && identAt(i+2, "Handler") && tokAt(i+3, token.PERIOD):
			out = append(out, "GHandler")
			i += 4
			prevKind = token.PERIOD
			continue
		case identAt(i, "handler") && tokAt(i+1, token.PERIOD) && identAt(i+2, "ServeHTTP"):
			out = append(out, "GServe")
			i += 3
			prevKind = token.IDENT
			continue
		case t.tok == token.RANGE && identAt(i+1, "siw") && tokAt(i+2, token.PERIOD) && identAt(i+3, "HandlerMiddlewares"):
			out = append(out, "GChain")
			i += 4
			prevKind = token.IDENT
			continue
		case identAt(i, "len") && tokAt(i+1, token.LPAREN) && identAt(i+2, "siw") && tokAt(i+3, token.PERIOD) && identAt(i+4, "HandlerMiddlewares"):
			out = append(out, "GChain") // the counting loop of the first-to-last variants
			parenDepth++
			i += 5
			prevKind = token.IDENT
			continue
		case t.tok == token.IDENT && strings.HasSuffix(t.lit, "Scopes") && tokAt(i+1, token.COMMA):
			out = append(out, "GPublish") // ...(ctx, <Scheme>Scopes, []string{...})
		}
		prevKind = t.tok
		i++
	}
	return out
}

// translate turns a parse list into a term. Text and output actions accumulate into one segment until a control node.
func translateList(l *parse.ListNode) *tnode {
	if l == nil {
		return tempty
	}
	var res *tnode = tempty
	var buf strings.Builder
	flush := func() {
		if buf.Len() > 0 {
			if toks := goTokens(buf.String()); len(toks) > 0 {
				res = tseq(res, &tnode{Kind: "seg", Toks: toks})
			}
			buf.Reset()
		}
	}
	var prefix strings.Builder
	for _, n := range l.Nodes {
		pre := prefix.String()
		prefix.WriteString(n.String())
		switch x := n.(type) {
		case *parse.TextNode:
			buf.Write(x.Text)
		case *parse.ActionNode:
			if len(x.Pipe.Decl) == 0 {
				if strings.Contains(x.Pipe.String(), "toStringArray") {
					buf.WriteString("[]string{}") // the action renders a composite literal
				} else {
					buf.WriteString("X")
				}
			}
		case *parse.IfNode:
			flush()
			res = tseq(res, &tnode{Kind: "if", Pipe: x.Pipe.String(), A: translateList(x.List), B: translateList(x.ElseList), Prefix: pre})
		case *parse.WithNode:
			flush()
			res = tseq(res, &tnode{Kind: "if", Pipe: x.Pipe.String(), A: translateList(x.List), B: translateList(x.ElseList), Prefix: pre})
		case *parse.RangeNode:
			flush()
			res = tseq(res, &tnode{Kind: "range", Pipe: x.Pipe.String(), A: translateList(x.List), B: translateList(x.ElseList), Prefix: pre})
		case *parse.TemplateNode:
			buf.WriteString("X")
		}
	}
	flush()
	return res
}

func parseTemplateFile(repo, rel string) (*parse.Tree, string, error) {
	b, err := os.ReadFile(filepath.Join(repo, "pkg/codegen/templates", rel))
	if err != nil {
		return nil, "", err
	}
	tr := parse.New(rel)
	tr.Mode = parse.SkipFuncCheck
	set := map[string]*parse.Tree{}
	t, err := tr.Parse(string(b), "", "", set)
	if err != nil {
		return nil, "", err
	}
	return t, string(b), nil
}

// translateWrapper returns the term of the whole template and the term of the body of its per-operation range.
func translateWrapper(repo, rel string) (whole, perOp *tnode, err error) {
	t, _, err := parseTemplateFile(repo, rel)
	if err != nil {
		return nil, nil, err
	}
	whole = translateList(t.Root)
	var find func(n *tnode) *tnode
	find = func(n *tnode) *tnode {
		if n == nil {
			return nil
		}
		if n.Kind == "range" && n.Pipe == "." {
			return n.A
		}
		if n.Kind == "seq" {
			if r := find(n.A); r != nil {
				return r
			}
			return find(n.B)
		}
		return nil
	}
	perOp = find(whole)
	if perOp == nil {
		return whole, nil, fmt.Errorf("%s: no {{range .}} over the operations found", rel)
	}
	return whole, perOp, nil
}

func (n *tnode) coq() string {
	if n == nil {
		return "TEmpty"
	}
	switch n.Kind {
	case "seg":
		return "TSeg [" + strings.Join(n.Toks, "; ") + "]"
	case "if":
		return fmt.Sprintf("TIf %s (%s) (%s)", coqLitStr(n.Pipe), n.A.coq(), n.B.coq())
	case "range":
		return fmt.Sprintf("TRange %s (%s) (%s)", coqLitStr(n.Pipe), n.A.coq(), n.B.coq())
	case "seq":
		return fmt.Sprintf("TSeq (%s) (%s)", n.A.coq(), n.B.coq())
	}
	return "TEmpty"
}

func writeWrappersV(repo, outDir string) error {
	var sb strings.Builder
	sb.WriteString("(* GENERATED from the server wrapper templates of /repo by harness/tmpl.go (text/template/parse + go/scanner) on every run. Do not edit. *)\n")
	sb.WriteString("From Coq Require Import List String.\nFrom V Require Import Model.Tmpl.\nImport ListNotations.\nLocal Open Scope string_scope.\n\n")
	sb.WriteString("(* template file, the whole template as a term; the per-operation wrapper is the body of its range over the operations *)\nDefinition wrappers_whole : list (string * tmpl) := [\n")
	for i, rel := range wrapperTemplates {
		whole, _, err := translateWrapper(repo, rel)
		if err != nil || whole == nil {
			whole = tempty
		}
		sep := ";"
		if i == len(wrapperTemplates)-1 {
			sep = ""
		}
		fmt.Fprintf(&sb, "  (%s,\n   %s)%s\n", coqLitStr(rel), whole.coq(), sep)
	}
	sb.WriteString("].\n\nDefinition wrappers : list (string * tmpl) := map (fun p => (fst p, op_body_or_empty (snd p))) wrappers_whole.\n")
	// the strict wrappers, read with the tokeniser's strict alphabet
	sb.WriteString("\n(* the strict wrapper templates (strict alphabet: GInvoke, GErrIf, GElse, GVisit) *)\nDefinition strict_wrappers_whole : list (string * tmpl) := [\n")
	strictMode = true
	for i, rel := range strictTemplates {
		whole, _, err := translateWrapper(repo, rel)
		if err != nil || whole == nil {
			whole = tempty
		}
		sep := ";"
		if i == len(strictTemplates)-1 {
			sep = ""
		}
		fmt.Fprintf(&sb, "  (%s,\n   %s)%s\n", coqLitStr(rel), whole.coq(), sep)
	}
	strictMode = false
	sb.WriteString("].\n\nDefinition strict_wrappers : list (string * tmpl) := map (fun p => (fst p, op_body_or_empty (snd p))) strict_wrappers_whole.\n")
	return os.WriteFile(filepath.Join(outDir, "Wrappers.v"), []byte(sb.String()), 0o644)
}

// ---------------------------------------------------------------- correspondence: the model's render vs the real engine

// tenv is an environment: the value of every condition of the term at this point, and the environments of the elements of
// every range.
type tenv struct {
	Conds  map[string]bool
	Ranges map[string][]*tenv
}

func (e *tenv) coq() string {
	ks := make([]string, 0, len(e.Conds))
	for k := range e.Conds {
		ks = append(ks, k)
	}
	sort.Strings(ks)
	var cs []string
	for _, k := range ks {
		cs = append(cs, fmt.Sprintf("(%s, %v)", coqLitStr(k), e.Conds[k]))
	}
	rk := make([]string, 0, len(e.Ranges))
	for k := range e.Ranges {
		rk = append(rk, k)
	}
	sort.Strings(rk)
	var rs []string
	for _, k := range rk {
		var es []string
		for _, c := range e.Ranges[k] {
			es = append(es, c.coq())
		}
		rs = append(rs, fmt.Sprintf("(%s, [%s])", coqLitStr(k), strings.Join(es, "; ")))
	}
	return fmt.Sprintf("EnvL [%s] [%s]", strings.Join(cs, "; "), strings.Join(rs, "; "))
}

// evalPipe runs the real engine on one pipeline with dot = data: truth (for if / with) or the elements (for range).
func evalCond(pipe, prefix string, data any) (bool, error) {
	src := "{{if " + pipe + "}}T{{else}}F{{end}}"
	if strings.Contains(pipe, "$") {
		src = prefix + src // the pipeline reads a template variable: evaluate it after the nodes that assign it
	}
	t, err := template.New("c").Funcs(codegen.TemplateFunctions).Parse(src)
	if err != nil {
		return false, err
	}
	var b bytes.Buffer
	if err := t.Execute(&b, data); err != nil {
		return false, err
	}
	return strings.HasSuffix(b.String(), "T"), nil
}

// rangeElems returns the elements the real engine ranges over, by collecting them through a template function.
func rangeElems(pipe string, data any) ([]any, error) {
	var elems []any
	fm := template.FuncMap{}
	for k, v := range codegen.TemplateFunctions {
		fm[k] = v
	}
	fm["verifCollect"] = func(x any) string {
		// the engine ranges over addressable elements (methods with pointer receivers are callable): hand on a pointer
		v := reflect.ValueOf(x)
		if v.IsValid() && v.Kind() != reflect.Ptr && v.Kind() != reflect.Interface {
			p := reflect.New(v.Type())
			p.Elem().Set(v)
			x = p.Interface()
		}
		elems = append(elems, x)
		return ""
	}
	p := pipe
	if i := strings.Index(p, ":="); i >= 0 { // $i, $x := .List
		p = strings.TrimSpace(p[i+2:])
	}
	t, err := template.New("r").Funcs(fm).Parse("{{range " + p + "}}{{verifCollect .}}{{end}}")
	if err != nil {
		return nil, err
	}
	if err := t.Execute(&bytes.Buffer{}, data); err != nil {
		return nil, err
	}
	return elems, nil
}

// evalCtx is a place a pipeline may have to be evaluated at: template variables are visible in every list below the
// one that assigns them, so a pipeline that reads one is evaluated after the nodes preceding it in the innermost
// enclosing list where that succeeds (with that list's dot).
type evalCtx struct {
	prefix string
	data   any
}

func evalCondIn(pipe string, ctxs []evalCtx) (bool, error) {
	var err error
	for i := len(ctxs) - 1; i >= 0; i-- {
		var v bool
		v, err = evalCond(pipe, ctxs[i].prefix, ctxs[i].data)
		if err == nil {
			return v, nil
		}
		if !strings.Contains(pipe, "$") {
			break
		}
	}
	return false, err
}

// buildEnv evaluates every pipeline of the term under data.
func buildEnv(n *tnode, data any, e *tenv) error { return buildEnvIn(n, data, e, nil) }

func buildEnvIn(n *tnode, data any, e *tenv, outer []evalCtx) error {
	if n == nil {
		return nil
	}
	switch n.Kind {
	case "seq":
		if err := buildEnvIn(n.A, data, e, outer); err != nil {
			return err
		}
		return buildEnvIn(n.B, data, e, outer)
	case "if":
		here := append(append([]evalCtx{}, outer...), evalCtx{n.Prefix, data})
		v, err := evalCondIn(n.Pipe, here)
		if err != nil {
			return fmt.Errorf("condition %q: %w", n.Pipe, err)
		}
		e.Conds[n.Pipe] = v
		if err := buildEnvIn(n.A, data, e, here); err != nil {
			return err
		}
		return buildEnvIn(n.B, data, e, here)
	case "range":
		elems, err := rangeElems(n.Pipe, data)
		if err != nil {
			return fmt.Errorf("range %q: %w", n.Pipe, err)
		}
		here := append(append([]evalCtx{}, outer...), evalCtx{n.Prefix, data})
		var kids []*tenv
		for _, el := range elems {
			k := &tenv{Conds: map[string]bool{}, Ranges: map[string][]*tenv{}}
			if err := buildEnvIn(n.A, el, k, here); err != nil {
				return err
			}
			kids = append(kids, k)
		}
		e.Ranges[n.Pipe] = kids
		return buildEnvIn(n.B, data, e, here)
	}
	return nil
}

// realWrapperTokens executes the real template on the operations and tokenises the output.
func realWrapperTokens(repo, rel string, ops []codegen.OperationDefinition) ([]string, string, error) {
	b, err := os.ReadFile(filepath.Join(repo, "pkg/codegen/templates", rel))
	if err != nil {
		return nil, "", err
	}
	t, err := template.New(rel).Funcs(codegen.TemplateFunctions).Parse(string(b))
	if err != nil {
		return nil, "", err
	}
	var out bytes.Buffer
	if err := t.Execute(&out, ops); err != nil {
		return nil, "", err
	}
	return goTokens(out.String()), out.String(), nil
}

// templateSpec builds a document whose operations cover the branches of the wrapper templates: parameters in the four
// locations x required / optional x styled / JSON content / pass-through, operations without parameters, with security.
func templateSpec(rng interface{ Intn(int) int }) []byte {
	mkParam := func(name, in string, required bool, class int) map[string]any {
		p := map[string]any{"name": name, "in": in, "required": required || in == "path"}
		switch class {
		case 0:
			p["schema"] = map[string]any{"type": []string{"string", "integer", "array"}[rng.Intn(3)]}
			if p["schema"].(map[string]any)["type"] == "array" {
				p["schema"].(map[string]any)["items"] = map[string]any{"type": "integer"}
			}
		case 1:
			p["content"] = map[string]any{"application/json": map[string]any{"schema": map[string]any{"type": "object", "properties": map[string]any{"a": map[string]any{"type": "string"}}}}}
		default:
			p["content"] = map[string]any{"text/plain": map[string]any{"schema": map[string]any{"type": "string"}}}
		}
		return p
	}
	paths := map[string]any{}
	nOps := 3 + rng.Intn(4)
	for i := 0; i < nOps; i++ {
		var params []any
		path := fmt.Sprintf("/op%d", i)
		np := rng.Intn(3)
		if i == 0 {
			np = 0
		}
		for j := 0; j < np; j++ {
			n := fmt.Sprintf("pv%d_%d", i, j)
			path += "/{" + n + "}"
			params = append(params, mkParam(n, "path", true, rng.Intn(3)))
		}
		if i > 0 {
			for _, in := range []string{"query", "header", "cookie"} {
				k := rng.Intn(3)
				for j := 0; j < k; j++ {
					params = append(params, mkParam(fmt.Sprintf("%s%d_%d", in[:1], i, j), in, rng.Intn(2) == 0, rng.Intn(3)))
				}
			}
		}
		op := map[string]any{"operationId": fmt.Sprintf("op%d", i), "responses": map[string]any{"204": map[string]any{"description": "d"}}}
		if bodyKind := rng.Intn(6); bodyKind > 0 && i > 0 {
			obj := map[string]any{"type": "object", "properties": map[string]any{"a": map[string]any{"type": "string"}}}
			content := map[string]any{}
			switch bodyKind {
			case 1:
				content["application/json"] = map[string]any{"schema": obj}
			case 2:
				content["application/x-www-form-urlencoded"] = map[string]any{"schema": obj}
			case 3:
				content["text/plain"] = map[string]any{"schema": map[string]any{"type": "string"}}
			case 4:
				content["multipart/form-data"] = map[string]any{"schema": obj}
			default:
				content["application/json"] = map[string]any{"schema": obj}
				content["text/plain"] = map[string]any{"schema": map[string]any{"type": "string"}}
				content["application/octet-stream"] = map[string]any{"schema": map[string]any{"type": "string", "format": "binary"}}
			}
			op["requestBody"] = map[string]any{"content": content}
		}
		if len(params) > 0 {
			op["parameters"] = params
		}
		switch rng.Intn(3) {
		case 0:
			op["security"] = []any{map[string]any{"bearerAuth": []string{"r", "w"}}, map[string]any{"apiKey": []string{}}}
		case 1:
			op["security"] = []any{}
		}
		paths[path] = map[string]any{[]string{"get", "post", "delete"}[rng.Intn(3)]: op}
	}
	spec, _ := json.Marshal(map[string]any{"openapi": "3.0.3", "info": map[string]any{"title": "t", "version": "1"}, "paths": paths,
		"security":   []any{map[string]any{"bearerAuth": []string{"g"}}},
		"components": map[string]any{"securitySchemes": map[string]any{"bearerAuth": map[string]any{"type": "http", "scheme": "bearer"}, "apiKey": map[string]any{"type": "apiKey", "in": "header", "name": "X-Key"}}}})
	return spec
}

// runTemplateCorrespondence compares, for every wrapper template, the model's render of the translated term with the
// text of the real engine on concrete operations (read with the same tokeniser), and evaluates the three criteria's
// statements on the real text as well.
func runTemplateCorrespondence(r *Report, rng interface{ Intn(int) int }, nDocs int) {
	runTemplateCorrespondenceOf(r, rng, nDocs, false)
}

// runStrictTemplateCorrespondence: the same for the five strict wrapper templates, read with the strict alphabet.
func runStrictTemplateCorrespondence(r *Report, rng interface{ Intn(int) int }, nDocs int) {
	runTemplateCorrespondenceOf(r, rng, nDocs, true)
}

var strictFW = map[string]string{"strict/strict-http.tmpl": "chi", "strict/strict-gin.tmpl": "gin", "strict/strict-echo.tmpl": "echo", "strict/strict-fiber.tmpl": "fiber", "strict/strict-iris.tmpl": "iris"}

func runTemplateCorrespondenceOf(r *Report, rng interface{ Intn(int) int }, nDocs int, strict bool) {
	name, fn, templates := "cases_C06_templates", "mismatches_template", wrapperTemplates
	if strict {
		name, fn, templates = "cases_C12_templates", "mismatches_strict_template", strictTemplates
		strictMode = true
		defer func() { strictMode = false }()
	}
	cases := NewCases(name, "From V Require Import Model.Tmpl Gen.Wrappers Corr.EvalTmpl.\nLocal Open Scope string_scope.", "nat * env * list gtok", fn)
	defer cases.WriteTo(r)
	for d := 0; d < nDocs; d++ {
		spec := templateSpec(rng)
		for ti, rel := range templates {
			fw := strings.SplitN(rel, "/", 2)[0]
			if strict {
				fw = strictFW[rel]
			}
			cfg := codegen.Configuration{PackageName: "gen", Generate: fwGenerate(fw, codegen.GenerateOptions{Models: true, Strict: strict})}
			ftl := d%2 == 1
			cfg.Compatibility.ApplyChiMiddlewareFirstToLast = ftl
			cfg.Compatibility.ApplyGorillaMiddlewareFirstToLast = ftl
			replay := map[string]any{"spec": json.RawMessage(spec), "template": rel, "first_to_last": ftl}
			sw, err := loadSpec(spec)
			if err != nil {
				r.Violate("template_correspondence_setup", "load: "+err.Error(), replay)
				return
			}
			if _, err := codegen.Generate(sw, cfg); err != nil { // sets the generator's state (options read through opts)
				r.Dist["template_generate_error"]++
				continue
			}
			ops, err := codegen.OperationDefinitions(sw, false)
			if err != nil {
				r.Violate("template_correspondence_setup", "OperationDefinitions: "+err.Error(), replay)
				continue
			}
			whole, _, err := translateWrapper("/repo", rel)
			if err != nil {
				r.Violate("template_not_translated", err.Error(), replay)
				continue
			}
			env := &tenv{Conds: map[string]bool{}, Ranges: map[string][]*tenv{}}
			if err := buildEnv(whole, ops, env); err != nil {
				r.Violate("template_pipeline_not_evaluated", rel+": "+err.Error(), replay)
				continue
			}
			toks, text, err := realWrapperTokens("/repo", rel, ops)
			if err != nil {
				r.Violate("template_not_executed", rel+": "+err.Error(), replay)
				continue
			}
			if mine := renderGo(whole, env); strings.Join(mine, " ") != strings.Join(toks, " ") {
				k := 0
				for k < len(mine) && k < len(toks) && mine[k] == toks[k] {
					k++
				}
				lo := k - 6
				if lo < 0 {
					lo = 0
				}
				replay["where_model_and_engine_part"] = map[string]any{"index": k, "model": mine[lo:min(len(mine), k+6)], "engine": toks[lo:min(len(toks), k+6)]}
			}
			cases.Add(fmt.Sprintf("(%d, %s, [%s])", ti, env.coq(), strings.Join(toks, "; ")), replay)
			r.Count("template/"+rel+"/"+string(spec)+fmt.Sprint(ftl), len(ops) > 1)
			r.Dist["template_render_vs_engine"]++
			if strict {
				// the statement on the real text: a Visit call only after the chain was invoked and its error tested
				invoked, tested := false, false
				for _, t := range toks {
					switch t {
					case "GInvoke":
						invoked, tested = true, false
					case "GErrIf":
						if invoked {
							tested = true
						}
					case "GVisit":
						if !invoked || !tested {
							r.Violate("strict_wrapper_writes_response_without_testing_the_error", rel+": a Visit call that does not follow the test of the chain's error", replay)
						}
					}
				}
				continue
			}
			// the statements on the real text: after a report nothing but return; one handler call per operation
			pending := false
			for _, t := range toks {
				switch t {
				case "GReport":
					pending = true
				case "GReturn":
					pending = false
				case "GOpen", "GPublish":
				default:
					if pending {
						r.Violate("wrapper_goes_on_after_error_report", fmt.Sprintf("%s: the generated wrapper text calls the error path and does not return before %s", rel, t), map[string]any{"template": rel, "spec": json.RawMessage(spec), "text": trunc(text, 4000)})
						pending = false
					}
				}
			}
			nh := 0
			for _, t := range toks {
				if t == "GHandler" {
					nh++
				}
			}
			if nh != len(ops) {
				r.Violate("wrapper_handler_calls", fmt.Sprintf("%s: %d handler calls in the wrappers of %d operations", rel, nh, len(ops)), replay)
			}
		}
	}
}

// renderGo mirrors Model/Tmpl.v render (used to say where model and engine part when a case differs).
func renderGo(n *tnode, e *tenv) []string {
	if n == nil {
		return nil
	}
	switch n.Kind {
	case "seg":
		return n.Toks
	case "seq":
		return append(append([]string{}, renderGo(n.A, e)...), renderGo(n.B, e)...)
	case "if":
		if e.Conds[n.Pipe] {
			return renderGo(n.A, e)
		}
		return renderGo(n.B, e)
	case "range":
		kids := e.Ranges[n.Pipe]
		if len(kids) == 0 {
			return renderGo(n.B, e)
		}
		var out []string
		for _, k := range kids {
			out = append(out, renderGo(n.A, k)...)
		}
		return out
	}
	return nil
}
