package main

import (
	"encoding/json"
	"fmt"
	"math/rand"
	"sort"
	"strings"

	"github.com/oapi-codegen/oapi-codegen/v2/pkg/codegen"

	"verif/harness/gendoc"
)

type rseg struct {
	lit string
	v   string
}

type rroute struct {
	method string
	tmpl   []rseg
	op     string
}

func (r rroute) path() string {
	var sb strings.Builder
	for _, s := range r.tmpl {
		if s.v != "" {
			sb.WriteString("/{" + s.v + "}")
		} else {
			sb.WriteString("/" + s.lit)
		}
	}
	return sb.String()
}

func (r rroute) vars() []string {
	var out []string
	for _, s := range r.tmpl {
		if s.v != "" {
			out = append(out, s.v)
		}
	}
	return out
}

func coqTemplate(t []rseg) string {
	parts := make([]string, len(t))
	for i, s := range t {
		if s.v != "" {
			parts[i] = "SVar " + gendoc.CoqStr(s.v)
		} else {
			parts[i] = "SLit " + gendoc.CoqStr(s.lit)
		}
	}
	return "[" + strings.Join(parts, "; ") + "]"
}

func coqRoutes(rs []rroute) string {
	parts := make([]string, len(rs))
	for i, r := range rs {
		parts[i] = fmt.Sprintf("{| r_method := %s; r_tmpl := %s; r_op := %s |}", gendoc.CoqStr(strings.ToUpper(r.method)), coqTemplate(r.tmpl), gendoc.CoqStr(r.op))
	}
	return "[" + strings.Join(parts, "; ") + "]"
}

var routeLits = []string{"a", "b", "users", "items", "x1", "me"}
var routeVarsByDepth = []string{"id", "name", "key", "v2"}

// names that are not spelled like the Go variables made of them (user_id -> userId, Key -> key): the routers know the
// variable under the name of the path template, whatever the wrapper calls its local variable
var routeVarsSnake = []string{"user_id", "item_name", "Key", "v_2"}
var routeMethods = []string{"get", "put", "post", "delete", "patch", "options", "head", "trace", "connect"} // all nine methods of a path item

var probeMethods = []string{"get", "put", "post", "delete", "patch"} // methods used for wrong-method probes

// genRouteSet draws path templates such that of two templates matching one path, one is
// segment-wise more specific (what every router needs in order to agree with the statement):
// a random tree of templates, then literal siblings obtained by specialising one variable of an
// existing template (and any subset of the templates below it).
func genRouteSet(rng *rand.Rand) []rroute {
	seen := map[string]bool{}
	var tmpls [][]rseg
	add := func(t []rseg) {
		k := fmt.Sprint(t)
		if !seen[k] {
			seen[k] = true
			tmpls = append(tmpls, t)
		}
	}
	n := 2 + rng.Intn(3)
	routeVarsByDepth := routeVarsByDepth
	if rng.Intn(2) == 0 {
		routeVarsByDepth = routeVarsSnake
	}
	for i := 0; i < n; i++ {
		depth := 1 + rng.Intn(4)
		var t []rseg
		t = append(t, rseg{lit: routeLits[rng.Intn(3)]}) // first segment literal: keeps siblings comparable
		vi := 0
		for d := 1; d < depth; d++ {
			if rng.Intn(2) == 0 && vi < len(routeVarsByDepth) {
				// variable names are a function of the position, so that routers requiring
				// one wildcard name per tree position accept the set
				t = append(t, rseg{v: routeVarsByDepth[vi] + fmt.Sprint(d)})
				vi++
			} else {
				t = append(t, rseg{lit: routeLits[rng.Intn(len(routeLits))]})
			}
		}
		add(t)
	}
	// specialisations: a literal in place of the first variable
	base := append([][]rseg(nil), tmpls...)
	for _, t := range base {
		for i, s := range t {
			if s.v != "" && rng.Intn(2) == 0 {
				c := append([]rseg(nil), t...)
				c[i] = rseg{lit: routeLits[rng.Intn(len(routeLits))]}
				// drop variables that would now be named inconsistently: none, names depend on depth only
				add(c)
				break
			}
		}
	}
	// reject sets in which two same-length templates overlap without dominance
	for i := range tmpls {
		for j := range tmpls {
			if i != j && len(tmpls[i]) == len(tmpls[j]) && overlap(tmpls[i], tmpls[j]) && !dominates(tmpls[i], tmpls[j]) && !dominates(tmpls[j], tmpls[i]) {
				return genRouteSet(rng)
			}
		}
	}
	var out []rroute
	opn := 0
	for _, t := range tmpls {
		nm := 1 + rng.Intn(2)
		perm := rng.Perm(len(routeMethods))
		for _, mi := range perm[:nm] {
			out = append(out, rroute{routeMethods[mi], t, fmt.Sprintf("op%d", opn)})
			opn++
		}
	}
	return out
}

func overlap(a, b []rseg) bool {
	for i := range a {
		if a[i].v == "" && b[i].v == "" && a[i].lit != b[i].lit {
			return false
		}
	}
	return true
}

// dominates: a is at least as specific as b at every position, and strictly somewhere.
func dominates(a, b []rseg) bool {
	strict := false
	for i := range a {
		if a[i].v != "" && b[i].v == "" {
			return false
		}
		if a[i].v == "" && b[i].v != "" {
			strict = true
		}
	}
	return strict
}

func routeSpec(rng *rand.Rand, rs []rroute) []byte {
	paths := map[string]any{}
	for _, r := range rs {
		item, ok := paths[r.path()].(map[string]any)
		if !ok {
			item = map[string]any{}
			paths[r.path()] = item
		}
		vs := r.vars()
		rng.Shuffle(len(vs), func(i, j int) { vs[i], vs[j] = vs[j], vs[i] })
		var opParams []any
		for _, v := range vs {
			p := map[string]any{"name": v, "in": "path", "required": true, "schema": map[string]any{"type": "string"}}
			switch rng.Intn(3) {
			case 0: // path level only
				if pl, _ := item["parameters"].([]any); !hasParam(pl, v) {
					item["parameters"] = append(pl, p)
				}
			case 1: // path level with another type, overridden at operation level
				if pl, _ := item["parameters"].([]any); !hasParam(pl, v) {
					item["parameters"] = append(pl, map[string]any{"name": v, "in": "path", "required": true, "schema": map[string]any{"type": "integer"}})
				}
				opParams = append(opParams, p)
			default:
				opParams = append(opParams, p)
			}
		}
		op := map[string]any{"operationId": r.op, "responses": map[string]any{"204": map[string]any{"description": "ok"}}}
		if len(opParams) > 0 {
			op["parameters"] = opParams
		}
		item[r.method] = op
	}
	// a path-level parameter of type integer that some operation does not override would reject
	// string values: make sure every operation of the path item overrides or re-declares
	for _, r := range rs {
		item := paths[r.path()].(map[string]any)
		pl, _ := item["parameters"].([]any)
		for _, pp := range pl {
			pm := pp.(map[string]any)
			if pm["schema"].(map[string]any)["type"] == "integer" {
				op := item[r.method].(map[string]any)
				ops, _ := op["parameters"].([]any)
				if !hasParam(ops, pm["name"].(string)) {
					op["parameters"] = append(ops, map[string]any{"name": pm["name"], "in": "path", "required": true, "schema": map[string]any{"type": "string"}})
				}
			}
		}
	}
	b, _ := json.Marshal(map[string]any{"openapi": "3.0.3", "info": map[string]any{"title": "routes", "version": "1"}, "paths": paths})
	return b
}

func hasParam(l []any, name string) bool {
	for _, p := range l {
		if p.(map[string]any)["name"] == name {
			return true
		}
	}
	return false
}

func matchTmpl(t []rseg, segs []string) (map[string]string, bool) {
	if len(t) != len(segs) {
		return nil, false
	}
	b := map[string]string{}
	for i, s := range t {
		if s.v != "" {
			if segs[i] == "" {
				return nil, false // a path variable stands for a non-empty segment
			}
			b[s.v] = segs[i]
		} else if s.lit != segs[i] {
			return nil, false
		}
	}
	return b, true
}

// expectDispatch is the statement: the most specific matching operation, values by name.
func expectDispatch(rs []rroute, base []string, method string, segs []string) (*rroute, map[string]string) {
	if len(segs) < len(base) {
		return nil, nil
	}
	for i := range base {
		if segs[i] != base[i] {
			return nil, nil
		}
	}
	segs = segs[len(base):]
	var best *rroute
	var bb map[string]string
	for i := range rs {
		r := &rs[i]
		if r.method != method {
			continue
		}
		b, ok := matchTmpl(r.tmpl, segs)
		if !ok {
			continue
		}
		if best == nil || dominates(r.tmpl, best.tmpl) {
			best, bb = r, b
		}
	}
	return best, bb
}

func runC03(r *Report, rng *rand.Rand, thorough bool) {
	// ---- function level: translation, ordered parameters, SortParamsByPath
	tcases := NewCases("cases_C03_translate", "From V Require Import Model.Route Corr.Eval.", "template * string * list string * list string", "mismatches_translate")
	scases := NewCases("cases_C03_sort", "From V Require Import Model.Route Corr.Eval.", "template * list string * option (list string)", "mismatches_sort_params")
	nT := 150
	if thorough {
		nT = 2000
	}
	for i := 0; i < nT; i++ {
		depth := rng.Intn(6)
		var t []rseg
		used := map[string]bool{}
		for d := 0; d < depth; d++ {
			if rng.Intn(2) == 0 {
				v := []string{"id", "name", "k", "v2", "userId", "x_y", "a-b"}[rng.Intn(7)]
				if used[v] {
					v = v + fmt.Sprint(d)
				}
				used[v] = true
				t = append(t, rseg{v: v})
			} else {
				t = append(t, rseg{lit: []string{"a", "users", "v1.0", "x-y", "me", "0"}[rng.Intn(6)]})
			}
		}
		rr := rroute{tmpl: t}
		p := rr.path()
		translated := []string{codegen.SwaggerUriToEchoUri(p), codegen.SwaggerUriToChiUri(p), codegen.SwaggerUriToGinUri(p), codegen.SwaggerUriToGorillaUri(p), codegen.SwaggerUriToStdHttpUri(p), codegen.SwaggerUriToFiberUri(p), codegen.SwaggerUriToIrisUri(p)}
		names := codegen.OrderedParamsFromUri(p)
		tcases.Add(fmt.Sprintf("(%s, %s, %s, %s)", coqTemplate(t), gendoc.CoqStr(p), gendoc.CoqStrList(translated), gendoc.CoqStrList(names)), map[string]any{"path": p})
		r.Count("translate:"+p, depth > 0)
		// oracle: names are the variables in path order
		if !eqStrings(names, rr.vars()) && !(len(names) == 0 && len(rr.vars()) == 0) {
			r.Violate("ordered_params", fmt.Sprintf("OrderedParamsFromUri(%q) = %v, path order is %v", p, names, rr.vars()), map[string]any{"path": p})
		}
		// SortParamsByPath on a permutation, with one name possibly dropped or replaced
		declared := append([]string(nil), rr.vars()...)
		rng.Shuffle(len(declared), func(i, j int) { declared[i], declared[j] = declared[j], declared[i] })
		mode := rng.Intn(5)
		if mode == 0 && len(declared) > 0 {
			declared = declared[1:]
		} else if mode == 1 {
			declared = append(declared, "extra")
		} else if mode == 2 && len(declared) > 0 {
			declared[0] = "other"
		}
		defs := make([]codegen.ParameterDefinition, len(declared))
		for j, n := range declared {
			defs[j] = codegen.ParameterDefinition{ParamName: n, In: "path"}
		}
		sorted, err := codegen.SortParamsByPath(p, defs)
		obs := "None"
		var got []string
		if err == nil {
			for _, d := range sorted {
				got = append(got, d.ParamName)
			}
			obs = "(Some " + gendoc.CoqStrList(got) + ")"
		}
		scases.Add(fmt.Sprintf("(%s, %s, %s)", coqTemplate(t), gendoc.CoqStrList(declared), obs), map[string]any{"path": p, "declared": declared})
		wantOK := len(declared) == len(rr.vars())
		if wantOK {
			set := map[string]bool{}
			for _, d := range declared {
				set[d] = true
			}
			for _, v := range rr.vars() {
				if !set[v] {
					wantOK = false
				}
			}
		}
		if wantOK != (err == nil) || (err == nil && !eqStrings(got, rr.vars()) && len(got) > 0) {
			r.Violate("sort_params", fmt.Sprintf("SortParamsByPath(%q, %v) = %v, %v", p, declared, got, err), map[string]any{"path": p, "declared": declared})
		}
	}
	tcases.WriteTo(r)
	scases.WriteTo(r)

	// ---- generated routers
	nSets := 3
	if thorough {
		nSets = 40
	}
	type setInfo struct {
		rs    []rroute
		spec  []byte
		slash bool // the fixed family of paths ending in a slash: only the routes' own requests are sent
	}
	var sets []setInfo
	var pkgs []LabPkg
	for s := 0; s < nSets; s++ {
		rs := genRouteSet(rng)
		spec := routeSpec(rng, rs)
		sets = append(sets, setInfo{rs, spec, false})
		for _, fw := range Frameworks {
			strict := s%2 == 1
			pkgs = append(pkgs, LabPkg{Name: fmt.Sprintf("c03_s%d_%s", s, fw), Spec: spec, FW: fw,
				Cfg: codegen.Configuration{Generate: fwGenerate(fw, codegen.GenerateOptions{Models: true, Strict: strict, Client: true})}})
		}
	}
	// paths that differ only in a final slash, and the root path (also below a base URL): an empty last segment
	{
		rs := []rroute{
			{"get", []rseg{{lit: ""}}, "opRoot"},
			{"get", []rseg{{lit: "pets"}}, "opPets"},
			{"get", []rseg{{lit: "pets"}, {lit: ""}}, "opPetsSlash"},
			{"get", []rseg{{lit: "pets"}, {v: routeVarsByDepth[0] + "1"}}, "opPet"},
		}
		spec := routeSpec(rng, rs)
		sets = append(sets, setInfo{rs, spec, true})
		for _, fw := range Frameworks {
			pkgs = append(pkgs, LabPkg{Name: fmt.Sprintf("c03_s%d_%s", len(sets)-1, fw), Spec: spec, FW: fw,
				Cfg: codegen.Configuration{Generate: fwGenerate(fw, codegen.GenerateOptions{Models: true, Client: true})}})
		}
	}
	// a fixed set, whatever the seed: one route for each of the nine methods, each with a variable followed by further
	// segments (so that every run has a route of every method, and an interior variable for the empty-segment probes)
	{
		var rs []rroute
		for i, m := range routeMethods {
			rs = append(rs, rroute{m, []rseg{{lit: "m" + m}, {v: "owner_id1"}, {lit: "things"}, {v: "name3"}}, fmt.Sprintf("opFixed%d", i)})
		}
		// and a literal sibling of a templated route whose operation id sorts AFTER the templated one's
		rs = append(rs, rroute{"get", []rseg{{lit: "mget"}, {v: "owner_id1"}, {lit: "things"}, {lit: "special"}}, "opFixedZLiteral"})
		spec := routeSpec(rng, rs)
		sets = append(sets, setInfo{rs, spec, false})
		for _, fw := range Frameworks {
			pkgs = append(pkgs, LabPkg{Name: fmt.Sprintf("c03_s%d_%s", len(sets)-1, fw), Spec: spec, FW: fw,
				Cfg: codegen.Configuration{Generate: fwGenerate(fw, codegen.GenerateOptions{Models: true, Client: true})}})
		}
	}
	lab, err := BuildLab(labRoot, "c03", pkgs)
	if err != nil {
		r.Violate("lab_build_failed", err.Error(), nil)
		return
	}
	dcases := NewCases("cases_C03_dispatch", "From V Require Import Model.Route Corr.Eval.",
		"list string * list route * string * list string * option (string * list string)", "mismatches_dispatch")
	var scenarios []map[string]any
	type meta struct {
		set    int
		fw     string
		base   []string
		method string
		segs   []string
		kind   string
	}
	metas := map[string]meta{}
	type cmeta struct {
		fw   string
		rt   rroute
		vals map[string]string
	}
	cmetas := map[string]cmeta{}
	randVal := func() string {
		// one value in six carries characters that are legal in a path segment and that a query-style decoder would change
		if rng.Intn(6) == 0 {
			return []string{"a+b", "c++", "+45", "x.y", "~t", "a-b_c", "p=q", "v1;x"}[rng.Intn(8)]
		}
		const al = "abcdefghijklmnopqrstuvwxyz0123456789"
		n := 1 + rng.Intn(6)
		b := make([]byte, n)
		for i := range b {
			b[i] = al[rng.Intn(len(al))]
		}
		return string(b)
	}
	plusDone := map[string]bool{}
	for si, set := range sets {
		for _, fw := range Frameworks {
			name := fmt.Sprintf("c03_s%d_%s", si, fw)
			st := lab.Status[name]
			if !st.OK {
				r.Violate("lab_package_broken:"+fw, fmt.Sprintf("package %s: generate error %q, compile error %q", name, st.GenerateError, trunc(st.CompileError, 600)), map[string]any{"spec": json.RawMessage(set.spec), "framework": fw})
				continue
			}
			// the generated client builds the path from its arguments: every variable's value must arrive under its own
			// name whatever the declaration order (the builder fills the template by position)
			for _, rt := range set.rs {
				vars := rt.vars()
				if len(vars) < 2 || rt.method == "connect" || rt.method == "head" {
					continue
				}
				names := builderParamNames(st.Code, "New"+opName(rt.op)+"Request")
				if len(names) != len(vars) {
					r.Violate("client_builder_signature", fmt.Sprintf("%s: New%sRequest has path arguments %v, the template has %v", name, opName(rt.op), names, vars), map[string]any{"spec": json.RawMessage(set.spec), "framework": fw})
					continue
				}
				vals := map[string]string{}
				var args []json.RawMessage
				for _, n := range names {
					v := randVal()
					vals[normVarName(n)] = v // the builder's argument names are the Go spellings of the variables (userId1 for user_id1)
					b, _ := json.Marshal(v)
					args = append(args, b)
				}
				id := fmt.Sprintf("%s/client%d", name, len(scenarios))
				scenarios = append(scenarios, map[string]any{"id": id, "pkg": name, "opts": map[string]any{"base_url": "", "short_circuit": -1, "strict_short_circuit": -1},
					"client": map[string]any{"fn": "New" + opName(rt.op) + "Request", "args": args, "then_serve": true, "via_method": len(scenarios)%2 == 1}})
				cmetas[id] = cmeta{fw, rt, vals}
			}
			// a third base URL that is a string prefix of one of the document's own paths (the first literal segment of a
			// route, whole or without its last letter): /pets under base /pets is served at /pets/pets, and at /pet/pets under /pet
			bases := [][]string{nil, {"api", "v1"}}
			for _, rt := range set.rs {
				if len(rt.tmpl) > 0 && rt.tmpl[0].v == "" && len(rt.tmpl[0].lit) > 1 {
					lit := rt.tmpl[0].lit
					if (si+len(fw))%2 == 0 {
						lit = lit[:len(lit)-1]
					}
					bases = append(bases, []string{lit})
					r.Dist["base=prefix-of-a-document-path"]++
					break
				}
			}
			// a base URL that carries a path variable of its own, in the router's syntax (/orgs/:org, /orgs/{org}): the
			// operation's variables still arrive under their own names
			bases = append(bases, []string{"orgs", "{VAR}"})
			r.Dist["base=with-a-variable-of-its-own"]++
			for _, base := range bases {
				base := base
				baseURL := ""
				if len(base) > 0 {
					baseURL = "/" + strings.Join(base, "/")
				}
				if len(base) == 2 && base[1] == "{VAR}" {
					if fw == "chi" || fw == "gorilla" || fw == "stdhttp" {
						baseURL = "/orgs/{org}"
					} else {
						baseURL = "/orgs/:org"
					}
					base = []string{"orgs", "acme"}
				}
				add := func(kind, method string, segs []string) {
					id := fmt.Sprintf("%s/%d", name, len(scenarios))
					full := append(append([]string(nil), base...), segs...)
					if kind == "no-base-prefix" {
						full = segs
					}
					// the generated entry point that mounts the server: with an options value, or (net/http flavours) on a
					// router the caller made and serves itself, or the plain one-argument form when there is no base URL
					entries := []string{""}
					netHTTP := fw == "chi" || fw == "gorilla" || fw == "stdhttp"
					switch {
					case len(base) == 0 && netHTTP:
						entries = []string{"", "plain", "from_mux"}
					case len(base) == 0:
						entries = []string{"", "plain"}
					case netHTTP:
						entries = []string{"", "from_mux_base"}
					}
					entry := entries[rng.Intn(len(entries))]
					r.Dist["entry="+fw+"/"+entry]++
					scenarios = append(scenarios, map[string]any{"id": id, "pkg": name, "opts": map[string]any{"base_url": baseURL, "short_circuit": -1, "strict_short_circuit": -1, "entry": entry},
						"req": map[string]any{"method": strings.ToUpper(method), "target": "/" + strings.Join(full, "/")}})
					metas[id] = meta{si, fw, base, method, full, kind}
				}
				for _, rt := range set.rs {
					segs := make([]string, len(rt.tmpl))
					for i, s := range rt.tmpl {
						if s.v != "" {
							segs[i] = randVal()
						} else {
							segs[i] = s.lit
						}
					}
					add("match", rt.method, segs)
					if len(rt.vars()) > 0 && !plusDone[name] {
						// once per server: every variable of a route holds a value with plus signs
						plusDone[name] = true
						ps := append([]string(nil), segs...)
						for i, sg := range rt.tmpl {
							if sg.v != "" {
								ps[i] = []string{"a+b", "c++", "+45"}[i%3]
							}
						}
						add("match", rt.method, ps)
					}
					if set.slash {
						r.Dist["family=final-slash"]++
						continue
					}
					// the segment of a variable that is followed by further segments left empty (/pets//toys/ball)
					for i, sg := range rt.tmpl {
						if sg.v != "" && i+1 < len(rt.tmpl) && rt.method != "connect" { // CONNECT targets with an empty segment make net/http's ServeMux panic (Go 1.26, not the generator's)
							c := append([]string(nil), segs...)
							c[i] = ""
							add("empty-variable-segment", rt.method, c)
							break
						}
					}
					add("extra-segment", rt.method, append(append([]string(nil), segs...), "zz"))
					if len(segs) > 1 {
						add("missing-segment", rt.method, segs[:len(segs)-1])
					}
					for _, m := range probeMethods {
						if m != rt.method {
							add("other-method", m, segs)
							break
						}
					}
					// a value equal to a sibling's literal
					for i, s := range rt.tmpl {
						if s.v != "" {
							c := append([]string(nil), segs...)
							c[i] = routeLits[rng.Intn(len(routeLits))]
							add("value-equals-literal", rt.method, c)
							break
						}
					}
					if len(base) > 0 {
						add("no-base-prefix", rt.method, segs)
					}
				}
			}
		}
	}
	results, err := lab.Run(scenarios)
	if err != nil {
		r.Violate("lab_run_failed", err.Error(), nil)
		return
	}
	for _, sc := range scenarios {
		id := sc["id"].(string)
		if cm, ok := cmetas[id]; ok {
			res := results[id]
			replay := map[string]any{"scenario": sc, "framework": cm.fw, "route": cm.rt.path(), "supplied_by_name": cm.vals}
			r.Count("client/"+id, true)
			r.Dist["kind=client-built-path"]++
			if res == nil || res.Err != "" {
				e := "no result"
				if res != nil {
					e = res.Err
				}
				if cm.fw == "stdhttp" && strings.Contains(e, "conflicts with pattern") {
					continue // recorded with the request scenarios of the same package
				}
				r.Violate("client_scenario_error", id+": "+e, replay)
				continue
			}
			var hs []LabEvent
			for _, e := range res.Trace {
				if e.Kind == "handler" {
					hs = append(hs, e)
				}
			}
			if len(hs) != 1 || hs[0].Name != opName(cm.rt.op) {
				continue // dispatch deviations of the routers are judged on the request scenarios above
			}
			for _, v := range cm.rt.vars() {
				if got := pathArg(hs[0], v); got != cm.vals[normVarName(v)] {
					r.Violate("client_path_argument_under_wrong_name", fmt.Sprintf("%s %s: client argument %s = %q, the handler received %s = %q (request path %s)", cm.fw, cm.rt.path(), v, cm.vals[normVarName(v)], v, got, wirePath(res)), replay)
					break
				}
			}
			continue
		}
		m := metas[id]
		set := sets[m.set]
		res := results[id]
		replay := map[string]any{"scenario": sc, "spec": json.RawMessage(set.spec), "framework": m.fw, "kind": m.kind}
		if res == nil || res.Err != "" {
			e := "no result"
			if res != nil {
				e = res.Err
			}
			if m.fw == "stdhttp" && strings.Contains(e, `PANIC: pattern "HEAD `) && strings.Contains(e, `conflicts with pattern "GET `) ||
				m.fw == "stdhttp" && strings.Contains(e, `PANIC: pattern "GET `) && strings.Contains(e, `conflicts with pattern "HEAD `) {
				// net/http: a GET pattern also matches HEAD, so "HEAD /a/{id}" and "GET /a/items" overlap without one being
				// more specific: registration panics, the generated server cannot be mounted for this (valid) document
				r.Violate("stdhttp_head_and_get_patterns_conflict", "std-http: "+trunc(e, 200), replay)
				continue
			}
			r.Violate("scenario_error", id+": "+e, replay)
			continue
		}
		var handlers []LabEvent
		for _, e := range res.Trace {
			if e.Kind == "handler" {
				handlers = append(handlers, e)
			}
		}
		want, wantB := expectDispatch(set.rs, m.base, m.method, m.segs)
		r.Count(fmt.Sprintf("%d/%s/%v/%s/%v", m.set, m.fw, m.base, m.method, m.segs), m.kind != "match")
		r.Dist["kind="+m.kind]++
		r.Dist["fw="+m.fw]++
		// model case: observed positional values in path order, read by name
		obs := "None"
		if len(handlers) == 1 {
			var rt *rroute
			for i := range set.rs {
				if opName(set.rs[i].op) == handlers[0].Name {
					rt = &set.rs[i]
				}
			}
			if rt != nil {
				var vals []string
				for _, v := range rt.vars() {
					vals = append(vals, pathArg(handlers[0], v))
				}
				if m.fw != "" && strings.Contains(id, "_strict") {
					_ = vals
				}
				obs = fmt.Sprintf("(Some (%s, %s))", gendoc.CoqStr(rt.op), gendoc.CoqStrList(vals))
			}
		}
		// echo's router lets a trailing ":var" swallow further segments when the variable has a
		// static sibling: third-party behaviour, recorded as a known finding and kept out of the
		// correspondence (the model is the dispatch the statement requires)
		echoQuirk := false
		if m.fw == "echo" && len(handlers) == 1 && (want == nil || handlers[0].Name != opName(want.op)) {
			// (also when the request does match another operation: the route with the static prefix and a trailing variable
			// takes it first and swallows the remaining segments)
			for _, rt := range set.rs {
				if opName(rt.op) == handlers[0].Name && len(rt.tmpl) > 0 && rt.tmpl[len(rt.tmpl)-1].v != "" && strings.Contains(pathArg(handlers[0], rt.tmpl[len(rt.tmpl)-1].v), "/") {
					echoQuirk = true
				}
			}
		}
		if echoQuirk {
			r.Violate("echo_trailing_variable_swallows_extra_segments", fmt.Sprintf("echo %s /%s: handler %s ran with the extra segments inside its last path variable (the request matches %s)", m.method, strings.Join(m.segs, "/"), handlers[0].Name, map[bool]string{true: "no operation", false: "another operation"}[want == nil]), replay)
			continue
		}
		// iris's trie does not go back from a static child to a variable sibling: when the request path is a
		// proper prefix of a longer route of the same method whose segment at that place is a literal, the
		// shorter templated route is not found (third-party behaviour, recorded, kept out of the correspondence)
		if (m.fw == "iris" || m.fw == "gin") && want != nil && len(handlers) == 0 && res.Status == 404 {
			quirk := false
			segs := m.segs[len(m.base):]
			for _, rt := range set.rs {
				if rt.method != m.method || rt.op == want.op {
					continue
				}
				// the other route agrees with the request up to a place where it has a literal equal to the
				// request's segment while the wanted route has a variable there: the trie takes the literal branch
				for i := 0; i < len(rt.tmpl) && i < len(segs) && i < len(want.tmpl); i++ {
					if rt.tmpl[i].v == "" && rt.tmpl[i].lit == segs[i] && want.tmpl[i].v != "" {
						quirk = true
						break
					}
					if rt.tmpl[i].v == "" && rt.tmpl[i].lit != segs[i] {
						break
					}
				}
			}
			if quirk {
				r.Violate(m.fw+"_no_backtracking_from_static_prefix_to_variable", fmt.Sprintf("%s %s /%s matches %s but a route with a literal where that one has a variable hides it (status 404)", m.fw, m.method, strings.Join(m.segs, "/"), opName(want.op)), replay)
				continue
			}
		}
		// net/http's ServeMux ("GET" patterns also match HEAD) and fiber (App.Get = Head + Get, and GET is registered
		// before HEAD) serve HEAD requests with the handler of the GET operation of the same path: a HEAD request that
		// matches no HEAD operation reaches a user handler, and under fiber a declared HEAD operation is shadowed
		if m.method == "head" && len(handlers) == 1 && (want == nil || handlers[0].Name != opName(want.op)) {
			if g, _ := expectDispatch(set.rs, m.base, "get", m.segs); g != nil && opName(g.op) == handlers[0].Name {
				r.Violate("head_request_served_by_get_route/"+m.fw, fmt.Sprintf("%s HEAD /%s runs the handler of the GET operation %s", m.fw, strings.Join(m.segs, "/"), handlers[0].Name), replay)
				continue
			}
		}
		// fiber (StrictRouting off by default) and iris (path correction on by default) do not tell /pets/ from /pets: the
		// request is served by the sibling without / with the final slash, or redirected (third-party defaults the generated
		// registration code does not change; recorded, kept out of the correspondence)
		if set.slash && (m.fw == "fiber" || m.fw == "iris") && want != nil && (len(handlers) != 1 || handlers[0].Name != opName(want.op)) {
			sibling := len(handlers) == 0 && (res.Status == 301 || res.Status == 308)
			if len(handlers) == 1 {
				for _, rt := range set.rs {
					if opName(rt.op) == handlers[0].Name && strings.TrimSuffix(rt.path(), "/") == strings.TrimSuffix(want.path(), "/") {
						sibling = true
					}
				}
			}
			if sibling {
				r.Violate(m.fw+"_final_slash_not_distinguished", fmt.Sprintf("%s %s /%s matches %s (%s); status %d, handlers %v", m.fw, m.method, strings.Join(m.segs, "/"), opName(want.op), want.path(), res.Status, handlerNames(handlers)), replay)
				continue
			}
		}
		if !isStrictPkg(lab, sc["pkg"].(string)) {
			dcases.Add(fmt.Sprintf("(%s, %s, %s, %s, %s)", gendoc.CoqStrList(m.base), coqRoutes(set.rs), gendoc.CoqStr(strings.ToUpper(m.method)), gendoc.CoqStrList(m.segs), obs), replay)
		}
		if len(r.Samples) < 3 && m.kind == "value-equals-literal" {
			r.Sample(map[string]any{"framework": m.fw, "request": sc["req"], "routes": routePaths(set.rs), "trace": res.Trace})
		}
		// ---- oracle
		if want == nil {
			if len(handlers) != 0 {
				r.Violate("unmatched_request_reached_handler", fmt.Sprintf("%s %s %v matches no operation but handler %s ran (%s)", m.fw, m.method, m.segs, handlers[0].Name, m.kind), replay)
			}
			continue
		}
		if len(handlers) != 1 {
			r.Violate("handler_count", fmt.Sprintf("%s %s /%s: %d handler calls, want 1 (%s, status %d)", m.fw, m.method, strings.Join(m.segs, "/"), len(handlers), m.kind, res.Status), replay)
			continue
		}
		h := handlers[0]
		if h.Name != opName(want.op) {
			r.Violate("wrong_operation", fmt.Sprintf("%s %s /%s dispatched to %s, want %s (%s)", m.fw, m.method, strings.Join(m.segs, "/"), h.Name, opName(want.op), m.kind), replay)
			continue
		}
		for v, val := range wantB {
			got := pathArg(h, v)
			if got != val {
				r.Violate("wrong_argument", fmt.Sprintf("%s %s /%s: argument %s = %q, want %q", m.fw, m.method, strings.Join(m.segs, "/"), v, got, val), replay)
			}
		}
	}
	dcases.WriteTo(r)
	r.Rule = "function level: random path templates through SwaggerUriTo{Echo,Chi,Gin,Gorilla,StdHttp,Fiber,Iris}Uri, OrderedParamsFromUri and SortParamsByPath (permuted, missing, extra and renamed declarations) vs the model; generated routers: random route sets (shared prefixes, static/templated siblings, 0-4 variables, path-level / operation-level / overridden parameter declarations in shuffled order) x 7 frameworks x with/without base URL (constant, a prefix of a document path, one with a path variable of its own in the router's syntax) x strict/non-strict x the generated entry points (options value; plain form; the caller's own router, with and without base URL, served itself), requests = matching paths with random values (alphanumeric; one in six with + . ~ - _ = ;), extra/missing segment, other method, value equal to a sibling literal, missing base prefix; one fixed set with a route of every one of the nine methods, each with an interior variable; one fixed set of paths differing in a final slash plus the root path (/, /pets, /pets/, /pets/{id}); non-trivial = a near-miss or sibling probe"
}

func handlerNames(hs []LabEvent) []string {
	var out []string
	for _, h := range hs {
		out = append(out, h.Name)
	}
	return out
}

func isStrictPkg(l *Lab, name string) bool {
	return strings.Contains(l.Status[name].Code, "StrictServerInterface")
}

// pathArg reads a path argument from a handler event of a plain or a strict stub.
// normVarName: the spelling shared by a path variable and the Go identifiers made of it (user_id, userId, UserId).
func normVarName(v string) string {
	return strings.ToLower(strings.NewReplacer("_", "", "-", "").Replace(v))
}

// pathArg finds the value the handler received in the argument (or request-object field) named after the variable.
func pathArg(h LabEvent, v string) string {
	var s string
	for k, raw := range h.Data {
		if k != "request" && k != "$scopes" && normVarName(k) == normVarName(v) {
			_ = json.Unmarshal(raw, &s)
			return s
		}
	}
	if raw, ok := h.Data["request"]; ok {
		var m map[string]json.RawMessage
		_ = json.Unmarshal(raw, &m)
		for k, x := range m {
			if normVarName(k) == normVarName(v) {
				_ = json.Unmarshal(x, &s)
			}
		}
	}
	return s
}

func routePaths(rs []rroute) []string {
	var out []string
	for _, r := range rs {
		out = append(out, strings.ToUpper(r.method)+" "+r.path())
	}
	sort.Strings(out)
	return out
}

// builderParamNames returns the names of the path arguments of a generated request builder, in signature order
// (everything between `server string` and an optional `params` / `body` argument).
func builderParamNames(code, fn string) []string {
	i := strings.Index(code, "func "+fn+"(server string")
	if i < 0 {
		return nil
	}
	rest := code[i+len("func "+fn+"(server string"):]
	j := strings.Index(rest, ")")
	if j < 0 {
		return nil
	}
	var out []string
	for _, part := range strings.Split(rest[:j], ",") {
		f := strings.Fields(part)
		if len(f) == 2 && f[0] != "params" && f[0] != "body" && f[0] != "contentType" {
			out = append(out, f[0])
		}
	}
	return out
}
