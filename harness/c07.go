package main

import (
	"bytes"
	"encoding/json"
	"fmt"
	"math"
	"math/rand"
	"sort"
	"strconv"
	"strings"

	"github.com/oapi-codegen/oapi-codegen/v2/pkg/codegen"

	"verif/harness/gendoc"
)

type mField struct {
	Name     string `json:"name"`
	Required bool   `json:"required"`
	Nullable bool   `json:"nullable"`
	Kind     string `json:"kind"` // string int int64 double bool date arr map ref
	RO, WO   bool
	SkipPtr  bool // x-go-type-skip-optional-pointer: true (an optional member without a pointer: absent = zero value)
}

type mSchema struct {
	Name   string   `json:"name"`
	Fields []mField `json:"fields"`
	Addl   string   `json:"addl"` // "" | any | string | int
}

func (f mField) schema() map[string]any {
	var s map[string]any
	switch f.Kind {
	case "string":
		s = map[string]any{"type": "string"}
	case "int":
		s = map[string]any{"type": "integer"}
	case "int64":
		s = map[string]any{"type": "integer", "format": "int64"}
	case "int32", "int16", "int8", "uint", "uint8", "uint16", "uint32", "uint64":
		s = map[string]any{"type": "integer", "format": f.Kind}
	case "double":
		s = map[string]any{"type": "number", "format": "double"}
	case "float":
		s = map[string]any{"type": "number"}
	case "bool":
		s = map[string]any{"type": "boolean"}
	case "date":
		s = map[string]any{"type": "string", "format": "date"}
	case "arr":
		s = map[string]any{"type": "array", "items": map[string]any{"type": "string"}}
	case "map":
		s = map[string]any{"type": "object", "additionalProperties": map[string]any{"type": "integer"}}
	case "ref":
		return map[string]any{"$ref": "#/components/schemas/Leaf"}
	case "byte":
		s = map[string]any{"type": "string", "format": "byte"}
	case "uuid":
		s = map[string]any{"type": "string", "format": "uuid"}
	case "datetime":
		s = map[string]any{"type": "string", "format": "date-time"}
	case "email":
		s = map[string]any{"type": "string", "format": "email"}
	case "rawjson": // json.RawMessage: an optional one has no pointer either
		s = map[string]any{"type": "string", "format": "json"}
	case "arrobj": // array of inline objects that allow (typed) additional members
		s = map[string]any{"type": "array", "items": map[string]any{"type": "object", "required": []string{"name"}, "properties": map[string]any{"name": map[string]any{"type": "string"}},
			"additionalProperties": map[string]any{"type": "integer", "format": "int64"}}}
	case "inlobj": // inline object that allows additional members
		s = map[string]any{"type": "object", "required": []string{"name"}, "properties": map[string]any{"name": map[string]any{"type": "string"}}, "additionalProperties": map[string]any{"type": "string"}}
	case "arrref":
		s = map[string]any{"type": "array", "items": map[string]any{"$ref": "#/components/schemas/Leaf"}}
	case "mapnullint": // dictionary whose values may be null
		s = map[string]any{"type": "object", "additionalProperties": map[string]any{"type": "integer", "nullable": true}}
	case "mapnullref": // dictionary of nullable references (the 3.0 idiom: nullable next to a one-member allOf)
		s = map[string]any{"type": "object", "additionalProperties": map[string]any{"nullable": true, "allOf": []any{map[string]any{"$ref": "#/components/schemas/Leaf"}}}}
	case "mapobj": // map of inline objects that allow additional members
		s = map[string]any{"type": "object", "additionalProperties": map[string]any{"type": "object", "properties": map[string]any{"name": map[string]any{"type": "string"}}, "additionalProperties": map[string]any{"type": "integer"}}}
	}
	if f.Nullable {
		s["nullable"] = true
	}
	if f.SkipPtr {
		s["x-go-type-skip-optional-pointer"] = true
	}
	if f.RO {
		s["readOnly"] = true
	}
	if f.WO {
		s["writeOnly"] = true
	}
	return s
}

func (m mSchema) schema() map[string]any {
	props := map[string]any{}
	var req []string
	for _, f := range m.Fields {
		props[f.Name] = f.schema()
		if f.Required {
			req = append(req, f.Name)
		}
	}
	s := map[string]any{"type": "object", "properties": props}
	if len(req) > 0 {
		s["required"] = req
	}
	switch m.Addl {
	case "any":
		s["additionalProperties"] = true
	case "string":
		s["additionalProperties"] = map[string]any{"type": "string"}
	case "int":
		s["additionalProperties"] = map[string]any{"type": "integer"}
	case "array":
		s["additionalProperties"] = map[string]any{"type": "array", "items": map[string]any{"type": "integer"}}
	case "object":
		s["additionalProperties"] = map[string]any{"type": "object", "properties": map[string]any{"x": map[string]any{"type": "string"}, "y": map[string]any{"type": "integer"}}}
	case "map":
		s["additionalProperties"] = map[string]any{"type": "object", "additionalProperties": map[string]any{"type": "string"}}
	}
	return s
}

var mStrings = []string{"", "a", "héllo", "日本語", "q\"uote", "back\\slash", "tab\there", "nl\nx", "emoji😀", "<html>&amp;", " sep"}

func genMemberValue(rng *rand.Rand, kind string) any {
	switch kind {
	case "string":
		return mStrings[rng.Intn(len(mStrings))]
	case "int":
		return []int64{0, 1, -1, math.MaxInt32, math.MinInt32, 1 << 40}[rng.Intn(6)]
	case "int64":
		return []int64{0, -1, math.MaxInt64, math.MinInt64, 1 << 53}[rng.Intn(5)]
	// the sized formats at the ends of their ranges (uint64 beyond what int64 holds)
	case "int32":
		return []int64{0, -1, math.MaxInt32, math.MinInt32}[rng.Intn(4)]
	case "int16":
		return []int64{0, -1, math.MaxInt16, math.MinInt16}[rng.Intn(4)]
	case "int8":
		return []int64{0, -1, math.MaxInt8, math.MinInt8}[rng.Intn(4)]
	case "uint8":
		return []uint64{0, 1, math.MaxUint8}[rng.Intn(3)]
	case "uint16":
		return []uint64{0, 1, math.MaxUint16}[rng.Intn(3)]
	case "uint", "uint32":
		return []uint64{0, 1, math.MaxInt32 + 1, math.MaxUint32}[rng.Intn(4)]
	case "uint64":
		return []uint64{0, 1, math.MaxUint32 + 1, 1 << 63, math.MaxUint64, math.MaxInt64 + 2}[rng.Intn(6)]
	case "double":
		return []float64{0, 1.5, -2.25, 3.141592653589793, 1e100, 5e-324}[rng.Intn(6)]
	case "float":
		return []float64{0, 1.5, -2.25, 0.5}[rng.Intn(4)] // exactly representable in float32
	case "bool":
		return rng.Intn(2) == 0
	case "date":
		return []string{"2020-01-02", "1999-12-31"}[rng.Intn(2)]
	case "arr":
		n := rng.Intn(3)
		l := []string{}
		for i := 0; i < n; i++ {
			l = append(l, mStrings[rng.Intn(len(mStrings))])
		}
		return l
	case "map":
		m := map[string]int{}
		for i := 0; i < rng.Intn(3); i++ {
			m[fmt.Sprintf("k%d", i)] = rng.Intn(100)
		}
		return m
	case "ref":
		return map[string]any{"x": mStrings[rng.Intn(len(mStrings))], "y": rng.Intn(10)}
	case "byte": // base64 text; the empty string is zero bytes
		return []string{"", "aGk=", "AAEC/v8=", "aGVsbG8gd29ybGQ="}[rng.Intn(4)]
	case "uuid":
		return []string{"00000000-0000-0000-0000-000000000000", "123e4567-e89b-12d3-a456-426614174000"}[rng.Intn(2)]
	case "datetime":
		return []string{"2020-01-02T03:04:05Z", "1999-12-31T23:59:59.123456789Z", "2024-02-29T10:30:00+02:00"}[rng.Intn(3)]
	case "email":
		return []string{"a@b.co", "user.name+tag@example.org"}[rng.Intn(2)]
	case "rawjson":
		return []any{map[string]any{"deep": []any{1, "two", nil}}, "text", 12, []any{true}}[rng.Intn(4)]
	case "arrobj":
		l := []any{}
		for i := 0; i < rng.Intn(3); i++ {
			e := map[string]any{"name": mStrings[rng.Intn(len(mStrings))]}
			for j := 0; j < rng.Intn(3); j++ {
				e[[]string{"stock", "sold", "ünï"}[j]] = []int64{0, -4, 9007199254740993, math.MaxInt64}[rng.Intn(4)]
			}
			l = append(l, e)
		}
		return l
	case "inlobj":
		e := map[string]any{"name": mStrings[rng.Intn(len(mStrings))]}
		for j := 0; j < rng.Intn(3); j++ {
			e[[]string{"extra", "x-1"}[j]] = mStrings[rng.Intn(len(mStrings))]
		}
		return e
	case "arrref":
		l := []any{}
		for i := 0; i < rng.Intn(3); i++ {
			l = append(l, map[string]any{"x": mStrings[rng.Intn(len(mStrings))], "y": rng.Intn(10)})
		}
		return l
	case "mapnullint", "mapnullref":
		m := map[string]any{}
		for i := 0; i < 1+rng.Intn(3); i++ {
			switch {
			case rng.Intn(2) == 0:
				m[fmt.Sprintf("k%d", i)] = nil // an explicit null is a value of its own
			case kind == "mapnullint":
				m[fmt.Sprintf("k%d", i)] = rng.Intn(100)
			default:
				m[fmt.Sprintf("k%d", i)] = map[string]any{"x": mStrings[rng.Intn(len(mStrings))], "y": rng.Intn(10)}
			}
		}
		return m
	case "mapobj":
		m := map[string]any{}
		for i := 0; i < rng.Intn(3); i++ {
			e := map[string]any{}
			if rng.Intn(2) == 0 {
				e["name"] = mStrings[rng.Intn(len(mStrings))]
			}
			if rng.Intn(2) == 0 {
				e["n"] = rng.Intn(100)
			}
			m[fmt.Sprintf("k%d", i)] = e
		}
		return m
	}
	return nil
}

// merged types whose members differ in what they say about unknown members
var c07AllOf = map[string]any{
	"AllOfOpenLater": map[string]any{"allOf": []any{map[string]any{"$ref": "#/components/schemas/Leaf"},
		map[string]any{"type": "object", "properties": map[string]any{"name": map[string]any{"type": "string"}}, "additionalProperties": true}}},
	"AllOfOpenFirst": map[string]any{"allOf": []any{map[string]any{"type": "object", "properties": map[string]any{"name": map[string]any{"type": "string"}}, "additionalProperties": true},
		map[string]any{"$ref": "#/components/schemas/Leaf"}}},
	"AllOfTypedLater": map[string]any{"allOf": []any{map[string]any{"$ref": "#/components/schemas/Leaf"},
		map[string]any{"type": "object", "properties": map[string]any{"name": map[string]any{"type": "string"}}, "additionalProperties": map[string]any{"type": "integer"}}}},
	"AllOfPlain": map[string]any{"allOf": []any{map[string]any{"$ref": "#/components/schemas/Leaf"},
		map[string]any{"type": "object", "properties": map[string]any{"name": map[string]any{"type": "string"}}}}},
	// unions (their algebra is C09's): here only decode-then-encode of instances with boundary numbers
	"OneOfPlain": map[string]any{"oneOf": []any{map[string]any{"$ref": "#/components/schemas/Leaf"}, map[string]any{"$ref": "#/components/schemas/Other"}}},
	"AnyOfPlain": map[string]any{"anyOf": []any{map[string]any{"$ref": "#/components/schemas/Leaf"}, map[string]any{"$ref": "#/components/schemas/Other"}}},
	"OneOfFixed": map[string]any{"type": "object", "properties": map[string]any{"name": map[string]any{"type": "string"}},
		"oneOf": []any{map[string]any{"$ref": "#/components/schemas/Leaf"}, map[string]any{"$ref": "#/components/schemas/Other"}}},
	// a union with own declared members AND additional members: the declared ones must not come back a second time as
	// additional ones (they would shadow the declared value on encoding)
	"OneOfFixedOpen": map[string]any{"type": "object", "properties": map[string]any{"name": map[string]any{"type": "string"}, "serial": map[string]any{"type": "integer", "format": "int64"}},
		"additionalProperties": true, "oneOf": []any{map[string]any{"$ref": "#/components/schemas/Leaf"}, map[string]any{"$ref": "#/components/schemas/Other"}}},
	"Other": map[string]any{"type": "object", "required": []string{"w"}, "properties": map[string]any{"w": map[string]any{"type": "integer", "format": "int64"}, "v": map[string]any{"type": "number"}}},
}

func declared(s mSchema, name string) bool {
	for _, f := range s.Fields {
		if f.Name == name {
			return true
		}
	}
	return false
}

func zeroOf(kind string) any {
	switch kind {
	case "string":
		return ""
	case "int", "int64", "int32", "int16", "int8", "uint", "uint8", "uint16", "uint32", "uint64":
		return 0
	case "double", "float":
		return 0.0
	case "bool":
		return false
	case "arr":
		return []string{}
	case "map":
		return map[string]int{}
	case "byte":
		return ""
	case "uuid":
		return "00000000-0000-0000-0000-000000000000"
	case "datetime":
		return "0001-01-01T00:00:00Z"
	case "email":
		return "a@b.co"
	case "arrobj", "arrref":
		return []any{}
	case "inlobj":
		return map[string]any{"name": ""}
	case "mapobj", "mapnullint", "mapnullref":
		return map[string]any{}
	}
	return nil
}

// canon renders a value as canonical JSON (sorted keys) WITHOUT passing numbers through float64: an integer
// beyond 2^53 keeps every digit, so a narrowed number is a difference.
func canon(v any) string {
	b, _ := json.Marshal(v)
	x, err := decodeExact(b)
	if err != nil {
		return string(b)
	}
	b2, _ := json.Marshal(x)
	return string(b2)
}

// decodeExact decodes JSON keeping numbers as text; the text is normalised (integers as written, everything
// else as the shortest float64 rendering) so that 1.0 / 1 / 1e0 compare equal and 2^63-1 / 2^63 do not.
func decodeExact(b []byte) (any, error) {
	d := json.NewDecoder(bytes.NewReader(b))
	d.UseNumber()
	var x any
	if err := d.Decode(&x); err != nil {
		return nil, err
	}
	return normNumbers(x), nil
}

func normNumbers(x any) any {
	switch v := x.(type) {
	case json.Number:
		t := string(v)
		if !strings.ContainsAny(t, ".eE") {
			if t == "-0" {
				return json.Number("0")
			}
			return v
		}
		f, err := strconv.ParseFloat(t, 64)
		if err != nil {
			return v
		}
		if f == math.Trunc(f) && math.Abs(f) < 1e15 {
			return json.Number(strconv.FormatInt(int64(f), 10))
		}
		return json.Number(strconv.FormatFloat(f, 'g', -1, 64))
	case map[string]any:
		for k, e := range v {
			v[k] = normNumbers(e)
		}
		return v
	case []any:
		for i, e := range v {
			v[i] = normNumbers(e)
		}
		return v
	}
	return x
}

func coqJObj(m map[string]any) (string, bool) {
	ks := make([]string, 0, len(m))
	for k := range m {
		ks = append(ks, k)
	}
	sort.Strings(ks)
	var ps []string
	for _, k := range ks {
		if m[k] == nil {
			ps = append(ps, "("+gendoc.CoqStr(k)+", None)")
			continue
		}
		c := canon(m[k])
		if !gendoc.CoqSafe(c) || !gendoc.CoqSafe(k) {
			return "", false
		}
		ps = append(ps, "("+gendoc.CoqStr(k)+", Some "+gendoc.CoqStr(c)+")")
	}
	return "[" + strings.Join(ps, "; ") + "]", true
}

func runC07(r *Report, rng *rand.Rand, thorough bool) {
	nSchemas := 30
	nInst := 12
	if thorough {
		nSchemas, nInst = 300, 40
	}
	kinds := []string{"string", "int", "int64", "int32", "int16", "int8", "uint", "uint8", "uint16", "uint32", "uint64", "uint64", "double", "bool", "date", "arr", "map", "ref", "arrobj", "inlobj", "arrref", "mapobj", "byte", "uuid", "datetime", "email", "mapnullint", "mapnullref", "rawjson"}
	var schemas []mSchema
	// two fixed schemas with one member of EVERY kind: all optional and non-nullable in a plain object, all required
	for fi, req := range []bool{false, true} {
		fs := mSchema{Name: fmt.Sprintf("MAll%d", fi)}
		for j, k := range kinds {
			fs.Fields = append(fs.Fields, mField{Name: fmt.Sprintf("f%d", j), Required: req, Kind: k})
		}
		schemas = append(schemas, fs)
	}
	// a third fixed schema: one optional member of every kind in a type WITH additional properties (the emitted
	// MarshalJSON decides member by member what is written); the members of nil-able types go without pointer
	{
		fs := mSchema{Name: "MAll2", Addl: "string"}
		for j, k := range kinds {
			f := mField{Name: fmt.Sprintf("f%d", j), Kind: k}
			if k == "arr" {
				f.SkipPtr = true
			}
			fs.Fields = append(fs.Fields, f)
		}
		schemas = append(schemas, fs)
	}
	// a fourth fixed schema: every member required and readOnly (what disable-required-readonly-as-pointer is about):
	// the all-zero instance keeps every member
	{
		fs := mSchema{Name: "MAll3"}
		for j, k := range kinds {
			fs.Fields = append(fs.Fields, mField{Name: fmt.Sprintf("f%d", j), Kind: k, Required: true, RO: true})
		}
		schemas = append(schemas, fs)
	}
	for i := 0; i < nSchemas; i++ {
		s := mSchema{Name: fmt.Sprintf("M%d", i), Addl: []string{"", "", "any", "string", "int", "array", "object", "map"}[rng.Intn(8)]}
		n := 1 + rng.Intn(5)
		for j := 0; j < n; j++ {
			f := mField{Name: fmt.Sprintf("f%d", j), Required: rng.Intn(2) == 0, Nullable: rng.Intn(3) == 0, Kind: kinds[rng.Intn(len(kinds))]}
			if f.Kind == "ref" {
				f.Nullable = false
			}
			if f.Kind == "rawjson" {
				f.Nullable = false
			}
			if !f.Required && !f.Nullable && (f.Kind == "string" || f.Kind == "arr" || f.Kind == "int") && rng.Intn(3) == 0 {
				// in a type with additional properties the emitted MarshalJSON tests every optional member against nil, which
				// does not compile for a pointer-less string / int (recorded finding, probe package c07_probe_skipptr below):
				// there only members of a nil-able type go without pointer
				if s.Addl == "" || f.Kind == "arr" {
					f.SkipPtr = true
				}
			}
			if rng.Intn(8) == 0 {
				f.RO = true
			} else if rng.Intn(10) == 0 {
				f.WO = true
			}
			s.Fields = append(s.Fields, f)
		}
		schemas = append(schemas, s)
	}
	// packages of 10 schemas, for nullable-type off and on
	var pkgs []LabPkg
	{
		// probe: an optional member without a pointer (x-go-type-skip-optional-pointer) of a type that has no nil, in a type
		// with additional properties
		spec, _ := json.Marshal(map[string]any{"openapi": "3.0.3", "info": map[string]any{"title": "m", "version": "1"}, "paths": map[string]any{}, "components": map[string]any{"schemas": map[string]any{
			"Probe": map[string]any{"type": "object", "additionalProperties": true, "properties": map[string]any{"n": map[string]any{"type": "integer", "x-go-type-skip-optional-pointer": true}}}}}})
		cfg := codegen.Configuration{Generate: codegen.GenerateOptions{Models: true}}
		cfg.OutputOptions.SkipPrune = true
		pkgs = append(pkgs, LabPkg{Name: "c07_probe_skipptr", Spec: spec, Cfg: cfg})
	}
	per := 10
	type variant struct {
		tag       string
		nt, roptr bool
	}
	variants := []variant{{"ntfalse", false, false}, {"nttrue", true, false}, {"roptr", false, true}}
	for _, vr := range variants {
		nt := vr.nt
		for i := 0; i < len(schemas); i += per {
			comps := map[string]any{"Leaf": map[string]any{"type": "object", "required": []string{"x", "y"}, "properties": map[string]any{"x": map[string]any{"type": "string"}, "y": map[string]any{"type": "integer"}}}}
			for _, s := range schemas[i:min(i+per, len(schemas))] {
				comps[s.Name] = s.schema()
			}
			for n, sc := range c07AllOf {
				comps[n] = sc
			}
			spec, _ := json.Marshal(map[string]any{"openapi": "3.0.3", "info": map[string]any{"title": "m", "version": "1"}, "paths": map[string]any{}, "components": map[string]any{"schemas": comps}})
			cfg := codegen.Configuration{Generate: codegen.GenerateOptions{Models: true}}
			cfg.OutputOptions.SkipPrune = true
			cfg.OutputOptions.NullableType = nt
			cfg.Compatibility.DisableRequiredReadOnlyAsPointer = vr.roptr
			pkgs = append(pkgs, LabPkg{Name: fmt.Sprintf("c07_p%d_%s", i/per, vr.tag), Spec: spec, Cfg: cfg})
		}
	}
	lab, err := BuildLab(labRoot, "c07", pkgs)
	if err != nil {
		r.Violate("lab_build_failed", err.Error(), nil)
		return
	}
	if st := lab.Status["c07_probe_skipptr"]; !st.OK {
		sig := "lab_package_broken/c07_probe_skipptr"
		if strings.Contains(st.CompileError, "!= nil (mismatched types") {
			sig = "optional_member_without_pointer_of_a_type_without_nil_next_to_additional_properties_does_not_compile"
		}
		r.Violate(sig, fmt.Sprintf("c07_probe_skipptr: %s %s", trunc(st.GenerateError, 300), trunc(st.CompileError, 400)),
			map[string]any{"schema": map[string]any{"type": "object", "additionalProperties": true, "properties": map[string]any{"n": map[string]any{"type": "integer", "x-go-type-skip-optional-pointer": true}}}})
	}
	var scenarios []map[string]any
	type meta struct {
		s    mSchema
		inst map[string]any
		nt   bool
		ro   bool
	}
	metas := map[string]meta{}
	for _, vr := range variants {
		nt := vr.nt
		for si, s := range schemas {
			pkg := fmt.Sprintf("c07_p%d_%s", si/per, vr.tag)
			if !lab.Status[pkg].OK {
				if si%per == 0 {
					st := lab.Status[pkg]
					r.Violate("lab_package_broken", fmt.Sprintf("%s: %s %s", pkg, trunc(st.GenerateError, 300), trunc(st.CompileError, 400)), nil)
				}
				continue
			}
			for k := 0; k < nInst; k++ {
				inst := map[string]any{}
				for _, f := range s.Fields {
					switch {
					case f.Required && f.Nullable && rng.Intn(3) == 0:
						inst[f.Name] = nil
					case !f.Required && (f.SkipPtr || f.Kind == "rawjson"):
						// without a pointer "absent" and "zero" are one state (documented for the extension): the member is
						// either absent or holds a value that is not the zero value
						if rng.Intn(2) == 0 {
							v := genMemberValue(rng, f.Kind)
							for try := 0; try < 10 && (canon(v) == canon(zeroOf(f.Kind)) || canon(v) == `""` || canon(v) == "[]" || canon(v) == "0"); try++ {
								v = genMemberValue(rng, f.Kind)
							}
							if !(canon(v) == `""` || canon(v) == "[]" || canon(v) == "0") {
								inst[f.Name] = v
							}
						}
					case k <= 1 && zeroOf(f.Kind) != nil && (f.Required || k == 1):
						// the first instance of every schema holds zero values in its required members, the second one in EVERY
						// member: an optional member that is present with its zero value ("", 0, false, [], {}) is not absent
						inst[f.Name] = zeroOf(f.Kind)
					case f.Required:
						inst[f.Name] = genMemberValue(rng, f.Kind)
					case rng.Intn(3) == 0:
						// absent
					case f.Nullable && rng.Intn(3) == 0:
						inst[f.Name] = nil
					default:
						inst[f.Name] = genMemberValue(rng, f.Kind)
					}
				}
				if s.Addl != "" {
					for e := 0; e < rng.Intn(4); e++ {
						name := []string{"extra", "x-1", "zz", "ünï"}[rng.Intn(4)]
						switch s.Addl {
						case "array":
							inst[name] = [][]int{{1, 2, 3}, {4, 5, 6}, {7}, {}}[rng.Intn(4)]
						case "object":
							inst[name] = []map[string]any{{"x": "1"}, {"y": 2}, {"x": "2", "y": 3}, {}}[rng.Intn(4)]
						case "map":
							inst[name] = []map[string]any{{"p": "1"}, {"q": "2"}, {"p": "3", "r": "4"}, {}}[rng.Intn(4)]
						case "any":
							inst[name] = []any{"s", 1.5, map[string]any{"n": []int{1, 2}}, true, int64(9007199254740993)}[rng.Intn(5)]
						case "string":
							inst[name] = mStrings[rng.Intn(len(mStrings))]
						case "int":
							inst[name] = []int64{int64(rng.Intn(1000)), int64(rng.Intn(1000)), math.MaxInt64, math.MinInt64, 9007199254740993}[rng.Intn(5)]
						}
					}
				}
				b, _ := json.Marshal(inst)
				id := fmt.Sprintf("%s/%s/%d", pkg, s.Name, k)
				scenarios = append(scenarios, map[string]any{"id": id, "pkg": pkg, "opts": map[string]any{"short_circuit": -1, "strict_short_circuit": -1}, "round": map[string]any{"type": s.Name, "json": json.RawMessage(b)}})
				metas[id] = meta{s, inst, nt, vr.roptr}
			}
		}
	}
	// merged (allOf) types: unknown members must survive exactly when some member allows them
	for _, vr := range variants {
		pkg := fmt.Sprintf("c07_p0_%s", vr.tag)
		if st := lab.Status[pkg]; st == nil || !st.OK {
			continue
		}
		for tn := range c07AllOf {
			for k := 0; k < 3; k++ {
				inst := map[string]any{"x": mStrings[rng.Intn(len(mStrings))], "y": rng.Intn(100), "name": mStrings[rng.Intn(len(mStrings))]}
				addl := "any"
				switch tn {
				case "AllOfOpenLater", "AllOfOpenFirst":
					inst["extra"] = map[string]any{"a": []int{1, 2}}
					inst["tag"] = "t"
					inst["n"] = nil
				case "AllOfTypedLater":
					inst["extra"] = 7
					inst["more"] = 8
					addl = "int"
				case "AllOfPlain":
					addl = ""
				case "OneOfFixedOpen":
					// member integers stay small (a recorded finding of C09 narrows the big ones of the MEMBER); the declared
					// serial takes the boundary values
					inst = map[string]any{"x": mStrings[rng.Intn(len(mStrings))], "y": rng.Intn(100), "name": mStrings[rng.Intn(len(mStrings))],
						"serial": []int64{math.MaxInt64, 9007199254740993, 7}[k%3], "extra": "e"}
				case "OneOfPlain", "AnyOfPlain", "OneOfFixed", "Other":
					addl = ""
					big := []int64{math.MaxInt64, math.MinInt64, 9007199254740993, 1 << 53, -1}
					if k%2 == 0 {
						inst = map[string]any{"x": mStrings[rng.Intn(len(mStrings))], "y": big[rng.Intn(len(big))]}
					} else {
						inst = map[string]any{"w": big[rng.Intn(len(big))], "v": []float64{0.1, 1e21, 5e-324, -2.5}[rng.Intn(4)]}
					}
					if tn == "OneOfFixed" {
						inst["name"] = mStrings[rng.Intn(len(mStrings))]
					}
					if tn == "Other" {
						inst = map[string]any{"w": big[rng.Intn(len(big))]}
					}
				}
				b, _ := json.Marshal(inst)
				id := fmt.Sprintf("%s/%s/%d", pkg, tn, k)
				scenarios = append(scenarios, map[string]any{"id": id, "pkg": pkg, "opts": map[string]any{"short_circuit": -1, "strict_short_circuit": -1}, "round": map[string]any{"type": tn, "json": json.RawMessage(b)}})
				ms := mSchema{Name: tn, Addl: addl}
				if tn == "OneOfFixedOpen" {
					// its own declared members: a change of THEIR values is not the recorded float64 narrowing of additional ones
					ms.Fields = []mField{{Name: "name", Kind: "string"}, {Name: "serial", Kind: "int64"}}
				}
				metas[id] = meta{ms, inst, true, false} // nt=true: kept out of the plain-struct model tie
			}
		}
	}
	results, err := lab.Run(scenarios)
	if err != nil {
		r.Violate("lab_run_failed", err.Error(), nil)
		return
	}
	ccases := NewCases("cases_C07", "From V Require Import Model.Codec Corr.Eval.", "list fdecl * bool * list (string * jval) * list (string * jval)", "mismatches_codec")
	for _, sc := range scenarios {
		id := sc["id"].(string)
		m := metas[id]
		res := results[id]
		replay := map[string]any{"schema": m.s, "instance": m.inst, "nullable_type": m.nt, "disable_required_readonly_as_pointer": m.ro}
		if res == nil {
			continue
		}
		r.Count(id+canon(m.inst), len(m.inst) > 1)
		r.Dist["addl="+m.s.Addl]++
		if res.Err != "" {
			r.Violate("valid_instance_rejected", fmt.Sprintf("schema %v instance %s: %s", m.s, canon(m.inst), res.Err), replay)
			continue
		}
		outAny, err := decodeExact(res.Out[0]) // numbers keep their text: 2^63-1 must not come back as 2^63
		out, isObj := outAny.(map[string]any)
		if err != nil || !isObj {
			r.Violate("output_not_an_object", string(res.Out[0]), replay)
			continue
		}
		if len(r.Samples) < 3 && m.s.Addl != "" && len(m.inst) > 2 {
			r.Sample(map[string]any{"schema": m.s, "instance": m.inst, "re_encoded": out})
		}
		// ---- oracle: equal, except that an absent optional nullable member may reappear as null
		var problems []string
		for k, v := range m.inst {
			ov, ok := out[k]
			if !ok {
				problems = append(problems, "member "+k+" lost")
			} else if canon(ov) != canon(v) {
				problems = append(problems, fmt.Sprintf("member %s changed: %s -> %s", k, canon(v), canon(ov)))
			}
		}
		for k, ov := range out {
			if _, ok := m.inst[k]; ok {
				continue
			}
			allowed := false
			for _, f := range m.s.Fields {
				if f.Name == k && !f.Required && f.Nullable && ov == nil {
					allowed = true
				}
			}
			if !allowed {
				problems = append(problems, fmt.Sprintf("member %s = %s invented", k, canon(ov)))
			}
		}
		sort.Strings(problems)
		if len(problems) > 0 {
			sig := "json_roundtrip/addl=" + m.s.Addl + fmt.Sprintf("/nullable-type=%v", m.nt)
			// two recorded classes; a problem outside both makes the whole case a plain violation
			//  A: explicit null of an optional nullable member of a type with additional properties is dropped (refuted clause)
			//  B: untyped additional members are held as interface{}: encoding/json decodes their numbers as float64
			var inA, inB []string
			other := false
			for _, p := range problems {
				a, b := false, false
				for _, f := range m.s.Fields {
					if m.s.Addl != "" && !m.nt && p == "member "+f.Name+" lost" && !f.Required && f.Nullable && m.inst[f.Name] == nil {
						a = true
					}
				}
				for k, v := range m.inst {
					if n, isInt := v.(int64); isInt && m.s.Addl == "any" && (n > 1<<53 || n < -(1<<53)) && strings.HasPrefix(p, "member "+k+" changed") && !declared(m.s, k) {
						b = true
					}
				}
				switch {
				case a:
					inA = append(inA, p)
				case b:
					inB = append(inB, p)
				default:
					other = true
				}
			}
			if !other {
				if len(inA) > 0 {
					r.Violate("explicit_null_of_optional_nullable_dropped_with_additional_properties", fmt.Sprintf("schema %v instance %s -> %s: %s", m.s, canon(m.inst), canon(out), strings.Join(inA, "; ")), replay)
				}
				if len(inB) > 0 {
					r.Violate("untyped_additional_member_integer_beyond_2_53_narrowed", fmt.Sprintf("schema %v instance %s -> %s: %s", m.s, canon(m.inst), canon(out), strings.Join(inB, "; ")), replay)
				}
				continue
			}
			r.Violate(sig, fmt.Sprintf("schema %v instance %s -> %s: %s", m.s, canon(m.inst), canon(out), strings.Join(problems, "; ")), replay)
			continue
		}
		// ---- model tie (nullable-type off; readOnly / writeOnly members change the pointer rule: C08)
		plain := !m.nt && !m.ro
		for _, f := range m.s.Fields {
			if f.RO || f.WO || f.SkipPtr || f.Kind == "rawjson" {
				plain = false
			}
		}
		if plain {
			var fs []string
			for _, f := range m.s.Fields {
				fs = append(fs, fmt.Sprintf("{| f_name := %s; f_required := %v; f_nullable := %v |}", gendoc.CoqStr(f.Name), f.Required, f.Nullable))
			}
			in, ok1 := coqJObj(m.inst)
			ob, ok2 := coqJObj(out)
			if ok1 && ok2 {
				// the model lists members in declaration order; observed sorted by key, input given sorted too
				ccases.Add(fmt.Sprintf("([%s], %v, %s, %s)", strings.Join(fs, "; "), m.s.Addl != "", in, ob), replay)
			}
		}
	}
	ccases.WriteTo(r)
	// ---- number without format is float32 (documented): a value needing more precision is narrowed
	r.Rule = "two fixed object schemas with one member of every kind (all optional / all required) and object schemas from a grammar (1-5 members: required/optional x nullable x {string, int, int64, int32, int16, int8, uint, uint8, uint16, uint32, uint64 (each at the ends of its range, uint64 beyond 2^63), double, bool, date, byte (incl. the empty string), uuid, date-time, email, array, map, referenced object, array of inline objects with additional members, inline object with additional members, array of references, map of inline objects with additional members, dictionaries whose values are nullable integers / nullable references (explicit null values), format json (json.RawMessage)}, some readOnly/writeOnly, some optional members without a pointer (x-go-type-skip-optional-pointer: absent or non-zero), some readOnly/writeOnly; additionalProperties absent / true / string / integer / array of integers / object with optional members / map of strings, with 0-3 additional members) x {default, nullable-type, disable-required-readonly-as-pointer}, plus four merged (allOf) types whose members differ in what they allow for unknown members and three union types (oneOf / anyOf / oneOf with an own property) with 64-bit extremes inside the stored member, generated and compiled; valid instances from a schema-directed generator (one instance per schema with zero values in every required member and one with zero values in every member, optional ones included, explicit nulls, absent optionals, empty arrays/maps, 64-bit extremes, float64 edge values, escaped and non-ASCII strings, extra members of the additional type) unmarshalled into the generated type and marshalled again; semantic JSON equality modulo the documented exception (oracle) and the model's re-encoded object (Coq); non-trivial = instance with at least two members"
}
