package main

import (
	"flag"
	"fmt"
	"math/rand"
	"os"
)

func main() {
	prop := flag.String("prop", "", "property id")
	tier := flag.String("tier", "quick", "quick|thorough")
	seed := flag.Int64("seed", 1, "PRNG seed")
	out := flag.String("out", "", "output directory")
	flag.Parse()
	if *out == "" {
		fmt.Fprintln(os.Stderr, "need -out")
		os.Exit(2)
	}
	must(os.MkdirAll(*out, 0o755))
	r := NewReport(*prop, *tier, *seed, *out)
	rng := rand.New(rand.NewSource(*seed))
	thorough := *tier == "thorough"
	switch *prop {
	case "gen":
		if err := runGen("/repo", *out); err != nil {
			fmt.Fprintln(os.Stderr, err)
			os.Exit(1)
		}
		return
	case "gen1":
		runGen1()
		return
	case "C02":
		runC02(r, rng, thorough)
	case "C03":
		runC03(r, rng, thorough)
	case "C04":
		runC04(r, rng, thorough)
	case "C05":
		runC05(r, rng, thorough)
	case "C06":
		runC06(r, rng, thorough)
	case "C18":
		runC18(r, rng, thorough)
	case "C13":
		runC13(r, rng, thorough)
	case "C12":
		runC12(r, rng, thorough)
	case "C11":
		runC11(r, rng, thorough)
	case "C08":
		runC08(r, rng, thorough)
	case "C10":
		runC10(r, rng, thorough)
	case "C20":
		runC20(r, rng, thorough)
	case "C07":
		runC07(r, rng, thorough)
	case "C01":
		runC01(r, rng, thorough)
	case "C09":
		runC09(r, rng, thorough)
	case "C14":
		runC14(r, rng, thorough)
	case "C17":
		runC17(r, rng, thorough)
	case "scan":
		runScanDump("/repo")
		return
	case "probe":
		runProbe(rng)
		return
	case "C15":
		if thorough {
			runC15(r, rng, 3000, true)
		} else {
			runC15(r, rng, 300, false)
		}
	case "C16":
		if thorough {
			runC16(r, rng, 3000, 400)
		} else {
			runC16(r, rng, 220, 40)
		}
	case "C19":
		if thorough {
			runC19(r, rng, 1000)
		} else {
			runC19(r, rng, 70)
		}
	default:
		fmt.Fprintln(os.Stderr, "unknown property", *prop)
		os.Exit(2)
	}
	r.Write()
}
