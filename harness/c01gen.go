package main

import (
	"fmt"
	"go/token"
	"math/rand"
	"regexp"
	"sort"
	"strings"
	"unicode"

	"github.com/oapi-codegen/oapi-codegen/v2/pkg/codegen"
)

// Generator of OpenAPI documents for C01: supported constructs only, names from an adversarial pool
// restricted (the property's guard) to those that normalise to distinct non-empty Go identifiers.

var advNames = []string{
	"type", "func", "range", "select", "default", "interface", "map", "chan", "go", "package",
	// names that are no keywords as spelled but whose derived Go variable name is one (Type -> type, RANGE -> range, default_ -> default)
	"Type", "Map", "RANGE", "default_", "Func", "Go", "_select", "Chan-",
	"string", "error", "nil", "len", "int", "bool", "true", "iota", "any", "new",
	"1st", "2fast", "200", "3D-model", "foo-bar", "foo.bar", "foo bar", "foo_bar", "a+b", "$dollar", "$ref-like",
	"café", "naïve", "Ünïcode", "straße", "παράδειγμα", "пример", "x-y-z", "UPPER", "lower", "camelCase",
	"snake_case_name", "kebab-case-name", "with:colon", "semi;colon", "id", "url", "httpApi", "user_id",
	"_leading", "trailing_", "__double", "a", "Z", "json", "time", "path", "Response", "Request", "Error",
	"x@y", "hash#tag", "q?mark", "per%cent", "star*", "tilde~x", "eq=ual", "pipe|x", "amp&ersand", "caret^x", "(paren)", "[bracket]", "quo'te",
	"日本語", "名前name", "emoji😀x", "²squared", "x²", "Ⅷroman", "x١٢٣",
}

var componentKeyRE = regexp.MustCompile(`^[a-zA-Z0-9._-]+$`)

var tameWords = []string{"Pet", "Order", "User", "Item", "Account", "Invoice", "Widget", "Gadget", "Report", "Event", "Rule", "Zone"}

// c01Avoid switches off the sub-cases that are recorded findings of the unchanged tree (each has a probe
// document in c01probes.go), so that every failure of the random family is new.
type c01Avoid struct {
	Strict      bool // strict server: text/plain responses only with a fixed status and no headers
	FiberStrict bool // no text/plain responses at all
	IrisOrFiber bool // no JSON-content parameters
	Client      bool // reusable responses carry JSON only
}

type c01Gen struct {
	av       c01Avoid
	r        *rand.Rand
	feat     map[string]int
	adv      float64 // probability of an adversarial name
	schemas  []string
	objRefs  []string // component schemas that are plain objects (usable in allOf / oneOf)
	counter  int
	mapDepth int
	xgo      int
	usedType map[string]bool
}

// every normaliser must give a valid identifier
func normalisations(name string) []string {
	var out []string
	pfx := strings.TrimSuffix(codegen.SchemaNameToTypeName(name), codegen.ToCamelCase(name)) // process default normaliser is ToCamelCase
	for _, f := range []func(string) string{codegen.ToCamelCase, codegen.ToCamelCaseWithDigits, codegen.ToCamelCaseWithInitialisms} {
		out = append(out, pfx+f(name))
	}
	return out
}

func validGoIdent(s string) bool {
	return token.IsIdentifier(s) // non-empty, letters/digits/_ with a letter first, not a keyword
}

// typeNameOK is the property's guard for names that become Go type names.
func (g *c01Gen) typeNameOK(name string) bool {
	for _, n := range normalisations(name) {
		if !validGoIdent(n) || g.usedType[strings.ToLower(n)] {
			return false
		}
	}
	return true
}

func (g *c01Gen) claim(name string) {
	for _, n := range normalisations(name) {
		g.usedType[strings.ToLower(n)] = true
	}
}

// typeName returns a fresh name usable for a component / operation.
func (g *c01Gen) typeName() string { return g.freshName(true) }

func (g *c01Gen) freshName(component bool) string {
	for try := 0; try < 50; try++ {
		var n string
		if g.r.Float64() < g.adv {
			n = advNames[g.r.Intn(len(advNames))]
			if g.r.Intn(3) == 0 {
				n = n + fmt.Sprintf("%c%d", 'a'+rune(g.r.Intn(26)), g.r.Intn(10))
			}
			g.feat["name=adversarial"]++
		} else {
			n = tameWords[g.r.Intn(len(tameWords))] + fmt.Sprint(g.counter)
			g.counter++
			g.feat["name=tame"]++
		}
		if component && !componentKeyRE.MatchString(n) { // OpenAPI: component keys match ^[a-zA-Z0-9\.\-_]+$
			continue
		}
		if g.typeNameOK(n) {
			g.claim(n)
			return n
		}
	}
	g.counter++
	n := fmt.Sprintf("Fallback%d", g.counter)
	g.claim(n)
	return n
}

// memberNames returns k names that normalise to distinct valid identifiers (struct fields, parameters).
// parameter names whose Go variable would shadow a predeclared identifier, an imported package or a name the
// wrappers use themselves, or that contain a number rune that is not a decimal digit (probes P9, P13)
func paramNameAvoided(n string) bool {
	v := codegen.LowercaseFirstCharacters(codegen.ToCamelCase(n))
	switch v {
	case "string", "error", "nil", "len", "int", "bool", "true", "false", "iota", "any", "new", "byte", "rune", "cap", "make", "copy", "append", "delete", "panic", "print", "println", "real", "imag", "complex", "close", "recover", "uint", "float64", "float32", "int32", "int64",
		"json", "time", "path", "url", "fmt", "http", "runtime", "errors", "strings", "bytes", "io", "context", "xml", "yaml", "mime", "multipart", "gzip", "base64", "os", "echo", "gin", "chi", "mux", "fiber", "iris", "openapi3", "nullable",
		"w", "r", "c", "ctx", "err", "params", "body", "request", "response", "server", "handler", "siw", "sh", "query", "headers", "cookie", "value", "decoded", "found", "valueList", "n", "result", "bodyReader", "req", "rsp", "contentType", "reqEditors", "operationPath", "serverURL", "queryURL", "queryValues", "pathParam0", "pathParam1", "pathParam2", "buf", "bodyStr", "object", "a", "t", "b", "v", "s", "m", "k", "i":
		return true
	}
	for _, r := range n {
		if unicode.IsNumber(r) && !unicode.IsDigit(r) {
			return true
		}
		if unicode.IsLetter(r) && !unicode.IsUpper(r) && !unicode.IsLower(r) { // the normaliser drops it: request.<field> mismatch in strict handlers (probe P13)
			return true
		}
	}
	return false
}

func (g *c01Gen) memberNames(k int, forPath bool) []string {
	return g.memberNames2(k, forPath, forPath)
}

func (g *c01Gen) paramNames(k int, forPath bool) []string { return g.memberNames2(k, forPath, true) }

func (g *c01Gen) memberNames2(k int, forPath, forParam bool) []string {
	seen := map[string]bool{}
	var out []string
	for len(out) < k {
		var n string
		if g.r.Float64() < g.adv {
			n = advNames[g.r.Intn(len(advNames))]
		} else {
			n = strings.ToLower(tameWords[g.r.Intn(len(tameWords))]) + []string{"", "Id", "_name", "-count"}[g.r.Intn(4)]
		}
		if forPath && strings.ContainsAny(n, "/{}?#*. ;:,+\\\"'`%[]()|^~=&@$!") {
			continue
		}
		if forParam && paramNameAvoided(n) {
			continue
		}
		if !forParam && strings.EqualFold(n, "item") {
			continue // probe P21: a property called item inside the object items of an array, without flattening
		}
		ok := true
		for _, x := range normalisations(n) {
			if !validGoIdent(x) || seen[strings.ToLower(x)] {
				ok = false
			}
		}
		if !ok {
			continue
		}
		for _, x := range normalisations(n) {
			seen[strings.ToLower(x)] = true
		}
		out = append(out, n)
	}
	return out
}

func (g *c01Gen) pick(l ...string) string { return l[g.r.Intn(len(l))] }

func (g *c01Gen) primitive() map[string]any {
	switch g.r.Intn(12) {
	case 0:
		return map[string]any{"type": "integer"}
	case 1:
		return map[string]any{"type": "integer", "format": g.pick("int32", "int64")}
	case 2:
		return map[string]any{"type": "number", "format": g.pick("float", "double")}
	case 3:
		return map[string]any{"type": "boolean"}
	case 4:
		return map[string]any{"type": "string", "format": g.pick("date", "date-time", "uuid", "email", "byte", "password")}
	case 5:
		return map[string]any{"type": "number"}
	default:
		return map[string]any{"type": "string"}
	}
}

func (g *c01Gen) enumSchema() map[string]any {
	g.feat["schema=enum"]++
	if g.r.Intn(3) == 0 {
		return map[string]any{"type": "integer", "enum": []any{1, 2, 3}}
	}
	pool := []string{"active", "in-active", "ON", "off", "9th", "two words", "typed", "", "a/b", "x_y", "Ünï"}
	g.r.Shuffle(len(pool), func(i, j int) { pool[i], pool[j] = pool[j], pool[i] })
	n := 2 + g.r.Intn(3)
	var vs []any
	for _, v := range pool[:n] {
		vs = append(vs, v)
	}
	return map[string]any{"type": "string", "enum": vs}
}

func (g *c01Gen) ref() map[string]any {
	return map[string]any{"$ref": "#/components/schemas/" + g.schemas[g.r.Intn(len(g.schemas))]}
}

func (g *c01Gen) object(depth int) map[string]any {
	g.feat["schema=object"]++
	k := 1 + g.r.Intn(4)
	names := g.memberNames(k, false)
	props := map[string]any{}
	var req []any
	for _, n := range names {
		p := g.schema(depth + 1)
		if _, isRef := p["$ref"]; !isRef {
			if g.r.Intn(6) == 0 {
				p["nullable"] = true
				g.feat["schema=nullable"]++
			}
			if g.r.Intn(10) == 0 {
				p["readOnly"] = true
			}
			if g.r.Intn(12) == 0 {
				p["description"] = "multi\nline */ description with \"quotes\" and `ticks`"
			}
			if g.r.Intn(14) == 0 {
				p["x-go-type-skip-optional-pointer"] = true
				g.feat["ext=skip-optional-pointer"]++
			}
			if g.r.Intn(14) == 0 {
				p["x-omitempty"] = g.r.Intn(2) == 0
			}
			if g.r.Intn(14) == 0 {
				p["deprecated"] = true
			}
			if g.r.Intn(14) == 0 {
				g.xgo++
				p["x-go-name"] = fmt.Sprintf([]string{"fieldID%dx", "field_name_%dx", "FieldId%dx"}[g.r.Intn(3)], g.xgo)
				g.feat["ext=x-go-name-on-property"]++
			}
		}
		props[n] = p
		if g.r.Intn(2) == 0 {
			req = append(req, n)
		}
	}
	o := map[string]any{"type": "object", "properties": props}
	if len(req) > 0 {
		o["required"] = req
	}
	ap := false
	switch g.r.Intn(8) {
	case 0:
		o["additionalProperties"] = true
		ap = true
	case 1:
		o["additionalProperties"] = g.primitive()
		ap = true
	case 2:
		o["additionalProperties"] = false
	}
	if ap {
		g.feat["schema=additionalProperties"]++
		for _, p := range props { // probe P6
			delete(p.(map[string]any), "x-go-type-skip-optional-pointer")
		}
	}
	return o
}

func (g *c01Gen) schema(depth int) map[string]any {
	n := g.r.Intn(20)
	switch {
	case n < 4 && len(g.schemas) > 0:
		g.feat["schema=ref"]++
		return g.ref()
	case n < 6 && depth < 3:
		g.feat["schema=array"]++
		return map[string]any{"type": "array", "items": g.schema(depth + 1)}
	case n < 8 && depth < 2:
		return g.object(depth)
	case n < 9 && depth < 3:
		g.feat["schema=map"]++
		if g.mapDepth >= 2 { // a map of a map of a map gives two auxiliary types one name when flattening is disabled (probe P20)
			return g.primitive()
		}
		g.mapDepth++
		v := g.schema(depth + 1)
		g.mapDepth--
		return map[string]any{"type": "object", "additionalProperties": v}
	case n < 11:
		return g.enumSchema()
	case n < 12 && len(g.objRefs) > 0 && depth < 2:
		g.feat["schema=allOf"]++
		return map[string]any{"allOf": []any{map[string]any{"$ref": "#/components/schemas/" + g.objRefs[g.r.Intn(len(g.objRefs))]}, g.extraObject()}}
	case n < 13 && len(g.objRefs) > 1 && depth < 2:
		g.feat["schema=union"]++
		a, b := g.objRefs[g.r.Intn(len(g.objRefs))], g.objRefs[g.r.Intn(len(g.objRefs))]
		ms := []any{map[string]any{"$ref": "#/components/schemas/" + a}}
		if a != b {
			ms = append(ms, map[string]any{"$ref": "#/components/schemas/" + b})
		}
		return map[string]any{g.pick("oneOf", "anyOf"): ms}
	default:
		return g.primitive()
	}
}

// flatObject: properties are primitives or references only
func (g *c01Gen) flatObject() map[string]any {
	g.feat["schema=flat-object"]++
	names := g.memberNames(1+g.r.Intn(3), false)
	props := map[string]any{}
	var req []any
	for _, n := range names {
		if len(g.schemas) > 0 && g.r.Intn(3) == 0 {
			props[n] = g.ref()
		} else {
			props[n] = g.primitive()
		}
		if g.r.Intn(2) == 0 {
			req = append(req, n)
		}
	}
	o := map[string]any{"type": "object", "properties": props}
	if len(req) > 0 {
		o["required"] = req
	}
	return o
}

// extraObject is the inline member of an allOf: its property names cannot meet those of the other member
func (g *c01Gen) extraObject() map[string]any {
	props := map[string]any{}
	for i := 0; i < 1+g.r.Intn(2); i++ {
		g.counter++
		props[fmt.Sprintf("extra-%s_%d", strings.ToLower(tameWords[g.r.Intn(len(tameWords))]), g.counter)] = g.primitive()
	}
	return map[string]any{"type": "object", "properties": props}
}

// inlineSchema is what the random family puts directly into responses, request bodies and parameters: the
// auxiliary types of deeper inline schemas in those positions are not emitted (probe P3)
func (g *c01Gen) inlineSchema() map[string]any {
	n := g.r.Intn(10)
	switch {
	case n < 4 && len(g.schemas) > 0:
		return g.ref()
	case n < 6:
		if len(g.schemas) > 0 && g.r.Intn(2) == 0 {
			return map[string]any{"type": "array", "items": g.ref()}
		}
		return map[string]any{"type": "array", "items": g.primitive()}
	case n < 8:
		return g.flatObject()
	default:
		return g.primitive()
	}
}

var paramStyles = map[string][][2]any{
	"path":   {{"", nil}, {"simple", false}, {"simple", true}, {"label", false}, {"label", true}, {"matrix", false}, {"matrix", true}},
	"query":  {{"", nil}, {"form", true}, {"form", false}, {"deepObject", true}, {"spaceDelimited", false}, {"pipeDelimited", false}},
	"header": {{"", nil}, {"simple", false}, {"simple", true}},
	"cookie": {{"", nil}, {"form", true}, {"form", false}},
}

func (g *c01Gen) paramSchema(style string) map[string]any {
	switch g.r.Intn(6) {
	case 0:
		if style == "deepObject" {
			break
		}
		g.feat["param=array"]++
		return map[string]any{"type": "array", "items": g.primitive()}
	case 1:
		if style == "spaceDelimited" || style == "pipeDelimited" {
			break
		}
		g.feat["param=object"]++
		return map[string]any{"type": "object", "properties": map[string]any{"a": map[string]any{"type": "string"}, "b": map[string]any{"type": "integer"}}}
	case 2:
		if len(g.schemas) > 0 && style == "" {
			g.feat["param=ref-schema"]++
			return g.ref()
		}
	}
	if style == "deepObject" {
		return map[string]any{"type": "object", "properties": map[string]any{"a": map[string]any{"type": "string"}}}
	}
	if style == "spaceDelimited" || style == "pipeDelimited" {
		return map[string]any{"type": "array", "items": map[string]any{"type": "string"}}
	}
	return g.primitive()
}

func (g *c01Gen) param(in, name string) map[string]any {
	p := map[string]any{"name": name, "in": in}
	if in == "path" {
		p["required"] = true
	} else if g.r.Intn(2) == 0 {
		p["required"] = true
	}
	g.feat["param.in="+in]++
	if in != "path" && g.r.Intn(7) == 0 {
		// the Go name given outright, in a spelling the name normalisers rewrite (lower camel, snake case, Id, digits)
		g.xgo++
		p["x-go-name"] = fmt.Sprintf([]string{"userID%dx", "request_id_%dx", "UserId%dx", "Renamed%dx", "oauth2Token%dx"}[g.r.Intn(5)], g.xgo)
		g.feat["ext=x-go-name-on-parameter"]++
	}
	if in != "path" && g.r.Intn(8) == 0 && !g.av.IrisOrFiber && len(g.schemas) > 0 {
		g.feat["param=content-json"]++
		p["content"] = map[string]any{"application/json": map[string]any{"schema": g.ref()}} // inline objects: probe P5
		return p
	}
	st := paramStyles[in][g.r.Intn(len(paramStyles[in]))]
	style, _ := st[0].(string)
	if style != "" {
		p["style"] = style
		p["explode"] = st[1]
		g.feat["param.style="+style]++
	}
	p["schema"] = g.paramSchema(style)
	return p
}

var mediaJSON = []string{"application/json", "application/json", "application/vnd.api+json", "application/problem+json", "application/json; charset=utf-8"}

type contentOpts struct {
	noText     bool
	jsonOnly   bool
	singleJSON bool
}

func (g *c01Gen) content(o contentOpts) map[string]any {
	c := map[string]any{}
	hasJSON, hasBinary, hasXY := false, false, false
	n := 1
	if g.r.Intn(5) == 0 {
		n = 2
	}
	for i := 0; i < n; i++ {
		k := g.r.Intn(9)
		if o.jsonOnly {
			k = 0
		}
		if o.noText && k == 6 {
			k = 7
		}
		switch k {
		case 0, 1, 2, 3:
			mt := mediaJSON[g.r.Intn(len(mediaJSON))]
			if _, has := c["application/json"]; has && strings.HasPrefix(mt, "application/json") {
				continue
			}
			if _, has := c["application/json; charset=utf-8"]; has && strings.HasPrefix(mt, "application/json") {
				continue
			}
			if hasJSON && o.singleJSON {
				continue
			}
			hasJSON = true
			g.feat["media=json"]++
			c[mt] = map[string]any{"schema": g.inlineSchema()}
		case 4:
			g.feat["media=form"]++
			c["application/x-www-form-urlencoded"] = map[string]any{"schema": g.flatObject()}
		case 5:
			g.feat["media=multipart"]++
			c["multipart/form-data"] = map[string]any{"schema": g.flatObject()}
		case 6:
			g.feat["media=text"]++
			c["text/plain"] = map[string]any{"schema": map[string]any{"type": "string"}}
		case 7:
			if hasBinary || hasXY { // two bodies that are neither JSON, form, multipart nor text share one field in strict request objects
				continue
			}
			hasBinary = true
			g.feat["media=binary"]++
			c[g.pick("application/octet-stream", "image/png", "application/pdf")] = map[string]any{"schema": map[string]any{"type": "string", "format": "binary"}}
		case 8:
			if hasXY || hasBinary {
				continue
			}
			hasXY = true
			g.feat["media=xml-or-yaml"]++
			c[g.pick("application/xml", "application/yaml", "text/yaml")] = map[string]any{"schema": g.inlineSchema()}
		}
	}
	return c
}

type c01Doc struct {
	Doc      map[string]any
	Features map[string]int
}

func genC01Doc(r *rand.Rand, adv float64, av c01Avoid) c01Doc {
	g := &c01Gen{av: av, r: r, feat: map[string]int{}, adv: adv, usedType: map[string]bool{}}
	schemas := map[string]any{}
	ns := 2 + r.Intn(6)
	for i := 0; i < ns; i++ {
		name := g.typeName()
		var s map[string]any
		isObj := false
		switch r.Intn(8) {
		case 0, 1, 2:
			s = g.object(0)
			for _, p := range s["properties"].(map[string]any) { // merged into allOf users with additionalProperties: probe P6
				delete(p.(map[string]any), "x-go-type-skip-optional-pointer")
			}
			if _, hasAP := s["additionalProperties"]; !hasAP {
				isObj = true
			}
		case 3:
			s = g.enumSchema()
		case 4:
			s = map[string]any{"type": "array", "items": g.schema(1)}
		default:
			s = g.schema(0)
		}
		if name[0] >= '0' && name[0] <= '9' { // nested types of a digit-leading schema get no prefix (probe P11)
			switch r.Intn(3) {
			case 0:
				s = g.flatObject()
			case 1:
				s = g.enumSchema()
			default:
				s = g.primitive()
			}
			isObj = false
		}
		if isObj {
			g.objRefs = append(g.objRefs, name)
		}
		schemas[name] = s
		g.schemas = append(g.schemas, name)
	}
	comps := map[string]any{"schemas": schemas}
	// reusable parameters / responses / request bodies
	cparams, cresps, cbodies := map[string]any{}, map[string]any{}, map[string]any{}
	var cparamNames, crespNames, cbodyNames []string
	for i := 0; i < r.Intn(3); i++ {
		n := g.typeName()
		in := g.pick("query", "header", "cookie")
		cparams[n] = g.param(in, g.paramNames(1, false)[0])
		cparamNames = append(cparamNames, n)
	}
	for i := 0; i < r.Intn(3); i++ {
		n := g.typeName()
		resp := map[string]any{"description": "reusable"}
		if r.Intn(4) != 0 {
			resp["content"] = g.content(contentOpts{noText: av.Strict, jsonOnly: av.Client, singleJSON: true})
		}
		if r.Intn(3) == 0 {
			resp["headers"] = map[string]any{g.pick("X-Rate-Limit", "x-request-id", "ETag"): map[string]any{"schema": g.primitive()}}
			g.feat["response=headers"]++
		}
		cresps[n] = resp
		crespNames = append(crespNames, n)
	}
	for i := 0; i < r.Intn(2); i++ {
		n := g.typeName()
		cbodies[n] = map[string]any{"content": g.content(contentOpts{singleJSON: true}), "required": r.Intn(2) == 0}
		cbodyNames = append(cbodyNames, n)
	}
	if len(cparams) > 0 {
		comps["parameters"] = cparams
	}
	if len(cresps) > 0 {
		comps["responses"] = cresps
	}
	if len(cbodies) > 0 {
		comps["requestBodies"] = cbodies
	}
	// security
	var schemeNames []string
	if r.Intn(2) == 0 {
		ss := map[string]any{}
		for i := 0; i < 1+r.Intn(2); i++ {
			n := g.typeName()
			switch r.Intn(4) {
			case 0:
				ss[n] = map[string]any{"type": "apiKey", "in": g.pick("header", "query", "cookie"), "name": "X-Key"}
			case 1:
				ss[n] = map[string]any{"type": "http", "scheme": g.pick("bearer", "basic")}
			case 2:
				ss[n] = map[string]any{"type": "oauth2", "flows": map[string]any{"implicit": map[string]any{"authorizationUrl": "https://example.com/auth", "scopes": map[string]any{"read:things": "r", "write": "w"}}}}
			default:
				ss[n] = map[string]any{"type": "openIdConnect", "openIdConnectUrl": "https://example.com/.well-known/openid-configuration"}
			}
			schemeNames = append(schemeNames, n)
		}
		comps["securitySchemes"] = ss
		g.feat["security=schemes"]++
	}
	paths := map[string]any{}
	np := 1 + r.Intn(4)
	for i := 0; i < np; i++ {
		npp := r.Intn(3)
		pnames := g.paramNames(npp, true)
		path := fmt.Sprintf("/res%d", i)
		for j, pn := range pnames {
			path += "/{" + pn + "}"
			if j == 0 && r.Intn(2) == 0 {
				path += "/sub"
			}
		}
		item := map[string]any{}
		methods := []string{"get", "post", "put", "delete", "patch"}
		r.Shuffle(len(methods), func(a, b int) { methods[a], methods[b] = methods[b], methods[a] })
		for _, m := range methods[:1+r.Intn(2)] {
			op := map[string]any{}
			if r.Intn(5) != 0 {
				op["operationId"] = g.freshName(false)
			} else {
				g.feat["op=no-operationId"]++
			}
			var params []any
			for _, pn := range pnames {
				params = append(params, g.param("path", pn))
			}
			others := g.paramNames(r.Intn(4), false)
			for _, on := range others {
				dup := false
				for _, pn := range pnames {
					if strings.EqualFold(codegen.ToCamelCase(pn), codegen.ToCamelCase(on)) {
						dup = true
					}
				}
				if dup {
					continue
				}
				params = append(params, g.param(g.pick("query", "query", "header", "cookie"), on))
			}
			if len(pnames) > 0 && r.Intn(6) == 0 {
				// a query parameter with the NAME of a path variable of the same operation (children after this id):
				// parameters are identified by location and name
				params = append(params, g.param("query", pnames[0]))
				g.feat["param=same-name-in-path-and-query"]++
			}
			if len(cparamNames) > 0 && r.Intn(3) == 0 {
				cn := cparamNames[r.Intn(len(cparamNames))]
				refName := cparams[cn].(map[string]any)["name"].(string)
				clash := false
				for _, x := range params {
					if strings.EqualFold(codegen.ToCamelCase(x.(map[string]any)["name"].(string)), codegen.ToCamelCase(refName)) {
						clash = true
					}
				}
				if !clash {
					params = append(params, map[string]any{"$ref": "#/components/parameters/" + cn})
					g.feat["param=ref"]++
				}
			}
			if len(params) > 0 {
				op["parameters"] = params
			}
			if m != "get" && m != "delete" && r.Intn(4) != 0 {
				if len(cbodyNames) > 0 && r.Intn(4) == 0 {
					op["requestBody"] = map[string]any{"$ref": "#/components/requestBodies/" + cbodyNames[r.Intn(len(cbodyNames))]}
					g.feat["body=ref"]++
				} else {
					op["requestBody"] = map[string]any{"content": g.content(contentOpts{}), "required": r.Intn(2) == 0}
					g.feat["body=inline"]++
				}
			}
			resps := map[string]any{}
			codes := []string{"200", "201", "204", "400", "404", "default", "4XX", "5XX"}
			r.Shuffle(len(codes), func(a, b int) { codes[a], codes[b] = codes[b], codes[a] })
			for _, code := range codes[:1+r.Intn(3)] {
				if len(crespNames) > 0 && r.Intn(4) == 0 {
					resps[code] = map[string]any{"$ref": "#/components/responses/" + crespNames[r.Intn(len(crespNames))]}
					g.feat["response=ref"]++
					continue
				}
				resp := map[string]any{"description": "d"}
				withHeaders := r.Intn(6) == 0
				if code != "204" && r.Intn(5) != 0 {
					fixed := len(code) == 3 && code[1] != 'X'
					resp["content"] = g.content(contentOpts{noText: av.FiberStrict || av.Strict && (!fixed || withHeaders)})
				}
				if withHeaders {
					resp["headers"] = map[string]any{g.pick("X-Rate-Limit", "x-request-id", "Location"): map[string]any{"schema": g.primitive()}}
					g.feat["response=headers"]++
				}
				resps[code] = resp
				g.feat["response.code="+code]++
			}
			op["responses"] = resps
			if len(schemeNames) > 0 && r.Intn(2) == 0 {
				sn := schemeNames[r.Intn(len(schemeNames))]
				op["security"] = []any{map[string]any{sn: []any{}}}
			}
			if r.Intn(3) == 0 {
				op["tags"] = []any{g.pick("alpha", "beta")}
			}
			item[m] = op
			g.feat["operations"]++
		}
		paths[path] = item
	}
	doc := map[string]any{"openapi": "3.0.3", "info": map[string]any{"title": "c01", "version": "1.0.0"}, "paths": paths, "components": comps}
	return c01Doc{Doc: doc, Features: g.feat}
}

func sortedKeysAny(m map[string]any) []string {
	ks := make([]string, 0, len(m))
	for k := range m {
		ks = append(ks, k)
	}
	sort.Strings(ks)
	return ks
}
