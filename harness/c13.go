package main

import (
	"encoding/json"
	"fmt"
	"math/rand"
	"sort"
	"strings"

	"github.com/oapi-codegen/oapi-codegen/v2/pkg/codegen"

	"verif/harness/gendoc"
)

type rpMedia struct {
	ct    string
	class string // json yaml xml other
}

var rpMediaPool = []rpMedia{
	{"application/json", "json"}, {"application/vnd.api+json", "json"}, {"application/problem+json", "json"}, {"text/x-json", "json"},
	{"application/hal+json", "json"}, {"application/vnd.Acme.Report.v2+json", "json"}, {"application/yaml", "yaml"}, {"text/yaml", "yaml"}, {"application/xml", "xml"}, {"text/xml", "xml"},
	{"text/plain", "other"}, {"application/octet-stream", "other"},
	// structured-syntax XML types are outside the generator's fixed XML list: no typed field, no parse clause
	{"application/problem+xml", "other"}, {"application/atom+xml", "other"},
}

var rpNames = []string{"200", "201", "404", "500", "2XX", "4XX", "5XX", "default"}

type rpResponse struct {
	name  string
	media []rpMedia
}

type rpOp struct {
	id    string
	resps []rpResponse
	free  bool // every declared schema is the free-form schema {} (Go type interface{})
}

func rpStatusMatches(name string, status int) bool {
	switch {
	case name == "default":
		return true
	case strings.HasSuffix(name, "XX"):
		return status/100 == int(name[0]-'0')
	}
	return fmt.Sprint(status) == name
}

func rpSpecificity(name string) int {
	switch {
	case name == "default":
		return 2
	case strings.HasSuffix(name, "XX"):
		return 1
	}
	return 0
}

// fieldName: the name of the typed field for (response, media type), as documented (JSON200,
// XMLDefault, ...; vendor JSON types prefixed by their normalised media type).
func rpFieldName(resp string, m rpMedia) string {
	rn := codegen.ToCamelCase(resp)
	switch {
	case m.ct == "application/hal+json":
		return "HALJSON" + rn
	case m.ct == "application/json":
		return "JSON" + rn
	case m.class == "json":
		return strings.ReplaceAll(codegen.ToCamelCase(m.ct)+rn, "Json", "JSON")
	case m.class == "yaml":
		return "YAML" + rn
	case m.class == "xml":
		return "XML" + rn
	}
	return ""
}

func genRpOp(rng *rand.Rand, id string) rpOp {
	op := rpOp{id: id}
	n := 1 + rng.Intn(4)
	perm := rng.Perm(len(rpNames))
	for _, i := range perm[:n] {
		r := rpResponse{name: rpNames[i]}
		k := rng.Intn(4)
		seen := map[string]bool{}
		for j := 0; j < k; j++ {
			m := rpMediaPool[rng.Intn(len(rpMediaPool))]
			// one media type per non-JSON class per response (two would get the same field name)
			key := m.ct
			if m.class == "yaml" || m.class == "xml" {
				key = m.class
			}
			if !seen[key] {
				seen[key] = true
				r.media = append(r.media, m)
			}
		}
		op.resps = append(op.resps, r)
	}
	sort.Slice(op.resps, func(i, j int) bool { return op.resps[i].name < op.resps[j].name })
	return op
}

func rpSpec(ops []rpOp) []byte {
	paths := map[string]any{}
	for _, o := range ops {
		resps := map[string]any{}
		for _, r := range o.resps {
			rr := map[string]any{"description": "d"}
			if len(r.media) > 0 {
				content := map[string]any{}
				for _, m := range r.media {
					if o.free {
						content[m.ct] = map[string]any{"schema": map[string]any{}}
					} else {
						content[m.ct] = map[string]any{"schema": map[string]any{"type": "object", "properties": map[string]any{"a": map[string]any{"type": "string"}}}}
					}
				}
				rr["content"] = content
			}
			resps[r.name] = rr
		}
		// the HEAD operation of the same path mirrors the GET operation's responses (headers only on the wire)
		paths["/"+o.id] = map[string]any{"get": map[string]any{"operationId": o.id, "responses": resps}, "head": map[string]any{"operationId": o.id + "Head", "responses": resps}}
	}
	// typed request bodies
	body := func(ct string, schema map[string]any) map[string]any {
		return map[string]any{"required": true, "content": map[string]any{ct: map[string]any{"schema": schema}}}
	}
	obj := map[string]any{"type": "object", "required": []string{"name"}, "properties": map[string]any{"name": map[string]any{"type": "string"}, "n": map[string]any{"type": "integer"}}}
	paths["/bodyjson"] = map[string]any{"post": map[string]any{"operationId": "bodyJson", "requestBody": body("application/json", obj), "responses": map[string]any{"204": map[string]any{"description": "d"}}}}
	paths["/bodyform"] = map[string]any{"post": map[string]any{"operationId": "bodyForm", "requestBody": body("application/x-www-form-urlencoded", obj), "responses": map[string]any{"204": map[string]any{"description": "d"}}}}
	// a form body whose media type carries an encoding object (text/plain for the string member: the string itself)
	paths["/bodyformenc"] = map[string]any{"post": map[string]any{"operationId": "bodyFormenc", "requestBody": map[string]any{"required": true, "content": map[string]any{
		"application/x-www-form-urlencoded": map[string]any{"schema": obj, "encoding": map[string]any{"name": map[string]any{"contentType": "text/plain"}, "n": map[string]any{"style": "form"}}}}},
		"responses": map[string]any{"204": map[string]any{"description": "d"}}}}
	paths["/bodytext"] = map[string]any{"post": map[string]any{"operationId": "bodyText", "requestBody": body("text/plain", map[string]any{"type": "string"}), "responses": map[string]any{"204": map[string]any{"description": "d"}}}}
	paths["/bodyvendor"] = map[string]any{"post": map[string]any{"operationId": "bodyVendor", "requestBody": body("application/vnd.api+json", obj), "responses": map[string]any{"204": map[string]any{"description": "d"}}}}
	b, _ := json.Marshal(map[string]any{"openapi": "3.0.3", "info": map[string]any{"title": "rp", "version": "1"}, "paths": paths})
	return b
}

func coqRname(n string) string {
	switch {
	case n == "default":
		return "RDefault"
	case strings.HasSuffix(n, "XX"):
		return "RRange " + n[:1]
	}
	return "RCode " + n
}

func coqRpOp(o rpOp) string {
	var rs []string
	for _, r := range o.resps {
		var ms []string
		for _, m := range r.media {
			ctor := map[string]string{"json": "MJson", "yaml": "MYaml", "xml": "MXml", "other": "MOther"}[m.class]
			ms = append(ms, fmt.Sprintf("(%s %s, %s)", ctor, gendoc.CoqStr(m.ct), gendoc.CoqStr(rpFieldName(r.name, m))))
		}
		rs = append(rs, fmt.Sprintf("(%s, [%s])", coqRname(r.name), strings.Join(ms, "; ")))
	}
	return "[" + strings.Join(rs, "; ") + "]"
}

func rpBody(class string) string {
	switch class {
	case "yaml":
		return "a: x\n"
	case "xml":
		return "<V><a>x</a></V>"
	}
	return `{"a":"x"}`
}

func runC13(r *Report, rng *rand.Rand, thorough bool) {
	nOps := 60
	if thorough {
		nOps = 1200
	}
	// fixed shapes first (the two refuted witnesses and common cases), then random ones
	ops := []rpOp{
		{"w1", []rpResponse{{"200", []rpMedia{{"application/json", "json"}, {"text/x-json", "json"}}}, {"default", []rpMedia{{"application/json", "json"}}}}, false},
		{"w2", []rpResponse{{"200", []rpMedia{{"application/json", "json"}}}, {"default", []rpMedia{{"application/json", "json"}, {"application/problem+json", "json"}}}}, false},
		{"c1", []rpResponse{{"200", []rpMedia{{"application/json", "json"}}}, {"2XX", []rpMedia{{"application/json", "json"}}}, {"default", []rpMedia{{"application/json", "json"}}}}, false},
		{"c2", []rpResponse{{"200", []rpMedia{{"application/json", "json"}, {"application/xml", "xml"}, {"application/yaml", "yaml"}}}, {"404", []rpMedia{{"application/problem+json", "json"}}}}, false},
		// a vendor media type spelled with capitals next to plain JSON (exact-match clauses)
		{"c3", []rpResponse{{"200", []rpMedia{{"application/json", "json"}, {"application/vnd.Acme.Report.v2+json", "json"}}}, {"404", []rpMedia{{"application/json", "json"}}}}, false},
		// free-form schemas: the typed field is a *interface{}
		{"f1", []rpResponse{{"200", []rpMedia{{"application/json", "json"}}}, {"default", []rpMedia{{"application/json", "json"}}}}, true},
	}
	for i := len(ops); i < nOps; i++ {
		o := genRpOp(rng, fmt.Sprintf("r%d", i))
		o.free = i%6 == 5
		ops = append(ops, o)
	}
	var pkgs []LabPkg
	per := 40
	// generated FIRST in the same process: a document whose operations carry the ids of the first package's operations and
	// declare one plain response each (what a generation leaves behind must not reach the next document's response tables)
	var decoy []rpOp
	for _, o := range ops[:min(per, len(ops))] {
		decoy = append(decoy, rpOp{o.id, []rpResponse{{"200", []rpMedia{{"application/json", "json"}}}}, false})
	}
	pkgs = append(pkgs, LabPkg{Name: "c13_a_decoy", Spec: rpSpec(decoy), Cfg: codegen.Configuration{Generate: codegen.GenerateOptions{Client: true, Models: true}}})
	for i := 0; i < len(ops); i += per {
		j := i + per
		if j > len(ops) {
			j = len(ops)
		}
		pkgs = append(pkgs, LabPkg{Name: fmt.Sprintf("c13_p%d", i/per), Spec: rpSpec(ops[i:j]), Cfg: codegen.Configuration{Generate: codegen.GenerateOptions{Client: true, Models: true}}})
	}
	lab, err := BuildLab(labRoot, "c13", pkgs)
	if err != nil {
		r.Violate("lab_build_failed", err.Error(), nil)
		return
	}
	var scenarios []map[string]any
	type meta struct {
		op     rpOp
		status int
		ct     string
		head   bool // the reply to a HEAD request: Content-Length of the would-be body, empty body
	}
	metas := map[string]meta{}
	statuses := []int{200, 201, 204, 299, 404, 418, 500, 503}
	for i, o := range ops {
		pkg := fmt.Sprintf("c13_p%d", i/per)
		if !lab.Status[pkg].OK {
			if i%per == 0 {
				st := lab.Status[pkg]
				r.Violate("lab_package_broken", fmt.Sprintf("%s: %s %s", pkg, trunc(st.GenerateError, 300), trunc(st.CompileError, 400)), nil)
			}
			continue
		}
		cts := map[string]string{}
		for _, rr := range o.resps {
			for _, m := range rr.media {
				cts[m.ct] = m.class
			}
		}
		cts["application/json"] = "json"
		cts["application/json; charset=utf-8"] = "json"
		cts["text/html"] = "other"
		ctl := make([]string, 0, len(cts))
		for c := range cts {
			ctl = append(ctl, c)
		}
		sort.Strings(ctl)
		for _, s := range statuses {
			for _, ct := range ctl {
				if !thorough && i >= 5 && rng.Intn(3) != 0 {
					continue
				}
				id := fmt.Sprintf("%s/%d/%s", o.id, s, ct)
				scenarios = append(scenarios, map[string]any{"id": id, "pkg": pkg, "opts": map[string]any{"short_circuit": -1, "strict_short_circuit": -1},
					"parse": map[string]any{"fn": "Parse" + opName(o.id) + "Response", "status": s, "content_type": ct, "body": rpBody(classOf(ct)), "framing": []string{"length", "chunked"}[rng.Intn(2)],
						// every other scenario: the same function parses a later, different reply before the first response is read
						"then_body": []string{"", "LATER-REPLY-LATER-REPLY-LATER-REPLY-LATER-REPLY"}[len(scenarios)%2]}})
				metas[id] = meta{o, s, ct, false}
			}
		}
	}
	// every declared pair (parsable or not) is answered once, unsampled, with a status that response matches
	declaredReplies := map[string][]string{} // op id -> scenario ids
	for i, o := range ops {
		pkg := fmt.Sprintf("c13_p%d", i/per)
		if !lab.Status[pkg].OK {
			continue
		}
		for _, rr := range o.resps {
			st := rpRepresentative(o, rr.name)
			if st == 0 {
				continue
			}
			for _, md := range rr.media {
				id := fmt.Sprintf("%s/%d/%s", o.id, st, md.ct)
				declaredReplies[o.id] = append(declaredReplies[o.id], id)
				if _, dup := metas[id]; dup {
					continue
				}
				scenarios = append(scenarios, map[string]any{"id": id, "pkg": pkg, "opts": map[string]any{"short_circuit": -1, "strict_short_circuit": -1},
					"parse": map[string]any{"fn": "Parse" + opName(o.id) + "Response", "status": st, "content_type": md.ct, "body": rpBody(classOf(md.ct))}})
				metas[id] = meta{o, st, md.ct, false}
			}
		}
	}
	// replies to HEAD requests (a router may serve HEAD with the GET handler): Content-Length announces the body a GET
	// would carry, the body itself is empty; status and (empty) raw body must be exposed
	for i, o := range ops {
		pkg := fmt.Sprintf("c13_p%d", i/per)
		if !lab.Status[pkg].OK || (!thorough && i >= 12) {
			continue
		}
		type hc struct {
			st int
			ct string
		}
		heads := []hc{{200, "text/html"}, {404, ""}}
		if len(o.resps) > 0 && len(o.resps[0].media) > 0 {
			if st := rpRepresentative(o, o.resps[0].name); st != 0 {
				heads = append(heads, hc{st, o.resps[0].media[0].ct})
			}
		}
		for _, h := range heads {
			id := fmt.Sprintf("%s/head/%d/%s", o.id, h.st, h.ct)
			scenarios = append(scenarios, map[string]any{"id": id, "pkg": pkg, "opts": map[string]any{"short_circuit": -1, "strict_short_circuit": -1},
				"parse": map[string]any{"fn": "Parse" + opName(o.id+"Head") + "Response", "status": h.st, "content_type": h.ct, "body": rpBody(classOf(h.ct)), "framing": "head"}})
			metas[id] = meta{o, h.st, h.ct, true}
		}
	}
	// request bodies
	bodyScs := []map[string]any{
		{"id": "body/json", "pkg": "c13_p0", "opts": map[string]any{"short_circuit": -1, "strict_short_circuit": -1}, "client": map[string]any{"fn": "NewBodyJsonRequest", "args": []any{map[string]any{"name": "é\"x", "n": 7}}}},
		{"id": "body/vendor", "pkg": "c13_p0", "opts": map[string]any{"short_circuit": -1, "strict_short_circuit": -1}, "client": map[string]any{"fn": "NewBodyVendorRequestWithApplicationVndAPIPlusJSONBody", "args": []any{map[string]any{"name": "v", "n": -1}}}},
		{"id": "body/form", "pkg": "c13_p0", "opts": map[string]any{"short_circuit": -1, "strict_short_circuit": -1}, "client": map[string]any{"fn": "NewBodyFormRequestWithFormdataBody", "args": []any{map[string]any{"name": "a b&c", "n": 3}}}},
		{"id": "body/formenc", "pkg": "c13_p0", "opts": map[string]any{"short_circuit": -1, "strict_short_circuit": -1}, "client": map[string]any{"fn": "NewBodyFormencRequestWithFormdataBody", "args": []any{map[string]any{"name": "a b&c", "n": 3}}}},
		{"id": "body/text", "pkg": "c13_p0", "opts": map[string]any{"short_circuit": -1, "strict_short_circuit": -1}, "client": map[string]any{"fn": "NewBodyTextRequestWithTextBody", "args": []any{"plain ü text"}}},
	}
	scenarios = append(scenarios, bodyScs...)
	// the typed methods of ClientWithResponses end to end: client assembled with its options (doer, two request editors, one
	// more editor given to the call), server URL with and without final slash and path prefix; the reply is the canned one of
	// a declared pair; what the method returns must be what Parse<Op>Response makes of that reply, and the request must be
	// the one the builder makes, edited by every editor once, in order, before the single exchange
	servers := []string{"http://lab", "http://lab/", "http://lab/api/v1", "http://lab/api/v1/"}
	type callMeta struct {
		parseID string
		path    string
		body    string // body/ id of the builder scenario to agree with
	}
	callMetas := map[string]callMeta{}
	for i, o := range ops {
		pkg := fmt.Sprintf("c13_p%d", i/per)
		if !lab.Status[pkg].OK || (!thorough && i >= 24) {
			continue
		}
		for k, pid := range declaredReplies[o.id] {
			if k >= 2 && !thorough {
				break
			}
			m := metas[pid]
			srv := servers[(i+k)%len(servers)]
			id := fmt.Sprintf("call/%s/%d", o.id, k)
			scenarios = append(scenarios, map[string]any{"id": id, "pkg": pkg, "opts": map[string]any{"short_circuit": -1, "strict_short_circuit": -1},
				"call": map[string]any{"fn": opName(o.id) + "WithResponse", "args": []any{}, "server": srv, "client_editors": 2, "call_editors": 1,
					"status": m.status, "content_type": m.ct, "body": rpBody(classOf(m.ct))}})
			callMetas[id] = callMeta{parseID: pid, path: strings.TrimSuffix(strings.TrimPrefix(srv, "http://lab"), "/") + "/" + o.id}
		}
	}
	if lab.Status["c13_p0"].OK {
		for k, b := range bodyScs {
			cl := b["client"].(map[string]any)
			fn := strings.TrimPrefix(cl["fn"].(string), "New")
			fn = strings.Replace(fn, "Request", "", 1) + "WithResponse"
			srv := servers[k%len(servers)]
			id := "call/" + b["id"].(string)
			scenarios = append(scenarios, map[string]any{"id": id, "pkg": "c13_p0", "opts": map[string]any{"short_circuit": -1, "strict_short_circuit": -1},
				"call": map[string]any{"fn": fn, "args": cl["args"], "server": srv, "client_editors": 2, "call_editors": 1, "status": 204}})
			callMetas[id] = callMeta{body: b["id"].(string), path: strings.TrimSuffix(strings.TrimPrefix(srv, "http://lab"), "/") + "/" + strings.ToLower(strings.TrimSuffix(strings.TrimSuffix(strings.TrimSuffix(strings.TrimSuffix(fn, "WithResponse"), "WithFormdataBody"), "WithTextBody"), "WithApplicationVndAPIPlusJSONBody"))}
		}
	}
	results, err := lab.Run(scenarios)
	if err != nil {
		r.Violate("lab_run_failed", err.Error(), nil)
		return
	}
	pcases := NewCases("cases_C13", "From V Require Import Model.RespParse Corr.Eval.", "list (rname * list (mtype * string)) * nat * string * option string", "mismatches_parse")
	for _, sc := range scenarios {
		id := sc["id"].(string)
		res := results[id]
		if cm, ok := callMetas[id]; ok {
			r.Count(id, true)
			r.Dist["typed-method-end-to-end"]++
			if res == nil || res.Err != "" || res.Wire == nil {
				e := "no result"
				if res != nil {
					e = res.Err
				}
				r.Violate("typed_client_method_failed", fmt.Sprintf("%s: %s", id, e), sc)
				continue
			}
			var evs []string
			for _, e := range res.Trace {
				evs = append(evs, e.Kind+":"+e.Name)
			}
			if got := strings.Join(evs, " "); got != "editor:client0 editor:client1 editor:call0 doer:"+res.Wire.Method || strings.Join(res.Wire.Header["X-Editor"], ",") != "client0,client1,call0" {
				r.Violate("typed_client_method_request_editors", fmt.Sprintf("%s: editors and exchange ran as [%s]; the request sent carries X-Editor %v", id, got, res.Wire.Header["X-Editor"]), sc)
			}
			if res.Wire.Path != cm.path {
				r.Violate("typed_client_method_request_path", fmt.Sprintf("%s: request went to %q, want %q", id, res.Wire.Path, cm.path), sc)
			}
			if cm.body != "" {
				if b := results[cm.body]; b != nil && b.Wire != nil {
					if b.Wire.Body != res.Wire.Body || strings.Join(b.Wire.Header["Content-Type"], ",") != strings.Join(res.Wire.Header["Content-Type"], ",") || b.Wire.Method != res.Wire.Method {
						r.Violate("typed_client_method_request_body", fmt.Sprintf("%s: method sent %s Content-Type %v body %q, its builder makes %s %v %q", id, res.Wire.Method, res.Wire.Header["Content-Type"], res.Wire.Body, b.Wire.Method, b.Wire.Header["Content-Type"], b.Wire.Body), sc)
					}
				}
				var st int
				_ = json.Unmarshal(res.Parsed["HTTPResponse.StatusCode"], &st)
				if st != 204 {
					r.Violate("typed_client_method_reply", fmt.Sprintf("%s: status exposed %d, the reply had 204", id, st), sc)
				}
				continue
			}
			if pr := results[cm.parseID]; pr != nil && pr.Err == "" {
				a, _ := json.Marshal(pr.Parsed)
				b, _ := json.Marshal(res.Parsed)
				if string(a) != string(b) {
					r.Violate("typed_client_method_reply", fmt.Sprintf("%s: the method returned %s, Parse<Op>Response makes %s of the same reply", id, trunc(string(b), 400), trunc(string(a), 400)), sc)
				}
			}
			continue
		}
		if strings.HasPrefix(id, "body/") {
			want := map[string][2]string{
				"body/json":    {"application/json", `{"n":7,"name":"é\"x"}`},
				"body/vendor":  {"application/vnd.api+json", `{"n":-1,"name":"v"}`},
				"body/form":    {"application/x-www-form-urlencoded", "n=3&name=a+b%26c"},
				"body/formenc": {"application/x-www-form-urlencoded", "n=3&name=a+b%26c"},
				"body/text":    {"text/plain", "plain ü text"},
			}[id]
			r.Count(id, true)
			if res == nil || res.Wire == nil {
				e := ""
				if res != nil {
					e = res.Err
				}
				r.Violate("request_body_builder/"+id, "typed request builder failed: "+e, sc)
				continue
			}
			gotCT := strings.Join(res.Wire.Header["Content-Type"], ",")
			okBody := res.Wire.Body == want[1]
			if strings.HasSuffix(want[0], "json") {
				okBody = jsonEqual(json.RawMessage(res.Wire.Body), json.RawMessage(want[1]))
			}
			if gotCT != want[0] || !okBody {
				r.Violate("request_body_builder/"+id, fmt.Sprintf("typed request builder sent Content-Type %q body %q, want %q %q", gotCT, res.Wire.Body, want[0], want[1]), sc)
			}
			continue
		}
		m := metas[id]
		replay := map[string]any{"responses": m.op.resps, "status": m.status, "content_type": m.ct, "scenario": sc}
		if res == nil {
			continue
		}
		// which typed fields are set
		var filled []string
		for k := range res.Parsed {
			if k != "Body" && k != "HTTPResponse.StatusCode" {
				filled = append(filled, k)
			}
		}
		sort.Strings(filled)
		// the statement: the most specific declared response matching the status that declares a
		// media type of the reply's class decides
		var wantField string
		bestSpec := 9
		for _, rr := range m.op.resps {
			if !rpStatusMatches(rr.name, m.status) {
				continue
			}
			for _, md := range rr.media {
				match := false
				switch md.class {
				case "json":
					match = md.ct == m.ct || (strings.Contains(m.ct, "json") && rpJSONCount(rr) == 1)
					if rpJSONCount(rr) > 1 {
						match = md.ct == m.ct
					}
				case "yaml", "xml":
					match = strings.Contains(m.ct, md.class)
				}
				if match && rpSpecificity(rr.name) < bestSpec {
					bestSpec = rpSpecificity(rr.name)
					wantField = rpFieldName(rr.name, md)
				}
			}
		}
		if m.head {
			r.Count(id, true)
			r.Dist["reply=to-HEAD"]++
			var st int
			_ = json.Unmarshal(res.Parsed["HTTPResponse.StatusCode"], &st)
			var raw string
			_ = json.Unmarshal(res.Parsed["Body"], &raw)
			if res.Err != "" || st != m.status || raw != "" {
				sig := "head_reply_not_exposed"
				if wantField != "" && res.Err != "" {
					// a typed clause matches the reply's status and Content-Type and decodes the (empty) body of the HEAD reply
					sig = "head_reply_with_declared_content_type_decoded_as_body"
				}
				r.Violate(sig, fmt.Sprintf("%s: reply to HEAD, status %d, Content-Type %q, Content-Length of the GET body, empty body: error %q, status exposed %d, raw body %q", id, m.status, m.ct, res.Err, st, raw), replay)
			}
			continue
		}
		nontrivial := wantField != "" && len(m.op.resps) > 1
		r.Count(id+fmt.Sprint(m.op.resps), nontrivial)
		r.Dist[fmt.Sprintf("status=%d", m.status)]++
		if len(r.Samples) < 3 && nontrivial {
			r.Sample(map[string]any{"responses": m.op.resps, "reply_status": m.status, "reply_content_type": m.ct, "filled": filled})
		}
		if res.Err != "" {
			r.Violate("parse_error", fmt.Sprintf("%s: %s", id, res.Err), replay)
			continue
		}
		var sc2 int
		_ = json.Unmarshal(res.Parsed["HTTPResponse.StatusCode"], &sc2)
		var rawBody string
		_ = json.Unmarshal(res.Parsed["Body"], &rawBody)
		if sc2 != m.status || rawBody != rpBody(classOf(m.ct)) {
			r.Violate("raw_body_or_status_not_exposed", fmt.Sprintf("%s: status %d body %q", id, sc2, rawBody), replay)
		}
		obs := "None"
		if len(filled) == 1 {
			obs = "(Some " + gendoc.CoqStr(filled[0]) + ")"
		}
		if len(filled) <= 1 {
			pcases.Add(fmt.Sprintf("(%s, %d, %s, %s)", coqRpOp(m.op), m.status, gendoc.CoqStr(m.ct), obs), replay)
		}
		got := strings.Join(filled, ",")
		if got != wantField {
			sig := "parse_slot"
			if len(filled) > 1 {
				sig = "several_fields_filled"
			} else if wantField != "" && got != "" {
				sig = "switch_orders_by_kind_before_specificity"
			} else if wantField != "" && got == "" {
				sig = "declared_pair_not_parsed"
			} else {
				sig = "undeclared_reply_filled_a_field"
			}
			r.Violate(sig, fmt.Sprintf("responses %v, reply %d %q: filled [%s], statement expects [%s]", m.op.resps, m.status, m.ct, got, wantField), replay)
		}
	}
	// a typed field that belongs to no declared parsable pair of the statement's table must still be "the field generated
	// for a pair": some declared reply has to fill it (a field no valid answer ever fills has no parse clause)
	for i, o := range ops {
		pkg := fmt.Sprintf("c13_p%d", i/per)
		if !lab.Status[pkg].OK {
			continue
		}
		p, err := parseGo(lab.Status[pkg].Code)
		if err != nil {
			continue
		}
		fields, ok := structFields(p, opName(o.id)+"Response")
		if !ok {
			continue
		}
		predicted := map[string]bool{"Body": true, "HTTPResponse": true}
		for _, rr := range o.resps {
			for _, md := range rr.media {
				if f := rpFieldName(rr.name, md); f != "" {
					predicted[f] = true
				}
			}
		}
		for _, f := range fields {
			if predicted[f.GoName] || f.GoName == "" {
				continue
			}
			filledOnce := false
			for _, id := range declaredReplies[o.id] {
				if res := results[id]; res != nil {
					if _, ok := res.Parsed[f.GoName]; ok {
						filledOnce = true
					}
				}
			}
			r.Count("extra-field/"+o.id+"/"+f.GoName, true)
			if !filledOnce {
				r.Violate("typed_field_without_parse_clause", fmt.Sprintf("responses %v: the response type has the typed field %s, and no valid answer to any declared (status, media type) pair fills it", o.resps, f.GoName), map[string]any{"responses": o.resps, "field": f.GoName})
			}
		}
	}
	pcases.WriteTo(r)
	r.Rule = "operations with 1-4 declared responses over {200, 201, 404, 500, 2XX, 4XX, 5XX, default} x 0-3 media types each from {application/json, vendor +json (3), hal+json, yaml (2), xml (2), unparsable (2), structured-syntax +xml (2)} (two fixed witnesses and common shapes first; a decoy document with the same operation ids and one plain response each is generated before them in the same process; every sixth operation declares free-form schemas), generated client compiled; Parse<Op>Response called on synthesized replies: statuses {200,201,204,299,404,418,500,503} x every declared media type + application/json (+charset) + text/html, and every declared pair answered once with a status only that response matches best (every typed field of the response type must be filled by some declared reply); replies framed with Content-Length or chunked, every other response inspected only after the same function has parsed a later reply, and replies to HEAD requests (announced length, empty body); observed = which typed fields are non-nil, raw body and status; typed request builders (JSON, vendor JSON, form, form with an encoding object, text) checked for Content-Type and encoding; the typed methods <Op>WithResponse of a client assembled from its options (doer with a canned declared reply, two client editors, one call editor; server URL with and without final slash and path prefix) must send the builder's request to the right path, edited by every editor once in order, and return what Parse<Op>Response makes of the reply; non-trivial = a declared pair is expected with several responses declared"
}

// rpRepresentative: a status that the named response matches and no more specific declared response does (0 if none).
func rpRepresentative(o rpOp, name string) int {
	var cands []int
	switch {
	case name == "default":
		cands = []int{302, 418, 100, 503, 200, 404}
	case strings.HasSuffix(name, "XX"):
		b := int(name[0]-'0') * 100
		cands = []int{b + 99, b + 18, b + 3, b}
	default:
		n := 0
		fmt.Sscan(name, &n)
		cands = []int{n}
	}
	for _, st := range cands {
		ok := true
		for _, rr := range o.resps {
			if rr.name != name && rpStatusMatches(rr.name, st) && rpSpecificity(rr.name) < rpSpecificity(name) {
				ok = false
			}
		}
		if ok {
			return st
		}
	}
	return 0
}

func rpJSONCount(r rpResponse) int {
	n := 0
	for _, m := range r.media {
		if m.class == "json" {
			n++
		}
	}
	return n
}

func classOf(ct string) string {
	switch {
	case strings.Contains(ct, "json"):
		return "json"
	case strings.Contains(ct, "yaml"):
		return "yaml"
	case strings.Contains(ct, "xml"):
		return "xml"
	}
	return "other"
}
