package main

import (
	"fmt"
	"math/rand"
	"strings"

	"github.com/oapi-codegen/oapi-codegen/v2/pkg/codegen"

	"verif/harness/gendoc"
)

// Function-level tie of coq/Model/Combine.v: CombineOperationParameters on random path-level / operation-level lists.
func runC06Combine(r *Report, rng *rand.Rand, thorough bool) {
	cases := NewCases("cases_C06_combine", "From V Require Import Model.Combine Corr.Eval.",
		"list (string * string * nat) * list (string * string * nat) * option (list (string * string * nat))", "mismatches_combine")
	n := 400
	if thorough {
		n = 4000
	}
	locs := []string{"query", "header", "path", "cookie"}
	names := []string{"a", "b", "limit"}
	for i := 0; i < n; i++ {
		id := 0
		mk := func(k int) ([]codegen.ParameterDefinition, string) {
			var l []codegen.ParameterDefinition
			var ts []string
			for j := 0; j < k; j++ {
				id++
				p := codegen.ParameterDefinition{ParamName: names[rng.Intn(len(names))], In: locs[rng.Intn(2+rng.Intn(3))%len(locs)], Required: id%2 == 0}
				p.Schema.Description = fmt.Sprint(id) // the payload: identifies the declaration
				l = append(l, p)
				ts = append(ts, fmt.Sprintf("(%s, %s, %d)", gendoc.CoqStr(p.In), gendoc.CoqStr(p.ParamName), id))
			}
			return l, "[" + strings.Join(ts, "; ") + "]"
		}
		g, gt := mk(rng.Intn(4))
		l, lt := mk(rng.Intn(4))
		out, err := codegen.CombineOperationParameters(g, l)
		obs := "None"
		if err == nil {
			var ts []string
			for _, p := range out {
				ts = append(ts, fmt.Sprintf("(%s, %s, %s)", gendoc.CoqStr(p.In), gendoc.CoqStr(p.ParamName), p.Schema.Description))
			}
			obs = "(Some [" + strings.Join(ts, "; ") + "])"
		}
		cases.Add(fmt.Sprintf("(%s, %s, %s)", gt, lt, obs), map[string]any{"path_level": gt, "operation_level": lt, "observed": obs})
		r.Count("combine:"+gt+lt, len(g) > 0 && len(l) > 0)
		r.Dist["family=combine"]++
	}
	cases.WriteTo(r)
}
