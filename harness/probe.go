package main

import (
	"fmt"
	"math/rand"

	"github.com/oapi-codegen/oapi-codegen/v2/pkg/codegen"

	"verif/harness/gendoc"
)

func tameOpts() gendoc.GenOpts {
	return gendoc.GenOpts{Tame: true, MaxComps: 3, MaxPaths: 3, MaxDepth: 2, RefProb: 0.5, Tags: []string{"a", "b", "c", "x", "A", "C"},
		KindsUsed: []string{"schemas", "parameters", "securitySchemes", "requestBodies", "responses", "headers", "examples", "links", "callbacks"}}
}

func baseCfg() codegen.Configuration {
	return codegen.Configuration{PackageName: "gen",
		Generate: codegen.GenerateOptions{EchoServer: true, Client: true, Models: true, EmbeddedSpec: true}}
}

func runProbe(rng *rand.Rand) {
	errs := map[string]int{}
	for i := 0; i < 300; i++ {
		d, _ := gendoc.Generate(rng, tameOpts())
		_, err := generate(d.JSON(), baseCfg())
		if err != nil {
			s := err.Error()
			if len(s) > 160 {
				s = s[:160]
			}
			errs[s]++
			if errs[s] == 1 {
				fmt.Println(s)
				fmt.Println(string(d.JSON()))
			}
		}
	}
	fmt.Println(len(errs), errs)
}
