package main

import (
	"fmt"
	"math/rand"
	"os"
	"path/filepath"
	"sort"
	"strings"

	"github.com/oapi-codegen/oapi-codegen/v2/pkg/codegen"
	"github.com/oapi-codegen/oapi-codegen/v2/pkg/util"
	"gopkg.in/yaml.v2"

	"verif/harness/gendoc"
)

// The legacy -import-mapping flag: pkg/util.ParseCommandlineMap against coq/Model/CmdMap.v, and the flag itself
// through the built binary (-output-config) against the documented grammar.
func runC20Flags(r *Report, rng *rand.Rand, thorough bool, bin, dir, specPath string) {
	cases := NewCases("cases_C20_cmdmap", "From V Require Import Model.CmdMap Corr.Eval.", "string * option (list (string * string))", "mismatches_cmdmap")
	n := 300
	if thorough {
		n = 3000
	}
	atoms := []string{"a.yaml", "./common.yaml", "file:///x/c.yaml", "https://ex.org/s.json", "k,1", "example.com/a", "ex.org/p:v2", "v,2", "b", ""}
	seenIn := map[string]bool{}
	for i := 0; i < n; i++ {
		var parts []string
		keys := map[string]bool{}
		np := 1 + rng.Intn(3)
		for j := 0; j < np; j++ {
			k, v := atoms[rng.Intn(len(atoms))], atoms[rng.Intn(len(atoms))]
			if keys[k] {
				continue
			}
			keys[k] = true
			q := func(s string) string {
				switch {
				case strings.ContainsAny(s, ",:") && rng.Intn(6) != 0, rng.Intn(3) == 0:
					return `"` + s + `"`
				}
				return s
			}
			parts = append(parts, q(k)+":"+q(v))
		}
		in := strings.Join(parts, ",")
		if rng.Intn(10) == 0 {
			in += []string{":x", ",", `"`, "::"}[rng.Intn(4)] // malformed tail
		}
		if seenIn[in] || !gendoc.CoqSafe(in) {
			continue
		}
		seenIn[in] = true
		m, err := util.ParseCommandlineMap(in)
		obs := "None"
		if err == nil {
			ks := make([]string, 0, len(m))
			for k := range m {
				ks = append(ks, k)
			}
			sort.Strings(ks)
			var ps []string
			for _, k := range ks {
				ps = append(ps, "("+gendoc.CoqStr(k)+", "+gendoc.CoqStr(m[k])+")")
			}
			obs = "(Some [" + strings.Join(ps, "; ") + "])"
		}
		cases.Add("("+gendoc.CoqStr(in)+", "+obs+")", map[string]any{"flag_value": in, "parsed": m, "error": fmt.Sprint(err)})
		r.Count("cmdmap:"+in, strings.Contains(in, `"`))
		r.Dist["family=import-mapping-flag"]++
	}
	cases.WriteTo(r)

	// every filter flag given on the command line alone (no configuration file, and with a file that only names the
	// package): the resolved configuration must carry it, and the output must be the library's for that configuration
	for _, fc := range []struct {
		flag, val string
		set       func(*codegen.Configuration)
	}{
		{"-include-tags", "t1", func(c *codegen.Configuration) { c.OutputOptions.IncludeTags = []string{"t1"} }},
		{"-exclude-tags", "t1", func(c *codegen.Configuration) { c.OutputOptions.ExcludeTags = []string{"t1"} }},
		{"-include-operation-ids", "get_thing_by_id", func(c *codegen.Configuration) { c.OutputOptions.IncludeOperationIDs = []string{"get_thing_by_id"} }},
		{"-exclude-operation-ids", "get_thing_by_id", func(c *codegen.Configuration) { c.OutputOptions.ExcludeOperationIDs = []string{"get_thing_by_id"} }},
		{"-exclude-schemas", "Unused", func(c *codegen.Configuration) { c.OutputOptions.ExcludeSchemas = []string{"Unused"} }},
		{"-response-type-suffix", "Resp", func(c *codegen.Configuration) { c.OutputOptions.ResponseTypeSuffix = "Resp" }},
		// comma-separated values written with blanks after the commas (a quoted shell argument, a go:generate line)
		{"-include-tags", "t1, t2", func(c *codegen.Configuration) { c.OutputOptions.IncludeTags = []string{"t1", "t2"} }},
		{"-exclude-tags", " t2 ,nosuch", func(c *codegen.Configuration) { c.OutputOptions.ExcludeTags = []string{"t2", "nosuch"} }},
		{"-include-operation-ids", "get_thing_by_id, putThingHttpUrl", func(c *codegen.Configuration) {
			c.OutputOptions.IncludeOperationIDs = []string{"get_thing_by_id", "putThingHttpUrl"}
		}},
		{"-exclude-schemas", "Unused, Thing", func(c *codegen.Configuration) { c.OutputOptions.ExcludeSchemas = []string{"Unused", "Thing"} }},
	} {
		pkgOnly := filepath.Join(dir, "pkgonly.yaml")
		must(os.WriteFile(pkgOnly, []byte("package: api\n"), 0o644))
		for _, withFile := range []bool{false, true} {
			args := []string{"-package", "api", "-generate", "types,chi-server,client", fc.flag, fc.val}
			if withFile {
				args = append([]string{"-config", pkgOnly}, args...)
			}
			res := runCLI(bin, dir, append(args, specPath)...)
			var want codegen.Configuration
			want.PackageName = "api"
			want.Generate = codegen.GenerateOptions{Models: true, ChiServer: true, Client: true}
			fc.set(&want)
			r.Count(fmt.Sprintf("filter-flag:%s/%v", fc.flag, withFile), true)
			r.Dist["family=legacy-filter-flags"]++
			wantOut, err := generate(c17SpecForCLI(specPath), want)
			if err != nil {
				continue
			}
			if res.exit != 0 || maskHeader(res.stdout) != maskHeader(wantOut) {
				r.Violate("command_line_filter_flag_differs_from_library", fmt.Sprintf("%s %s (configuration file naming only the package: %v): exit %d; %s", fc.flag, fc.val, withFile, res.exit, firstLineDiff(maskHeader(wantOut), maskHeader(res.stdout))), map[string]any{"args": args})
			}
		}
	}
	// the target list written with blanks after the commas
	{
		res := runCLI(bin, dir, "-package", "api", "-generate", "types, chi-server , client", specPath)
		var want codegen.Configuration
		want.PackageName = "api"
		want.Generate = codegen.GenerateOptions{Models: true, ChiServer: true, Client: true}
		wantOut, err := generate(c17SpecForCLI(specPath), want)
		r.Count("generate-flag-with-blanks", true)
		if err == nil && (res.exit != 0 || maskHeader(res.stdout) != maskHeader(wantOut)) {
			r.Violate("generate_flag_with_blanks_differs_from_library", fmt.Sprintf("-generate \"types, chi-server , client\": exit %d, %s %s", res.exit, trunc(res.stderr, 200), firstLineDiff(maskHeader(wantOut), maskHeader(res.stdout))), nil)
		}
	}
	// a templates directory with one override at the top level and one in a framework subdirectory, given by the flag
	// (new-style run) and by the templates: key of an old-style file: same output as the library with user-templates
	{
		tdir := filepath.Join(dir, "usertemplates")
		must(os.MkdirAll(filepath.Join(tdir, "chi"), 0o755))
		read := func(rel string) string {
			b, err := os.ReadFile(filepath.Join("/repo/pkg/codegen/templates", rel))
			must(err)
			return string(b)
		}
		over := map[string]string{
			"typedef.tmpl":           "// MARKER-top-level-override\n" + read("typedef.tmpl"),
			"chi/chi-interface.tmpl": "// MARKER-framework-override\n" + read("chi/chi-interface.tmpl"),
		}
		for rel, text := range over {
			must(os.WriteFile(filepath.Join(tdir, rel), []byte(text), 0o644))
		}
		must(os.WriteFile(filepath.Join(tdir, "README.md"), []byte("not a template\n"), 0o644))
		var want codegen.Configuration
		want.PackageName = "api"
		want.Generate = codegen.GenerateOptions{Models: true, ChiServer: true}
		want.OutputOptions.UserTemplates = map[string]string{}
		for rel, text := range over {
			want.OutputOptions.UserTemplates[rel] = text
		}
		want.OutputOptions.UserTemplates["README.md"] = "not a template\n"
		wantOut, err := generate(c17SpecForCLI(specPath), want)
		oldCfg := filepath.Join(dir, "oldtemplates.yaml")
		must(os.WriteFile(oldCfg, []byte("package: api\ngenerate: [types, chi-server]\ntemplates: "+tdir+"\n"), 0o644))
		runs := map[string][]string{
			"flag":          {"-package", "api", "-generate", "types,chi-server", "-templates", tdir, specPath},
			"old-style-key": {"-old-config-style", "-config", oldCfg, specPath},
		}
		// the same overrides written INTO a new-style file (output-options.user-templates), no flag; and the configuration
		// printed by -output-config for the flag run, fed back
		inline, _ := yaml.Marshal(map[string]any{"package": "api", "generate": map[string]any{"models": true, "chi-server": true},
			"output-options": map[string]any{"user-templates": want.OutputOptions.UserTemplates}})
		newCfg := filepath.Join(dir, "inlinetemplates.yaml")
		must(os.WriteFile(newCfg, inline, 0o644))
		runs["new-style-file-key"] = []string{"-config", newCfg, specPath}
		if printed := runCLI(bin, dir, "-package", "api", "-generate", "types,chi-server", "-templates", tdir, "-output-config", specPath); printed.exit == 0 {
			backCfg := filepath.Join(dir, "printedtemplates.yaml")
			must(os.WriteFile(backCfg, []byte(printed.stdout), 0o644))
			runs["printed-configuration-fed-back"] = []string{"-config", backCfg, specPath}
		} else {
			r.Violate("templates_directory_differs_from_library", fmt.Sprintf("-output-config with -templates: exit %d", printed.exit), nil)
		}
		for how, args := range runs {
			r.Count("templates-directory/"+how, true)
			r.Dist["family=templates-directory"]++
			if err != nil {
				r.Violate("templates_directory_library_error", err.Error(), nil)
				continue
			}
			res := runCLI(bin, dir, args...)
			got := maskHeader(res.stdout)
			if res.exit != 0 || got != maskHeader(wantOut) || !strings.Contains(got, "MARKER-top-level-override") || !strings.Contains(got, "MARKER-framework-override") {
				r.Violate("templates_directory_differs_from_library", fmt.Sprintf("templates directory given by %s: exit %d, top-level override applied %v, framework (chi/) override applied %v; %s", how, res.exit,
					strings.Contains(got, "MARKER-top-level-override"), strings.Contains(got, "MARKER-framework-override"), firstLineDiff(maskHeader(wantOut), got)), map[string]any{"args": args})
			}
		}
	}
	// through the binary: what the flag resolves to, as printed by -output-config
	for _, tc := range []struct {
		flag string
		want map[string]string
	}{
		{`./common.yaml:example.com/common`, map[string]string{"./common.yaml": "example.com/common"}},
		{`"./common.yaml":"example.com/common"`, map[string]string{"./common.yaml": "example.com/common"}},
		{`"file:///x/common.yaml":example.com/common`, map[string]string{"file:///x/common.yaml": "example.com/common"}},
		{`"https://ex.org/a,b.json":"ex.org/p:v2",other.yaml:example.com/other`, map[string]string{"https://ex.org/a,b.json": "ex.org/p:v2", "other.yaml": "example.com/other"}},
	} {
		res := runCLI(bin, dir, "-package", "api", "-generate", "types", "-import-mapping", tc.flag, "-output-config", specPath)
		r.Count("flag:"+tc.flag, true)
		var got struct {
			ImportMapping map[string]string `yaml:"import-mapping"`
		}
		err := yaml.Unmarshal([]byte(res.stdout), &got)
		ok := res.exit == 0 && err == nil && len(got.ImportMapping) == len(tc.want)
		for k, v := range tc.want {
			if got.ImportMapping[k] != v {
				ok = false
			}
		}
		if !ok {
			r.Violate("legacy_import_mapping_flag_misread", fmt.Sprintf("-import-mapping %s resolved to %v (exit %d), the documented grammar gives %v", tc.flag, got.ImportMapping, res.exit, tc.want), map[string]any{"flag": tc.flag})
		}
	}
}

// c17SpecForCLI reads the document the binary is run on
func c17SpecForCLI(specPath string) []byte {
	b, err := os.ReadFile(specPath)
	must(err)
	return b
}
