package main

import (
	"encoding/json"
	"fmt"
	"math/rand"
	"net/http"
	"net/url"
	"strings"

	"verif/harness/gendoc"
)

var coqLoc = map[string]string{"path": "LPath", "query": "LQuery", "header": "LHeader", "cookie": "LCookie"}
var coqStyle = map[string]string{"simple": "Simple", "label": "Label", "matrix": "Matrix", "form": "Form", "deepObject": "DeepObject"}

func coqCellPrefix(c pcell) string {
	st := "None"
	if c.Style != "" {
		st = "(Some " + coqStyle[c.Style] + ")"
	}
	ex := "None"
	if c.Explode != nil {
		ex = fmt.Sprintf("(Some %v)", *c.Explode)
	}
	return fmt.Sprintf("%s, %s, %s, %s", coqLoc[c.Loc], st, ex, gendoc.CoqStr(c.Name))
}

func coqValue(c pcell, v *pvalue) (string, bool) {
	all := append([]string(nil), v.Atoms...)
	for _, m := range v.Obj {
		all = append(all, m[0], m[1])
	}
	for _, a := range all {
		if !gendoc.CoqSafe(a) {
			return "", false
		}
	}
	switch {
	case c.Shape == "obj":
		return "VObj " + coqPairs(v.Obj), true
	case strings.HasPrefix(c.Shape, "arr:"):
		return "VArr " + gendoc.CoqStrList(v.Atoms), true
	}
	return "VPrim " + gendoc.CoqStr(v.Atoms[0]), true
}

func coqShape(c pcell) string {
	switch {
	case c.Shape == "obj":
		return "SObj"
	case strings.HasPrefix(c.Shape, "arr:"):
		return "SArr"
	}
	return "SPrim"
}

// observedWire extracts, unescaped, the part of the request that carries the parameter.
func observedWire(c pcell, w *LabWire) (single string, pairs [][2]string, err error) {
	switch c.Loc {
	case "path":
		seg := strings.TrimPrefix(w.Path, "/"+c.Op+"/")
		single, err = url.PathUnescape(seg)
	case "query":
		pairs, err = decodeQuery(w.RawQuery)
	case "header":
		single = strings.Join(w.Header[http.CanonicalHeaderKey(c.Name)], "\x00") // header names are case-insensitive; net/http stores them canonicalised
	case "cookie":
		ck := strings.Join(w.Header["Cookie"], "; ")
		single = strings.TrimPrefix(ck, c.Name+"=")
		if len(single) >= 2 && single[0] == '"' && single[len(single)-1] == '"' {
			single = single[1 : len(single)-1] // net/http quotes values containing space or comma
		}
	}
	return
}

func coqWire(c pcell, single string, pairs [][2]string) (string, bool) {
	if c.Loc == "query" {
		for _, p := range pairs {
			if !gendoc.CoqSafe(p[0]) || !gendoc.CoqSafe(p[1]) {
				return "", false
			}
		}
		return "WPairs " + coqPairs(pairs), true
	}
	if !gendoc.CoqSafe(single) {
		return "", false
	}
	return "WSingle " + gendoc.CoqStr(single), true
}

// tableWire renders the cell's parameter by the OAS table (Go rendering, independent of the
// implementation and of the Coq model).
func tableWire(c pcell, v *pvalue) (string, [][2]string) {
	st, ex := c.effStyle(), c.effExplode()
	switch c.Loc {
	case "query":
		return "", sortPairsByKey(oasQuery(st, ex, c.Name, *v, c.Shape))
	case "cookie":
		return oasSingle("simple", ex, c.Name, *v, c.Shape), nil
	}
	return oasSingle(st, ex, c.Name, *v, c.Shape), nil
}

func runC05(r *Report, rng *rand.Rand, thorough bool) {
	lab, cells, err := buildParamsLab()
	if err != nil {
		r.Violate("lab_build_failed", err.Error(), nil)
		return
	}
	k := 2
	if thorough {
		k = 30
	}
	wcases := NewCases("cases_C05_wire", "From V Require Import Model.OasTable Corr.Eval.", "location * option style * option bool * string * value * wire", "mismatches_wire")
	obs := runParamRoundTrips(r, rng, lab, cells, k, false)
	// ---- client side: the wire form is the table's
	for _, o := range obs {
		if o.res == nil || o.cell.Kind != "styled" || o.val == nil {
			continue
		}
		replay := map[string]any{"framework": o.fw, "cell": o.cell, "scenario": o.sc}
		r.Count("client:"+fmt.Sprint(o.sc["client"]), o.cell.Shape == "obj" || strings.HasPrefix(o.cell.Shape, "arr:") || o.cell.Style == "")
		r.Dist["client_side/"+o.cell.Loc]++
		if o.res.Wire == nil {
			if o.res.Err != "" {
				if o.fw == "stdhttp" && strings.Contains(o.res.Err, "bad wildcard name") {
					r.Violate("stdhttp_path_parameter_name_not_a_go_identifier", "std-http "+o.cell.key()+": "+o.res.Err, replay)
					continue
				}
				r.Violate("client_error:"+o.cell.key(), o.res.Err, replay)
			}
			continue
		}
		single, pairs, err := observedWire(o.cell, o.res.Wire)
		if err != nil {
			r.Violate("wire_unescape", err.Error(), replay)
			continue
		}
		wantS, wantP := tableWire(o.cell, o.val)
		ok := single == wantS
		if o.cell.Loc == "query" {
			ok = eqPairs(pairs, wantP)
		}
		if !ok {
			sig := "client_wire_differs_from_oas_table/" + o.cell.Loc + "/" + o.cell.effStyle() + "/" + o.cell.Shape
			atoms := strings.Join(o.val.Atoms, "")
			for _, m := range o.val.Obj {
				atoms += m[1]
			}
			if o.cell.Loc == "cookie" && o.cell.Kind == "styled" && (strings.ContainsAny(atoms, " ,;\"\\") || !isASCII(atoms)) {
				sig = "cookie_value_bytes_stripped_by_client"
			}
			if o.cell.effStyle() == "deepObject" && strings.Contains(atoms, "+") {
				sig = "runtime_deepobject_plus_not_escaped"
			}
			r.Violate(sig, fmt.Sprintf("%s: value %s serialised as %q %v, OAS table gives %q %v", o.cell.key(), string(o.val.JSON), single, pairs, wantS, wantP), replay)
			continue
		}
		if o.fw == "echo" || o.fw == "chi" { // the client is the same code for every flavour; two are enough for the model
			if cv, ok1 := coqValue(o.cell, o.val); ok1 {
				if cw, ok2 := coqWire(o.cell, single, pairs); ok2 {
					wcases.Add(fmt.Sprintf("(%s, %s, %s)", coqCellPrefix(o.cell), cv, cw), replay)
				}
			}
		}
		if len(r.Samples) < 3 && o.cell.Shape == "obj" {
			r.Sample(map[string]any{"cell": o.cell.key(), "value": o.val.JSON, "wire_single": single, "wire_pairs": pairs})
		}
	}
	wcases.WriteTo(r)
	// ---- server side: requests serialised by the table (not by the generated client)
	var scenarios []map[string]any
	type meta struct {
		fw   string
		cell pcell
		val  pvalue
	}
	metas := map[string]meta{}
	brokenPkg := map[string]bool{}
	for _, loc := range paramLocs {
		for _, fw := range Frameworks {
			for _, c := range cells[loc] {
				if st := lab.Status[cellPkg(fw, c)]; c.Kind == "styled" && !st.OK {
					if name := cellPkg(fw, c); !brokenPkg[name] {
						brokenPkg[name] = true
						r.Violate("lab_package_broken:"+name, fmt.Sprintf("package %s does not build: generate error %q, compile error %q", name, st.GenerateError, trunc(st.CompileError, 400)), map[string]any{"framework": fw, "location": loc})
					}
				}
				if c.Kind != "styled" || !lab.Status[cellPkg(fw, c)].OK {
					continue
				}
				for i := 0; i < valuesPerCell(c, k); i++ {
					v := genValueAt(rng, c, i)
					s, pairs := tableWire(c, &v)
					req := map[string]any{"method": "GET", "target": "/" + c.Op}
					switch c.Loc {
					case "path":
						req["target"] = "/" + c.Op + "/" + url.PathEscape(s)
					case "query":
						var parts []string
						for _, p := range pairs {
							parts = append(parts, url.QueryEscape(p[0])+"="+url.QueryEscape(p[1]))
						}
						req["target"] = "/" + c.Op + "?" + strings.Join(parts, "&")
					case "header":
						req["header"] = map[string][]string{c.Name: {s}}
					case "cookie":
						if strings.ContainsAny(s, " ,;\"\\") || !isASCII(s) {
							continue // not a cookie-value per RFC 6265; outside what a conforming peer can send
						}
						req["header"] = map[string][]string{"Cookie": {c.Name + "=" + s}}
					}
					id := fmt.Sprintf("t/%s/%s/%d", cellPkg(fw, c), c.Op, i)
					scenarios = append(scenarios, map[string]any{"id": id, "pkg": cellPkg(fw, c), "opts": map[string]any{"short_circuit": -1, "strict_short_circuit": -1}, "req": req})
					metas[id] = meta{fw, c, v}
				}
			}
		}
	}
	results, err := lab.Run(scenarios)
	if err != nil {
		r.Violate("lab_run_failed", err.Error(), nil)
		return
	}
	for _, sc := range scenarios {
		id := sc["id"].(string)
		m := metas[id]
		res := results[id]
		replay := map[string]any{"framework": m.fw, "cell": m.cell, "scenario": sc, "value": m.val.JSON}
		if res == nil {
			continue
		}
		if m.fw == "stdhttp" && strings.Contains(res.Err, "bad wildcard name") {
			r.Violate("stdhttp_path_parameter_name_not_a_go_identifier", "std-http "+m.cell.key()+": "+res.Err, replay)
			continue
		}
		r.Count("server:"+fmt.Sprint(sc["req"])+m.fw, true)
		r.Dist["server_side/"+m.cell.Loc]++
		var handlers []LabEvent
		for _, e := range res.Trace {
			if e.Kind == "handler" {
				handlers = append(handlers, e)
			}
		}
		var got json.RawMessage
		if len(handlers) == 1 {
			got = handlerArg(m.cell, handlers[0])
		}
		if len(handlers) != 1 || got == nil || !jsonEqual(got, m.val.JSON) {
			vv := m.val
			sig := classifyRoundTrip(pobs{fw: m.fw, cell: m.cell, val: &vv}, got, len(handlers))
			if strings.HasPrefix(sig, "roundtrip/") {
				sig = "server_rejects_or_misreads_oas_table_form/" + strings.TrimPrefix(sig, "roundtrip/")
			}
			r.Violate(sig, fmt.Sprintf("%s %s: table-serialised request %v for value %s: handler calls %d, received %s (status %d)", m.fw, m.cell.key(), sc["req"], string(m.val.JSON), len(handlers), string(got), res.Status), replay)
		}
	}
	r.Exhaustive = true
	// ---- a path that BEGINS with a parameter: the prescribed wire form of a value with a colon (simple style leaves ":" as it
	// is) is /org:acme/items/x under the server's base path; the client must emit that request, not an absolute URL
	{
		var scenarios []map[string]any
		type lm struct{ fw, lead, base string }
		ms := map[string]lm{}
		for _, fw := range Frameworks {
			name := "par_" + fw + "_lead"
			if st := lab.Status[name]; st == nil || !st.OK {
				continue
			}
			for k, lead := range []string{"org:acme", "12:30", "urn:isbn:1", "plain"} {
				for _, base := range []string{"", "/api/v1"} {
					lb, _ := json.Marshal(lead)
					ib, _ := json.Marshal("x")
					id := fmt.Sprintf("%s/leadwire/%d%s", name, k, base)
					scenarios = append(scenarios, map[string]any{"id": id, "pkg": name, "opts": map[string]any{"short_circuit": -1, "strict_short_circuit": -1, "base_url": base},
						"client": map[string]any{"fn": "NewLeadparamRequest", "args": []json.RawMessage{lb, ib}, "via_method": len(scenarios)%2 == 1}})
					ms[id] = lm{fw, lead, base}
				}
			}
			break // the client template is the same for every server flavour
		}
		results, err := lab.Run(scenarios)
		if err != nil {
			r.Violate("lab_run_failed", err.Error(), nil)
		}
		for _, sc := range scenarios {
			id := sc["id"].(string)
			res := results[id]
			m := ms[id]
			r.Count("leadwire/"+id, strings.Contains(m.lead, ":"))
			r.Dist["path-begins-with-parameter"]++
			want := m.base + "/" + m.lead + "/items/x"
			if res == nil || res.Err != "" || res.Wire == nil || res.Wire.Path != want {
				e, got := "no result", ""
				if res != nil {
					e = res.Err
					got = wirePath(res)
				}
				r.Violate("client_wire/path/leading-parameter", fmt.Sprintf("/{lead}/items/{id} with lead = %q under base %q: error %q, request path %q, the table prescribes %q", m.lead, m.base, e, got, want), map[string]any{"scenario": sc, "lead": m.lead})
			}
		}
	}
	r.Rule = "a path that begins with a parameter (values with colons, with and without a base path in the server URL); every supported row of the OAS 3.0.3 style table (location x style incl. defaulted x explode default/true/false x primitive/array/object) x k values: (client) the request built by the generated client carries exactly the table's serialisation (compared unescaped, with an independent Go rendering of the table and with the Coq model); (server) requests serialised by the table as a conforming third-party client would are decoded by each of the 7 generated servers into the value; non-trivial = array, object or defaulted style"
}
