package main

import (
	"bytes"
	"context"
	"encoding/json"
	"fmt"
	"go/ast"
	"go/format"
	"go/parser"
	"go/token"
	"go/types"
	"math/rand"
	"os"
	"path/filepath"
	"regexp"
	"sort"
	"strings"

	"github.com/getkin/kin-openapi/openapi3"
	"github.com/oapi-codegen/oapi-codegen/v2/pkg/codegen"
	"golang.org/x/tools/imports"
)

// ---------------------------------------------------------------------------
// The gate of C01: generate, parse, gofmt-stability, type-check.

type c01Checker struct {
	fset    *token.FileSet
	imp     types.Importer
	exports map[string]string
	extra   map[string]*types.Package // packages type-checked from source (multi-document sets)
	raw     bool                      // gate the text of a skip-fmt run as it is
}

func (c *c01Checker) gateRawSkipFmt(doc map[string]any, cfg codegen.Configuration) gateResult {
	c.raw = true
	defer func() { c.raw = false }()
	return c.gateJSON(doc, cfg)
}

func (c *c01Checker) Import(path string) (*types.Package, error) {
	if p, ok := c.extra[path]; ok {
		return p, nil
	}
	return c.imp.Import(path)
}

var c01ImportPatterns = []string{
	"github.com/labstack/echo/v4", "github.com/go-chi/chi/v5", "github.com/gin-gonic/gin", "github.com/gorilla/mux",
	"github.com/gofiber/fiber/v2", "github.com/kataras/iris/v12", "github.com/kataras/iris/v12/core/router",
	"github.com/oapi-codegen/runtime", "github.com/oapi-codegen/runtime/types", "github.com/oapi-codegen/nullable",
	"github.com/oapi-codegen/runtime/strictmiddleware/echo", "github.com/oapi-codegen/runtime/strictmiddleware/gin",
	"github.com/oapi-codegen/runtime/strictmiddleware/nethttp",
	"github.com/oapi-codegen/runtime/strictmiddleware/iris",
	"github.com/getkin/kin-openapi/openapi3", "github.com/google/uuid",
	"bytes", "compress/gzip", "context", "encoding/base64", "encoding/json", "encoding/xml", "errors", "fmt", "io", "mime", "mime/multipart",
	"net/http", "net/url", "path", "strings", "time", "gopkg.in/yaml.v2",
}

func newC01Checker() (*c01Checker, error) {
	exports, err := exportMap("/verif/harness", "verif", c01ImportPatterns...)
	if err != nil {
		return nil, err
	}
	fset := token.NewFileSet()
	return &c01Checker{fset: fset, imp: newExportImporter(fset, exports), exports: exports, extra: map[string]*types.Package{}}, nil
}

type gateResult struct {
	Stage      string // ok | generate_error | panic | parse | gofmt | typecheck
	Msg        string
	Code       string
	Pkg        *types.Package
	Foreign    int
	Snippet    string
	Diags      []diag
	SkipFmtRaw bool
}

type diag struct {
	Msg  string `json:"msg"`
	Line string `json:"line"`
	Encl string `json:"enclosing_declaration"` // name of the top-level type or function the diagnostic lies in
}

// enclosingDecl names the top-level declaration that contains pos.
func enclosingDecl(f *ast.File, pos token.Pos) string {
	for _, d := range f.Decls {
		if pos < d.Pos() || pos > d.End() {
			continue
		}
		switch x := d.(type) {
		case *ast.FuncDecl:
			return x.Name.Name
		case *ast.GenDecl:
			for _, sp := range x.Specs {
				if pos >= sp.Pos() && pos <= sp.End() {
					switch y := sp.(type) {
					case *ast.TypeSpec:
						return y.Name.Name
					case *ast.ValueSpec:
						if len(y.Names) > 0 {
							return y.Names[0].Name
						}
					}
				}
			}
		}
	}
	return ""
}

var posRE = regexp.MustCompile(`^[^ ]*:\d+:\d+: `)

func (c *c01Checker) gate(spec *openapi3.T, cfg codegen.Configuration, pkgPath string) (res gateResult) {
	func() {
		defer func() {
			if p := recover(); p != nil {
				res = gateResult{Stage: "panic", Msg: fmt.Sprint(p)}
			}
		}()
		code, err := codegen.Generate(spec, cfg)
		if err != nil {
			res = gateResult{Stage: "generate_error", Msg: err.Error()}
			return
		}
		res = gateResult{Stage: "ok", Code: code}
	}()
	if res.Stage != "ok" {
		return
	}
	f, err := parser.ParseFile(c.fset, pkgPath+"/gen.go", res.Code, parser.ParseComments)
	if err != nil {
		res.Stage, res.Msg = "parse", err.Error()
		return
	}
	if !cfg.OutputOptions.SkipFmt {
		again, err := format.Source([]byte(res.Code))
		if err != nil || !bytes.Equal(again, []byte(res.Code)) {
			res.Stage, res.Msg = "gofmt", "output is not a fixed point of gofmt"
			return
		}
	}
	src := res.Code
	if cfg.OutputOptions.SkipFmt && !c.raw {
		// skip-fmt hands the text to the user's own formatter: the raw text keeps every import of the
		// template (recorded once as a finding by the caller); the gate continues on the formatted text
		out, err := imports.Process("gen.go", []byte(res.Code), nil)
		if err != nil {
			res.Stage, res.Msg = "gofmt", "skip-fmt output rejected by goimports: "+err.Error()
			return
		}
		src = string(out)
		res.SkipFmtRaw = true
		f, err = parser.ParseFile(c.fset, pkgPath+"/gen.go", src, parser.ParseComments)
		if err != nil {
			res.Stage, res.Msg = "parse", err.Error()
			return
		}
	}
	lines := strings.Split(src, "\n")
	conf := types.Config{Importer: c, Error: func(err error) {
		if strings.Contains(err.Error(), "could not import") && !strings.Contains(err.Error(), "c01ext/") {
			// a package named by x-go-type-import that this sandbox does not have: not decidable here
			res.Foreign++
			return
		}
		msg := posRE.ReplaceAllString(err.Error(), "")
		if strings.HasPrefix(msg, "\tother declaration of") {
			return
		}
		d := diag{Msg: msg}
		if te, ok := err.(types.Error); ok {
			line := c.fset.Position(te.Pos).Line
			if line >= 1 && line <= len(lines) {
				d.Line = strings.TrimSpace(lines[line-1])
			}
			d.Encl = enclosingDecl(f, te.Pos)
			if len(res.Diags) == 0 {
				lo, hi := line-4, line+2
				if lo < 0 {
					lo = 0
				}
				if hi > len(lines) {
					hi = len(lines)
				}
				res.Snippet = fmt.Sprintf("line %d:\n%s", line, strings.Join(lines[lo:hi], "\n"))
			}
		}
		if len(res.Diags) < 40 {
			res.Diags = append(res.Diags, d)
		}
	}}
	pkg, _ := conf.Check(pkgPath, c.fset, []*ast.File{f}, nil)
	if len(res.Diags) > 0 {
		var ms []string
		for i, d := range res.Diags {
			if i < 5 {
				ms = append(ms, d.Msg)
			}
		}
		res.Stage, res.Msg = "typecheck", strings.Join(ms, " | ")
		return
	}
	res.Pkg = pkg
	return
}

// ---------------------------------------------------------------------------
// Targets (what to generate)

type c01Target struct {
	Name string
	Gen  codegen.GenerateOptions
}

func c01Targets() []c01Target {
	var ts []c01Target
	for _, fw := range []string{"echo", "chi", "gin", "gorilla", "stdhttp", "fiber", "iris"} {
		ts = append(ts, c01Target{fw, fwGenerate(fw, codegen.GenerateOptions{Models: true})})
		ts = append(ts, c01Target{fw + "+strict", fwGenerate(fw, codegen.GenerateOptions{Models: true, Strict: true})})
	}
	ts = append(ts, c01Target{"client", codegen.GenerateOptions{Models: true, Client: true}})
	ts = append(ts, c01Target{"models", codegen.GenerateOptions{Models: true}})
	ts = append(ts, c01Target{"echo+client+spec", codegen.GenerateOptions{Models: true, Client: true, EchoServer: true, EmbeddedSpec: true}})
	return ts
}

// ---------------------------------------------------------------------------
// Family 1: the repository's own specifications, re-targeted

var identRE = regexp.MustCompile(`[A-Za-z_][A-Za-z0-9_]*`)

func repoSpecs() []string {
	var out []string
	for _, root := range []string{"/repo/internal/test", "/repo/examples", "/repo/pkg/codegen"} {
		_ = filepath.Walk(root, func(p string, info os.FileInfo, err error) error {
			if err != nil || info.IsDir() {
				return nil
			}
			if !(strings.HasSuffix(p, ".yaml") || strings.HasSuffix(p, ".yml") || strings.HasSuffix(p, ".json")) {
				return nil
			}
			b, err := os.ReadFile(p)
			if err != nil || !(bytes.Contains(b, []byte("openapi:")) || bytes.Contains(b, []byte(`"openapi"`))) {
				return nil
			}
			out = append(out, p)
			return nil
		})
	}
	sort.Strings(out)
	return out
}

func loadSpecFile(path string) (spec *openapi3.T, err error) {
	defer func() {
		if p := recover(); p != nil {
			err = fmt.Errorf("PANIC in loader: %v", p)
		}
	}()
	l := openapi3.NewLoader()
	l.IsExternalRefsAllowed = true
	return l.LoadFromFile(path)
}

func runC01(r *Report, rng *rand.Rand, thorough bool) {
	ck, err := newC01Checker()
	if err != nil {
		r.Violate("export_data_unavailable", err.Error(), nil)
		return
	}
	targets := c01Targets()
	specs := repoSpecs()
	r.Dist["family=repo_specs"] = 0
	for _, sp := range specs {
		rel := strings.TrimPrefix(sp, "/repo/")
		if rel == "pkg/codegen/test_specs/x-go-type-import-pet.yaml" {
			continue // names Go types that do not exist (a rendering fixture, not a compilable input)
		}
		ts := targets
		if !thorough {
			// every spec under 5 targets chosen by the seed (all 17 in the thorough tier)
			perm := rng.Perm(len(targets))
			ts = nil
			for _, i := range perm[:5] {
				ts = append(ts, targets[i])
			}
		}
		for _, tg := range ts {
			spec, err := loadSpecFile(sp)
			if err != nil {
				r.Dist["repo_spec_unloadable"]++
				break
			}
			cfg := codegen.Configuration{PackageName: "gen", Generate: tg.Gen}
			mapping, depMsg := ck.multiDoc(sp, tg, map[string]bool{sp: true})
			cfg.ImportMapping = mapping
			var res gateResult
			if depMsg != "" && strings.Contains(depMsg, "kin-openapi bug found") {
				r.Dist["repo_spec_unloadable"]++ // the loader rejects cyclic references on some runs
				continue
			}
			if depMsg != "" {
				res = gateResult{Stage: "dependency", Msg: depMsg}
			} else {
				res = ck.gate(spec, cfg, "c01/repo")
			}
			r.Count(rel+"@"+tg.Name, true)
			r.Dist["family=repo_specs"]++
			r.Dist["stage="+res.Stage]++
			if res.Stage == "ok" || res.Stage == "generate_error" && expectedGenerateError(res.Msg) {
				continue
			}
			for _, sig := range gateSignatures(res, tg.Name) {
				r.Violate(sig, fmt.Sprintf("%s @ %s: %s: %s", rel, tg.Name, res.Stage, trunc(res.Msg, 500)), map[string]any{"spec_file": sp, "target": tg.Name, "generate": tg.Gen, "at": res.Snippet, "diags": res.Diags})
			}
		}
	}
	runC01Names(r, rng, thorough)
	runC01Probes(r, ck)
	runC01Split(r, ck)
	runC01OpIDs(r, ck)
	runC01Generated(r, rng, ck, thorough)
	r.Rule = "gate = codegen.Generate (panics recovered) -> go/parser -> gofmt fixed point -> go/types against the export data of the pinned runtime and framework libraries; families: (1) every OpenAPI document of the repository (internal/test, examples, pkg/codegen) under 7 frameworks x {plain, strict} + client + models + echo/client/embedded-spec (all 17 in the thorough tier, 5 chosen by the seed in the quick tier), documents with external references together with the packages generated for the documents they refer to; (2) probe documents, one per recorded defect; (2b) split specifications: a document referring into a second one from every schema position (property, array items, additionalProperties, allOf member whose schema has a document-local property reference / array-items reference, allOf member that is itself composed, oneOf member, alias) plus parameter / body / response references, both packages type-checked together under models, chi and client; (2c) twenty operation ids of adversarial spellings (separators before a digit, symbols, keywords, predeclared names, non-ASCII) under chi+strict, client and echo; (3) random documents of supported constructs (schemas incl. nesting, refs, allOf, oneOf/anyOf, enums, additionalProperties, nullable, extensions; parameters in every location / style / shape; bodies and responses of every handled media type; headers; security; reusable components) with tame and adversarial names that normalise to distinct identifiers, each under a random configuration (target, client, embedded spec, 8 compatibility flags, 4 normalisers, prune, skip-fmt, nullable-type, suffix, client type name, alias switch), failures shrunk; (4) SchemaNameToTypeName / ToCamelCase / ToCamelCaseWithDigits / SanitizeGoIdentity on random names and GenerateTypes on random type lists against the model in Coq. Every diagnostic of a failing gate must be explained by a recorded root cause."
}

func c01RandomConfig(rng *rand.Rand, targets []c01Target) (codegen.Configuration, string) {
	tg := targets[rng.Intn(len(targets))]
	cfg := codegen.Configuration{PackageName: "gen", Generate: tg.Gen}
	desc := []string{tg.Name}
	flag := func(p *bool, name string, oneIn int) {
		if rng.Intn(oneIn) == 0 {
			*p = true
			desc = append(desc, name)
		}
	}
	flag(&cfg.Generate.EmbeddedSpec, "spec", 4)
	flag(&cfg.Generate.Client, "client", 5)
	flag(&cfg.Compatibility.OldMergeSchemas, "old-merge", 8)
	flag(&cfg.Compatibility.OldEnumConflicts, "old-enum", 8)
	flag(&cfg.Compatibility.OldAliasing, "old-alias", 8)
	flag(&cfg.Compatibility.DisableFlattenAdditionalProperties, "no-flatten", 8)
	flag(&cfg.Compatibility.DisableRequiredReadOnlyAsPointer, "no-ro-ptr", 8)
	flag(&cfg.Compatibility.AlwaysPrefixEnumValues, "prefix-enum", 8)
	flag(&cfg.Compatibility.ApplyChiMiddlewareFirstToLast, "chi-first", 10)
	flag(&cfg.Compatibility.ApplyGorillaMiddlewareFirstToLast, "gorilla-first", 10)
	flag(&cfg.OutputOptions.SkipFmt, "skip-fmt", 10)
	flag(&cfg.OutputOptions.SkipPrune, "skip-prune", 3)
	flag(&cfg.OutputOptions.NullableType, "nullable-type", 5)
	flag(&cfg.OutputOptions.InitialismOverrides, "initialism-overrides", 8)
	if rng.Intn(3) == 0 {
		cfg.OutputOptions.NameNormalizer = []string{"ToCamelCase", "ToCamelCaseWithDigits", "ToCamelCaseWithInitialisms"}[rng.Intn(3)]
		desc = append(desc, cfg.OutputOptions.NameNormalizer)
	}
	if rng.Intn(10) == 0 {
		cfg.OutputOptions.ResponseTypeSuffix = "Resp"
		desc = append(desc, "suffix")
	}
	if rng.Intn(10) == 0 {
		cfg.OutputOptions.ClientTypeName = "APIClient"
		desc = append(desc, "client-type-name")
	}
	if rng.Intn(10) == 0 {
		cfg.OutputOptions.DisableTypeAliasesForType = []string{"array"}
		desc = append(desc, "no-array-alias")
	}
	return cfg, strings.Join(desc, ",")
}

func (c *c01Checker) gateJSON(doc map[string]any, cfg codegen.Configuration) gateResult {
	b, _ := json.Marshal(doc)
	spec, err := loadSpec(b)
	if err != nil {
		return gateResult{Stage: "load", Msg: err.Error()}
	}
	if err := validateSpec(spec); err != nil {
		return gateResult{Stage: "load", Msg: "invalid: " + err.Error()}
	}
	return c.gate(spec, cfg, "c01/gen")
}

func cfgTargetName(cfg codegen.Configuration) string {
	g := cfg.Generate
	n := "models"
	for _, x := range []struct {
		on bool
		s  string
	}{{g.EchoServer, "echo"}, {g.ChiServer, "chi"}, {g.GinServer, "gin"}, {g.GorillaServer, "gorilla"}, {g.StdHTTPServer, "stdhttp"}, {g.FiberServer, "fiber"}, {g.IrisServer, "iris"}} {
		if x.on {
			n = x.s
		}
	}
	if g.Strict {
		n += "+strict"
	}
	if g.Client {
		n += "+client"
	}
	return n
}

func runC01Generated(r *Report, rng *rand.Rand, ck *c01Checker, thorough bool) {
	targets := c01Targets()
	nDocs, nCfg := 60, 3
	if thorough {
		nDocs, nCfg = 600, 4
	}
	shrunk := map[string]bool{}
	for i := 0; i < nDocs; i++ {
		adv := []float64{0, 0.3, 0.8}[i%3]
		for k := 0; k < nCfg; k++ {
			cfg, desc := c01RandomConfig(rng, targets)
			g := cfg.Generate
			d := genC01Doc(rng, adv, c01Avoid{Strict: g.Strict, FiberStrict: g.Strict && g.FiberServer, IrisOrFiber: g.IrisServer || g.FiberServer, Client: g.Client})
			r.AddDist(d.Features)
			res := ck.gateJSON(d.Doc, cfg)
			r.Count(fmt.Sprintf("gen%d/%s", i, desc), true)
			r.Dist["family=generated"]++
			r.Dist["stage="+res.Stage]++
			if res.Stage == "ok" {
				continue
			}
			if res.Stage == "load" {
				r.Dist["generated_doc_rejected_by_loader"]++
				r.Dist["load_reject: "+trunc(digitsRE.ReplaceAllString(res.Msg, "N"), 90)]++
				continue
			}
			target := cfgTargetName(cfg)
			for _, sig := range gateSignatures(res, target) {
				doc, res2 := d.Doc, res
				if !shrunk[sig] {
					shrunk[sig] = true
					doc = ck.shrink(d.Doc, cfg, target, sig)
					res2 = ck.gateJSON(doc, cfg)
				}
				r.Violate(sig, fmt.Sprintf("generated document @ %s: %s: %s", desc, res2.Stage, trunc(res2.Msg, 400)), map[string]any{"document": doc, "configuration": cfg, "at": res2.Snippet, "diags": res2.Diags})
			}
		}
	}
}

// shrink greedily deletes parts of the document while the same failure signature remains.
func (c *c01Checker) shrink(doc map[string]any, cfg codegen.Configuration, target, sig string) map[string]any {
	same := func(d map[string]any) bool {
		res := c.gateJSON(d, cfg)
		if res.Stage == "ok" || res.Stage == "load" {
			return false
		}
		for _, s := range gateSignatures(res, target) {
			if s == sig {
				return true
			}
		}
		return false
	}
	cur := deepCopyJSON(doc).(map[string]any)
	budget := 400
	for changed := true; changed && budget > 0; {
		changed = false
		for _, path := range deletionCandidates(cur, nil, 0) {
			if budget <= 0 {
				break
			}
			cand := deepCopyJSON(cur).(map[string]any)
			if !deleteAt(cand, path) {
				continue
			}
			budget--
			if same(cand) {
				cur = cand
				changed = true
				break
			}
		}
	}
	return cur
}

func deepCopyJSON(v any) any {
	b, _ := json.Marshal(v)
	var out any
	_ = json.Unmarshal(b, &out)
	return out
}

// deletionCandidates lists paths (map keys / slice indexes) whose removal keeps the document well formed often enough.
func deletionCandidates(v any, prefix []any, depth int) [][]any {
	var out [][]any
	switch x := v.(type) {
	case map[string]any:
		for _, k := range sortedKeysAny(x) {
			if depth == 0 && (k == "openapi" || k == "info" || k == "paths") {
				out = append(out, deletionCandidates(x[k], append(append([]any{}, prefix...), k), depth+1)...)
				continue
			}
			if k == "type" || k == "in" || k == "name" || k == "description" || k == "$ref" || k == "schema" && depth > 0 && false {
				continue
			}
			p := append(append([]any{}, prefix...), k)
			out = append(out, p)
			out = append(out, deletionCandidates(x[k], p, depth+1)...)
		}
	case []any:
		for i := range x {
			p := append(append([]any{}, prefix...), i)
			out = append(out, p)
			out = append(out, deletionCandidates(x[i], p, depth+1)...)
		}
	}
	// shallow deletions first
	sort.SliceStable(out, func(i, j int) bool { return len(out[i]) < len(out[j]) })
	return out
}

func deleteAt(root map[string]any, path []any) bool {
	var cur any = root
	for i, k := range path {
		last := i == len(path)-1
		switch x := cur.(type) {
		case map[string]any:
			ks, ok := k.(string)
			if !ok {
				return false
			}
			if last {
				if _, ok := x[ks]; !ok {
					return false
				}
				delete(x, ks)
				return true
			}
			cur = x[ks]
		case []any:
			ki, ok := k.(int)
			if !ok || ki >= len(x) {
				return false
			}
			if last {
				// need the parent to re-assign: handled by caller via parent map
				return deleteIndex(root, path)
			}
			cur = x[ki]
		default:
			return false
		}
	}
	return false
}

func deleteIndex(root map[string]any, path []any) bool {
	// walk to the container of the slice
	var cur any = root
	for i := 0; i < len(path)-2; i++ {
		switch x := cur.(type) {
		case map[string]any:
			cur = x[path[i].(string)]
		case []any:
			cur = x[path[i].(int)]
		}
	}
	idx := path[len(path)-1].(int)
	switch parent := cur.(type) {
	case map[string]any:
		key, ok := path[len(path)-2].(string)
		if !ok {
			return false
		}
		sl, ok := parent[key].([]any)
		if !ok || idx >= len(sl) {
			return false
		}
		parent[key] = append(append([]any{}, sl[:idx]...), sl[idx+1:]...)
		return true
	}
	return false
}

var extRefRE = regexp.MustCompile(`"\$ref":"([^"#]+)#`)

// externalDocs lists the external documents a loaded spec refers to, as written in its $refs.
func externalDocs(spec *openapi3.T) []string {
	b, _ := spec.MarshalJSON()
	seen := map[string]bool{}
	var out []string
	for _, x := range extRefRE.FindAllSubmatch(b, -1) {
		if !seen[string(x[1])] {
			seen[string(x[1])] = true
			out = append(out, string(x[1]))
		}
	}
	sort.Strings(out)
	return out
}

// multiDoc generates and type-checks (models only) every document the given file refers to,
// recursively, registers the resulting packages with the checker and returns the import
// mapping for the file itself. A failure in a dependency is returned as an error text.
func (c *c01Checker) multiDoc(path string, tg c01Target, stack map[string]bool) (map[string]string, string) {
	spec, err := loadSpecFile(path)
	if err != nil {
		return nil, "load " + path + ": " + err.Error()
	}
	mapping := map[string]string{}
	for _, ref := range externalDocs(spec) {
		abs := filepath.Clean(filepath.Join(filepath.Dir(path), ref))
		pkgPath := "c01ext/" + strings.NewReplacer("+", "_").Replace(tg.Name) + "/" + strings.Trim(strings.NewReplacer("/", "_", ".", "_", "-", "_").Replace(strings.TrimPrefix(abs, "/repo/")), "_")
		mapping[ref] = pkgPath
		if _, done := c.extra[pkgPath]; done || stack[abs] {
			continue
		}
		stack[abs] = true
		depMap, msg := c.multiDoc(abs, tg, stack)
		delete(stack, abs)
		if msg != "" {
			return mapping, msg
		}
		depSpec, err := loadSpecFile(abs)
		if err != nil {
			return mapping, "load " + abs + ": " + err.Error()
		}
		cfg := codegen.Configuration{PackageName: filepath.Base(pkgPath), Generate: tg.Gen, ImportMapping: depMap}
		cfg.OutputOptions.SkipPrune = true
		res := c.gate(depSpec, cfg, pkgPath)
		if res.Stage != "ok" {
			return mapping, fmt.Sprintf("dependency %s: %s: %s", abs, res.Stage, res.Msg)
		}
		c.extra[pkgPath] = res.Pkg
	}
	return mapping, ""
}

// A generate error is the permitted outcome for documents that use unsupported constructs.
func expectedGenerateError(msg string) bool {
	return false
}

var msgRules = []struct {
	re  *regexp.Regexp
	out string
}{
	{regexp.MustCompile(`^(\w+) redeclared in this block`), "redeclared:$1"},
	{regexp.MustCompile(`^response\.(\w+) undefined \(type \w+TextResponse has no field`), "text_response_without_$1"},
	{regexp.MustCompile(`^cannot convert response \(variable of type \w+TextResponse\) to type string`), "text_response_not_convertible_to_string"},
	{regexp.MustCompile(`^cannot call non-function response \(variable of type \w+MultipartResponse\)`), "multipart_response_not_a_function"},
}

var upperIdentRE = regexp.MustCompile(`[\p{Lu}][\pL\pN_]*`)
var digitsRE = regexp.MustCompile(`\d+`)

// msgClass maps the first diagnostic onto a class that does not depend on the names in the input.
func msgClass(msg string) string {
	if strings.HasPrefix(msg, "error formatting Go code") {
		tail := msg[strings.LastIndex(msg, "\n")+1:]
		if i := strings.LastIndex(tail, ": "); i >= 0 && strings.Contains(tail[:i], ":") {
			tail = tail[strings.Index(tail, ": ")+2:]
		}
		return "format: " + digitsRE.ReplaceAllString(trunc(tail, 90), "N")
	}
	first := strings.TrimPrefix(strings.SplitN(msg, " | ", 2)[0], "invalid operation: ")
	for _, rl := range msgRules {
		if m := rl.re.FindStringSubmatchIndex(first); m != nil {
			return string(rl.re.ExpandString(nil, rl.out, first, m))
		}
	}
	c := upperIdentRE.ReplaceAllString(first, "T")
	c = digitsRE.ReplaceAllString(c, "N")
	if len(c) > 90 {
		c = c[:90]
	}
	return c
}

func validateSpec(spec *openapi3.T) (err error) {
	defer func() {
		if p := recover(); p != nil {
			err = fmt.Errorf("PANIC in validation: %v", p)
		}
	}()
	return spec.Validate(context.Background(), openapi3.DisableExamplesValidation())
}

// ---------------------------------------------------------------------------
// Root causes: every diagnostic of a failing gate is mapped onto a root cause already recorded for the
// unchanged tree, or stays unclassified (and is then a violation of its own).

type rcRule struct {
	Name   string
	Msg    *regexp.Regexp
	Line   *regexp.Regexp // optional: the source line the diagnostic points at
	Target *regexp.Regexp // optional
	Check  func(m []string, d diag) bool
}

// in rule patterns \w stands for a Go identifier character of any script
func re(s string) *regexp.Regexp { return regexp.MustCompile(strings.ReplaceAll(s, `\w`, `[\pL\pN_]`)) }

// the undefined name is that of an auxiliary type hoisted out of a nested inline schema: it ends with the
// Go name of the field that uses it, or with _Item / _AdditionalProperties
func hoistedAuxType(m []string, d diag) bool {
	name := m[1]
	// only inside response types (client <Op>Response structs, strict <Op><Status><Tag>Response types): the
	// auxiliary types of parameters, bodies and component schemas are emitted, so a missing one there is new
	if !strings.HasSuffix(d.Encl, "Response") && !strings.HasSuffix(d.Encl, "Resp") {
		return false
	}
	f := strings.Fields(d.Line)
	if len(f) < 2 {
		return false
	}
	field := f[0]
	return strings.HasSuffix(name, field) && name != field || strings.HasSuffix(name, "_Item") || strings.Contains(name, "_AdditionalProperties") || strings.HasSuffix(name, "_"+field)
}

const statusish = `(N?[1-5](XX|\d\d)|[dD]efault)`

var c01Rules = []rcRule{
	{Name: "strict_text_response_without_status_body_or_headers", Msg: re(`^response\.(StatusCode|Body|Headers) undefined \(type \w+TextResponse has no field`), Target: re(`strict`)},
	{Name: "fiber_strict_text_response_conversion", Msg: re(`^cannot convert response \(variable of type \w+TextResponse\) to type string`), Target: re(`fiber\+strict`)},
	{Name: "fiber_strict_text_response_interface_receiver", Msg: re(`^invalid receiver type \w+TextResponse \(pointer or interface type\)`), Target: re(`fiber\+strict`)},
	{Name: "fiber_strict_external_ref_capitalised", Msg: re(`^undefined: ExternalRef\d+$`), Target: re(`fiber\+strict`)},
	{Name: "fiber_strict_external_multipart_response", Msg: re(`^invalid operation: cannot call non-function response \(variable of type \w+MultipartResponse\)`), Target: re(`strict`)},
	{Name: "strict_external_response_ref_needs_strict_dependency", Msg: re(`^undefined: externalRef\d+\.\w+Response$`), Target: re(`strict`)},
	{Name: "wrapper_err_declared_but_unused", Msg: re(`^declared and not used: err$`), Line: re(`^var err error$`)},
	{Name: "fiber_query_declared_but_unused", Msg: re(`^declared and not used: query$`), Line: re(`^var query url\.Values$`), Target: re(`fiber`)},
	{Name: "iris_query_param_method_missing", Msg: re(`^ctx\.QueryParam undefined`), Target: re(`iris`)},
	{Name: "auxiliary_type_of_nested_inline_schema_not_emitted", Msg: re(`^undefined: (\w+)$`), Check: hoistedAuxType},
	{Name: "client_response_type_for_non_json_component_response_missing", Msg: re(`^undefined: (\w+)$`), Line: re(`^((YAML|XML)\w*\s+\*?\w+|var dest \w+)$`), Target: re(`client`)},
	{Name: "predeclared_identifier_used_as_parameter_variable", Msg: re(`^(string|int|bool|error|any|len|new|nil|true|iota|byte|rune|uint|float64|float32|int32|int64) is not a type$`)},
	{Name: "strict_request_field_name_mismatch", Msg: re(`^request\.\w+ undefined \(type \w+RequestObject has no field or method \w+, but does have field`), Target: re(`strict`)},
	{Name: "json_content_parameter_inline_object_type_mismatch", Msg: re(`^cannot use &?\w+ \(va\w+ of type \*?struct\{`), Line: re(`^params\.\w+ = &?\w+$`)},
	{Name: "skip_optional_pointer_with_additional_properties_nil_check", Msg: re(`^invalid operation: a\.\w+ != nil \(mismatched types`), Line: re(`^if a\.\w+ != nil \{$`)},
	{Name: "client_response_type_of_external_reference_missing", Msg: re(`^undefined: Bionicle$`), Target: re(`client`)},
	{Name: "schema_named_like_generated_client_type", Msg: re(`^Client redeclared in this block$`)},
}

func classifyDiag(d diag, target string) string {
	for _, rl := range c01Rules {
		if rl.Target != nil && !rl.Target.MatchString(target) {
			continue
		}
		m := rl.Msg.FindStringSubmatch(d.Msg)
		if m == nil {
			continue
		}
		if rl.Check != nil && !rl.Check(m, d) {
			continue
		}
		if rl.Line != nil && !rl.Line.MatchString(d.Line) {
			continue
		}
		return "rc/" + rl.Name
	}
	return ""
}

// signatures of a failing gate: the root causes it exhibits plus one unclassified signature per
// diagnostic class that no rule explains.
func gateSignatures(res gateResult, target string) []string {
	if res.Stage != "typecheck" {
		return []string{res.Stage + "/" + target + "/" + msgClass(res.Msg)}
	}
	seen := map[string]bool{}
	var out []string
	cascade := false
	for _, d := range res.Diags {
		sig := classifyDiag(d, target)
		if sig == "rc/schema_named_like_generated_client_type" {
			cascade = true
		}
		if sig == "" {
			sig = "unclassified/" + target + "/" + msgClass(d.Msg)
		}
		if !seen[sig] {
			seen[sig] = true
			out = append(out, sig)
		}
	}
	if cascade { // a second declaration of Client makes every use of the type fail: only the root cause is reported
		return []string{"rc/schema_named_like_generated_client_type"}
	}
	return out
}
