package main

import (
	"context"
	"crypto/sha256"
	"encoding/hex"
	"encoding/json"
	"fmt"
	"net/url"
	"os"
	"path/filepath"
	"sort"
	"strings"

	"github.com/getkin/kin-openapi/openapi3"

	"verif/harness/gendoc"
)

// Violation is one input on which the implementation falsified the property
// (kind "oracle") or disagreed with the Coq model (kind "model", decided later by coqc).
type Violation struct {
	Signature string `json:"signature"` // stable class name, matched against known-findings.jsonl
	What      string `json:"what"`
	Replay    any    `json:"replay"`
}

// Report is what a harness run hands to bin/check.
type Report struct {
	Property    string         `json:"property"`
	Tier        string         `json:"tier"`
	Seed        int64          `json:"seed"`
	Evaluations int            `json:"evaluations"`
	Distinct    int            `json:"distinct_nontrivial"`
	Rule        string         `json:"rule"`
	Samples     []any          `json:"samples"`
	Violations  []Violation    `json:"violations"`
	Dist        map[string]int `json:"distribution"`
	CasesFiles  []string       `json:"cases_files"`
	// CaseIndex maps "file:index" of a Coq case to a replayable description, so that a
	// model/implementation mismatch reported by coqc can be written out as a replay.
	CaseIndex  map[string]any `json:"case_index"`
	Exhaustive bool           `json:"exhaustive"`
	Notes      []string       `json:"notes"`
	SigCounts  map[string]int `json:"signature_counts"`
	distinct   map[string]bool
	outDir     string
}

func NewReport(prop, tier string, seed int64, outDir string) *Report {
	return &Report{Property: prop, Tier: tier, Seed: seed, Dist: map[string]int{}, CaseIndex: map[string]any{},
		distinct: map[string]bool{}, outDir: outDir}
}

// Count records one evaluated case; key identifies it up to canonical form, nontrivial
// says whether it exercises a non-default branch (rule stated per property).
func (r *Report) Count(key string, nontrivial bool) {
	r.Evaluations++
	if nontrivial {
		h := sha256.Sum256([]byte(key))
		k := hex.EncodeToString(h[:8])
		if !r.distinct[k] {
			r.distinct[k] = true
			r.Distinct++
		}
	}
}

func (r *Report) Sample(v any) {
	if len(r.Samples) < 4 {
		r.Samples = append(r.Samples, v)
	}
}

// Violate records a failing input; at most three are kept per signature, all are counted.
func (r *Report) Violate(sig, what string, replay any) {
	if r.SigCounts == nil {
		r.SigCounts = map[string]int{}
	}
	r.SigCounts[sig]++
	if r.SigCounts[sig] <= 3 && len(r.Violations) < 400 {
		r.Violations = append(r.Violations, Violation{sig, what, replay})
	}
}

func (r *Report) AddDist(m map[string]int) {
	for k, v := range m {
		r.Dist[k] += v
	}
}

func (r *Report) Write() {
	b, _ := json.MarshalIndent(r, "", " ")
	must(os.WriteFile(filepath.Join(r.outDir, "result.json"), b, 0o644))
}

func must(err error) {
	if err != nil {
		panic(err)
	}
}

// CasesFile accumulates Coq cases evaluated with vm_compute; it is written as up to 16
// shard files so that coqc can run them in parallel.
type CasesFile struct {
	name    string
	imports string
	typ     string
	fn      string
	items   []string
	replays []any
}

func NewCases(name, imports, typ, fn string) *CasesFile {
	return &CasesFile{name: name, imports: imports, typ: typ, fn: fn}
}

// Add records one case term together with what is needed to replay it.
func (c *CasesFile) Add(term string, replay any) int {
	c.items = append(c.items, term)
	c.replays = append(c.replays, replay)
	return len(c.items) - 1
}

// WriteTo writes the shards; the mismatch function receives the list of cases and
// returns the indices (nat) of the cases on which model and observation differ.
func (c *CasesFile) WriteTo(r *Report) {
	n := len(c.items)
	if n == 0 {
		return
	}
	shards := (n + 399) / 400
	if shards > 64 {
		shards = 64
	}
	per := (n + shards - 1) / shards
	for k := 0; k < shards; k++ {
		lo, hi := k*per, (k+1)*per
		if hi > n {
			hi = n
		}
		if lo >= hi {
			break
		}
		var sb strings.Builder
		sb.WriteString("From Coq Require Import List String NArith ZArith Bool.\nImport ListNotations.\n")
		sb.WriteString(c.imports + "\n")
		sb.WriteString(gendoc.InternDefs())
		fmt.Fprintf(&sb, "Definition cases : list (%s) := [\n", c.typ)
		for i := lo; i < hi; i++ {
			if i > lo {
				sb.WriteString(";\n")
			}
			sb.WriteString("  " + c.items[i])
		}
		sb.WriteString("\n].\n")
		fmt.Fprintf(&sb, "Definition M := Eval vm_compute in %s cases.\nPrint M.\n", c.fn)
		fname := fmt.Sprintf("%s_%d.v", c.name, k)
		must(os.WriteFile(filepath.Join(r.outDir, fname), []byte(sb.String()), 0o644))
		r.CasesFiles = append(r.CasesFiles, fname)
		for i := lo; i < hi; i++ {
			if c.replays[i] != nil {
				r.CaseIndex[fmt.Sprintf("%s:%d", fname, i-lo)] = c.replays[i]
			}
		}
	}
}

// virtualFiles are the documents external references may name (no file system, no network).
var virtualFiles = map[string][]byte{
	"other.yaml": []byte(`{"openapi":"3.0.3","info":{"title":"o","version":"1"},"paths":{},"components":{"schemas":{"Ext":{"type":"object","properties":{"e":{"type":"string"}}}}}}`),
	"third.yaml": []byte(`{"openapi":"3.0.3","info":{"title":"t","version":"1"},"paths":{},"components":{"schemas":{"T":{"type":"string"}}}}`),
}

func loadSpec(data []byte) (*openapi3.T, error) {
	loader := openapi3.NewLoader()
	loader.IsExternalRefsAllowed = true
	loader.ReadFromURIFunc = func(_ *openapi3.Loader, u *url.URL) ([]byte, error) {
		if b, ok := virtualFiles[strings.TrimPrefix(u.Path, "/")]; ok {
			return b, nil
		}
		return nil, fmt.Errorf("no such document: %s", u.String())
	}
	return loader.LoadFromData(data)
}

func specJSON(t *openapi3.T) map[string]any {
	b, err := t.MarshalJSON()
	must(err)
	var out map[string]any
	must(json.Unmarshal(b, &out))
	return out
}

func compKeysOf(t *openapi3.T) []string {
	var out []string
	if t.Components == nil {
		return out
	}
	c := t.Components
	add := func(kind string, names []string) {
		for _, n := range names {
			out = append(out, "#/components/"+kind+"/"+n)
		}
	}
	add("schemas", keys(c.Schemas))
	add("parameters", keys(c.Parameters))
	add("securitySchemes", keys(c.SecuritySchemes))
	add("requestBodies", keys(c.RequestBodies))
	add("responses", keys(c.Responses))
	add("headers", keys(c.Headers))
	add("examples", keys(c.Examples))
	add("links", keys(c.Links))
	add("callbacks", keys(c.Callbacks))
	sort.Strings(out)
	return out
}

func keys[V any](m map[string]V) []string {
	out := make([]string, 0, len(m))
	for k := range m {
		out = append(out, k)
	}
	sort.Strings(out)
	return out
}

func sortedCopy(l []string) []string {
	out := append([]string(nil), l...)
	sort.Strings(out)
	return out
}

func eqStrings(a, b []string) bool {
	if len(a) != len(b) {
		return false
	}
	for i := range a {
		if a[i] != b[i] {
			return false
		}
	}
	return true
}

var _ = context.Background
