package main

import (
	"encoding/json"
	"fmt"
	"math"
	"math/rand"
	"net/url"
	"sort"
	"strings"

	"github.com/oapi-codegen/oapi-codegen/v2/pkg/codegen"
)

// ---- the parameter-shape family shared by C04, C05 and C06

type pcell struct {
	Loc        string `json:"loc"`   // path query header cookie
	Style      string `json:"style"` // "" = defaulted
	Explode    *bool  `json:"explode"`
	Shape      string `json:"shape"` // string int int64 float bool date datetime uuid arr:int arr:string obj
	Required   bool   `json:"required"`
	Kind       string `json:"kind"` // styled json pass
	Op         string `json:"op"`
	Name       string `json:"name"`
	Override   bool   `json:"override"`              // the path item declares a laxer parameter of the same name and location; the operation's declaration governs
	AllowEmpty bool   `json:"allow_empty,omitempty"` // allowEmptyValue: true (query only): the value may be empty, the parameter may still not be absent
}

func (c pcell) effStyle() string {
	if c.Style != "" {
		return c.Style
	}
	if c.Loc == "path" || c.Loc == "header" {
		return "simple"
	}
	return "form"
}

// OAS 3.0.3 defaults: explode is true for form, false otherwise.
func (c pcell) effExplode() bool {
	if c.Explode != nil {
		return *c.Explode
	}
	// deepObject has a single row in the table (explode true): a deepObject parameter that leaves explode out
	// can only mean that row
	return c.effStyle() == "form" || c.effStyle() == "deepObject"
}

func (c pcell) key() string {
	e := "d"
	if c.Explode != nil {
		e = fmt.Sprint(*c.Explode)
	}
	k := fmt.Sprintf("%s/%s/%s/%s/%v/%s", c.Loc, c.Style, e, c.Shape, c.Required, c.Kind)
	if c.Override {
		k += "/overrides-path-level"
	}
	if c.AllowEmpty {
		k += "/allow-empty-value"
	}
	if c.Name != "" && c.Name != "p" && c.Name != "X-Param" {
		k += "/name=" + c.Name
	}
	return k
}

func bp(b bool) *bool { return &b }

func paramCells(loc string) []pcell {
	var out []pcell
	n := 0
	add := func(c pcell) {
		c.Loc = loc
		c.Op = fmt.Sprintf("%s%d", loc, n)
		if c.Name == "" {
			c.Name = "p"
			if loc == "header" {
				c.Name = "X-Param"
			}
		}
		n++
		out = append(out, c)
	}
	explodes := []*bool{nil, bp(true), bp(false)}
	shapes := []string{"string", "arr:int", "arr:string", "obj"}
	prims := []string{"int", "int64", "float", "bool", "date", "datetime", "uuid"}
	var styles []string
	switch loc {
	case "path":
		styles = []string{"", "simple", "label", "matrix"}
	case "query":
		styles = []string{"", "form"}
	case "header":
		styles = []string{"", "simple"}
	case "cookie":
		styles = []string{"", "form"}
	}
	reqs := []bool{true, false}
	if loc == "path" {
		reqs = []bool{true}
	}
	for _, st := range styles {
		for _, ex := range explodes {
			for _, sh := range shapes {
				for _, rq := range reqs {
					if st == "" && ex != nil && sh != "string" && sh != "arr:int" {
						continue // defaulted style with explicit explode: a primitive and an array
					}
					add(pcell{Style: st, Explode: ex, Shape: sh, Required: rq, Kind: "styled"})
				}
			}
		}
	}
	for _, p := range prims {
		for _, rq := range reqs {
			add(pcell{Shape: p, Required: rq, Kind: "styled"})
		}
	}
	if loc == "query" {
		for _, rq := range reqs {
			add(pcell{Style: "deepObject", Explode: bp(true), Shape: "obj", Required: rq, Kind: "styled"})
			add(pcell{Style: "deepObject", Explode: nil, Shape: "obj", Required: rq, Kind: "styled"})
		}
	}
	for _, rq := range reqs {
		add(pcell{Shape: "obj", Required: rq, Kind: "json"})
	}
	// pass-through parameters (described by content with a non-JSON media type: the text is handed over as it is);
	// not in the path (probe P7 of C01: the wrappers do not compile there)
	if loc != "path" {
		for _, rq := range reqs {
			add(pcell{Shape: "string", Required: rq, Kind: "pass"})
		}
	}
	// declared names that differ from their Go variable / field names: the wire carries the DECLARED name
	switch loc {
	case "path":
		add(pcell{Style: "matrix", Explode: bp(false), Shape: "arr:int", Required: true, Kind: "styled", Name: "user_id"})
		add(pcell{Style: "matrix", Explode: bp(true), Shape: "arr:int", Required: true, Kind: "styled", Name: "user_id"})
		add(pcell{Style: "matrix", Explode: bp(true), Shape: "obj", Required: true, Kind: "styled", Name: "user-id"})
		add(pcell{Style: "matrix", Shape: "string", Required: true, Kind: "styled", Name: "type"})
		add(pcell{Style: "label", Explode: bp(true), Shape: "arr:int", Required: true, Kind: "styled", Name: "user_id"})
		add(pcell{Shape: "string", Required: true, Kind: "styled", Name: "UserID"})
	case "query":
		add(pcell{Style: "form", Explode: bp(false), Shape: "arr:string", Required: true, Kind: "styled", Name: "user-id"})
		add(pcell{Style: "form", Explode: bp(true), Shape: "arr:int", Required: false, Kind: "styled", Name: "user_id"})
		add(pcell{Style: "deepObject", Explode: bp(true), Shape: "obj", Required: false, Kind: "styled", Name: "user_filter"})
		add(pcell{Shape: "string", Required: true, Kind: "styled", Name: "type"})
		// required together with allowEmptyValue
		add(pcell{Shape: "bool", Required: true, Kind: "styled", AllowEmpty: true})
		add(pcell{Shape: "int", Required: true, Kind: "styled", AllowEmpty: true})
		add(pcell{Shape: "obj", Required: true, Kind: "json", AllowEmpty: true})
	case "header":
		add(pcell{Shape: "string", Required: true, Kind: "styled", Name: "X-User-Id"})
		add(pcell{Shape: "arr:int", Required: false, Kind: "styled", Name: "x-lower-case"})
	case "cookie":
		add(pcell{Shape: "string", Required: true, Kind: "styled", Name: "user_id"})
		add(pcell{Shape: "arr:int", Required: false, Kind: "styled", Name: "user-id"})
	}
	// an operation-level declaration that overrides a laxer path-level one (optional string -> required integer / uuid)
	add(pcell{Shape: "int", Required: true, Kind: "styled", Override: true})
	add(pcell{Shape: "uuid", Required: true, Kind: "styled", Override: true})
	return out
}

func shapeSchema(shape string) map[string]any {
	switch shape {
	case "string":
		return map[string]any{"type": "string"}
	case "int":
		return map[string]any{"type": "integer", "format": "int32"}
	case "int64":
		return map[string]any{"type": "integer", "format": "int64"}
	case "float":
		return map[string]any{"type": "number", "format": "double"}
	case "bool":
		return map[string]any{"type": "boolean"}
	case "date":
		return map[string]any{"type": "string", "format": "date"}
	case "datetime":
		return map[string]any{"type": "string", "format": "date-time"}
	case "uuid":
		return map[string]any{"type": "string", "format": "uuid"}
	case "arr:int":
		return map[string]any{"type": "array", "items": map[string]any{"type": "integer", "format": "int32"}}
	case "arr:string":
		return map[string]any{"type": "array", "items": map[string]any{"type": "string"}}
	case "obj":
		return map[string]any{"type": "object", "required": []string{"role", "firstName"}, "properties": map[string]any{"role": map[string]any{"type": "string"}, "firstName": map[string]any{"type": "string"}}}
	}
	panic(shape)
}

func paramSpec(cells []pcell) []byte {
	paths := map[string]any{}
	for _, c := range cells {
		p := map[string]any{"name": c.Name, "in": c.Loc}
		if c.Required {
			p["required"] = true
		}
		if c.AllowEmpty {
			p["allowEmptyValue"] = true
		}
		switch c.Kind {
		case "styled":
			p["schema"] = shapeSchema(c.Shape)
			if c.Style != "" {
				p["style"] = c.Style
			}
			if c.Explode != nil {
				p["explode"] = *c.Explode
			}
		case "json":
			p["content"] = map[string]any{"application/json": map[string]any{"schema": shapeSchema(c.Shape)}}
		case "pass":
			p["content"] = map[string]any{"text/plain": map[string]any{"schema": map[string]any{"type": "string"}}}
		}
		path := "/" + c.Op
		if c.Loc == "path" {
			path += "/{" + c.Name + "}"
		}
		plist := []any{p}
		if c.Kind == "pass" {
			// an operation whose parameters are ALL pass-through leaves the wrapper's err unused in six flavours (does not
			// compile: probes P7 of C01); an optional styled companion that is never sent keeps the cell exercisable
			plist = append(plist, map[string]any{"name": "aux", "in": "query", "schema": map[string]any{"type": "integer"}})
		}
		item := map[string]any{"get": map[string]any{"operationId": c.Op, "parameters": plist, "responses": map[string]any{"204": map[string]any{"description": "ok"}}}}
		if c.Override {
			lax := map[string]any{"name": c.Name, "in": c.Loc, "schema": map[string]any{"type": "string"}}
			if c.Loc == "path" {
				lax["required"] = true
			}
			item["parameters"] = []any{lax}
		}
		paths[path] = item
	}
	if len(cells) > 0 && cells[0].Loc == "path" && cells[0].Kind == "styled" && !strings.Contains(cells[0].Name, "-") {
		// one operation with three path variables declared out of path order and on both levels: the client fills the
		// template by position, the server binds by name
		str := func(n string) map[string]any {
			return map[string]any{"name": n, "in": "path", "required": true, "schema": map[string]any{"type": "string"}}
		}
		paths["/pathmulti/{first}/x/{second}/{third}"] = map[string]any{"parameters": []any{str("second")},
			"get": map[string]any{"operationId": "pathmulti", "parameters": []any{str("third"), str("first")}, "responses": map[string]any{"204": map[string]any{"description": "ok"}}}}
	}
	b, _ := json.Marshal(map[string]any{"openapi": "3.0.3", "info": map[string]any{"title": "params", "version": "1"}, "paths": paths})
	return b
}

// ---- values

// pvalue: the supplied value as JSON (what the client builder receives) and as text atoms
// (what the OAS table serialises).
type pvalue struct {
	JSON  json.RawMessage
	Atoms []string    // prim: 1 atom; array: elements
	Obj   [][2]string // object members in declaration (struct field) order
	Class string      // character class used, for known-finding signatures
}

var strClasses = map[string][]string{
	"alnum":    {"a", "Z", "0", "x9", "hello", "A1b2"},
	"unicode":  {"é", "日本", "ß", "Ωmega", "naïve"},
	"space":    {"a b", " lead", "trail "},
	"reserved": {"a/b", "q?x", "h#t", "c:d", "a@b", "x!y", "t~u", "(p)", "s'q", "a*b"},
	"plus":     {"a+b"},
	"amp":      {"a&b", "k=v"},
	"semi":     {"a;b"},
	"dot":      {"a.b", "1.5"},
	"comma":    {"a,b"},
	"quote":    {"a\"b", "a\\b"},
}

// delimiters of a style: values containing one are outside the statement's domain.
func styleDelims(style string, explode bool, shape string) string {
	d := ""
	switch style {
	case "simple":
		d = ","
		if shape == "obj" && explode {
			d += "="
		}
	case "label":
		d = ".,"
		if shape == "obj" && explode {
			d += "="
		}
	case "matrix":
		d = ";,="
	case "form":
		d = ",&="
	case "deepObject":
		d = "[]&=;" // ';' : the pinned runtime does not escape deepObject fragments and net/url rejects a bare ';'

	}
	return d
}

// stringClasses are swept for every cell that carries strings: the i-th value of such a cell has (at least)
// one string of the i-th class, unless the class only has strings containing the cell's own delimiters.
var stringClasses = []string{"alnum", "unicode", "space", "reserved", "plus", "amp", "semi", "dot", "comma", "quote"}

var forcedClass string // consumed by the next genString call

func carriesStrings(c pcell) bool {
	return c.Shape == "string" || c.Shape == "arr:string" || c.Shape == "obj"
}

// valuesPerCell: string-bearing cells sweep the classes; the others take k values
func valuesPerCell(c pcell, k int) int {
	if takesEmptyString(c) {
		return len(stringClasses) + 1
	}
	if carriesStrings(c) && k < len(stringClasses) {
		return len(stringClasses)
	}
	return k
}

// takesEmptyString: a string header may be sent with an empty value ("X-Note:"), which is a value, not an absent
// parameter: the handler receives "" (a pointer to "" for an optional one)
// (a REQUIRED styled parameter with an empty value is refused by the pinned runtime's binder - "parameter is empty, can't
// bind its value" - so the empty value is sent for pass-through headers and for optional styled ones)
func takesEmptyString(c pcell) bool {
	return c.Loc == "header" && c.Shape == "string" && (c.Kind == "pass" || (c.Kind == "styled" && !c.Required))
}

func genValueAt(rng *rand.Rand, c pcell, i int) pvalue {
	if takesEmptyString(c) && i == len(stringClasses) {
		b, _ := json.Marshal("")
		return pvalue{JSON: b, Atoms: []string{""}, Class: "empty"}
	}
	if carriesStrings(c) {
		forcedClass = stringClasses[i%len(stringClasses)]
	}
	v := genValue(rng, c)
	forcedClass = ""
	return v
}

func genString(rng *rand.Rand, c pcell) (string, string) {
	classes := []string{"alnum", "alnum", "unicode", "space", "reserved", "plus", "amp", "semi", "dot", "comma", "quote"}
	if fc := forcedClass; fc != "" {
		forcedClass = ""
		for try := 0; try < 8; try++ {
			s := strClasses[fc][rng.Intn(len(strClasses[fc]))]
			if c.Kind == "styled" && strings.ContainsAny(s, styleDelims(c.effStyle(), c.effExplode(), c.Shape)) {
				continue
			}
			return s, fc
		}
	}
	for {
		cl := classes[rng.Intn(len(classes))]
		s := strClasses[cl][rng.Intn(len(strClasses[cl]))]
		if c.Kind == "styled" && strings.ContainsAny(s, styleDelims(c.effStyle(), c.effExplode(), c.Shape)) {
			continue
		}
		return s, cl
	}
}

func genValue(rng *rand.Rand, c pcell) pvalue {
	enc := func(v any) json.RawMessage { b, _ := json.Marshal(v); return b }
	switch c.Shape {
	case "string":
		s, cl := genString(rng, c)
		return pvalue{JSON: enc(s), Atoms: []string{s}, Class: cl}
	case "int":
		v := []int64{0, 1, -1, 7, math.MaxInt32, math.MinInt32, int64(rng.Int31())}[rng.Intn(7)]
		return pvalue{JSON: enc(v), Atoms: []string{fmt.Sprint(v)}, Class: "int"}
	case "int64":
		v := []int64{0, -1, math.MaxInt64, math.MinInt64, rng.Int63()}[rng.Intn(5)]
		return pvalue{JSON: enc(v), Atoms: []string{fmt.Sprint(v)}, Class: "int64"}
	case "float":
		v := []float64{0, 1.5, -2.25, 1024, 3.141592653589793, 0.001}[rng.Intn(6)] // values whose shortest decimal form is unique
		return pvalue{JSON: enc(v), Atoms: []string{strings.TrimSpace(string(enc(v)))}, Class: "float"}
	case "bool":
		v := rng.Intn(2) == 0
		return pvalue{JSON: enc(v), Atoms: []string{fmt.Sprint(v)}, Class: "bool"}
	case "date":
		v := []string{"2020-01-02", "1999-12-31", "2024-02-29"}[rng.Intn(3)]
		return pvalue{JSON: enc(v), Atoms: []string{v}, Class: "date"}
	case "datetime":
		v := []string{"2020-01-02T03:04:05Z", "1999-12-31T23:59:59Z"}[rng.Intn(2)]
		return pvalue{JSON: enc(v), Atoms: []string{v}, Class: "datetime"}
	case "uuid":
		v := []string{"123e4567-e89b-12d3-a456-426614174000", "00000000-0000-0000-0000-000000000000"}[rng.Intn(2)]
		return pvalue{JSON: enc(v), Atoms: []string{v}, Class: "uuid"}
	case "arr:int":
		n := 1 + rng.Intn(3)
		var l []int
		var a []string
		for i := 0; i < n; i++ {
			x := rng.Intn(2000) - 1000
			l = append(l, x)
			a = append(a, fmt.Sprint(x))
		}
		return pvalue{JSON: enc(l), Atoms: a, Class: "int"}
	case "arr:string":
		n := 1 + rng.Intn(3)
		var l []string
		cls := "alnum"
		for i := 0; i < n; i++ {
			s, cl := genString(rng, c)
			l = append(l, s)
			if cl != "alnum" {
				cls = cl
			}
		}
		return pvalue{JSON: enc(l), Atoms: l, Class: cls}
	case "obj":
		a, cl1 := genString(rng, c)
		b, cl2 := genString(rng, c)
		cls := cl1
		if cls == "alnum" {
			cls = cl2
		}
		// struct fields are emitted in sorted property order: FirstName, Role
		return pvalue{JSON: enc(map[string]string{"firstName": a, "role": b}), Obj: [][2]string{{"firstName", a}, {"role", b}}, Class: cls}
	}
	panic(c.Shape)
}

// ---- the OAS 3.0.3 style table, written from the specification (independent of the
// runtime library and of the templates)

// oasSingle serialises for path, header and cookie positions (one string, unescaped).
func oasSingle(style string, explode bool, name string, v pvalue, shape string) string {
	join := func(l []string, sep string) string { return strings.Join(l, sep) }
	var kv, flat []string
	for _, m := range v.Obj {
		kv = append(kv, m[0]+"="+m[1])
		flat = append(flat, m[0], m[1])
	}
	isArr := strings.HasPrefix(shape, "arr:")
	isObj := shape == "obj"
	switch style {
	case "simple":
		switch {
		case isArr:
			return join(v.Atoms, ",")
		case isObj && explode:
			return join(kv, ",")
		case isObj:
			return join(flat, ",")
		}
		return v.Atoms[0]
	case "label":
		switch {
		case isArr && explode:
			return "." + join(v.Atoms, ".")
		case isArr:
			return "." + join(v.Atoms, ",")
		case isObj && explode:
			return "." + join(kv, ".")
		case isObj:
			return "." + join(flat, ",")
		}
		return "." + v.Atoms[0]
	case "matrix":
		switch {
		case isArr && explode:
			var parts []string
			for _, a := range v.Atoms {
				parts = append(parts, name+"="+a)
			}
			return ";" + join(parts, ";")
		case isArr:
			return ";" + name + "=" + join(v.Atoms, ",")
		case isObj && explode:
			return ";" + join(kv, ";")
		case isObj:
			return ";" + name + "=" + join(flat, ",")
		}
		return ";" + name + "=" + v.Atoms[0]
	}
	panic(style)
}

// oasQuery serialises a query parameter as decoded (name, value) pairs.
func oasQuery(style string, explode bool, name string, v pvalue, shape string) [][2]string {
	isArr := strings.HasPrefix(shape, "arr:")
	isObj := shape == "obj"
	var flat []string
	for _, m := range v.Obj {
		flat = append(flat, m[0], m[1])
	}
	switch style {
	case "form":
		switch {
		case isArr && explode:
			var out [][2]string
			for _, a := range v.Atoms {
				out = append(out, [2]string{name, a})
			}
			return out
		case isArr:
			return [][2]string{{name, strings.Join(v.Atoms, ",")}}
		case isObj && explode:
			var out [][2]string
			for _, m := range v.Obj {
				out = append(out, m)
			}
			return out
		case isObj:
			return [][2]string{{name, strings.Join(flat, ",")}}
		}
		return [][2]string{{name, v.Atoms[0]}}
	case "deepObject":
		var out [][2]string
		for _, m := range v.Obj {
			out = append(out, [2]string{name + "[" + m[0] + "]", m[1]})
		}
		return out
	}
	panic(style)
}

func sortPairsByKey(l [][2]string) [][2]string {
	out := append([][2]string(nil), l...)
	sort.SliceStable(out, func(i, j int) bool { return out[i][0] < out[j][0] })
	return out
}

// decodeQuery splits a raw query into unescaped pairs, in wire order.
func decodeQuery(raw string) ([][2]string, error) {
	var out [][2]string
	if raw == "" {
		return out, nil
	}
	for _, part := range strings.Split(raw, "&") {
		k, v, _ := strings.Cut(part, "=")
		ku, err := url.QueryUnescape(k)
		if err != nil {
			return nil, err
		}
		vu, err := url.QueryUnescape(v)
		if err != nil {
			return nil, err
		}
		out = append(out, [2]string{ku, vu})
	}
	return out, nil
}

// escapeForRequest renders a table serialisation as a conforming third-party client would
// put it on the wire.
func escapePathSegment(s string) string { return url.PathEscape(s) }

func paramPkgName(fw, loc string) string { return fmt.Sprintf("par_%s_%s", fw, loc) }

// cellPkg: JSON-content parameters live in a package of their own: several flavours emit
// code that does not compile for them (C01 findings), which must not take the styled cells down.
func cellPkg(fw string, c pcell) string {
	if c.Loc == "path" && strings.Contains(c.Name, "-") {
		// net/http's ServeMux only accepts Go identifiers as wildcard names: a package of its own keeps the panic local
		return paramPkgName(fw, c.Loc) + "_dash"
	}
	if c.Kind != "styled" {
		return paramPkgName(fw, c.Loc) + "_" + c.Kind
	}
	return paramPkgName(fw, c.Loc)
}

var paramLocs = []string{"path", "query", "header", "cookie"}

// buildParamsLab builds (or reuses) the laboratory shared by C04, C05 and C06.
func buildParamsLab() (*Lab, map[string][]pcell, error) {
	cells := map[string][]pcell{}
	var pkgs []LabPkg
	for _, loc := range paramLocs {
		cells[loc] = paramCells(loc)
		byPkg := map[string][]pcell{}
		for _, c := range cells[loc] {
			byPkg[cellPkg("FW", c)] = append(byPkg[cellPkg("FW", c)], c)
		}
		for tmpl, cs := range byPkg {
			spec := paramSpec(cs)
			for _, fw := range Frameworks {
				pkgs = append(pkgs, LabPkg{Name: strings.Replace(tmpl, "FW", fw, 1), Spec: spec, FW: fw,
					Cfg: codegen.Configuration{Generate: fwGenerate(fw, codegen.GenerateOptions{Models: true, Client: true})}})
			}
		}
	}
	// an operation whose path BEGINS with a parameter: the client resolves the operation path against the server URL,
	// and a first segment holding a colon must stay a path (package of its own: such a route overlaps the others)
	leadSpec, _ := json.Marshal(map[string]any{"openapi": "3.0.3", "info": map[string]any{"title": "lead", "version": "1"},
		"paths": map[string]any{"/{lead}/items/{id}": map[string]any{"get": map[string]any{"operationId": "leadparam",
			"parameters": []any{map[string]any{"name": "lead", "in": "path", "required": true, "schema": map[string]any{"type": "string"}},
				map[string]any{"name": "id", "in": "path", "required": true, "schema": map[string]any{"type": "string"}}},
			"responses": map[string]any{"204": map[string]any{"description": "ok"}}}}}})
	for _, fw := range Frameworks {
		pkgs = append(pkgs, LabPkg{Name: "par_" + fw + "_lead", Spec: leadSpec, FW: fw,
			Cfg: codegen.Configuration{Generate: fwGenerate(fw, codegen.GenerateOptions{Models: true, Client: true})}})
	}
	// one operation with SEVERAL parameters of every kind in every location: each handler argument must be the value
	// supplied for that parameter (no sharing of scratch variables between the blocks of a wrapper)
	for _, fw := range Frameworks {
		pkgs = append(pkgs, LabPkg{Name: "par_" + fw + "_multi", Spec: multiSpec, FW: fw,
			Cfg: codegen.Configuration{Generate: fwGenerate(fw, codegen.GenerateOptions{Models: true, Client: true})}})
	}
	// an operation that takes query parameters of every kind AND a form-encoded body: the body is not where query
	// parameters live, whatever its fields are called
	for _, fw := range Frameworks {
		pkgs = append(pkgs, LabPkg{Name: "par_" + fw + "_form", Spec: formSpec, FW: fw,
			Cfg: codegen.Configuration{Generate: fwGenerate(fw, codegen.GenerateOptions{Models: true})}})
	}
	sort.Slice(pkgs, func(i, j int) bool { return pkgs[i].Name < pkgs[j].Name })
	lab, err := BuildLab(labRoot, "params", pkgs)
	return lab, cells, err
}

// clientArgs renders the arguments of New<Op>Request after the server argument.
func clientArgs(c pcell, v *pvalue) []json.RawMessage {
	if c.Loc == "path" {
		return []json.RawMessage{v.JSON}
	}
	if v == nil {
		return []json.RawMessage{json.RawMessage(`{}`)}
	}
	b, _ := json.Marshal(map[string]json.RawMessage{c.Name: v.JSON})
	return []json.RawMessage{b}
}

// handlerArg extracts the value the stub handler received for the cell's parameter (nil if absent).
func handlerArg(c pcell, ev LabEvent) json.RawMessage {
	if c.Loc == "path" {
		if raw, ok := ev.Data[c.Name]; ok {
			return raw
		}
		return ev.Data[goVarName(c.Name)]
	}
	var params map[string]json.RawMessage
	_ = json.Unmarshal(ev.Data["params"], &params)
	raw, ok := params[c.Name]
	if !ok || string(raw) == "null" {
		return nil
	}
	return raw
}

func jsonEqual(a, b json.RawMessage) bool {
	x, err1 := decodeExact(a)
	y, err2 := decodeExact(b)
	if err1 != nil || err2 != nil {
		return false
	}
	xb, _ := json.Marshal(x)
	yb, _ := json.Marshal(y)
	return string(xb) == string(yb)
}

// goVarName is the name the generated wrapper gives the variable of a path parameter (independent restatement:
// lower-camel of the declared name; keywords get a p prefix)
func goVarName(name string) string {
	var sb strings.Builder
	up := false
	for i, r := range name {
		switch {
		case r == '_' || r == '-' || r == '.' || r == ' ':
			up = true
		case up:
			sb.WriteString(strings.ToUpper(string(r)))
			up = false
		case i == 0:
			sb.WriteString(strings.ToLower(string(r)))
		default:
			sb.WriteRune(r)
		}
	}
	v := sb.String()
	if v == "type" {
		return "pType"
	}
	return v
}

var formSpec = []byte(`{"openapi":"3.0.3","info":{"title":"form","version":"1"},"paths":{"/search":{"post":{"operationId":"search",
"parameters":[
 {"name":"token","in":"query","required":true,"content":{"text/plain":{"schema":{"type":"string"}}}},
 {"name":"filter","in":"query","required":true,"content":{"application/json":{"schema":{"$ref":"#/components/schemas/Filter"}}}},
 {"name":"n","in":"query","required":true,"schema":{"type":"integer"}},
 {"name":"opt","in":"query","schema":{"type":"integer"}},
 {"name":"note","in":"query","content":{"text/plain":{"schema":{"type":"string"}}}}],
"requestBody":{"content":{"application/x-www-form-urlencoded":{"schema":{"type":"object","properties":{"q":{"type":"string"}}}}}},
"responses":{"204":{"description":"ok"}}}}},
"components":{"schemas":{"Filter":{"type":"object","properties":{"limit":{"type":"integer"}}}}}}`)

// multiParams: name, location, kind (pass / styled-string / styled-int / json) of the parameters of the one operation of multiSpec
var multiParams = [][3]string{
	{"qp1", "query", "pass"}, {"qp2", "query", "pass"}, {"qs1", "query", "string"}, {"qs2", "query", "string"}, {"qn1", "query", "int"}, {"qn2", "query", "int"}, {"qj1", "query", "json"}, {"qj2", "query", "json"},
	{"X-Hp1", "header", "pass"}, {"X-Hp2", "header", "pass"}, {"X-Hs1", "header", "string"}, {"X-Hs2", "header", "string"}, {"X-Hn1", "header", "int"}, {"X-Hn2", "header", "int"},
	{"cp1", "cookie", "pass"}, {"cp2", "cookie", "pass"}, {"cs1", "cookie", "string"}, {"cs2", "cookie", "string"}, {"cn1", "cookie", "int"}, {"cn2", "cookie", "int"}, {"cj1", "cookie", "json"}, {"cj2", "cookie", "json"},
}

var multiSpec = func() []byte {
	var ps []any
	for _, p := range multiParams {
		m := map[string]any{"name": p[0], "in": p[1]}
		switch p[2] {
		case "pass":
			m["content"] = map[string]any{"text/plain": map[string]any{"schema": map[string]any{"type": "string"}}}
		case "string":
			m["schema"] = map[string]any{"type": "string"}
		case "int":
			m["schema"] = map[string]any{"type": "integer"}
		case "json":
			m["content"] = map[string]any{"application/json": map[string]any{"schema": map[string]any{"$ref": "#/components/schemas/J"}}}
		}
		ps = append(ps, m)
	}
	b, _ := json.Marshal(map[string]any{"openapi": "3.0.3", "info": map[string]any{"title": "multi", "version": "1"},
		"paths":      map[string]any{"/multi": map[string]any{"get": map[string]any{"operationId": "multi", "parameters": ps, "responses": map[string]any{"204": map[string]any{"description": "ok"}}}}},
		"components": map[string]any{"schemas": map[string]any{"J": map[string]any{"type": "object", "properties": map[string]any{"k": map[string]any{"type": "string"}}}}}})
	return b
}()
