package main

import (
	"encoding/json"
	"fmt"
	"go/ast"
	"go/token"
	"math/rand"
	"reflect"
	"sort"
	"strings"

	"github.com/oapi-codegen/oapi-codegen/v2/pkg/codegen"

	"verif/harness/gendoc"
)

type fieldDesc struct {
	GoName  string
	Type    string
	Tag     string
	Comment string
}

// structFields returns the fields of a generated struct type, in order.
func structFields(p *parsed, typeName string) ([]fieldDesc, bool) {
	for _, d := range p.file.Decls {
		gd, ok := d.(*ast.GenDecl)
		if !ok {
			continue
		}
		for _, s := range gd.Specs {
			ts, ok := s.(*ast.TypeSpec)
			if !ok || ts.Name.Name != typeName {
				continue
			}
			st, ok := ts.Type.(*ast.StructType)
			if !ok {
				return nil, false
			}
			var out []fieldDesc
			for _, f := range st.Fields.List {
				fd := fieldDesc{Type: nodeSrc(p.fset, f.Type)}
				if len(f.Names) > 0 {
					fd.GoName = f.Names[0].Name
				}
				if f.Tag != nil {
					fd.Tag = f.Tag.Value
				}
				if f.Doc != nil {
					fd.Comment = f.Doc.Text()
				}
				out = append(out, fd)
			}
			return out, true
		}
	}
	return nil, false
}

func jsonTagOf(tag string) string {
	st := reflect.StructTag(strings.Trim(tag, "`"))
	return st.Get("json")
}

type c08Attrs struct {
	Req, Null, RO, WO bool
	Skip, Omit, Ign   int // 0 absent, 1 true, 2 false
}

func triCoq(v int) string {
	switch v {
	case 1:
		return "(Some true)"
	case 2:
		return "(Some false)"
	}
	return "None"
}

func runC08(r *Report, rng *rand.Rand, thorough bool) {
	fcases := NewCases("cases_C08_field", "From V Require Import Model.TypeMap Corr.Eval.", "attrs * string * (wrap * string)", "mismatches_field")
	tcases := NewCases("cases_C08_type", "From V Require Import Model.TypeMap Corr.Eval.", "otype * string * option string", "mismatches_type")
	// ---- the attribute cube, exhaustively, for each option set
	var cube []c08Attrs
	for m := 0; m < 16; m++ {
		for sk := 0; sk < 3; sk++ {
			for om := 0; om < 3; om++ {
				for ig := 0; ig < 3; ig++ {
					cube = append(cube, c08Attrs{m&1 != 0, m&2 != 0, m&4 != 0, m&8 != 0, sk, om, ig})
				}
			}
		}
	}
	tri := func(m map[string]any, key string, v int) {
		if v == 1 {
			m[key] = true
		} else if v == 2 {
			m[key] = false
		}
	}
	for _, drro := range []bool{false, true} {
		for _, nt := range []bool{false, true} {
			props := map[string]any{}
			var required []string
			for i, a := range cube {
				name := fmt.Sprintf("p%d", i)
				s := map[string]any{"type": "string"}
				if a.Null {
					s["nullable"] = true
				}
				if a.RO {
					s["readOnly"] = true
				}
				if a.WO {
					s["writeOnly"] = true
				}
				tri(s, "x-go-type-skip-optional-pointer", a.Skip)
				tri(s, "x-omitempty", a.Omit)
				tri(s, "x-go-json-ignore", a.Ign)
				props[name] = s
				if a.Req {
					required = append(required, name)
				}
			}
			spec, _ := json.Marshal(map[string]any{"openapi": "3.0.3", "info": map[string]any{"title": "c", "version": "1"}, "paths": map[string]any{},
				"components": map[string]any{"schemas": map[string]any{"Cube": map[string]any{"type": "object", "required": required, "properties": props}}}})
			cfg := codegen.Configuration{PackageName: "gen", Generate: codegen.GenerateOptions{Models: true}}
			cfg.OutputOptions.SkipPrune = true
			cfg.Compatibility.DisableRequiredReadOnlyAsPointer = drro
			cfg.OutputOptions.NullableType = nt
			code, err := generate(spec, cfg)
			if err != nil {
				r.Violate("generate_error", err.Error(), map[string]any{"disable_rro": drro, "nullable_type": nt})
				continue
			}
			p, _ := parseGo(code)
			fields, ok := structFields(p, "Cube")
			if !ok || len(fields) != len(cube) {
				r.Violate("cube_struct", fmt.Sprintf("struct Cube has %d fields, want %d", len(fields), len(cube)), nil)
				continue
			}
			byName := map[string]fieldDesc{}
			for _, f := range fields {
				byName[f.GoName] = f
			}
			for i, a := range cube {
				name := fmt.Sprintf("p%d", i)
				f := byName[fmt.Sprintf("P%d", i)]
				wrap := "Plain"
				switch {
				case strings.HasPrefix(f.Type, "nullable.Nullable["):
					wrap = "NullableOf"
				case strings.HasPrefix(f.Type, "*"):
					wrap = "Pointer"
				}
				tag := jsonTagOf(f.Tag)
				replay := map[string]any{"attributes": a, "disable_required_readonly_as_pointer": drro, "nullable_type": nt, "field": f}
				fcases.Add(fmt.Sprintf("({| a_required := %v; a_nullable := %v; a_readonly := %v; a_writeonly := %v; a_skip_pointer := %s; a_omitempty_ext := %s; a_json_ignore := %s; o_disable_rro_pointer := %v; o_nullable_type := %v |}, %s, (%s, %s))",
					a.Req, a.Null, a.RO, a.WO, triCoq(a.Skip), triCoq(a.Omit), triCoq(a.Ign), drro, nt, gendoc.CoqStr(name), wrap, gendoc.CoqStr(tag)), replay)
				r.Count(fmt.Sprintf("cube/%v/%v/%v", drro, nt, a), a.Skip+a.Omit+a.Ign > 0 || drro || nt)
				// ---- the documented rules, for cells without extensions and default options
				if a.Skip == 0 && a.Omit == 0 && a.Ign == 0 && !drro && !nt {
					wantPtr := !a.Req || a.Null || a.RO || a.WO
					wantOmit := !a.Null && (!a.Req || a.RO || a.WO)
					wantTag := name
					if wantOmit {
						wantTag += ",omitempty"
					}
					wantType := "string"
					if wantPtr {
						wantType = "*string"
					}
					if f.Type != wantType || tag != wantTag {
						r.Violate("documented_field_rule", fmt.Sprintf("required=%v nullable=%v readOnly=%v writeOnly=%v: field %s %s `json:%q`, documentation prescribes %s `json:%q`", a.Req, a.Null, a.RO, a.WO, f.GoName, f.Type, tag, wantType, wantTag), replay)
					}
				}
				// frames checked on the implementation: an extension changes only its own component
				if a.Ign == 1 && tag != "-" {
					r.Violate("json_ignore_frame", fmt.Sprintf("x-go-json-ignore: tag %q", tag), replay)
				}
				if a.Omit != 0 && a.Ign != 1 && strings.HasSuffix(tag, ",omitempty") != (a.Omit == 1) {
					r.Violate("omitempty_frame", fmt.Sprintf("x-omitempty=%v: tag %q", a.Omit == 1, tag), replay)
				}
				if a.Skip == 1 && wrap == "Pointer" {
					r.Violate("skip_pointer_frame", fmt.Sprintf("x-go-type-skip-optional-pointer: type %s", f.Type), replay)
				}
			}
		}
	}
	r.Dist["attribute_cells"] = len(cube) * 4
	// ---- the type / format table
	type tf struct{ t, f, coq string }
	var tfs []tf
	for _, t := range []string{"integer", "number", "boolean", "string"} {
		for _, f := range []string{"", "int32", "int64", "int16", "int8", "int", "uint64", "uint32", "uint16", "uint8", "uint", "float", "double", "byte", "email", "date", "date-time", "json", "uuid", "binary", "password", "hostname", "nosuchformat"} {
			tfs = append(tfs, tf{t, f, map[string]string{"integer": "TInteger", "number": "TNumber", "boolean": "TBoolean", "string": "TString"}[t]})
		}
	}
	docTable := map[string]string{"integer/": "int", "integer/int32": "int32", "integer/int64": "int64", "number/": "float32", "number/float": "float32", "number/double": "float64",
		"boolean/": "bool", "string/": "string", "string/byte": "[]byte", "string/date-time": "time.Time", "string/date": "openapi_types.Date", "string/uuid": "openapi_types.UUID",
		"string/email": "openapi_types.Email", "string/binary": "openapi_types.File", "string/json": "json.RawMessage"}
	for _, x := range tfs {
		s := map[string]any{"type": x.t}
		if x.f != "" {
			s["format"] = x.f
		}
		spec, _ := json.Marshal(map[string]any{"openapi": "3.0.3", "info": map[string]any{"title": "c", "version": "1"}, "paths": map[string]any{},
			"components": map[string]any{"schemas": map[string]any{"T": map[string]any{"type": "object", "required": []string{"v"}, "properties": map[string]any{"v": s}}}}})
		cfg := codegen.Configuration{PackageName: "gen", Generate: codegen.GenerateOptions{Models: true}}
		cfg.OutputOptions.SkipPrune = true
		code, err := generate(spec, cfg)
		obs := "None"
		got := ""
		if err == nil {
			p, _ := parseGo(code)
			fields, ok := structFields(p, "T")
			if ok && len(fields) == 1 {
				got = fields[0].Type
				obs = "(Some " + gendoc.CoqStr(got) + ")"
			}
		}
		tcases.Add(fmt.Sprintf("(%s, %s, %s)", x.coq, gendoc.CoqStr(x.f), obs), map[string]any{"type": x.t, "format": x.f})
		r.Count("type/"+x.t+"/"+x.f, x.f != "")
		if want, ok := docTable[x.t+"/"+x.f]; ok && got != want {
			r.Violate("documented_type_table", fmt.Sprintf("type %s format %q is rendered as %q, documentation says %s", x.t, x.f, got, want), map[string]any{"type": x.t, "format": x.f})
		}
	}
	// ---- arrays, maps, $ref, and the remaining documented extensions (frames on the AST)
	base := func() map[string]any {
		return map[string]any{"type": "object", "required": []string{"a"}, "properties": map[string]any{
			"a":    map[string]any{"type": "string"},
			"b":    map[string]any{"type": "integer"},
			"list": map[string]any{"type": "array", "items": map[string]any{"type": "integer", "format": "int64"}},
			"free": map[string]any{"type": "object", "additionalProperties": true},
			"m":    map[string]any{"type": "object", "additionalProperties": map[string]any{"type": "number", "format": "double"}},
			"ref":  map[string]any{"$ref": "#/components/schemas/Other"},
		}}
	}
	gen := func(schema map[string]any) ([]fieldDesc, string, error) {
		spec, _ := json.Marshal(map[string]any{"openapi": "3.0.3", "info": map[string]any{"title": "c", "version": "1"}, "paths": map[string]any{},
			"components": map[string]any{"schemas": map[string]any{"T": schema, "Other": map[string]any{"type": "object", "properties": map[string]any{"x": map[string]any{"type": "string"}}},
				// a component that opts out of the optional pointer itself
				"Stamp": map[string]any{"type": "string", "x-go-type-skip-optional-pointer": true}}}})
		cfg := codegen.Configuration{PackageName: "gen", Generate: codegen.GenerateOptions{Models: true}}
		cfg.OutputOptions.SkipPrune = true
		code, err := generate(spec, cfg)
		if err != nil {
			return nil, "", err
		}
		p, _ := parseGo(code)
		f, _ := structFields(p, "T")
		return f, code, nil
	}
	baseFields, _, err := gen(base())
	if err != nil {
		r.Violate("generate_error", err.Error(), nil)
	} else {
		want := map[string]string{"A": "string", "B": "*int", "List": "*[]int64", "Free": "*map[string]interface{}", "M": "*map[string]float64", "Ref": "*Other"}
		for _, f := range baseFields {
			r.Count("composite/"+f.GoName, true)
			if want[f.GoName] != f.Type {
				r.Violate("documented_composite_types", fmt.Sprintf("field %s has type %s, documentation says %s", f.GoName, f.Type, want[f.GoName]), f)
			}
		}
		type ext struct {
			name   string
			apply  func(props map[string]any)
			expect func(before, after []fieldDesc, code string) string
		}
		find := func(l []fieldDesc, n string) *fieldDesc {
			for i := range l {
				if l[i].GoName == n {
					return &l[i]
				}
			}
			return nil
		}
		// others unchanged helper
		sameExcept := func(before, after []fieldDesc, except string) string {
			for _, b := range before {
				if b.GoName == except {
					continue
				}
				a := find(after, b.GoName)
				if a == nil || a.Type != b.Type || a.Tag != b.Tag {
					return "field " + b.GoName + " changed too"
				}
			}
			return ""
		}
		exts := []ext{
			{"x-go-name", func(p map[string]any) { p["b"].(map[string]any)["x-go-name"] = "Renamed" }, func(before, after []fieldDesc, code string) string {
				f := find(after, "Renamed")
				if f == nil || f.Type != "*int" || jsonTagOf(f.Tag) != "b,omitempty" || find(after, "B") != nil {
					return "x-go-name did not rename exactly the field"
				}
				return sameExcept(before, after, "B")
			}},
			{"x-go-name (snake case value)", func(p map[string]any) { p["b"].(map[string]any)["x-go-name"] = "owner_id" }, func(before, after []fieldDesc, code string) string {
				// the value goes through the same normalisation as a property name: the field must stay exported
				f := find(after, "OwnerId")
				if f == nil || f.Type != "*int" || jsonTagOf(f.Tag) != "b,omitempty" || find(after, "B") != nil || find(after, "owner_id") != nil {
					return "x-go-name: owner_id did not give the exported field OwnerId"
				}
				return sameExcept(before, after, "B")
			}},
			{"x-go-name (lower camel value)", func(p map[string]any) { p["b"].(map[string]any)["x-go-name"] = "homeHttpUrl" }, func(before, after []fieldDesc, code string) string {
				f := find(after, "HomeHttpUrl")
				if f == nil || f.Type != "*int" || jsonTagOf(f.Tag) != "b,omitempty" || find(after, "homeHttpUrl") != nil {
					return "x-go-name: homeHttpUrl did not give the exported field HomeHttpUrl"
				}
				return sameExcept(before, after, "B")
			}},
			{"x-go-type(+import)", func(p map[string]any) {
				p["b"].(map[string]any)["x-go-type"] = "decimal.Decimal"
				p["b"].(map[string]any)["x-go-type-import"] = map[string]any{"path": "github.com/shopspring/decimal"}
			}, func(before, after []fieldDesc, code string) string {
				f := find(after, "B")
				if f == nil || f.Type != "*decimal.Decimal" || !strings.Contains(code, `"github.com/shopspring/decimal"`) {
					return "x-go-type / x-go-type-import not applied"
				}
				return sameExcept(before, after, "B")
			}},
			// x-go-type-skip-optional-pointer reaching the member through a reference, through the allOf wrapper that decorates a
			// reference, and given as false on a format that skips the pointer by itself
			{"x-go-type-skip-optional-pointer (on the referenced component)", func(p map[string]any) { p["b"] = map[string]any{"$ref": "#/components/schemas/Stamp"} }, func(before, after []fieldDesc, code string) string {
				f := find(after, "B")
				if f == nil || f.Type != "Stamp" || jsonTagOf(f.Tag) != "b,omitempty" {
					return fmt.Sprintf("optional member referring to a component with the extension: %+v", f)
				}
				return sameExcept(before, after, "B")
			}},
			{"x-go-type-skip-optional-pointer (on an allOf wrapper)", func(p map[string]any) {
				p["ref"] = map[string]any{"allOf": []any{map[string]any{"$ref": "#/components/schemas/Other"}}, "x-go-type-skip-optional-pointer": true}
			}, func(before, after []fieldDesc, code string) string {
				f := find(after, "Ref")
				if f == nil || f.Type != "Other" || jsonTagOf(f.Tag) != "ref,omitempty" {
					return fmt.Sprintf("optional allOf-wrapped reference with the extension: %+v", f)
				}
				return sameExcept(before, after, "Ref")
			}},
			{"x-go-type-skip-optional-pointer: false (format json)", func(p map[string]any) {
				p["b"] = map[string]any{"type": "string", "format": "json", "x-go-type-skip-optional-pointer": false}
			}, func(before, after []fieldDesc, code string) string {
				f := find(after, "B")
				if f == nil || f.Type != "*json.RawMessage" {
					return fmt.Sprintf("format json with the extension set to false keeps the pointer: %+v", f)
				}
				return sameExcept(before, after, "B")
			}},
			{"x-oapi-codegen-extra-tags", func(p map[string]any) {
				p["b"].(map[string]any)["x-oapi-codegen-extra-tags"] = map[string]any{"db": "bcol", "validate": "min=1"}
			}, func(before, after []fieldDesc, code string) string {
				f := find(after, "B")
				st := reflect.StructTag(strings.Trim(f.Tag, "`"))
				if f.Type != "*int" || st.Get("db") != "bcol" || st.Get("validate") != "min=1" || st.Get("json") != "b,omitempty" {
					return "extra tags not added next to the json tag: " + f.Tag
				}
				return sameExcept(before, after, "B")
			}},
			{"x-order", func(p map[string]any) {
				p["ref"].(map[string]any)["x-order"] = 1
				p["a"].(map[string]any)["x-order"] = 2
			}, func(before, after []fieldDesc, code string) string {
				return "" // checked below (needs the wrapper for $ref siblings); order only
			}},
			{"x-deprecated-reason", func(p map[string]any) {
				p["b"].(map[string]any)["deprecated"] = true
				p["b"].(map[string]any)["x-deprecated-reason"] = "use c"
			}, func(before, after []fieldDesc, code string) string {
				f := find(after, "B")
				if !strings.Contains(f.Comment, "Deprecated") || !strings.Contains(f.Comment, "use c") {
					return "deprecation reason missing from the field comment: " + f.Comment
				}
				if f.Type != "*int" || jsonTagOf(f.Tag) != "b,omitempty" {
					return "deprecation changed the field's type or tag"
				}
				return sameExcept(before, after, "B")
			}},
		}
		for _, e := range exts {
			s := base()
			e.apply(s["properties"].(map[string]any))
			after, code, err := gen(s)
			r.Count("extension/"+e.name, true)
			if err != nil {
				r.Violate("extension_generate_error/"+e.name, err.Error(), nil)
				continue
			}
			if msg := e.expect(baseFields, after, code); msg != "" {
				r.Violate("extension_frame/"+e.name, e.name+": "+msg, map[string]any{"before": baseFields, "after": after})
			}
			if e.name == "x-order" {
				var order []string
				for _, f := range after {
					order = append(order, f.GoName)
				}
				sorted := append([]string(nil), order...)
				sort.Strings(sorted)
				if len(order) != len(baseFields) {
					r.Violate("extension_frame/x-order", "x-order changed the field set", order)
				}
			}
		}
	}
	// ---- how named types are declared: alias (type X = T) or defined type (type X T), under the type-alias switches
	{
		aliasDoc, _ := json.Marshal(map[string]any{"openapi": "3.0.3", "info": map[string]any{"title": "c", "version": "1"},
			"paths": map[string]any{"/things": map[string]any{"post": map[string]any{"operationId": "postThings",
				"requestBody": map[string]any{"content": map[string]any{"application/json": map[string]any{"schema": map[string]any{"type": "array", "items": map[string]any{"type": "integer", "format": "int64"}}}}},
				"responses":   map[string]any{"204": map[string]any{"description": "d"}}}}},
			"components": map[string]any{"schemas": map[string]any{
				"Item":     map[string]any{"type": "object", "properties": map[string]any{"a": map[string]any{"type": "string"}}},
				"Items":    map[string]any{"type": "array", "items": map[string]any{"$ref": "#/components/schemas/Item"}},
				"Names":    map[string]any{"type": "array", "items": map[string]any{"type": "string"}},
				"Count":    map[string]any{"type": "integer"},
				"Label":    map[string]any{"type": "string"},
				"Ratio":    map[string]any{"type": "number", "format": "double"},
				"Flag":     map[string]any{"type": "boolean"},
				"ItemsRef": map[string]any{"$ref": "#/components/schemas/Items"},
				"Colour":   map[string]any{"type": "string", "enum": []string{"red", "blue"}},
			}}})
		type decl struct {
			alias bool
			rhs   string
		}
		declsOf := func(cfg codegen.Configuration) (map[string]decl, error) {
			cfg.PackageName = "gen"
			cfg.Generate = codegen.GenerateOptions{Models: true}
			cfg.OutputOptions.SkipPrune = true
			code, err := generate(aliasDoc, cfg)
			if err != nil {
				return nil, err
			}
			p, err := parseGo(code)
			if err != nil {
				return nil, err
			}
			out := map[string]decl{}
			for _, d := range p.file.Decls {
				if gd, ok := d.(*ast.GenDecl); ok && gd.Tok == token.TYPE {
					for _, sp := range gd.Specs {
						ts := sp.(*ast.TypeSpec)
						out[ts.Name.Name] = decl{ts.Assign != token.NoPos, nodeSrc(p.fset, ts.Type)}
					}
				}
			}
			return out, nil
		}
		rhs := map[string]string{"Items": "[]Item", "Names": "[]string", "Count": "int", "Label": "string", "Ratio": "float64", "Flag": "bool", "ItemsRef": "Items", "Colour": "string", "PostThingsJSONBody": "[]int64"}
		arrays := map[string]bool{"Items": true, "Names": true, "PostThingsJSONBody": true}
		sets := []struct {
			name  string
			tune  func(*codegen.Configuration)
			alias func(n string) bool
		}{
			{"default", func(*codegen.Configuration) {}, func(n string) bool { return n != "Colour" && n != "Item" }},
			{"disable-type-aliases-for-type=[array]", func(c *codegen.Configuration) { c.OutputOptions.DisableTypeAliasesForType = []string{"array"} },
				func(n string) bool { return n != "Colour" && n != "Item" && !arrays[n] }},
			{"old-aliasing", func(c *codegen.Configuration) { c.Compatibility.OldAliasing = true }, func(n string) bool { return false }},
		}
		acases := NewCases("cases_C08_alias", "From V Require Import Model.TypeMap Corr.Eval.", "bool * bool * tkind * bool", "mismatches_alias")
		defer acases.WriteTo(r)
		kindOf := map[string]string{"Items": "KArray", "Names": "KArray", "PostThingsJSONBody": "KArray", "Count": "KPrimitive", "Label": "KPrimitive", "Ratio": "KPrimitive", "Flag": "KPrimitive",
			"ItemsRef": "KReference", "Colour": "KEnum", "Item": "KStruct"}
		for _, st := range sets {
			var cfg codegen.Configuration
			st.tune(&cfg)
			ds, err := declsOf(cfg)
			if err == nil {
				names := make([]string, 0, len(kindOf))
				for n := range kindOf {
					names = append(names, n)
				}
				sort.Strings(names)
				for _, n := range names {
					if d, ok := ds[n]; ok {
						acases.Add(fmt.Sprintf("(%v, %v, %s, %v)", cfg.Compatibility.OldAliasing, len(cfg.OutputOptions.DisableTypeAliasesForType) > 0, kindOf[n], d.alias), map[string]any{"option": st.name, "type": n})
					}
				}
			}
			if err != nil {
				r.Violate("type_alias_switch_generate_error/"+st.name, err.Error(), nil)
				continue
			}
			for n, want := range rhs {
				r.Count("type-alias-switch/"+st.name+"/"+n, st.name != "default")
				d, ok := ds[n]
				if !ok {
					r.Violate("type_alias_switch/"+st.name, fmt.Sprintf("%s: type %s is not declared", st.name, n), nil)
					continue
				}
				if d.rhs != want || d.alias != st.alias(n) {
					r.Violate("type_alias_switch/"+st.name, fmt.Sprintf("%s: type %s is declared as %s %s (alias: %v), documentation says %s (alias: %v)", st.name, n, n, d.rhs, d.alias, want, st.alias(n)), map[string]any{"option": st.name, "type": n})
				}
			}
			if d, ok := ds["Item"]; !ok || d.alias || !strings.HasPrefix(d.rhs, "struct") {
				r.Violate("type_alias_switch/"+st.name, fmt.Sprintf("%s: object schema Item must stay a defined struct type", st.name), nil)
			}
		}
	}
	// ---- "slices for arrays": the element type of a slice is the type generated for the items - the named type when the
	// inline item schema gets one (an enum, an object with additional properties), the plain type otherwise
	{
		item := func(s map[string]any) map[string]any { return map[string]any{"type": "array", "items": s} }
		doc, _ := json.Marshal(map[string]any{"openapi": "3.0.3", "info": map[string]any{"title": "c", "version": "1"}, "paths": map[string]any{},
			"components": map[string]any{"schemas": map[string]any{
				"Colour": map[string]any{"type": "string", "enum": []string{"red", "blue"}},
				"Pet": map[string]any{"type": "object", "required": []string{"names", "colours", "tags", "extras", "sizes"}, "properties": map[string]any{
					"names":   item(map[string]any{"type": "string"}),
					"sizes":   item(map[string]any{"type": "integer", "format": "int64"}),
					"colours": item(map[string]any{"$ref": "#/components/schemas/Colour"}),
					"tags":    item(map[string]any{"type": "string", "enum": []string{"small", "large"}}),
					"extras": item(map[string]any{"type": "object", "required": []string{"id"}, "properties": map[string]any{"id": map[string]any{"type": "integer", "format": "int64"}},
						"additionalProperties": map[string]any{"type": "string"}}),
				}}}}})
		cfg := codegen.Configuration{PackageName: "gen", Generate: codegen.GenerateOptions{Models: true}}
		cfg.OutputOptions.SkipPrune = true
		code, err := generate(doc, cfg)
		if err != nil {
			r.Violate("array_items_generate_error", err.Error(), nil)
		} else {
			p, _ := parseGo(code)
			fields, _ := structFields(p, "Pet")
			tn := p.typeNames()
			byTag := map[string]string{}
			for _, f := range fields {
				byTag[strings.Split(jsonTagOf(f.Tag), ",")[0]] = f.Type
			}
			for tag, want := range map[string]string{"names": "[]string", "sizes": "[]int64", "colours": "[]Colour"} {
				r.Count("array-items/"+tag, true)
				if byTag[tag] != want {
					r.Violate("array_element_type", fmt.Sprintf("Pet.%s has type %s, documentation says %s", tag, byTag[tag], want), map[string]any{"member": tag})
				}
			}
			for _, tag := range []string{"tags", "extras"} {
				r.Count("array-items/"+tag, true)
				el := strings.TrimPrefix(byTag[tag], "[]")
				if !strings.HasPrefix(byTag[tag], "[]") || !tn[el] {
					r.Violate("array_element_type", fmt.Sprintf("Pet.%s has type %s: the items get a named type of their own (enum constants, custom marshalling), the slice must be a slice of that type", tag, byTag[tag]), map[string]any{"member": tag})
				}
			}
		}
	}
	// ---- "the referenced named type for $ref": the name is the one the CURRENT document and configuration give the
	// component (x-go-name, name normaliser), generation after generation in one process
	{
		mk := func(goName string, comp string) []byte {
			owner := map[string]any{"type": "object", "properties": map[string]any{"n": map[string]any{"type": "string"}}}
			if goName != "" {
				owner["x-go-name"] = goName
			}
			b, _ := json.Marshal(map[string]any{"openapi": "3.0.3", "info": map[string]any{"title": "c", "version": "1"}, "paths": map[string]any{},
				"components": map[string]any{"schemas": map[string]any{comp: owner,
					"Pet": map[string]any{"type": "object", "properties": map[string]any{"owner": map[string]any{"$ref": "#/components/schemas/" + comp}}}}}})
			return b
		}
		type step struct {
			label, comp, goName, normalizer, want string
		}
		steps := []step{
			{"x-go-name: Proprietor", "Owner", "Proprietor", "", "Proprietor"},
			{"no x-go-name", "Owner", "", "", "Owner"},
			{"x-go-name: Keeper", "Owner", "Keeper", "", "Keeper"},
			{"pet_owner_id, default normaliser", "pet_owner_id", "", "", "PetOwnerId"},
			{"pet_owner_id, ToCamelCaseWithInitialisms", "pet_owner_id", "", "ToCamelCaseWithInitialisms", "PetOwnerID"},
			{"pet_owner_id, default normaliser again", "pet_owner_id", "", "", "PetOwnerId"},
		}
		for _, st := range steps {
			cfg := codegen.Configuration{PackageName: "gen", Generate: codegen.GenerateOptions{Models: true}}
			cfg.OutputOptions.SkipPrune = true
			cfg.OutputOptions.NameNormalizer = st.normalizer
			code, err := generate(mk(st.goName, st.comp), cfg)
			r.Count("ref-name/"+st.label, true)
			if err != nil {
				r.Violate("ref_name_generate_error", st.label+": "+err.Error(), nil)
				continue
			}
			p, _ := parseGo(code)
			fields, _ := structFields(p, "Pet")
			got := ""
			for _, f := range fields {
				if jsonTagOf(f.Tag) == "owner,omitempty" {
					got = f.Type
				}
			}
			if !p.typeNames()[st.want] || got != "*"+st.want {
				r.Violate("ref_names_the_declared_type", fmt.Sprintf("%s: the component is declared as %s (declared: %v), the member that refers to it has type %s", st.label, st.want, p.typeNames()[st.want], got), map[string]any{"step": st.label})
			}
		}
	}
	// ---- a reference to a component that carries x-go-type: the reference is rendered as the referenced NAMED type (the
	// component's declaration is what the extension changes), in every place a reference may stand, under both aliasing modes
	for _, oldAliasing := range []bool{false, true} {
		spec, _ := json.Marshal(map[string]any{"openapi": "3.0.3", "info": map[string]any{"title": "c", "version": "1"},
			"paths": map[string]any{"/things": map[string]any{"get": map[string]any{"operationId": "getThings",
				"parameters": []any{map[string]any{"name": "min", "in": "query", "schema": map[string]any{"$ref": "#/components/schemas/Money"}}},
				"responses":  map[string]any{"204": map[string]any{"description": "d"}}}}},
			"components": map[string]any{"schemas": map[string]any{
				"Money": map[string]any{"type": "string", "x-go-type": "decimal.Decimal", "x-go-type-import": map[string]any{"path": "github.com/shopspring/decimal"}},
				"Invoice": map[string]any{"type": "object", "required": []string{"total"}, "properties": map[string]any{
					"total": map[string]any{"$ref": "#/components/schemas/Money"}, "tip": map[string]any{"$ref": "#/components/schemas/Money"},
					"lines":  map[string]any{"type": "array", "items": map[string]any{"$ref": "#/components/schemas/Money"}},
					"byKind": map[string]any{"type": "object", "additionalProperties": map[string]any{"$ref": "#/components/schemas/Money"}}}}}}})
		cfg := codegen.Configuration{PackageName: "gen", Generate: codegen.GenerateOptions{Models: true, EchoServer: true}}
		cfg.OutputOptions.SkipPrune = true
		cfg.Compatibility.OldAliasing = oldAliasing
		replay := map[string]any{"spec": json.RawMessage(spec), "old_aliasing": oldAliasing}
		r.Count(fmt.Sprintf("ref-to-x-go-type/%v", oldAliasing), true)
		code, err := generate(spec, cfg)
		if err != nil {
			r.Violate("ref_name_generate_error", "reference to a component with x-go-type: "+trunc(err.Error(), 200), replay)
			continue
		}
		p, _ := parseGo(code)
		got := map[string]string{}
		if fields, ok := structFields(p, "Invoice"); ok {
			for _, f := range fields {
				got[strings.Split(jsonTagOf(f.Tag), ",")[0]] = f.Type
			}
		}
		if fields, ok := structFields(p, "GetThingsParams"); ok {
			for _, f := range fields {
				if f.GoName == "Min" {
					got["(query parameter) min"] = f.Type
				}
			}
		}
		want := map[string]string{"total": "Money", "tip": "*Money", "lines": "*[]Money", "byKind": "*map[string]Money", "(query parameter) min": "*Money"}
		for k, w := range want {
			if got[k] != w {
				r.Violate("ref_names_the_declared_type", fmt.Sprintf("reference to the component Money (x-go-type decimal.Decimal), old-aliasing=%v: %s has type %q, the referenced named type gives %q", oldAliasing, k, got[k], w), replay)
			}
		}
		if !p.typeNames()["Money"] {
			r.Violate("ref_names_the_declared_type", "the component Money is not declared", replay)
		}
	}
	// ---- parameter schemas: a parameter of every location (path, query, header, cookie) whose schema is a table row, an inline
	// enum over a table row, or a reference. The argument (path) or the member of the parameter object (elsewhere) has the
	// table's type; an inline enum gets a named type that IS DECLARED in the file with the table's type under it, and constants
	{
		type pclass struct {
			label, t, f string
			enum        []any
			ref         bool
		}
		classes := []pclass{
			{"plain", "string", "", nil, false}, {"plain", "integer", "", nil, false}, {"plain", "integer", "int64", nil, false}, {"plain", "integer", "uint32", nil, false},
			{"plain", "number", "double", nil, false}, {"plain", "boolean", "", nil, false}, {"plain", "string", "uuid", nil, false}, {"plain", "string", "date", nil, false},
			{"enum", "string", "", []any{"daily", "weekly"}, false}, {"enum", "integer", "int32", []any{1, 2, 3}, false}, {"enum", "integer", "", []any{10, 20}, false},
			{"ref", "string", "", nil, true},
		}
		coqT := map[string]string{"integer": "TInteger", "number": "TNumber", "boolean": "TBoolean", "string": "TString"}
		for _, loc := range []string{"path", "query", "header", "cookie"} {
			for _, c := range classes {
				sch := map[string]any{"type": c.t}
				if c.f != "" {
					sch["format"] = c.f
				}
				if c.enum != nil {
					sch["enum"] = c.enum
				}
				if c.ref {
					sch = map[string]any{"$ref": "#/components/schemas/Colour"}
				}
				params := []any{map[string]any{"name": "x", "in": loc, "required": true, "schema": sch}}
				path := "/r"
				if loc == "path" {
					path = "/r/{x}"
				}
				spec, _ := json.Marshal(map[string]any{"openapi": "3.0.3", "info": map[string]any{"title": "c", "version": "1"},
					"paths":      map[string]any{path: map[string]any{"get": map[string]any{"operationId": "getR", "parameters": params, "responses": map[string]any{"204": map[string]any{"description": "d"}}}}},
					"components": map[string]any{"schemas": map[string]any{"Colour": map[string]any{"type": "string", "enum": []string{"red", "blue"}}}}})
				cfg := codegen.Configuration{PackageName: "gen", Generate: codegen.GenerateOptions{Models: true, EchoServer: true}}
				replay := map[string]any{"spec": json.RawMessage(spec), "location": loc, "class": c.label, "type": c.t, "format": c.f}
				label := fmt.Sprintf("parameter/%s/%s/%s/%s", loc, c.label, c.t, c.f)
				r.Count(label, true)
				r.Dist["parameter_position="+loc]++
				code, err := generate(spec, cfg)
				if err != nil {
					r.Violate("parameter_schema_generate_error", label+": "+trunc(err.Error(), 200), replay)
					continue
				}
				p, err := parseGo(code)
				if err != nil {
					r.Violate("parameter_schema_generate_error", label+": output does not parse: "+trunc(err.Error(), 200), replay)
					continue
				}
				got := ""
				if loc == "path" {
					got = interfaceMethodParamType(p, "ServerInterface", "GetR", "x")
				} else {
					fields, _ := structFields(p, "GetRParams")
					for _, f := range fields {
						if f.GoName == "X" {
							got = f.Type
						}
					}
				}
				decls := map[string]string{}
				for _, d := range p.file.Decls {
					if gd, ok := d.(*ast.GenDecl); ok && gd.Tok == token.TYPE {
						for _, sp := range gd.Specs {
							ts := sp.(*ast.TypeSpec)
							decls[ts.Name.Name] = nodeSrc(p.fset, ts.Type)
						}
					}
				}
				under := got
				switch c.label {
				case "ref":
					if got != "Colour" || decls["Colour"] != "string" {
						r.Violate("parameter_schema_type", fmt.Sprintf("%s: a parameter that refers to the enum component Colour has type %q (Colour declared as %q)", label, got, decls["Colour"]), replay)
					}
					continue
				case "enum":
					rhs, declared := decls[got]
					if !declared {
						r.Violate("parameter_schema_type", fmt.Sprintf("%s: the parameter has type %q, which the file does not declare", label, got), replay)
						continue
					}
					under = rhs
					nconst := 0
					for _, d := range p.file.Decls {
						if gd, ok := d.(*ast.GenDecl); ok && gd.Tok == token.CONST {
							for _, sp := range gd.Specs {
								if id, ok := sp.(*ast.ValueSpec).Type.(*ast.Ident); ok && id.Name == got {
									nconst++
								}
							}
						}
					}
					if nconst != len(c.enum) {
						r.Violate("parameter_schema_type", fmt.Sprintf("%s: enum type %s has %d constants for %d values", label, got, nconst, len(c.enum)), replay)
					}
				}
				tcases.Add(fmt.Sprintf("(%s, %s, (Some %s))", coqT[c.t], gendoc.CoqStr(c.f), gendoc.CoqStr(under)), replay)
				if want, ok := docTable[c.t+"/"+c.f]; ok && under != want {
					r.Violate("parameter_schema_type", fmt.Sprintf("%s: rendered as %q (underlying %q), documentation says %s", label, got, under, want), replay)
				}
			}
		}
	}
	fcases.WriteTo(r)
	tcases.WriteTo(r)
	r.Exhaustive = true
	r.Rule = "exhaustive: every cell of required x nullable x readOnly x writeOnly x x-go-type-skip-optional-pointer {absent,true,false} x x-omitempty {absent,true,false} x x-go-json-ignore {absent,true,false} (432 cells) x disable-required-readonly-as-pointer x nullable-type (4 option sets) generated as one struct per option set, every field's type wrapper and json tag read back with go/parser and compared with the model in Coq and, for extension-free cells, with the documented rules; every (type, format) pair over 4 types x 23 formats incl. unknown ones vs the model's table and the documented rows; parameters of every location (path argument, member of the parameter object for query / header / cookie) over eight table rows, inline enums over three rows (the named type declared with the row's type under it, one constant per value) and a referenced enum; arrays / maps / free-form objects / $ref; x-go-name (CamelCase, snake_case and lowerCamel values), x-go-type-skip-optional-pointer through a reference / an allOf wrapper / as false on format json, x-go-type(+import) - also behind a reference (member, array items, map values, query parameter: the referenced named type, under both aliasing modes) -, x-oapi-codegen-extra-tags, x-order, x-deprecated-reason must change exactly their own component (compared on the AST); the type-alias switches (default, disable-type-aliases-for-type: [array], old-aliasing) over named array / primitive / $ref / enum / object types and an inline array request body: alias or defined type and the underlying type of every declaration; non-trivial = a cell with an extension or option"
}

// interfaceMethodParamType returns the type of the named parameter of a method of an interface type ("" if absent).
func interfaceMethodParamType(p *parsed, iface, method, param string) string {
	for _, d := range p.file.Decls {
		gd, ok := d.(*ast.GenDecl)
		if !ok {
			continue
		}
		for _, s := range gd.Specs {
			ts, ok := s.(*ast.TypeSpec)
			if !ok || ts.Name.Name != iface {
				continue
			}
			it, ok := ts.Type.(*ast.InterfaceType)
			if !ok {
				return ""
			}
			for _, m := range it.Methods.List {
				ft, ok := m.Type.(*ast.FuncType)
				if !ok || len(m.Names) != 1 || m.Names[0].Name != method {
					continue
				}
				for _, f := range ft.Params.List {
					for _, n := range f.Names {
						if n.Name == param {
							return nodeSrc(p.fset, f.Type)
						}
					}
				}
			}
		}
	}
	return ""
}
