package main

import (
	"encoding/json"
	"fmt"
	"math/rand"
	"reflect"
	"strings"

	"github.com/oapi-codegen/oapi-codegen/v2/pkg/codegen"

	"verif/harness/gendoc"
)

// checkPrunedJSON evaluates the statement of C15 on a pruned document given as decoded JSON:
// no dangling local reference, nothing unreferenced survives (security schemes exempt).
func checkPrunedJSON(root map[string]any) (dangling []string, unreferenced []string) {
	var refs []string
	gendoc.JSONRefs(root, &refs)
	present := map[string]bool{}
	for _, k := range gendoc.JSONCompKeys(root) {
		present[k] = true
	}
	refset := map[string]bool{}
	for _, r := range refs {
		refset[r] = true
		if strings.HasPrefix(r, "#/components/") && !present[r] {
			dangling = append(dangling, r)
		}
	}
	for k := range present {
		if strings.HasPrefix(k, "#/components/securitySchemes/") {
			continue
		}
		if !refset[k] {
			unreferenced = append(unreferenced, k)
		}
	}
	return
}

func runC15(r *Report, rng *rand.Rand, n int, enumerate bool) {
	cases := NewCases("cases_C15", "From V Require Import Model.Prune Corr.Eval.", "doc * list string", "mismatches_prune")
	opts := gendoc.GenOpts{MaxComps: 3, MaxPaths: 2, MaxDepth: 2, RefProb: 0.5}
	var docs []*gendoc.Doc
	if enumerate {
		docs = gendoc.EnumerateGraphs(3, 4)
		r.Exhaustive = true
		r.Notes = append(r.Notes, fmt.Sprintf("enumerated all %d reference graphs with <=3 components and <=4 edges over the position alphabet", len(docs)))
	}
	for i := 0; i < n; i++ {
		d, dist := gendoc.Generate(rng, opts)
		r.AddDist(dist)
		docs = append(docs, d)
	}
	// chains of components in which every link is referred to by the previous one only: an unanchored chain of k links needs
	// k+1 rounds of the pruning loop (one link becomes an orphan per round), an anchored one is kept entirely
	chainLens := []int{1, 2, 3, 5, 8, 9, 10, 11, 12, 13, 16, 21, 34}
	if enumerate {
		for k := 1; k <= 48; k++ {
			chainLens = append(chainLens, k)
		}
		chainLens = append(chainLens, 64, 100, 150)
	}
	for _, k := range chainLens {
		docs = append(docs, gendoc.Chain(rng, k, false, false))
		r.Dist["orphan_chain"]++
		r.Dist[fmt.Sprintf("orphan_chain_len>10=%v", k > 10)]++
		if k%3 == 0 {
			docs = append(docs, gendoc.Chain(rng, k, true, false))
			r.Dist["anchored_chain"]++
		}
	}
	for i, d := range docs {
		data := d.JSON()
		spec, err := loadSpec(data)
		if err != nil {
			r.Dist["load_error"]++
			r.Notes = append(r.Notes, "load error: "+err.Error())
			continue
		}
		before := specJSON(spec)
		codegen.VerifPruneUnusedComponents(spec)
		after := specJSON(spec)
		kept := compKeysOf(spec)
		keptSet := map[string]bool{}
		for _, k := range kept {
			keptSet[k] = true
		}
		// observed keys in the order of d.Comps
		var observed []string
		for _, c := range d.Comps {
			if keptSet[c.Ref()] {
				observed = append(observed, c.Ref())
			}
		}
		replay := map[string]any{"spec": json.RawMessage(data), "observed_components": kept}
		cases.Add(fmt.Sprintf("(%s, %s)", d.Coq(), gendoc.CoqStrList(observed)), replay)

		removed := len(d.Comps) - len(kept)
		r.Count(string(data), removed > 0 && len(kept) > 0)
		r.Dist[fmt.Sprintf("removed=%d", min(removed, 6))]++
		if i < 2 {
			r.Sample(map[string]any{"components": d.CompKeys(), "kept": kept})
		}

		// --- property oracle on the implementation
		if !reflect.DeepEqual(before["paths"], after["paths"]) {
			r.Violate("paths_changed", "pruning changed the paths object", replay)
		}
		dangling, unref := checkPrunedJSON(after)
		if len(dangling) > 0 {
			r.Violate("dangling_ref", fmt.Sprintf("pruned document refers to removed components %v", dangling), replay)
		}
		if len(unref) > 0 {
			r.Violate("unreferenced_kept", fmt.Sprintf("components kept though nothing retained refers to them: %v", unref), replay)
		}
		reach := gendoc.Reachable(d)
		for _, c := range d.Comps {
			if reach[c.Ref()] && !keptSet[c.Ref()] {
				r.Violate("reachable_removed", "component reachable from an operation was removed: "+c.Ref(), replay)
			}
		}
		if want := sortedCopy(gendoc.SpecPrune(d).CompKeys()); !eqStrings(want, kept) {
			r.Violate("not_greatest_fixpoint", fmt.Sprintf("kept %v, specification keeps %v", kept, want), replay)
		}
		codegen.VerifPruneUnusedComponents(spec)
		if again := specJSON(spec); !reflect.DeepEqual(after, again) {
			r.Violate("not_idempotent", "pruning the pruned document changed it", replay)
		}
	}
	// ---- the whole generation (filters, then pruning, then the embedded specification): what the output embeds must be a
	// pruned document - no dangling reference, nothing that no retained operation reaches, a second pruning changes nothing
	nE2E := n / 6
	for i := 0; i < nE2E; i++ {
		d, _ := gendoc.Generate(rng, tameOpts())
		if i%5 == 4 {
			// a long chain of schemas behind an operation that the filter may remove: one pruning round per link
			d = gendoc.Chain(rng, 3+rng.Intn(30), true, true)
			r.Dist["end_to_end_chain"]++
		}
		fc := randFilterCfg(rng, d)
		fc.SkipPrune = false
		if i%5 == 4 && i%2 == 0 {
			fc.IncludeTags, fc.ExcludeTags, fc.IncludeIDs, fc.ExcludeIDs = nil, []string{"a"}, nil, nil
		} else if i%2 == 0 && len(d.OpKeys()) > 0 {
			// operations removed by their id
			var ids []string
			for _, p := range d.Paths {
				for _, o := range p.Ops {
					ids = append(ids, o.ID)
				}
			}
			fc.IncludeTags, fc.ExcludeTags, fc.IncludeIDs = nil, nil, nil
			fc.ExcludeIDs = randSubset(rng, ids, 2)
			if i%4 == 0 {
				fc.IncludeIDs, fc.ExcludeIDs = randSubset(rng, ids, 2), nil
			}
		}
		data := d.JSON()
		replay := map[string]any{"spec": json.RawMessage(data), "filter": fc, "end_to_end": true}
		code, err := generate(data, cfgOf(fc))
		if err != nil {
			r.Dist["e2e_generate_error"]++
			continue
		}
		p, err := parseGo(code)
		if err != nil {
			continue
		}
		parts, ok := p.swaggerSpecLiteral()
		if !ok {
			continue
		}
		root, _, err := decodeEmbedded(parts)
		if err != nil {
			continue
		}
		want := gendoc.SpecPrune(gendoc.SpecFilter(d, fc))
		r.Count("e2e/"+string(data)+fmt.Sprint(fc), len(want.CompKeys()) < len(d.Comps) && len(want.CompKeys()) > 0)
		r.Dist["end_to_end_with_filters"]++
		dangling, unref := checkPrunedJSON(root)
		if len(dangling) > 0 {
			r.Violate("dangling_ref", fmt.Sprintf("end to end (filters %+v): the embedded document refers to removed components %v", fc, dangling), replay)
		}
		if len(unref) > 0 {
			r.Violate("unreferenced_kept", fmt.Sprintf("end to end (filters %+v): components kept though nothing retained refers to them: %v", fc, unref), replay)
		}
		if rb, err := json.Marshal(root); err == nil {
			if spec2, err := loadSpec(rb); err == nil {
				before := compKeysOf(spec2)
				codegen.VerifPruneUnusedComponents(spec2)
				if after := compKeysOf(spec2); !eqStrings(sortedCopy(before), sortedCopy(after)) {
					r.Violate("not_idempotent", fmt.Sprintf("end to end (filters %+v): pruning the embedded document again removes components: %v -> %v", fc, before, after), replay)
				}
			}
		}
	}
	cases.WriteTo(r)
	r.Rule = "documents drawn from the reference-position grammar (every component kind; refs from properties, items, additionalProperties, allOf/oneOf/anyOf/not, parameter schema/content/examples, body and response content, response headers/links, callbacks, path-level parameters); end to end: tame documents generated with tag / operation-id filters and pruning, the embedded specification decoded from the output must have no dangling reference, no unreferenced component, and be a fixed point of pruning; distinct = distinct JSON text; non-trivial = pruning removed at least one component and kept at least one"
}
