module verif/harness

go 1.22

replace github.com/oapi-codegen/oapi-codegen/v2 => /repo

require (
	github.com/getkin/kin-openapi v0.125.0
	github.com/gin-gonic/gin v1.9.1
	github.com/go-chi/chi/v5 v5.0.10
	github.com/gofiber/fiber/v2 v2.49.1
	github.com/gorilla/mux v1.8.1
	github.com/kataras/iris/v12 v12.2.6-0.20230908161203-24ba4e8933b9
	github.com/labstack/echo/v4 v4.11.3
	github.com/oapi-codegen/nullable v1.0.1
	github.com/oapi-codegen/oapi-codegen/v2 v2.0.0-00010101000000-000000000000
	github.com/oapi-codegen/runtime v1.1.0
	github.com/oapi-codegen/testutil v1.0.0
	github.com/stretchr/testify v1.9.0
	golang.org/x/tools v0.21.0
	gopkg.in/yaml.v2 v2.4.0
)

require (
	github.com/BurntSushi/toml v1.3.2 // indirect
	github.com/CloudyKit/fastprinter v0.0.0-20200109182630-33d98a066a53 // indirect
	github.com/CloudyKit/jet/v6 v6.2.0 // indirect
	github.com/Joker/jade v1.1.3 // indirect
	github.com/Shopify/goreferrer v0.0.0-20220729165902-8cddb4f5de06 // indirect
	github.com/andybalholm/brotli v1.0.5 // indirect
	github.com/apapsch/go-jsonmerge/v2 v2.0.0 // indirect
	github.com/aymerick/douceur v0.2.0 // indirect
	github.com/bytedance/sonic v1.10.0-rc3 // indirect
	github.com/chenzhuoyu/base64x v0.0.0-20230717121745-296ad89f973d // indirect
	github.com/chenzhuoyu/iasm v0.9.0 // indirect
	github.com/davecgh/go-spew v1.1.1 // indirect
	github.com/fatih/structs v1.1.0 // indirect
	github.com/flosch/pongo2/v4 v4.0.2 // indirect
	github.com/gabriel-vasile/mimetype v1.4.2 // indirect
	github.com/gin-contrib/sse v0.1.0 // indirect
	github.com/go-openapi/jsonpointer v0.20.2 // indirect
	github.com/go-openapi/swag v0.22.8 // indirect
	github.com/go-playground/locales v0.14.1 // indirect
	github.com/go-playground/universal-translator v0.18.1 // indirect
	github.com/go-playground/validator/v10 v10.14.1 // indirect
	github.com/goccy/go-json v0.10.2 // indirect
	github.com/golang-jwt/jwt v3.2.2+incompatible // indirect
	github.com/golang/snappy v0.0.4 // indirect
	github.com/gomarkdown/markdown v0.0.0-20230716120725-531d2d74bc12 // indirect
	github.com/google/uuid v1.4.0 // indirect
	github.com/gorilla/css v1.0.0 // indirect
	github.com/invopop/yaml v0.2.0 // indirect
	github.com/iris-contrib/schema v0.0.6 // indirect
	github.com/josharian/intern v1.0.0 // indirect
	github.com/json-iterator/go v1.1.12 // indirect
	github.com/kataras/blocks v0.0.7 // indirect
	github.com/kataras/golog v0.1.9 // indirect
	github.com/kataras/pio v0.0.12 // indirect
	github.com/kataras/sitemap v0.0.6 // indirect
	github.com/kataras/tunnel v0.0.4 // indirect
	github.com/klauspost/compress v1.16.7 // indirect
	github.com/klauspost/cpuid/v2 v2.2.5 // indirect
	github.com/labstack/gommon v0.4.0 // indirect
	github.com/leodido/go-urn v1.2.4 // indirect
	github.com/mailgun/raymond/v2 v2.0.48 // indirect
	github.com/mailru/easyjson v0.7.7 // indirect
	github.com/mattn/go-colorable v0.1.13 // indirect
	github.com/mattn/go-isatty v0.0.19 // indirect
	github.com/mattn/go-runewidth v0.0.15 // indirect
	github.com/microcosm-cc/bluemonday v1.0.25 // indirect
	github.com/modern-go/concurrent v0.0.0-20180306012644-bacd9c7ef1dd // indirect
	github.com/modern-go/reflect2 v1.0.2 // indirect
	github.com/mohae/deepcopy v0.0.0-20170929034955-c48cc78d4826 // indirect
	github.com/pelletier/go-toml/v2 v2.0.9 // indirect
	github.com/perimeterx/marshmallow v1.1.5 // indirect
	github.com/pmezard/go-difflib v1.0.0 // indirect
	github.com/rivo/uniseg v0.4.4 // indirect
	github.com/russross/blackfriday/v2 v2.1.0 // indirect
	github.com/schollz/closestmatch v2.1.0+incompatible // indirect
	github.com/sirupsen/logrus v1.8.1 // indirect
	github.com/stretchr/objx v0.5.2 // indirect
	github.com/tdewolff/minify/v2 v2.12.9 // indirect
	github.com/tdewolff/parse/v2 v2.6.8 // indirect
	github.com/twitchyliquid64/golang-asm v0.15.1 // indirect
	github.com/ugorji/go/codec v1.2.11 // indirect
	github.com/valyala/bytebufferpool v1.0.0 // indirect
	github.com/valyala/fasthttp v1.49.0 // indirect
	github.com/valyala/fasttemplate v1.2.2 // indirect
	github.com/valyala/tcplisten v1.0.0 // indirect
	github.com/vmihailenco/msgpack/v5 v5.3.5 // indirect
	github.com/vmihailenco/tagparser/v2 v2.0.0 // indirect
	github.com/yosssi/ace v0.0.5 // indirect
	golang.org/x/arch v0.4.0 // indirect
	golang.org/x/crypto v0.23.0 // indirect
	golang.org/x/mod v0.17.0 // indirect
	golang.org/x/net v0.25.0 // indirect
	golang.org/x/sys v0.20.0 // indirect
	golang.org/x/text v0.15.0 // indirect
	golang.org/x/time v0.3.0 // indirect
	google.golang.org/protobuf v1.31.0 // indirect
	gopkg.in/ini.v1 v1.67.0 // indirect
	gopkg.in/yaml.v3 v3.0.1 // indirect
)
