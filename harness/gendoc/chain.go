package gendoc

import (
	"fmt"
	"math/rand"
)

// Chain builds a document whose components form a chain N00 -> N01 -> ... of the given length: each link is a schema
// that refers to the next one from a position drawn from the schema positions; the head is optionally wrapped by a
// component of another kind (response, request body, parameter, header) that refers to the first schema. When anchored,
// an operation refers to the head and everything is retained; otherwise nothing refers to the head and the pruning loop
// needs one round per link (the walker also collects the references made by components that are orphans themselves).
// The declaration order of the components is shuffled, so removal order is not declaration order. Tame: the document is
// one Generate accepts.
func Chain(r *rand.Rand, length int, anchored bool, tame bool) *Doc {
	d := &Doc{}
	name := func(i int) string { return fmt.Sprintf("N%02d", i) }
	var comps []*Component
	for i := 0; i < length; i++ {
		v := &Val{Fields: map[string]any{"type": "object"}}
		if i+1 < length {
			next := &Node{Kind: "schemas", Ref: "#/components/schemas/" + name(i+1)}
			switch r.Intn(3) {
			case 0:
				v.Kids = append(v.Kids, Kid{Path: []string{"properties", "next"}, Node: next, Pos: "schema.properties"})
			case 1:
				v.Kids = append(v.Kids, Kid{Path: []string{"additionalProperties"}, Node: next, Pos: "schema.additionalProperties"})
			default:
				v.Fields["type"] = "array"
				v.Kids = append(v.Kids, Kid{Path: []string{"items"}, Node: next, Pos: "schema.items"})
			}
		} else {
			v.Fields["properties"] = map[string]any{"leaf": map[string]any{"type": "string"}}
		}
		comps = append(comps, &Component{Kind: "schemas", Name: name(i), Body: &Node{Kind: "schemas", Val: v}})
	}
	head := &Node{Kind: "schemas", Ref: "#/components/schemas/" + name(0)}
	opKid := Kid{Path: []string{"responses", "200"}, Pos: "operation.responses",
		Node: &Node{Kind: "responses", Val: &Val{Fields: map[string]any{"description": "d"}}}}
	var extra []Kid
	switch r.Intn(4) {
	case 0: // a response component in front of the chain
		rv := &Val{Fields: map[string]any{"description": "d"}, Kids: []Kid{{Path: []string{"content", "application/json", "schema"}, Node: head, Pos: "response.content.schema"}}}
		comps = append(comps, &Component{Kind: "responses", Name: "RHead", Body: &Node{Kind: "responses", Val: rv}})
		if anchored {
			extra = append(extra, Kid{Path: []string{"responses", "201"}, Pos: "operation.responses", Node: &Node{Kind: "responses", Ref: "#/components/responses/RHead"}})
		}
	case 1: // a request body component in front of the chain
		bv := &Val{Fields: map[string]any{}, Kids: []Kid{{Path: []string{"content", "application/json", "schema"}, Node: head, Pos: "requestBody.content.schema"}}}
		comps = append(comps, &Component{Kind: "requestBodies", Name: "BHead", Body: &Node{Kind: "requestBodies", Val: bv}})
		if anchored {
			extra = append(extra, Kid{Path: []string{"requestBody"}, Pos: "operation.requestBody", Node: &Node{Kind: "requestBodies", Ref: "#/components/requestBodies/BHead"}})
		}
	default: // the operation (if any) refers to the head schema directly
		if anchored {
			opKid.Node.Val.Kids = []Kid{{Path: []string{"content", "application/json", "schema"}, Node: head, Pos: "response.content.schema"}}
		}
	}
	r.Shuffle(len(comps), func(i, j int) { comps[i], comps[j] = comps[j], comps[i] })
	// components are rendered kind by kind: keep d.Comps in the order of Kinds
	for _, k := range Kinds {
		for _, c := range comps {
			if c.Kind == k {
				d.Comps = append(d.Comps, c)
			}
		}
	}
	op := &Operation{Method: "get", ID: "op0", Fields: map[string]any{}, Kids: append([]Kid{opKid}, extra...)}
	if tame {
		op.Tags = []string{"a"}
	}
	d.Paths = []*PathItem{{Path: "/p0", Ops: []*Operation{op}}}
	return d
}
