package gendoc

import "fmt"

// posDef is one reference position of the alphabet: where it sits below a value of
// the source kind, and the kind of thing referenced.
type posDef struct {
	Name   string
	Target string
	Multi  bool     // may occur several times below one source (map / list position)
	Path   []string // %d is replaced by the occurrence index for Multi positions
}

var posAlphabet = map[string][]posDef{
	"root": {
		{"operation.parameters", "parameters", true, []string{"parameters", "%d"}},
		{"operation.requestBody", "requestBodies", false, []string{"requestBody"}},
		{"operation.responses", "responses", true, []string{"responses", "20%d"}},
		{"operation.callbacks", "callbacks", true, []string{"callbacks", "cb%d"}},
		{"pathItem.parameters", "parameters", true, nil},
	},
	"schemas": {
		{"schema.properties", "schemas", true, []string{"properties", "p%d"}},
		{"schema.items", "schemas", false, []string{"items"}},
		{"schema.additionalProperties", "schemas", false, []string{"additionalProperties"}},
		{"schema.allOf", "schemas", true, []string{"allOf", "%d"}},
		{"schema.oneOf", "schemas", true, []string{"oneOf", "%d"}},
		{"schema.anyOf", "schemas", true, []string{"anyOf", "%d"}},
		{"schema.not", "schemas", false, []string{"not"}},
	},
	"parameters": {
		{"parameter.schema", "schemas", false, []string{"schema"}},
		{"parameter.content.schema", "schemas", false, []string{"content", "application/json", "schema"}},
		{"parameter.examples", "examples", true, []string{"examples", "e%d"}},
		{"parameter.content.examples", "examples", true, []string{"content", "application/json", "examples", "e%d"}},
	},
	"headers": {
		{"header.schema", "schemas", false, []string{"schema"}},
	},
	"requestBodies": {
		{"requestBody.content.schema", "schemas", false, []string{"content", "application/json", "schema"}},
		{"requestBody.content.examples", "examples", true, []string{"content", "application/json", "examples", "e%d"}},
	},
	"responses": {
		{"response.headers", "headers", true, []string{"headers", "X-H%d"}},
		{"response.content.schema", "schemas", false, []string{"content", "application/json", "schema"}},
		{"response.content.examples", "examples", true, []string{"content", "application/json", "examples", "e%d"}},
		{"response.links", "links", true, []string{"links", "l%d"}},
	},
	"callbacks": {
		{"callback.parameters", "parameters", true, []string{"{$request.body#/url}", "parameters", "%d"}},
		{"callback.operation.parameters", "parameters", true, []string{"{$request.body#/url}", "post", "parameters", "%d"}},
		{"callback.operation.requestBody", "requestBodies", false, []string{"{$request.body#/url}", "post", "requestBody"}},
		{"callback.operation.responses", "responses", true, []string{"{$request.body#/url}", "post", "responses", "20%d"}},
	},
}

// PositionNames lists the alphabet, for evidence.
func PositionNames() []string {
	var out []string
	for _, k := range append([]string{"root"}, Kinds...) {
		for _, p := range posAlphabet[k] {
			out = append(out, p.Name)
		}
	}
	return out
}

type edge struct {
	src int // -1 = root
	pos posDef
	dst int
}

func baseFields(kind string) map[string]any {
	switch kind {
	case "schemas":
		return map[string]any{}
	case "parameters":
		return map[string]any{"name": "q", "in": "query"}
	case "responses":
		return map[string]any{"description": "d"}
	case "examples":
		return map[string]any{"value": 1}
	case "links":
		return map[string]any{"operationId": "op0"}
	case "securitySchemes":
		return map[string]any{"type": "http", "scheme": "basic"}
	}
	return map[string]any{}
}

func buildDoc(kinds []string, edges []edge) *Doc {
	d := &Doc{}
	prefix := map[string]string{"schemas": "S", "parameters": "P", "securitySchemes": "Sec", "requestBodies": "B", "responses": "R", "headers": "H", "examples": "E", "links": "L", "callbacks": "C"}
	for i, k := range kinds {
		d.Comps = append(d.Comps, &Component{Kind: k, Name: fmt.Sprintf("%s%d", prefix[k], i),
			Body: &Node{Kind: k, Val: &Val{Fields: baseFields(k)}}})
	}
	op := &Operation{Method: "get", ID: "op0", Fields: map[string]any{}}
	p := &PathItem{Path: "/p0", Ops: []*Operation{op}}
	d.Paths = []*PathItem{p}
	occ := map[string]int{}
	for _, e := range edges {
		ref := &Node{Kind: e.pos.Target, Ref: d.Comps[e.dst].Ref()}
		key := fmt.Sprintf("%d/%s", e.src, e.pos.Name)
		n := occ[key]
		occ[key]++
		if e.src == -1 && e.pos.Path == nil {
			p.Params = append(p.Params, ref)
			continue
		}
		path := make([]string, len(e.pos.Path))
		for i, s := range e.pos.Path {
			if s == "%d" || s == "p%d" || s == "e%d" || s == "l%d" || s == "20%d" || s == "cb%d" || s == "X-H%d" {
				path[i] = fmt.Sprintf(s, n)
			} else {
				path[i] = s
			}
		}
		kid := Kid{Path: path, Node: ref, Pos: e.pos.Name}
		if e.src == -1 {
			op.Kids = append(op.Kids, kid)
		} else {
			d.Comps[e.src].Body.Val.Kids = append(d.Comps[e.src].Body.Val.Kids, kid)
		}
	}
	for _, c := range d.Comps {
		// a callback needs an operation object with responses to be loadable
		if c.Kind == "callbacks" {
			has := false
			for _, k := range c.Body.Val.Kids {
				if len(k.Path) > 2 && k.Path[2] == "responses" {
					has = true
				}
			}
			if !has {
				c.Body.Val.Fields["{$request.body#/url}"] = map[string]any{"post": map[string]any{"responses": map[string]any{"default": map[string]any{"description": "d"}}}}
			}
		}
	}
	fixParamNames(d)
	return d
}

// EnumerateGraphs returns every reference graph with at most maxComps components
// (any kinds, as a non-decreasing kind sequence) and at most maxEdges reference edges,
// each edge going from the single operation or from a component, through one position
// of the alphabet, to a component of the kind that position refers to. Graphs with a
// component that no edge touches are skipped except for the one-component graphs.
func EnumerateGraphs(maxComps, maxEdges int) []*Doc {
	var out []*Doc
	var kindSeqs [][]string
	var rec func(start int, cur []string)
	rec = func(start int, cur []string) {
		if len(cur) > 0 {
			kindSeqs = append(kindSeqs, append([]string(nil), cur...))
		}
		if len(cur) == maxComps {
			return
		}
		for i := start; i < len(Kinds); i++ {
			rec(i, append(cur, Kinds[i]))
		}
	}
	rec(0, nil)
	for _, ks := range kindSeqs {
		// candidate edges
		var cands []edge
		for src := -1; src < len(ks); src++ {
			sk := "root"
			if src >= 0 {
				sk = ks[src]
			}
			for _, pd := range posAlphabet[sk] {
				for dst, dk := range ks {
					if dk == pd.Target {
						cands = append(cands, edge{src, pd, dst})
					}
				}
			}
		}
		var choose func(start int, cur []edge)
		choose = func(start int, cur []edge) {
			if ok(ks, cur) {
				out = append(out, buildDoc(ks, cur))
			}
			if len(cur) == maxEdges {
				return
			}
			for i := start; i < len(cands); i++ {
				// single-valued positions occur once per source
				if !cands[i].pos.Multi {
					dup := false
					for _, e := range cur {
						if e.src == cands[i].src && e.pos.Name == cands[i].pos.Name {
							dup = true
						}
					}
					if dup {
						continue
					}
				}
				choose(i+1, append(cur, cands[i]))
			}
		}
		choose(0, nil)
	}
	return out
}

func ok(ks []string, es []edge) bool {
	if len(ks) == 1 {
		return true
	}
	touched := make([]bool, len(ks))
	for _, e := range es {
		if e.src >= 0 {
			touched[e.src] = true
		}
		touched[e.dst] = true
	}
	for _, t := range touched {
		if !t {
			return false
		}
	}
	return true
}
