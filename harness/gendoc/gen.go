package gendoc

import (
	"fmt"
	"math/rand"
	"strings"
)

// GenOpts steers the random document generator.
type GenOpts struct {
	Tame      bool // only constructs codegen.Generate accepts
	MaxComps  int  // per kind
	MaxPaths  int
	MaxDepth  int
	RefProb   float64
	Tags      []string
	KindsUsed []string // nil = all
}

var methods = []string{"get", "put", "post", "delete", "options", "head", "patch", "trace", "connect"}

type gen struct {
	r     *rand.Rand
	o     GenOpts
	names map[string][]string // kind -> component names
	cur   struct {
		kind string
		idx  int
	}
	PosCount map[string]int
}

func (g *gen) pick(l []string) string { return l[g.r.Intn(len(l))] }

// node returns a ref to a random component of the kind (if allowed and any) or an inline value.
func (g *gen) node(kind string, depth int, pos string, lowerOnly bool) *Node {
	names := g.names[kind]
	if g.o.Tame && kind == "schemas" && g.cur.kind == "schemas" {
		// kin-openapi v0.125 loads documents with cyclic schema references only for some map
		// iteration orders ("circular schema reference not handled"); tame documents are acyclic
		lowerOnly = true
	}
	if kind == "callbacks" && g.cur.kind == "callbacks" {
		// kin-openapi's loader recurses without bound on cyclic callbacks (fatal stack overflow)
		lowerOnly = true
	}
	if lowerOnly && g.cur.kind == kind {
		if g.cur.idx < len(names) {
			names = names[:g.cur.idx]
		}
	}
	if len(names) > 0 && (depth >= g.o.MaxDepth || g.r.Float64() < g.o.RefProb) {
		g.PosCount[pos+":ref"]++
		return &Node{Kind: kind, Ref: "#/components/" + kind + "/" + g.pick(names)}
	}
	g.PosCount[pos+":inline"]++
	return &Node{Kind: kind, Val: g.inline(kind, depth+1)}
}

func (g *gen) kid(v *Val, path []string, kind string, depth int, pos string, lowerOnly bool) {
	v.Kids = append(v.Kids, Kid{Path: path, Node: g.node(kind, depth, pos, lowerOnly), Pos: pos})
}

var primTypes = []map[string]any{
	{"type": "string"}, {"type": "integer"}, {"type": "boolean"}, {"type": "number"},
	{"type": "string", "format": "date"}, {"type": "integer", "format": "int64"},
}

func (g *gen) inline(kind string, depth int) *Val {
	v := &Val{Fields: map[string]any{}}
	deep := depth >= g.o.MaxDepth
	switch kind {
	case "schemas":
		choice := g.r.Intn(9)
		if deep {
			choice = 0
		}
		switch choice {
		case 0, 1: // primitive
			for k, x := range primTypes[g.r.Intn(len(primTypes))] {
				v.Fields[k] = x
			}
		case 2, 3: // object with properties (the type keyword may be left out: properties alone make it an object)
			if g.r.Intn(4) != 0 {
				v.Fields["type"] = "object"
			}
			n := 1 + g.r.Intn(3)
			for i := 0; i < n; i++ {
				g.kid(v, []string{"properties", fmt.Sprintf("p%d", i)}, "schemas", depth, "schema.properties", false)
			}
			if g.r.Intn(3) == 0 {
				g.kid(v, []string{"additionalProperties"}, "schemas", depth, "schema.additionalProperties", false)
			}
		case 4: // array
			v.Fields["type"] = "array"
			g.kid(v, []string{"items"}, "schemas", depth, "schema.items", false)
		case 5: // map
			v.Fields["type"] = "object"
			g.kid(v, []string{"additionalProperties"}, "schemas", depth, "schema.additionalProperties", false)
		case 6: // allOf
			n := 1 + g.r.Intn(2)
			for i := 0; i < n; i++ {
				if g.o.Tame {
					// members with disjoint inline objects or refs to earlier schemas
					if len(g.names["schemas"]) > 0 && g.r.Intn(2) == 0 {
						g.kid(v, []string{"allOf", fmt.Sprint(i)}, "schemas", g.o.MaxDepth, "schema.allOf", true)
						if v.Kids[len(v.Kids)-1].Node.Ref == "" {
							v.Kids[len(v.Kids)-1].Node.Val = &Val{Fields: map[string]any{"type": "object", "properties": map[string]any{fmt.Sprintf("a%d", i): map[string]any{"type": "string"}}}}
						}
					} else {
						sub := &Val{Fields: map[string]any{"type": "object"}}
						g.kid(sub, []string{"properties", fmt.Sprintf("m%d_%d", depth, i)}, "schemas", depth+1, "schema.properties", false)
						v.Kids = append(v.Kids, Kid{Path: []string{"allOf", fmt.Sprint(i)}, Node: &Node{Kind: "schemas", Val: sub}, Pos: "schema.allOf"})
						g.PosCount["schema.allOf:inline"]++
					}
				} else {
					g.kid(v, []string{"allOf", fmt.Sprint(i)}, "schemas", depth, "schema.allOf", false)
				}
			}
		case 7: // oneOf / anyOf
			key := g.pick([]string{"oneOf", "anyOf"})
			n := 1 + g.r.Intn(3)
			for i := 0; i < n; i++ {
				g.kid(v, []string{key, fmt.Sprint(i)}, "schemas", depth, "schema."+key, g.o.Tame)
			}
		case 8: // not
			v.Fields["type"] = "string"
			g.kid(v, []string{"not"}, "schemas", depth, "schema.not", g.o.Tame)
		}
	case "parameters":
		pn := g.r.Intn(1000000)
		v.Fields["name"] = fmt.Sprintf("q%d", pn)
		v.Fields["in"] = "query"
		if g.r.Intn(5) == 0 {
			// the Go name given outright, in spellings the name normalisers rewrite (lower camel, snake case, Id / ID)
			v.Fields["x-go-name"] = fmt.Sprintf([]string{"userID%d", "request_id_%d", "UserId%d", "Renamed%d", "oauth2Token%d"}[g.r.Intn(5)], pn)
			g.PosCount["parameter.x-go-name"]++
		}
		if g.r.Intn(4) == 0 {
			// a parameter described by content: JSON or any other media type (one entry)
			mt := []string{"application/json", "application/json", "application/xml", "text/plain"}[g.r.Intn(4)]
			g.kid(v, []string{"content", mt, "schema"}, "schemas", depth, "parameter.content.schema", false)
			if g.r.Intn(2) == 0 {
				g.kid(v, []string{"content", mt, "examples", "e"}, "examples", depth, "parameter.content.examples", false)
			}
		} else {
			g.kid(v, []string{"schema"}, "schemas", depth, "parameter.schema", false)
			if g.r.Intn(3) == 0 {
				g.kid(v, []string{"examples", "e"}, "examples", depth, "parameter.examples", false)
			}
		}
	case "headers":
		g.kid(v, []string{"schema"}, "schemas", depth, "header.schema", false)
	case "requestBodies":
		mts := []string{"application/json"}
		if g.r.Intn(3) == 0 {
			mts = append(mts, "text/plain")
		}
		if g.r.Intn(4) == 0 { // schema-less media type with a referenced example
			g.kid(v, []string{"content", "text/csv", "examples", "e"}, "examples", depth, "requestBody.content.examples", false)
		}
		for _, mt := range mts {
			g.kid(v, []string{"content", mt, "schema"}, "schemas", depth, "requestBody.content.schema", false)
			if g.r.Intn(3) == 0 {
				g.kid(v, []string{"content", mt, "examples", "e"}, "examples", depth, "requestBody.content.examples", false)
			}
		}
	case "responses":
		v.Fields["description"] = "d"
		if g.r.Intn(2) == 0 {
			g.kid(v, []string{"headers", "X-H"}, "headers", depth, "response.headers", false)
		}
		if g.r.Intn(4) != 0 {
			g.kid(v, []string{"content", "application/json", "schema"}, "schemas", depth, "response.content.schema", false)
			if g.r.Intn(3) == 0 {
				g.kid(v, []string{"content", "application/json", "examples", "e"}, "examples", depth, "response.content.examples", false)
			}
		}
		if g.r.Intn(4) == 0 {
			// a media type documented by a referenced example only (no schema): text/csv, text/plain, XML bodies
			g.kid(v, []string{"content", "text/csv", "examples", "e"}, "examples", depth, "response.content.examples", false)
		}
		if g.r.Intn(3) == 0 {
			g.kid(v, []string{"links", "l"}, "links", depth, "response.links", false)
		}
	case "examples":
		v.Fields["value"] = g.r.Intn(100)
	case "links":
		v.Fields["operationId"] = "nop"
	case "securitySchemes":
		v.Fields["type"] = "http"
		v.Fields["scheme"] = "basic"
	case "callbacks":
		expr := "{$request.body#/url}"
		m := g.pick([]string{"post", "get", "put"})
		if g.r.Intn(2) == 0 {
			g.kid(v, []string{expr, "parameters", "0"}, "parameters", depth, "callback.parameters", false)
		}
		g.opKids(func(path []string, kind string, pos string) {
			g.kid(v, append([]string{expr, m}, path...), kind, depth, "callback."+pos, false)
		}, g.o.Tame || depth >= g.o.MaxDepth-1)
	}
	return v
}

// opKids adds the reference positions of an operation.
func (g *gen) opKids(add func(path []string, kind, pos string), noCallbacks bool) {
	n := g.r.Intn(3)
	for i := 0; i < n; i++ {
		add([]string{"parameters", fmt.Sprint(i)}, "parameters", "operation.parameters")
	}
	if g.r.Intn(2) == 0 {
		add([]string{"requestBody"}, "requestBodies", "operation.requestBody")
	}
	codes := []string{"200"}
	if g.r.Intn(2) == 0 {
		codes = append(codes, "default")
	}
	if g.r.Intn(4) == 0 {
		codes = append(codes, "404")
	}
	for _, c := range codes {
		add([]string{"responses", c}, "responses", "operation.responses")
	}
	if !noCallbacks && g.r.Intn(4) == 0 {
		add([]string{"callbacks", "cb"}, "callbacks", "operation.callbacks")
	}
}

// Generate draws one document.
func Generate(r *rand.Rand, o GenOpts) (*Doc, map[string]int) {
	g := &gen{r: r, o: o, names: map[string][]string{}, PosCount: map[string]int{}}
	kinds := o.KindsUsed
	if kinds == nil {
		kinds = Kinds
	}
	prefix := map[string]string{"schemas": "S", "parameters": "P", "securitySchemes": "Sec", "requestBodies": "B", "responses": "R", "headers": "H", "examples": "E", "links": "L", "callbacks": "C"}
	chain := r.Intn(2) == 0
	for _, k := range kinds {
		n := r.Intn(o.MaxComps + 1)
		if k == "schemas" && n == 0 {
			n = 1
		}
		// half of the documents name their components so that each name is a proper prefix of the next ones
		// (S, Sx, Sxx ...): references are compared as whole strings, never by prefix
		for i := 0; i < n; i++ {
			if chain {
				g.names[k] = append(g.names[k], prefix[k]+strings.Repeat("x", i))
			} else {
				g.names[k] = append(g.names[k], fmt.Sprintf("%s%d", prefix[k], i))
			}
		}
	}
	d := &Doc{}
	for _, k := range Kinds {
		for i, name := range g.names[k] {
			g.cur.kind, g.cur.idx = k, i
			var body *Node
			if !o.Tame && i > 0 && r.Intn(10) == 0 {
				// a component that is itself a reference to an earlier one of its kind
				body = &Node{Kind: k, Ref: "#/components/" + k + "/" + g.names[k][r.Intn(i)]}
				g.PosCount["component:ref"]++
			} else {
				body = &Node{Kind: k, Val: g.inline(k, 0)}
			}
			d.Comps = append(d.Comps, &Component{Kind: k, Name: name, Body: body})
		}
	}
	g.cur.kind = ""
	np := 1 + r.Intn(o.MaxPaths)
	opn := 0
	for i := 0; i < np; i++ {
		p := &PathItem{Path: fmt.Sprintf("/p%d", i)}
		if r.Intn(3) == 0 {
			p.Params = append(p.Params, g.node("parameters", 0, "pathItem.parameters", false))
		}
		perm := r.Perm(len(methods))
		nm := 1 + r.Intn(3)
		if len(p.Params) > 0 && r.Intn(4) == 0 {
			nm = 0 // a path item that only has parameters: they are still references of the document
			g.PosCount["pathItem:no-operations"]++
		}
		ms := make([]string, 0, nm)
		for _, j := range perm[:nm] {
			ms = append(ms, methods[j])
		}
		for _, m := range ms {
			op := &Operation{Method: m, ID: fmt.Sprintf("op%d", opn), Fields: map[string]any{}}
			opn++
			nt := r.Intn(4)
			if len(o.Tags) > 0 {
				seen := map[string]bool{}
				for t := 0; t < nt; t++ {
					tag := g.pick(o.Tags)
					if !seen[tag] {
						seen[tag] = true
						op.Tags = append(op.Tags, tag)
					}
				}
			}
			g.opKids(func(path []string, kind, pos string) {
				op.Kids = append(op.Kids, Kid{Path: path, Node: g.node(kind, 0, pos, false), Pos: pos})
			}, false)
			p.Ops = append(p.Ops, op)
		}
		d.Paths = append(d.Paths, p)
	}
	if len(o.Tags) > 0 && r.Intn(2) == 0 {
		// a tags section that declares only some of the tags in use (and possibly one nobody uses)
		for _, t := range o.Tags {
			if r.Intn(2) == 0 {
				d.TagsSection = append(d.TagsSection, t)
			}
		}
		if r.Intn(3) == 0 {
			d.TagsSection = append(d.TagsSection, "declared-only")
		}
		g.PosCount["document:tags-section"]++
	}
	fixParamNames(d)
	if o.Tame {
		dedupeParams(d)
	}
	return d, g.PosCount
}

// dedupeParams drops repeated references to one parameter component within an operation
// (and between an operation and its path item): the generator rejects duplicates.
func dedupeParams(d *Doc) {
	for _, p := range d.Paths {
		seenPath := map[string]bool{}
		var pp []*Node
		for _, n := range p.Params {
			if n.Ref != "" && seenPath[n.Ref] {
				continue
			}
			seenPath[n.Ref] = true
			pp = append(pp, n)
		}
		p.Params = pp
		for _, o := range p.Ops {
			seen := map[string]bool{}
			for k := range seenPath {
				seen[k] = true
			}
			var kids []Kid
			idx := 0
			for _, k := range o.Kids {
				if k.Pos == "operation.parameters" {
					if k.Node.Ref != "" && seen[k.Node.Ref] {
						continue
					}
					seen[k.Node.Ref] = true
					k.Path = []string{"parameters", fmt.Sprint(idx)}
					idx++
				}
				kids = append(kids, k)
			}
			o.Kids = kids
		}
	}
}

// fixParamNames makes inline parameter names unique per document (duplicate query
// parameters within one operation are invalid OpenAPI).
func fixParamNames(d *Doc) {
	n := 0
	var walk func(nd *Node)
	walk = func(nd *Node) {
		if nd.Ref != "" {
			return
		}
		if nd.Kind == "parameters" {
			nd.Val.Fields["name"] = fmt.Sprintf("q%d", n)
			n++
		}
		for _, k := range nd.Val.Kids {
			walk(k.Node)
		}
	}
	for _, c := range d.Comps {
		walk(c.Body)
	}
	for _, p := range d.Paths {
		for _, nd := range p.Params {
			walk(nd)
		}
		for _, o := range p.Ops {
			for _, k := range o.Kids {
				walk(k.Node)
			}
		}
	}
}
