// Package gendoc generates OpenAPI documents as an abstract reference tree
// (the positions in which a $ref may occur), renders them to JSON for the
// implementation and to Gallina terms for the Coq model, and carries an
// independent Go rendering of the filter/prune specification used as oracle.
package gendoc

import (
	"encoding/json"
	"fmt"
	"math/rand"
	"sort"
	"strconv"
	"strings"
	"unicode/utf8"
)

// Kinds of components, in the spelling of the components object.
var Kinds = []string{"schemas", "parameters", "securitySchemes", "requestBodies", "responses", "headers", "examples", "links", "callbacks"}

var CoqKind = map[string]string{
	"schemas": "KSchemas", "parameters": "KParameters", "securitySchemes": "KSecuritySchemes",
	"requestBodies": "KRequestBodies", "responses": "KResponses", "headers": "KHeaders",
	"examples": "KExamples", "links": "KLinks", "callbacks": "KCallbacks",
}

// Node is one position that holds a reference-or-value.
type Node struct {
	Kind string // component kind of what sits here
	Ref  string // non-empty: a $ref
	Val  *Val
}

// Val is an inline value: plain JSON fields plus child positions.
type Val struct {
	Fields map[string]any
	Kids   []Kid
}

// Kid places a child node at a JSON path below its parent. A path element that
// is all digits below "allOf"/"oneOf"/"anyOf"/"parameters" is an array index.
type Kid struct {
	Path []string
	Node *Node
	Pos  string // name of the position class, for coverage statistics
}

type Component struct {
	Kind, Name string
	Body       *Node
}

type Operation struct {
	Method string // lower-case
	ID     string
	Tags   []string
	Fields map[string]any
	Kids   []Kid // parameters/i, requestBody, responses/<code>, callbacks/<name>
}

type PathItem struct {
	Path   string
	Params []*Node
	Ops    []*Operation
}

type Doc struct {
	Paths    []*PathItem
	Comps    []*Component
	Security []map[string][]string
	// TagsSection is the document's top-level tags list (descriptions of tags): it need not name every tag the operations
	// carry, and may name tags no operation carries; filtering goes by the operations' own tags
	TagsSection []string
}

func (c *Component) Ref() string { return "#/components/" + c.Kind + "/" + c.Name }

// ---------------------------------------------------------------- JSON rendering

var arrayParents = map[string]bool{"allOf": true, "oneOf": true, "anyOf": true, "parameters": true}

func setPath(obj map[string]any, path []string, v any) {
	cur := obj
	for i := 0; i < len(path)-1; i++ {
		k := path[i]
		if arrayParents[k] && i+1 < len(path) && isDigits(path[i+1]) {
			idx, _ := strconv.Atoi(path[i+1])
			arr, _ := cur[k].([]any)
			for len(arr) <= idx {
				arr = append(arr, map[string]any{})
			}
			cur[k] = arr
			if i+2 == len(path) {
				arr[idx] = v
				return
			}
			next, ok := arr[idx].(map[string]any)
			if !ok {
				next = map[string]any{}
				arr[idx] = next
			}
			cur = next
			i++
			continue
		}
		next, ok := cur[k].(map[string]any)
		if !ok {
			next = map[string]any{}
			cur[k] = next
		}
		cur = next
	}
	cur[path[len(path)-1]] = v
}

func isDigits(s string) bool {
	if s == "" {
		return false
	}
	for _, c := range s {
		if c < '0' || c > '9' {
			return false
		}
	}
	return true
}

func (n *Node) JSON() any {
	if n.Ref != "" {
		return map[string]any{"$ref": n.Ref}
	}
	return valJSON(n.Val.Fields, n.Val.Kids)
}

func valJSON(fields map[string]any, kids []Kid) map[string]any {
	obj := map[string]any{}
	for k, v := range fields {
		obj[k] = deepCopy(v)
	}
	for _, k := range kids {
		setPath(obj, k.Path, k.Node.JSON())
	}
	return obj
}

func deepCopy(v any) any {
	b, _ := json.Marshal(v)
	var out any
	_ = json.Unmarshal(b, &out)
	return out
}

func (d *Doc) JSONValue() map[string]any {
	paths := map[string]any{}
	for _, p := range d.Paths {
		item := map[string]any{}
		if len(p.Params) > 0 {
			arr := []any{}
			for _, n := range p.Params {
				arr = append(arr, n.JSON())
			}
			item["parameters"] = arr
		}
		for _, o := range p.Ops {
			oj := valJSON(o.Fields, o.Kids)
			if o.ID != "" {
				oj["operationId"] = o.ID
			}
			if len(o.Tags) > 0 {
				oj["tags"] = o.Tags
			}
			if _, ok := oj["responses"]; !ok {
				oj["responses"] = map[string]any{"default": map[string]any{"description": "d"}}
			}
			item[o.Method] = oj
		}
		paths[p.Path] = item
	}
	comps := map[string]any{}
	for _, c := range d.Comps {
		m, ok := comps[c.Kind].(map[string]any)
		if !ok {
			m = map[string]any{}
			comps[c.Kind] = m
		}
		m[c.Name] = c.Body.JSON()
	}
	root := map[string]any{
		"openapi": "3.0.3",
		"info":    map[string]any{"title": "t", "version": "1"},
		"paths":   paths,
	}
	if len(comps) > 0 {
		root["components"] = comps
	}
	if d.Security != nil {
		root["security"] = d.Security
	}
	if len(d.TagsSection) > 0 {
		var ts []any
		for _, t := range d.TagsSection {
			ts = append(ts, map[string]any{"name": t, "description": "about " + t})
		}
		root["tags"] = ts
	}
	return root
}

func (d *Doc) JSON() []byte {
	b, err := json.Marshal(d.JSONValue())
	if err != nil {
		panic(err)
	}
	return b
}

// ---------------------------------------------------------------- Coq rendering

// CoqStr renders a Go string as a Coq string term. Strings of four or more bytes are
// interned: the term is an identifier defined once in the preamble of the cases file
// (InternDefs), which keeps the files small enough for coqc to parse quickly.
func CoqStr(s string) string {
	if len(s) < 4 {
		return coqLit(s)
	}
	if id, ok := internIDs[s]; ok {
		return id
	}
	id := fmt.Sprintf("s_%d", len(internOrder))
	internIDs[s] = id
	internOrder = append(internOrder, s)
	return id
}

var internIDs = map[string]string{}
var internOrder []string

// InternDefs returns the definitions of every interned string so far.
func InternDefs() string {
	var sb strings.Builder
	for _, s := range internOrder {
		fmt.Fprintf(&sb, "Definition %s := %s.\n", internIDs[s], coqLit(s))
	}
	return sb.String()
}

// CoqSafe reports whether s can be written as a Coq string literal (no control bytes, valid UTF-8).
func CoqSafe(s string) bool {
	for i := 0; i < len(s); i++ {
		if s[i] < 0x20 || s[i] == 0x7f {
			return false
		}
	}
	return utf8.ValidString(s)
}

func coqLit(s string) string {
	for i := 0; i < len(s); i++ {
		if s[i] < 0x20 || s[i] == 0x7f {
			panic(fmt.Sprintf("CoqStr: control byte in %q", s))
		}
	}
	return `"` + strings.ReplaceAll(s, `"`, `""`) + `"%string`
}

func CoqStrList(l []string) string {
	parts := make([]string, len(l))
	for i, s := range l {
		parts[i] = CoqStr(s)
	}
	return "[" + strings.Join(parts, "; ") + "]"
}

func (n *Node) Coq() string {
	if n.Ref != "" {
		return "NRef " + CoqStr(n.Ref)
	}
	return "NVal " + kidsCoq(n.Val.Kids)
}

func kidsCoq(kids []Kid) string {
	parts := make([]string, len(kids))
	for i, k := range kids {
		parts[i] = "(" + k.Node.Coq() + ")"
	}
	return "[" + strings.Join(parts, "; ") + "]"
}

func (d *Doc) Coq() string {
	var sb strings.Builder
	sb.WriteString("{| d_paths := [")
	for i, p := range d.Paths {
		if i > 0 {
			sb.WriteString("; ")
		}
		ps := make([]string, len(p.Params))
		for j, n := range p.Params {
			ps[j] = "(" + n.Coq() + ")"
		}
		ops := make([]string, len(p.Ops))
		for j, o := range p.Ops {
			ops[j] = fmt.Sprintf("{| o_method := %s; o_id := %s; o_tags := %s; o_body := %s |}",
				CoqStr(o.Method), CoqStr(o.ID), CoqStrList(o.Tags), kidsCoq(o.Kids))
		}
		fmt.Fprintf(&sb, "{| p_path := %s; p_params := [%s]; p_ops := [%s] |}",
			CoqStr(p.Path), strings.Join(ps, "; "), strings.Join(ops, "; "))
	}
	sb.WriteString("]; d_comps := [")
	for i, c := range d.Comps {
		if i > 0 {
			sb.WriteString("; ")
		}
		fmt.Fprintf(&sb, "{| c_kind := %s; c_name := %s; c_body := %s |}", CoqKind[c.Kind], CoqStr(c.Name), c.Body.Coq())
	}
	sb.WriteString("] |}")
	return sb.String()
}

// ---------------------------------------------------------------- specification oracle (independent of prune.go / filter.go)

type FilterCfg struct {
	IncludeTags, ExcludeTags, IncludeIDs, ExcludeIDs []string
	SkipPrune                                        bool
}

func (c FilterCfg) Coq() string {
	return fmt.Sprintf("{| f_include_tags := %s; f_exclude_tags := %s; f_include_ids := %s; f_exclude_ids := %s; f_skip_prune := %v |}",
		CoqStrList(c.IncludeTags), CoqStrList(c.ExcludeTags), CoqStrList(c.IncludeIDs), CoqStrList(c.ExcludeIDs), c.SkipPrune)
}

func inList(s string, l []string) bool {
	for _, x := range l {
		if x == s {
			return true
		}
	}
	return false
}

// Keep is the statement of C16: kept when it matches no exclusion and, if an
// inclusion list is given, matches it.
func (c FilterCfg) Keep(o *Operation) bool {
	for _, t := range o.Tags {
		if inList(t, c.ExcludeTags) {
			return false
		}
	}
	if len(c.IncludeTags) > 0 {
		ok := false
		for _, t := range o.Tags {
			if inList(t, c.IncludeTags) {
				ok = true
			}
		}
		if !ok {
			return false
		}
	}
	if inList(o.ID, c.ExcludeIDs) {
		return false
	}
	if len(c.IncludeIDs) > 0 && !inList(o.ID, c.IncludeIDs) {
		return false
	}
	return true
}

// SpecFilter returns a copy of d holding only the kept operations (path items stay).
func SpecFilter(d *Doc, c FilterCfg) *Doc {
	out := &Doc{Comps: d.Comps, Security: d.Security, TagsSection: d.TagsSection}
	for _, p := range d.Paths {
		np := &PathItem{Path: p.Path, Params: p.Params}
		for _, o := range p.Ops {
			if c.Keep(o) {
				np.Ops = append(np.Ops, o)
			}
		}
		out.Paths = append(out.Paths, np)
	}
	return out
}

func collectRefs(n *Node, out *[]string) {
	if n.Ref != "" {
		*out = append(*out, n.Ref)
		return
	}
	for _, k := range n.Val.Kids {
		collectRefs(k.Node, out)
	}
}

// SpecPrune: greatest set of components in which every member (other than security
// schemes) is referred to from a path item or from a member. Computed by reachability
// closure from below plus cycles-kept semantics from above: we iterate removal of
// unreferenced components, which is the definition of the greatest such set.
func SpecPrune(d *Doc) *Doc {
	cur := d.Comps
	for {
		var refs []string
		for _, p := range d.Paths {
			for _, n := range p.Params {
				collectRefs(n, &refs)
			}
			for _, o := range p.Ops {
				for _, k := range o.Kids {
					collectRefs(k.Node, &refs)
				}
			}
		}
		for _, c := range cur {
			collectRefs(c.Body, &refs)
		}
		set := map[string]bool{}
		for _, r := range refs {
			set[r] = true
		}
		var next []*Component
		for _, c := range cur {
			if c.Kind == "securitySchemes" || set[c.Ref()] {
				next = append(next, c)
			}
		}
		if len(next) == len(cur) {
			break
		}
		cur = next
	}
	return &Doc{Paths: d.Paths, Comps: cur, Security: d.Security, TagsSection: d.TagsSection}
}

// Reachable returns the component refs reachable from the path items.
func Reachable(d *Doc) map[string]bool {
	byRef := map[string]*Component{}
	for _, c := range d.Comps {
		byRef[c.Ref()] = c
	}
	seen := map[string]bool{}
	var work []string
	for _, p := range d.Paths {
		for _, n := range p.Params {
			collectRefs(n, &work)
		}
		for _, o := range p.Ops {
			for _, k := range o.Kids {
				collectRefs(k.Node, &work)
			}
		}
	}
	for len(work) > 0 {
		r := work[len(work)-1]
		work = work[:len(work)-1]
		if seen[r] {
			continue
		}
		seen[r] = true
		if c, ok := byRef[r]; ok {
			collectRefs(c.Body, &work)
		}
	}
	return seen
}

func (d *Doc) CompKeys() []string {
	out := make([]string, len(d.Comps))
	for i, c := range d.Comps {
		out[i] = c.Ref()
	}
	return out
}

func (d *Doc) OpKeys() [][2]string {
	var out [][2]string
	for _, p := range d.Paths {
		for _, o := range p.Ops {
			out = append(out, [2]string{p.Path, o.Method})
		}
	}
	return out
}

// ---------------------------------------------------------------- JSON-level helpers on implementation output

// JSONRefs collects every "$ref" string anywhere below v.
func JSONRefs(v any, out *[]string) {
	switch t := v.(type) {
	case map[string]any:
		for k, x := range t {
			if k == "$ref" {
				if s, ok := x.(string); ok {
					*out = append(*out, s)
					continue
				}
			}
			JSONRefs(x, out)
		}
	case []any:
		for _, x := range t {
			JSONRefs(x, out)
		}
	}
}

// JSONCompKeys lists "#/components/<kind>/<name>" for every component of a decoded spec, sorted.
func JSONCompKeys(root map[string]any) []string {
	var out []string
	comps, _ := root["components"].(map[string]any)
	for kind, m := range comps {
		mm, _ := m.(map[string]any)
		for name := range mm {
			out = append(out, "#/components/"+kind+"/"+name)
		}
	}
	sort.Strings(out)
	return out
}

// JSONOpKeys lists (path, method) of a decoded spec, sorted.
func JSONOpKeys(root map[string]any) [][2]string {
	var out [][2]string
	paths, _ := root["paths"].(map[string]any)
	for p, item := range paths {
		im, _ := item.(map[string]any)
		for m := range im {
			switch m {
			case "get", "put", "post", "delete", "options", "head", "patch", "trace", "connect":
				out = append(out, [2]string{p, m})
			}
		}
	}
	sort.Slice(out, func(i, j int) bool {
		if out[i][0] != out[j][0] {
			return out[i][0] < out[j][0]
		}
		return out[i][1] < out[j][1]
	})
	return out
}

var _ = rand.Int
